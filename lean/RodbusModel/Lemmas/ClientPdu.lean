import RodbusModel.Spec.Client
import RodbusModel.Model.Mbap
import RodbusModel.Model.Rtu
import RodbusModel.Gen.Tables
/-
  Lemmas for C03/C04: `Range.tryFrom` arithmetic, bit/register packing round trips, the
  index-form of `indexed`/`unpackBits`/`unpackRegs`, case analysis of `encodeRequest` and
  `handleResponse`.
-/
namespace Rodbus.ClientPdu
open Rodbus.Spec.Client

/-- results are compared by `decide` in the non-vacuity examples -/
instance instDecidableEqExcept {ε α : Type} [DecidableEq ε] [DecidableEq α] :
    DecidableEq (Except ε α)
  | .ok a, .ok b => if h : a = b then isTrue (by rw [h]) else isFalse (by intro e; cases e; exact h rfl)
  | .error a, .error b =>
    if h : a = b then isTrue (by rw [h]) else isFalse (by intro e; cases e; exact h rfl)
  | .ok _, .error _ => isFalse (by intro e; cases e)
  | .error _, .ok _ => isFalse (by intro e; cases e)

/-! ### `Range.tryFrom` -/

theorem tryFrom_zero (s : Nat) : Range.tryFrom s 0 = .error .countOfZero := by
  simp [Range.tryFrom]

theorem tryFrom_ok (s c : Nat) (hc : c ≠ 0) (h : s + c ≤ 65536) :
    Range.tryFrom s c = .ok ⟨s, c⟩ := by
  unfold Range.tryFrom
  rw [if_neg hc]
  have : ¬ s > 65535 - (c - 1) := by omega
  simp [this]

theorem tryFrom_overflow (s c : Nat) (hc : c ≠ 0) (hc16 : c ≤ 65536) (h : s + c > 65536) :
    Range.tryFrom s c = .error .addressOverflow := by
  unfold Range.tryFrom
  rw [if_neg hc]
  have : s > 65535 - (c - 1) := by omega
  simp [this]

theorem tryFrom_ok_inv {s c : Nat} {r : Range} (h : Range.tryFrom s c = .ok r) :
    r = ⟨s, c⟩ ∧ c ≠ 0 ∧ s ≤ 65535 - (c - 1) := by
  unfold Range.tryFrom at h
  split at h
  · cases h
  · simp only at h
    split at h
    · cases h
    · cases h; exact ⟨rfl, by assumption, by omega⟩

theorem tryFrom_ok_iff (s c : Nat) (_hs : s < 65536) (hc : c < 65536) :
    Range.tryFrom s c = .ok ⟨s, c⟩ ↔ c ≠ 0 ∧ s + c ≤ 65536 := by
  constructor
  · intro h
    have := (tryFrom_ok_inv h).2
    omega
  · intro ⟨h1, h2⟩; exact tryFrom_ok s c h1 h2

/-! ### bytes of a u16 -/

theorem u16be_eq (n : Nat) : u16be n = [hi n, lo n] := rfl

theorem be16_hi_lo {n : Nat} (h : n < 65536) : be16 (hi n) (lo n) = n := be16_u16be h

theorem hi_lt (n : Nat) : hi n < 256 := by unfold hi; omega
theorem lo_lt (n : Nat) : lo n < 256 := by unfold lo; omega

theorem be16_eq_iff {a b n : Nat} (ha : a < 256) (hb : b < 256) (hn : n < 65536) :
    be16 a b = n ↔ a = hi n ∧ b = lo n := by
  unfold be16 hi lo; omega

/-! ### `packByte`, `packBits` -/

theorem packByte_lt (l : List Bool) : packByte l < 2 ^ l.length := by
  induction l with
  | nil => simp [packByte]
  | cons b t ih =>
    simp only [packByte, List.length_cons, Nat.pow_succ]
    split <;> omega

theorem packBits_nil : packBits [] = [] := by
  rw [packBits]; simp

theorem packBits_cons (a : Bool) (t : List Bool) :
    packBits (a :: t) = packByte ((a :: t).take 8) :: packBits ((a :: t).drop 8) := by
  rw [packBits]; simp

theorem packBits_ne_nil {l : List Bool} (h : l ≠ []) :
    packBits l = packByte (l.take 8) :: packBits (l.drop 8) := by
  cases l with
  | nil => exact absurd rfl h
  | cons a t => exact packBits_cons a t

theorem packBits_length (l : List Bool) : (packBits l).length = numBytesForBits l.length := by
  induction l using packBits.induct with
  | case1 => simp [packBits_nil, numBytesForBits]
  | case2 l h ih =>
    rw [packBits_ne_nil h, List.length_cons, ih, List.length_drop]
    have : 0 < l.length := List.length_pos_iff.2 h
    unfold numBytesForBits; omega

theorem packBits_wf (l : List Bool) : Bytes.WF (packBits l) := by
  induction l using packBits.induct with
  | case1 => simp [packBits_nil, Bytes.WF]
  | case2 l h ih =>
    rw [packBits_ne_nil h]
    refine Bytes.WF_cons.2 ⟨?_, ih⟩
    have h1 := packByte_lt (l.take 8)
    have h2 : (l.take 8).length ≤ 8 := by simp [List.length_take]; omega
    have : 2 ^ (l.take 8).length ≤ 2 ^ 8 := Nat.pow_le_pow_right (by decide) h2
    omega

/-- bit `k` of `packByte l` is element `k` of `l` (false past the end) -/
theorem packByte_bit (l : List Bool) (k : Nat) :
    (packByte l / 2 ^ k % 2 = 1) ↔ l.getD k false = true := by
  induction l generalizing k with
  | nil => simp [packByte]
  | cons b t ih =>
    cases k with
    | zero => cases b <;> simp [packByte] <;> omega
    | succ k =>
      have : packByte (b :: t) / 2 ^ (k + 1) = packByte t / 2 ^ k := by
        simp only [packByte, Nat.pow_succ]
        rw [Nat.mul_comm (2 ^ k) 2, ← Nat.div_div_eq_div_mul]
        congr 1
        split <;> omega
      rw [this, ih k]; simp

theorem bitAt_cons (b : Nat) (bs : Bytes) (i : Nat) (h : 8 ≤ i) :
    bitAt (b :: bs) i = bitAt bs (i - 8) := by
  unfold bitAt
  have h1 : i / 8 = (i - 8) / 8 + 1 := by omega
  have h2 : i % 8 = (i - 8) % 8 := by omega
  rw [h1, h2]; simp

/-- every bit position of the packed bytes (padding included) -/
theorem bitAt_packBits (l : List Bool) (i : Nat) : bitAt (packBits l) i = l.getD i false := by
  induction l using packBits.induct generalizing i with
  | case1 => simp [packBits_nil, bitAt]
  | case2 l h ih =>
    rw [packBits_ne_nil h]
    by_cases hi : i < 8
    · have h0 : i / 8 = 0 := by omega
      have h1 : i % 8 = i := by omega
      have := packByte_bit (l.take 8) i
      unfold bitAt
      rw [h0, h1]
      simp only [List.getD_cons_zero]
      rw [Bool.eq_iff_iff, decide_eq_true_iff, this]
      simp [List.getD_eq_getElem?_getD, hi]
    · rw [bitAt_cons _ _ _ (by omega), ih]
      simp only [List.getD_eq_getElem?_getD, List.getElem?_drop]
      congr 2; omega

theorem unpackBits_packBits (l : List Bool) : unpackBits (packBits l) l.length = l := by
  unfold unpackBits
  apply List.ext_getElem
  · simp
  · intro i h1 h2
    simp only [List.getElem_map, List.getElem_range, bitAt_packBits]
    simp at h1
    simp [List.getD_eq_getElem?_getD, h2]


/-! ### `packBits` in index form -/

theorem bit01_drop (l : List Bool) (n i : Nat) : bit01 (l.drop n) i = bit01 l (n + i) := by
  simp [bit01, List.getD_eq_getElem?_getD, List.getElem?_drop]

theorem packByte_take_succ (l : List Bool) (n : Nat) :
    packByte (l.take (n + 1)) = bit01 l 0 + 2 * packByte ((l.drop 1).take n) := by
  cases l with
  | nil => simp [packByte, bit01]
  | cons a t => cases a <;> simp [packByte, bit01]

theorem packByte_take8 (l : List Bool) : packByte (l.take 8) = coilByte l 0 := by
  simp only [packByte_take_succ, List.drop_drop, bit01_drop, List.take_zero, packByte, coilByte,
    Nat.mul_zero, Nat.add_zero, Nat.zero_add, Nat.reduceAdd]
  omega

theorem coilByte_drop8 (l : List Bool) (j : Nat) : coilByte (l.drop 8) j = coilByte l (j + 1) := by
  simp only [coilByte, bit01_drop]
  have e : ∀ k, 8 + (8 * j + k) = 8 * (j + 1) + k := by intro k; omega
  have e0 : 8 + 8 * j = 8 * (j + 1) := by omega
  simp only [e, e0]

theorem coilBytes_ne_nil {l : List Bool} (h : l ≠ []) :
    coilBytes l = coilByte l 0 :: coilBytes (l.drop 8) := by
  have hp : 0 < l.length := List.length_pos_iff.2 h
  unfold coilBytes
  have : (l.length + 7) / 8 = ((l.drop 8).length + 7) / 8 + 1 := by
    rw [List.length_drop]; omega
  rw [this, List.range_succ_eq_map]
  simp only [List.map_cons, List.map_map]
  congr 1
  apply List.map_congr_left
  intro j _
  simp [coilByte_drop8]

theorem packBits_eq_coilBytes (l : List Bool) : packBits l = coilBytes l := by
  induction l using packBits.induct with
  | case1 => simp [packBits_nil, coilBytes]
  | case2 l h ih => rw [packBits_ne_nil h, coilBytes_ne_nil h, ih, packByte_take8]

/-! ### registers -/

theorem packRegs_nil : packRegs [] = [] := rfl

theorem packRegs_cons (v : Nat) (vs : List Nat) :
    packRegs (v :: vs) = hi v :: lo v :: packRegs vs := by
  simp [packRegs, u16be, hi, lo]

theorem packRegs_eq_regBytes (vs : List Nat) : packRegs vs = regBytes vs := by
  unfold packRegs regBytes
  congr 1

theorem packRegs_length (vs : List Nat) : (packRegs vs).length = 2 * vs.length := by
  induction vs with
  | nil => rfl
  | cons v t ih => rw [packRegs_cons]; simp [ih]; omega

theorem packRegs_wf (vs : List Nat) : Bytes.WF (packRegs vs) := by
  induction vs with
  | nil => simp [packRegs_nil, Bytes.WF]
  | cons v t ih =>
    rw [packRegs_cons]
    exact Bytes.WF_cons.2 ⟨hi_lt v, Bytes.WF_cons.2 ⟨lo_lt v, ih⟩⟩

theorem unpackRegs_packRegs (vs : List Nat) (h : ∀ v ∈ vs, v < 65536) :
    unpackRegs (packRegs vs) = vs := by
  induction vs with
  | nil => rfl
  | cons v t ih =>
    rw [packRegs_cons, unpackRegs, be16_hi_lo (h v (by simp)), ih (fun x hx => h x (by simp [hx]))]

/-- index form of the register iterator over exactly `2n` bytes -/
theorem unpackRegs_eq (n : Nat) (payload : Bytes) (h : payload.length = 2 * n) :
    unpackRegs payload = (List.range n).map (regOf payload) := by
  induction n generalizing payload with
  | zero =>
    have : payload = [] := List.eq_nil_of_length_eq_zero (by omega)
    subst this; rfl
  | succ n ih =>
    match payload, h with
    | a :: b :: rest, h =>
      have hr : rest.length = 2 * n := by simp at h; omega
      rw [unpackRegs, ih rest hr, List.range_succ_eq_map]
      simp only [List.map_cons, List.map_map]
      congr 1

theorem bitAt_eq_bitOf (payload : Bytes) (i : Nat) : bitAt payload i = bitOf payload i := by
  simp [bitAt, bitOf, Nat.testBit_eq_decide_div_mod_eq]

/-! ### `indexed` -/

theorem indexed_eq_withAddr {α : Type} (s : Nat) (vs : List α) : indexed s vs = withAddr s vs := rfl

theorem indexed_map_range {α : Type} (s n : Nat) (f : Nat → α) :
    indexed s ((List.range n).map f) = (List.range n).map fun i => (s + i, f i) := by
  unfold indexed
  apply List.ext_getElem
  · simp
  · intro i h1 h2
    simp

theorem indexed_length {α : Type} (s : Nat) (vs : List α) : (indexed s vs).length = vs.length := by
  simp [indexed]

theorem indexed_getElem {α : Type} (s : Nat) (vs : List α) (i : Nat) (h : i < vs.length) :
    (indexed s vs)[i]'(by rw [indexed_length]; exact h) = (s + i, vs[i]) := by
  simp [indexed]


/-! ### `encodeRequest` -/

/-- the quantity of a read request is a u16 -/
def ReadCountU16 : ClientReq → Prop
  | .readCoils _ c => c < 65536
  | .readDiscreteInputs _ c => c < 65536
  | .readHoldingRegisters _ c => c < 65536
  | .readInputRegisters _ c => c < 65536
  | _ => True

theorem ReadCountU16.of_fields {req : ClientReq} (h : req.FieldsU16) : ReadCountU16 req := by
  cases req <;> simp only [ReadCountU16, ClientReq.FieldsU16] at * <;> omega

/-- complete characterisation of `encodeRequest` (reads: for u16 quantities) -/
theorem encode_eq' (req : ClientReq) (h : ReadCountU16 req) :
    encodeRequest req = match rejection req with
      | some e => .error e
      | none => .ok (pdu req) := by
  cases req
  case readCoils s c | readDiscreteInputs s c =>
    simp only [encodeRequest, rejection]
    by_cases h0 : c = 0
    · subst h0; simp [tryFrom_zero]
    · by_cases h1 : s + c > 65536
      · simp [tryFrom_overflow s c h0 (by have : c < 65536 := h; omega) h1, h0, h1]
      · rw [tryFrom_ok s c h0 (by omega)]
        by_cases h2 : c > 2000 <;>
          simp [Range.limitedCount, h0, h1, h2, MAX_READ_COILS_COUNT, pdu, u16be, hi, lo,
            Fc.toByte, ClientReq.fc]
  case readHoldingRegisters s c | readInputRegisters s c =>
    simp only [encodeRequest, rejection]
    by_cases h0 : c = 0
    · subst h0; simp [tryFrom_zero]
    · by_cases h1 : s + c > 65536
      · simp [tryFrom_overflow s c h0 (by have : c < 65536 := h; omega) h1, h0, h1]
      · rw [tryFrom_ok s c h0 (by omega)]
        by_cases h2 : c > 125 <;>
          simp [Range.limitedCount, h0, h1, h2, MAX_READ_REGISTERS_COUNT, pdu, u16be, hi, lo,
            Fc.toByte, ClientReq.fc]
  case writeSingleCoil i v =>
    cases v <;> simp [encodeRequest, rejection, pdu, u16be, hi, lo, Fc.toByte, ClientReq.fc,
      coilToU16, COIL_ON, COIL_OFF]
  case writeSingleRegister i v =>
    simp [encodeRequest, rejection, pdu, u16be, hi, lo, Fc.toByte, ClientReq.fc]
  case writeMultipleCoils s vals =>
    simp only [encodeRequest, rejection]
    by_cases hbig : vals.length > 65535
    · simp [hbig]
    · rw [if_neg hbig, if_neg hbig]
      by_cases h0 : vals.length = 0
      · rw [h0]; simp [tryFrom_zero]
      · by_cases h1 : s + vals.length > 65536
        · simp [tryFrom_overflow s _ h0 (by omega) h1, h0, h1]
        · rw [tryFrom_ok s _ h0 (by omega)]
          by_cases h2 : vals.length > 1968 <;>
            simp [h0, h1, h2, MAX_WRITE_COILS_COUNT, pdu, u16be, hi, lo, Fc.toByte, ClientReq.fc,
              packBits_eq_coilBytes, numBytesForBits]
  case writeMultipleRegisters s vals =>
    simp only [encodeRequest, rejection]
    by_cases hbig : vals.length > 65535
    · simp [hbig]
    · rw [if_neg hbig, if_neg hbig]
      by_cases h0 : vals.length = 0
      · rw [h0]; simp [tryFrom_zero]
      · by_cases h1 : s + vals.length > 65536
        · simp [tryFrom_overflow s _ h0 (by omega) h1, h0, h1]
        · rw [tryFrom_ok s _ h0 (by omega)]
          by_cases h2 : vals.length > 123 <;>
            simp [h0, h1, h2, MAX_WRITE_REGISTERS_COUNT, pdu, u16be, hi, lo, Fc.toByte,
              ClientReq.fc, packRegs_eq_regBytes]

theorem encode_eq (req : ClientReq) (h : req.FieldsU16) :
    encodeRequest req = match rejection req with
      | some e => .error e
      | none => .ok (pdu req) := encode_eq' req (ReadCountU16.of_fields h)

theorem encode_ok_readCount {req : ClientReq} {bytes : Bytes} (h : encodeRequest req = .ok bytes) :
    ReadCountU16 req := by
  cases req
  case readCoils s c | readDiscreteInputs s c | readHoldingRegisters s c | readInputRegisters s c =>
    simp only [ReadCountU16]
    simp only [encodeRequest] at h
    cases htf : Range.tryFrom s c with
    | error e => rw [htf] at h; cases h
    | ok r =>
      rw [htf] at h
      have := (tryFrom_ok_inv htf).1
      subst this
      apply Nat.lt_of_not_le
      intro hc
      have h1 : c > 2000 := by omega
      have h2 : c > 125 := by omega
      simp [Range.limitedCount, MAX_READ_COILS_COUNT, MAX_READ_REGISTERS_COUNT, h1, h2] at h
  all_goals trivial

theorem encode_ok_spec {req : ClientReq} {bytes : Bytes} (h : encodeRequest req = .ok bytes) :
    rejection req = none ∧ bytes = pdu req := by
  rw [encode_eq' req (encode_ok_readCount h)] at h
  split at h
  · cases h
  · next hr => cases h; exact ⟨hr, rfl⟩

theorem rejection_none_iff (req : ClientReq) (h : req.FieldsU16) :
    rejection req = none ↔ ClientValid req := by
  cases req <;> simp only [rejection, ClientValid, ClientReq.FieldsU16] at * <;>
    (repeat' split) <;> simp <;> omega


/-! ### the specification PDU -/

theorem coilBytes_length (l : List Bool) : (coilBytes l).length = (l.length + 7) / 8 := by
  simp [coilBytes]

theorem regBytes_length (l : List Nat) : (regBytes l).length = 2 * l.length := by
  rw [← packRegs_eq_regBytes, packRegs_length]

theorem pdu_length_le (req : ClientReq) (h : ClientValid req) : (pdu req).length ≤ 253 := by
  cases req <;> simp only [pdu, ClientValid, List.length_cons, List.length_nil, List.length_append,
    coilBytes_length, regBytes_length] at * <;> omega

theorem pdu_wf (req : ClientReq) (h : ClientValid req) : Bytes.WF (pdu req) := by
  have H := hi_lt
  have L := lo_lt
  cases req <;> simp only [pdu, ClientValid] at *
  case writeMultipleCoils s vals =>
    rw [Bytes.WF_append, ← packBits_eq_coilBytes]
    refine ⟨?_, packBits_wf _⟩
    intro b hb; simp at hb
    rcases hb with rfl | rfl | rfl | rfl | rfl | rfl <;> first | apply H | apply L | omega
  case writeMultipleRegisters s vals =>
    rw [Bytes.WF_append, ← packRegs_eq_regBytes]
    refine ⟨?_, packRegs_wf _⟩
    intro b hb; simp at hb
    rcases hb with rfl | rfl | rfl | rfl | rfl | rfl <;> first | apply H | apply L | omega
  case writeSingleCoil i v =>
    intro b hb; simp at hb
    rcases hb with rfl | rfl | rfl | rfl | rfl <;> first | apply H | apply L | (split <;> omega) | omega
  all_goals
    intro b hb; simp at hb
    rcases hb with rfl | rfl | rfl | rfl | rfl <;> first | apply H | apply L | omega

theorem mbap_format_pdu (tx unit : Nat) (req : ClientReq) :
    Mbap.format tx unit (pdu req) = adu false tx unit req := by
  simp [Mbap.format, adu, u16be, hi, lo]

theorem rtu_format_pdu (tx unit : Nat) (req : ClientReq) :
    Rtu.format unit (pdu req) = adu true tx unit req := by
  simp [Rtu.format, adu, u16le, hi, lo]

theorem clientValid_fields {req : ClientReq} (h : ClientValid req) : req.FieldsU16 := by
  cases req <;> simp only [ClientValid, ClientReq.FieldsU16] at * <;> omega

theorem pdu_head (req : ClientReq) : ∃ body, pdu req = req.fc.toByte :: body := by
  cases req <;> exact ⟨_, rfl⟩

/-- the server's parser reads a valid client request back -/
theorem parse_pdu (req : ClientReq) (h : ClientValid req) (hv : req.ValuesU16) (body : Bytes)
    (hb : pdu req = req.fc.toByte :: body) : parseRequest req.fc body = some (toServer req) := by
  cases req
  case readCoils s c | readDiscreteInputs s c =>
    simp only [pdu, ClientReq.fc, Fc.toByte, List.cons.injEq, true_and] at hb
    subst hb
    obtain ⟨h1, h2, h3, h4, h5⟩ := h
    have h5' : ¬ 2000 < c := by omega
    simp [parseRequest, parseReadRange, parseRange, be16_hi_lo h1, be16_hi_lo h2,
      tryFrom_ok s c (by omega) h4, Range.limitedCount, MAX_READ_COILS_COUNT, toServer,
      ClientReq.fc, h5']
  case readHoldingRegisters s c | readInputRegisters s c =>
    simp only [pdu, ClientReq.fc, Fc.toByte, List.cons.injEq, true_and] at hb
    subst hb
    obtain ⟨h1, h2, h3, h4, h5⟩ := h
    have h5' : ¬ 125 < c := by omega
    simp [parseRequest, parseReadRange, parseRange, be16_hi_lo h1, be16_hi_lo h2,
      tryFrom_ok s c (by omega) h4, Range.limitedCount, MAX_READ_REGISTERS_COUNT, toServer,
      ClientReq.fc, h5']
  case writeSingleCoil i v =>
    simp only [pdu, ClientReq.fc, Fc.toByte, List.cons.injEq, true_and] at hb
    subst hb
    have h1 : i < 65536 := h
    have e : hi i * 256 + lo i = i := be16_hi_lo h1
    cases v <;> simp [parseRequest, toServer, ClientReq.fc, coilFromU16, be16, e,
      COIL_ON, COIL_OFF]
  case writeSingleRegister i v =>
    simp only [pdu, ClientReq.fc, Fc.toByte, List.cons.injEq, true_and] at hb
    subst hb
    obtain ⟨h1, h2⟩ := h
    simp [parseRequest, be16_hi_lo h1, be16_hi_lo h2, toServer, ClientReq.fc]
  case writeMultipleCoils s vals =>
    simp only [pdu, ClientReq.fc, Fc.toByte, List.cons_append, List.nil_append, List.cons.injEq,
      true_and] at hb
    subst hb
    obtain ⟨h3, h5, h4⟩ := h
    have h5' : ¬ 1968 < vals.length := by omega
    simp [parseRequest, parseRange, be16_hi_lo (show s < 65536 by omega),
      be16_hi_lo (show vals.length < 65536 by omega),
      tryFrom_ok s vals.length (by omega) h4, Range.limitedCount, MAX_WRITE_COILS_COUNT, toServer,
      ClientReq.fc, h5', ← packBits_eq_coilBytes, packBits_length, unpackBits_packBits]
  case writeMultipleRegisters s vals =>
    simp only [pdu, ClientReq.fc, Fc.toByte, List.cons_append, List.nil_append, List.cons.injEq,
      true_and] at hb
    subst hb
    obtain ⟨h3, h5, h4⟩ := h
    have h5' : ¬ 123 < vals.length := by omega
    simp [parseRequest, parseRange, be16_hi_lo (show s < 65536 by omega),
      be16_hi_lo (show vals.length < 65536 by omega),
      tryFrom_ok s vals.length (by omega) h4, Range.limitedCount, MAX_WRITE_REGISTERS_COUNT,
      toServer, ClientReq.fc, h5', ← packRegs_eq_regBytes, packRegs_length,
      unpackRegs_packRegs vals hv]


/-! ### `handleResponse` -/

theorem orErr_fc (fc : Fc) : orErr fc.toByte = fc.toByte + 128 := by cases fc <;> decide

theorem fc_ne_orErr (fc : Fc) : orErr fc.toByte ≠ fc.toByte := by cases fc <;> decide

theorem fc_toByte_lt (fc : Fc) : fc.toByte < 128 := by cases fc <;> decide

theorem unpackBits_indexed (s c : Nat) (payload : Bytes) :
    indexed s (unpackBits payload c) = (List.range c).map fun i => (s + i, bitOf payload i) := by
  unfold unpackBits; rw [indexed_map_range]; simp [bitAt_eq_bitOf]

theorem unpackRegs_indexed (s c : Nat) (payload : Bytes) (h : payload.length = 2 * c) :
    indexed s (unpackRegs payload) = (List.range c).map fun i => (s + i, regOf payload i) := by
  rw [unpackRegs_eq c payload h, indexed_map_range]

theorem handle_nil (req : ClientReq) : handleResponse req [] = .error .badResponse := rfl

/-- replies whose first byte is not the function code: `get_error_for` -/
theorem handle_ne (req : ClientReq) (f : Nat) (body : Bytes) (h : f ≠ req.fc.toByte) :
    handleResponse req (f :: body) =
      if f = orErr req.fc.toByte then
        match body with
        | [code] => .error (.exception code)
        | _ => .error .badResponse
      else .error .badResponse := by
  unfold handleResponse
  simp only [h, ne_eq, not_false_eq_true, if_true]
  split
  · split <;> simp_all
  · rfl

theorem handle_exception_pdu (req : ClientReq) (c : Nat) :
    handleResponse req [orErr req.fc.toByte, c] = .error (.exception c) := by
  rw [handle_ne req _ _ (fc_ne_orErr req.fc)]; simp

/-- a reply that starts with the function code never yields an exception -/
theorem handle_same (req : ClientReq) (body : Bytes) :
    (∃ v, handleResponse req (req.fc.toByte :: body) = .ok v) ∨
      handleResponse req (req.fc.toByte :: body) = .error .badResponse ∨
      handleResponse req (req.fc.toByte :: body) = .error .badRequest := by
  cases req <;> simp only [handleResponse, ClientReq.fc, ne_eq, not_true_eq_false, if_false] <;>
    (repeat' split) <;> simp

theorem exception_iff (req : ClientReq) (pdu : Bytes) (c : Nat) :
    handleResponse req pdu = .error (.exception c) ↔ pdu = [orErr req.fc.toByte, c] := by
  constructor
  · intro h
    match pdu with
    | [] => simp [handle_nil] at h
    | f :: body =>
      by_cases hf : f = req.fc.toByte
      · subst hf
        rcases handle_same req body with ⟨v, hv⟩ | hv | hv <;> rw [hv] at h <;> cases h
      · rw [handle_ne req f body hf] at h
        split at h
        · next hfe =>
          split at h
          · cases h; rw [hfe]
          · cases h
        · cases h
  · rintro rfl; exact handle_exception_pdu req c


theorem ok_head {req : ClientReq} {pdu : Bytes} {v : RespVal} (h : handleResponse req pdu = .ok v) :
    ∃ body, pdu = req.fc.toByte :: body := by
  match pdu with
  | [] => cases h
  | f :: body =>
    by_cases hf : f = req.fc.toByte
    · exact ⟨body, by rw [hf]⟩
    · rw [handle_ne req f body hf] at h
      split at h
      · split at h <;> cases h
      · cases h

theorem success_iff (req : ClientReq) (pdu : Bytes) (v : RespVal) (hv : ClientValid req)
    (hw : Bytes.WF pdu) : handleResponse req pdu = .ok v ↔ WellFormedReply req pdu v := by
  cases req
  case readCoils s c | readDiscreteInputs s c =>
    simp only [WellFormedReply, ClientReq.fc, Fc.toByte]
    constructor
    · intro h
      obtain ⟨body, rfl⟩ := ok_head h
      simp only [handleResponse, ClientReq.fc, Fc.toByte, ne_eq, not_true_eq_false, if_false] at h
      match body with
      | [] => cases h
      | bc :: payload =>
        simp only at h
        split at h
        · next hl =>
          cases h
          exact ⟨bc, payload, rfl, hl, by rw [unpackBits_indexed]⟩
        · cases h
    · rintro ⟨bc, payload, rfl, hl, rfl⟩
      simp [handleResponse, ClientReq.fc, Fc.toByte, numBytesForBits, hl, unpackBits_indexed]
  case readHoldingRegisters s c | readInputRegisters s c =>
    simp only [WellFormedReply, ClientReq.fc, Fc.toByte]
    constructor
    · intro h
      obtain ⟨body, rfl⟩ := ok_head h
      simp only [handleResponse, ClientReq.fc, Fc.toByte, ne_eq, not_true_eq_false, if_false] at h
      match body with
      | [] => cases h
      | bc :: payload =>
        simp only at h
        split at h
        · next hl =>
          cases h
          exact ⟨bc, payload, rfl, hl, by rw [unpackRegs_indexed _ _ _ hl]⟩
        · cases h
    · rintro ⟨bc, payload, rfl, hl, rfl⟩
      simp [handleResponse, ClientReq.fc, Fc.toByte, hl, unpackRegs_indexed _ _ _ hl]
  case writeSingleCoil i b =>
    simp only [WellFormedReply]
    have hi16 : i < 65536 := hv
    constructor
    · intro h
      obtain ⟨body, rfl⟩ := ok_head h
      simp only [handleResponse, ClientReq.fc, Fc.toByte, ne_eq, not_true_eq_false, if_false] at h
      split at h
      · next a b' c d =>
        have ha : a < 256 := hw a (by simp)
        have hb : b' < 256 := hw b' (by simp)
        have hc : c < 256 := hw c (by simp)
        have hd : d < 256 := hw d (by simp)
        split at h
        · cases h
        · next v' hcoil =>
          split at h
          · next hcond =>
            cases h
            obtain ⟨h1, rfl⟩ := hcond
            have := (be16_eq_iff ha hb hi16).1 h1
            refine ⟨?_, rfl⟩
            simp only [ClientReq.fc, Fc.toByte, List.cons.injEq, true_and, and_true]
            refine ⟨this.1, this.2, ?_⟩
            unfold coilFromU16 COIL_ON COIL_OFF be16 at hcoil
            split at hcoil
            · cases hcoil; simp; omega
            · split at hcoil
              · cases hcoil; simp; omega
              · cases hcoil
          · cases h
      · cases h
    · rintro ⟨rfl, rfl⟩
      have e : hi i * 256 + lo i = i := be16_hi_lo hi16
      cases b <;> simp [handleResponse, ClientReq.fc, Fc.toByte, coilFromU16, be16, e, COIL_ON, COIL_OFF]
  case writeSingleRegister i x =>
    simp only [WellFormedReply]
    obtain ⟨hi16, hx16⟩ := hv
    constructor
    · intro h
      obtain ⟨body, rfl⟩ := ok_head h
      simp only [handleResponse, ClientReq.fc, Fc.toByte, ne_eq, not_true_eq_false, if_false] at h
      split at h
      · next a b' c d =>
        have ha : a < 256 := hw a (by simp)
        have hb : b' < 256 := hw b' (by simp)
        have hc : c < 256 := hw c (by simp)
        have hd : d < 256 := hw d (by simp)
        split at h
        · next hcond =>
          cases h
          have h1 := (be16_eq_iff ha hb hi16).1 hcond.1
          have h2 := (be16_eq_iff hc hd hx16).1 hcond.2
          refine ⟨?_, rfl⟩
          simp [ClientReq.fc, Fc.toByte, h1.1, h1.2, h2.1, h2.2]
        · cases h
      · cases h
    · rintro ⟨rfl, rfl⟩
      simp [handleResponse, ClientReq.fc, Fc.toByte, be16_hi_lo hi16, be16_hi_lo hx16]
  case writeMultipleCoils s vals =>
    simp only [WellFormedReply]
    obtain ⟨h3, h5, h4⟩ := hv
    have hs16 : s < 65536 := by omega
    have hn16 : vals.length < 65536 := by omega
    constructor
    · intro h
      obtain ⟨body, rfl⟩ := ok_head h
      simp only [handleResponse, ClientReq.fc, Fc.toByte, ne_eq, not_true_eq_false, if_false] at h
      split at h
      · next a b' c d rest =>
        have ha : a < 256 := hw a (by simp)
        have hb : b' < 256 := hw b' (by simp)
        have hc : c < 256 := hw c (by simp)
        have hd : d < 256 := hw d (by simp)
        split at h
        · cases h
        · next r htf =>
          have hr := (tryFrom_ok_inv htf).1
          split at h
          · cases h
          · next hne =>
            split at h
            · cases h
            · next hrest =>
              cases h
              simp only [Decidable.not_not] at hne hrest
              rw [hr] at hne
              injection hne with e1 e2
              have := (be16_eq_iff ha hb hs16).1 e1
              have := (be16_eq_iff hc hd hn16).1 e2
              subst hrest
              refine ⟨?_, by rw [hr, e1, e2]⟩
              simp [ClientReq.fc, Fc.toByte, *]
      · cases h
    · rintro ⟨rfl, rfl⟩
      simp [handleResponse, ClientReq.fc, Fc.toByte, be16_hi_lo hs16, be16_hi_lo hn16,
        tryFrom_ok s vals.length (by omega) h4]
  case writeMultipleRegisters s vals =>
    simp only [WellFormedReply]
    obtain ⟨h3, h5, h4⟩ := hv
    have hs16 : s < 65536 := by omega
    have hn16 : vals.length < 65536 := by omega
    constructor
    · intro h
      obtain ⟨body, rfl⟩ := ok_head h
      simp only [handleResponse, ClientReq.fc, Fc.toByte, ne_eq, not_true_eq_false, if_false] at h
      split at h
      · next a b' c d rest =>
        have ha : a < 256 := hw a (by simp)
        have hb : b' < 256 := hw b' (by simp)
        have hc : c < 256 := hw c (by simp)
        have hd : d < 256 := hw d (by simp)
        split at h
        · cases h
        · next r htf =>
          have hr := (tryFrom_ok_inv htf).1
          split at h
          · cases h
          · next hne =>
            split at h
            · cases h
            · next hrest =>
              cases h
              simp only [Decidable.not_not] at hne hrest
              rw [hr] at hne
              injection hne with e1 e2
              have := (be16_eq_iff ha hb hs16).1 e1
              have := (be16_eq_iff hc hd hn16).1 e2
              subst hrest
              refine ⟨?_, by rw [hr, e1, e2]⟩
              simp [ClientReq.fc, Fc.toByte, *]
      · cases h
    · rintro ⟨rfl, rfl⟩
      simp [handleResponse, ClientReq.fc, Fc.toByte, be16_hi_lo hs16, be16_hi_lo hn16,
        tryFrom_ok s vals.length (by omega) h4]



/-! ### reads in ascending order: `readSeq` and `readAll` -/

theorem readSeq_snd {α : Type} (get : Nat → Except Nat α) (as : List Nat) :
    (readSeq get as).2 = as.mapM get := by
  induction as with
  | nil => simp [readSeq, pure, Except.pure]
  | cons a t ih =>
    simp only [readSeq, List.mapM_cons]
    cases h : get a with
    | error e => simp [bind, Except.bind]
    | ok v => simp [bind, Except.bind, ← ih, Except.map, pure, Except.pure]

theorem readAll_eq {α : Type} (get : Nat → Except Nat α) (s n : Nat) :
    readAll get s n = ((List.range n).map (s + ·)).mapM get := by
  unfold readAll; rw [List.mapM_map]; rfl

theorem readSeq_range {α : Type} (get : Nat → Except Nat α) (r : Range) :
    (readSeq get r.addresses).2 = readAll get r.start r.count := by
  rw [readSeq_snd, readAll_eq]; rfl

theorem mapM_ok_iff {α : Type} (get : Nat → Except Nat α) (as : List Nat) (vs : List α) :
    as.mapM get = .ok vs ↔
      vs.length = as.length ∧ ∀ i (h1 : i < as.length) (h2 : i < vs.length), get as[i] = .ok vs[i] := by
  induction as generalizing vs with
  | nil =>
    simp only [List.mapM_nil, pure, Except.pure, Except.ok.injEq, List.length_nil]
    constructor
    · rintro rfl; simp
    · intro ⟨h, _⟩; exact (List.eq_nil_of_length_eq_zero h).symm
  | cons a t ih =>
    simp only [List.mapM_cons]
    cases hg : get a with
    | error e =>
      simp only [bind, Except.bind, List.length_cons]
      constructor
      · intro h; cases h
      · intro ⟨hl, h⟩
        have := h 0 (by omega) (by omega)
        simp [hg] at this
    | ok v =>
      cases hm : t.mapM get with
      | error e =>
        simp only [bind, Except.bind, List.length_cons]
        constructor
        · intro h; cases h
        · intro ⟨hl, h⟩
          match vs, hl with
          | w :: ws, hl =>
            have : t.mapM get = .ok ws := (ih ws).2 ⟨by simpa using hl, fun i h1 h2 => by
              have := h (i + 1) (by omega) (by simp; omega)
              simpa using this⟩
            rw [hm] at this; cases this
      | ok ws =>
        simp only [bind, Except.bind, pure, Except.pure, Except.ok.injEq, List.length_cons]
        have ⟨hl, hws⟩ := (ih ws).1 hm
        constructor
        · rintro rfl
          refine ⟨by simp [hl], ?_⟩
          intro i h1 h2
          cases i with
          | zero => simpa using hg
          | succ i => simpa using hws i (by omega) (by simp at h2; omega)
        · intro ⟨hl', h⟩
          match vs, hl' with
          | w :: ws', hl' =>
            have h0 := h 0 (by omega) (by simp)
            simp [hg] at h0
            have : t.mapM get = .ok ws' := (ih ws').2 ⟨by simpa using hl', fun i h1 h2 => by
              have := h (i + 1) (by omega) (by simp; omega)
              simpa using this⟩
            rw [hm] at this; cases this
            rw [h0]

theorem mapM_error_iff {α : Type} (get : Nat → Except Nat α) (as : List Nat) (e : Nat) :
    as.mapM get = .error e ↔
      ∃ k, ∃ h : k < as.length, get as[k] = .error e ∧
        ∀ i (hi : i < k), ∃ v, get as[i] = .ok v := by
  induction as with
  | nil => simp [pure, Except.pure]
  | cons a t ih =>
    simp only [List.mapM_cons]
    cases hg : get a with
    | error e' =>
      simp only [bind, Except.bind, Except.error.injEq, List.length_cons]
      constructor
      · rintro rfl; exact ⟨0, by omega, by simpa using hg, by intro i hi; omega⟩
      · rintro ⟨k, hk, h1, h2⟩
        cases k with
        | zero => simp [hg] at h1; exact h1
        | succ k =>
          obtain ⟨v, hv⟩ := h2 0 (by omega)
          simp [hg] at hv
    | ok v =>
      cases hm : t.mapM get with
      | error e' =>
        simp only [bind, Except.bind, Except.error.injEq, List.length_cons]
        constructor
        · rintro rfl
          obtain ⟨k, hk, h1, h2⟩ := ih.1 hm
          refine ⟨k + 1, by omega, by simpa using h1, ?_⟩
          intro i hi
          cases i with
          | zero => exact ⟨v, by simpa using hg⟩
          | succ i => simpa using h2 i (by omega)
        · rintro ⟨k, hk, h1, h2⟩
          cases k with
          | zero => simp [hg] at h1
          | succ k =>
            have : t.mapM get = .error e := ih.2 ⟨k, by omega, by simpa using h1, fun i hi => by
              simpa using h2 (i + 1) (by omega)⟩
            rw [hm] at this; cases this; rfl
      | ok ws =>
        simp only [bind, Except.bind, pure, Except.pure, List.length_cons]
        constructor
        · intro h; cases h
        · rintro ⟨k, hk, h1, h2⟩
          cases k with
          | zero => simp [hg] at h1
          | succ k =>
            have : t.mapM get = .error e := ih.2 ⟨k, by omega, by simpa using h1, fun i hi => by
              simpa using h2 (i + 1) (by omega)⟩
            rw [hm] at this; cases this


theorem readAll_ok_iff {α : Type} (get : Nat → Except Nat α) (s n : Nat) (vs : List α) :
    readAll get s n = .ok vs ↔
      vs.length = n ∧ ∀ i (h : i < vs.length), get (s + i) = .ok vs[i] := by
  rw [readAll_eq, mapM_ok_iff]
  simp only [List.length_map, List.length_range, List.getElem_map, List.getElem_range]
  constructor
  · intro ⟨h1, h2⟩; exact ⟨h1, fun i h => h2 i (by omega) h⟩
  · intro ⟨h1, h2⟩; exact ⟨h1, fun i _ h => h2 i h⟩

theorem readAll_error_iff {α : Type} (get : Nat → Except Nat α) (s n e : Nat) :
    readAll get s n = .error e ↔
      ∃ k, k < n ∧ get (s + k) = .error e ∧ ∀ i, i < k → ∃ v, get (s + i) = .ok v := by
  rw [readAll_eq, mapM_error_iff]
  simp only [List.length_map, List.length_range, List.getElem_map, List.getElem_range]
  constructor
  · rintro ⟨k, hk, h1, h2⟩; exact ⟨k, hk, h1, h2⟩
  · rintro ⟨k, hk, h1, h2⟩; exact ⟨k, hk, h1, h2⟩

/-- client ∘ server at PDU level -/
theorem end_to_end {σ : Type} (H : Handler σ) (u : Nat) (s : σ) (req : ClientReq)
    (hv : ClientValid req) (hu : HandlerU16 H s) :
    handleResponse req (getReply H u s (toServer req)).1 = served H s req := by
  cases req
  case readCoils st c =>
    simp only [toServer, getReply, served, Request.fc, Fc.toByte]
    rw [readSeq_range]
    simp only
    cases hr : readAll (H.readCoil s) st c with
    | error e => exact handle_exception_pdu (.readCoils st c) e
    | ok vs =>
      have hl := ((readAll_ok_iff _ _ _ _).1 hr).1
      subst hl
      simp [handleResponse, ClientReq.fc, Fc.toByte, packBits_length, unpackBits_packBits,
        indexed_eq_withAddr]
  case readDiscreteInputs st c =>
    simp only [toServer, getReply, served, Request.fc, Fc.toByte]
    rw [readSeq_range]
    simp only
    cases hr : readAll (H.readDiscreteInput s) st c with
    | error e => exact handle_exception_pdu (.readDiscreteInputs st c) e
    | ok vs =>
      have hl := ((readAll_ok_iff _ _ _ _).1 hr).1
      subst hl
      simp [handleResponse, ClientReq.fc, Fc.toByte, packBits_length, unpackBits_packBits,
        indexed_eq_withAddr]
  case readHoldingRegisters st c =>
    simp only [toServer, getReply, served, Request.fc, Fc.toByte]
    rw [readSeq_range]
    simp only
    cases hr : readAll (H.readHoldingRegister s) st c with
    | error e => exact handle_exception_pdu (.readHoldingRegisters st c) e
    | ok vs =>
      have ⟨hl, hg⟩ := (readAll_ok_iff _ _ _ _).1 hr
      have h16 : ∀ v ∈ vs, v < 65536 := by
        intro v hmem
        obtain ⟨i, hi, rfl⟩ := List.getElem_of_mem hmem
        exact hu.1 _ _ (hg i hi)
      subst hl
      simp [handleResponse, ClientReq.fc, Fc.toByte, packRegs_length, unpackRegs_packRegs vs h16,
        indexed_eq_withAddr]
  case readInputRegisters st c =>
    simp only [toServer, getReply, served, Request.fc, Fc.toByte]
    rw [readSeq_range]
    simp only
    cases hr : readAll (H.readInputRegister s) st c with
    | error e => exact handle_exception_pdu (.readInputRegisters st c) e
    | ok vs =>
      have ⟨hl, hg⟩ := (readAll_ok_iff _ _ _ _).1 hr
      have h16 : ∀ v ∈ vs, v < 65536 := by
        intro v hmem
        obtain ⟨i, hi, rfl⟩ := List.getElem_of_mem hmem
        exact hu.2 _ _ (hg i hi)
      subst hl
      simp [handleResponse, ClientReq.fc, Fc.toByte, packRegs_length, unpackRegs_packRegs vs h16,
        indexed_eq_withAddr]
  case writeSingleCoil i v =>
    simp only [toServer, getReply, served, Request.fc, Fc.toByte]
    generalize (H.writeSingleCoil s i v).1 = res
    cases res with
    | error e => exact handle_exception_pdu (.writeSingleCoil i v) e
    | ok x =>
      have hi16 : i < 65536 := hv
      have e : i / 256 % 256 * 256 + i % 256 = i := by omega
      cases v <;> simp [handleResponse, ClientReq.fc, Fc.toByte, coilFromU16, coilToU16, be16,
        u16be, e, COIL_ON, COIL_OFF, writeOutcome]
  case writeSingleRegister i v =>
    simp only [toServer, getReply, served, Request.fc, Fc.toByte]
    generalize (H.writeSingleRegister s i v).1 = res
    cases res with
    | error e => exact handle_exception_pdu (.writeSingleRegister i v) e
    | ok x =>
      obtain ⟨hi16, hx16⟩ := hv
      simp [handleResponse, ClientReq.fc, Fc.toByte, u16be_eq, be16_hi_lo hi16, be16_hi_lo hx16,
        writeOutcome]
  case writeMultipleCoils st vals =>
    simp only [toServer, getReply, served, Request.fc, Fc.toByte, indexed_eq_withAddr]
    generalize (H.writeMultipleCoils s ⟨st, vals.length⟩ (withAddr st vals)).1 = res
    cases res with
    | error e => exact handle_exception_pdu (.writeMultipleCoils st vals) e
    | ok x =>
      obtain ⟨h3, h5, h4⟩ := hv
      simp [handleResponse, ClientReq.fc, Fc.toByte, u16be_eq,
        be16_hi_lo (show st < 65536 by omega), be16_hi_lo (show vals.length < 65536 by omega),
        tryFrom_ok st vals.length (by omega) h4, writeOutcome]
  case writeMultipleRegisters st vals =>
    simp only [toServer, getReply, served, Request.fc, Fc.toByte, indexed_eq_withAddr]
    generalize (H.writeMultipleRegisters s ⟨st, vals.length⟩ (withAddr st vals)).1 = res
    cases res with
    | error e => exact handle_exception_pdu (.writeMultipleRegisters st vals) e
    | ok x =>
      obtain ⟨h3, h5, h4⟩ := hv
      simp [handleResponse, ClientReq.fc, Fc.toByte, u16be_eq,
        be16_hi_lo (show st < 65536 by omega), be16_hi_lo (show vals.length < 65536 by omega),
        tryFrom_ok st vals.length (by omega) h4, writeOutcome]


/-- the error is `BadRequest` only when a write-multiple echo carries an invalid range -/
theorem badRequest_iff (req : ClientReq) (pdu : Bytes) (hw : Bytes.WF pdu) :
    handleResponse req pdu = .error .badRequest ↔
      (req.fc = .writeMultipleCoils ∨ req.fc = .writeMultipleRegisters) ∧
      ∃ a b c d rest, pdu = req.fc.toByte :: a :: b :: c :: d :: rest ∧
        (be16 c d = 0 ∨ be16 a b + be16 c d > 65536) := by
  constructor
  · intro h
    match pdu with
    | [] => cases h
    | f :: body =>
      by_cases hf : f = req.fc.toByte
      · subst hf
        cases req
        case writeMultipleCoils s vals | writeMultipleRegisters s vals =>
          simp only [handleResponse, ClientReq.fc, Fc.toByte, ne_eq, not_true_eq_false,
            if_false] at h
          refine ⟨by simp [ClientReq.fc], ?_⟩
          split at h
          · next a b c d rest =>
            have hc : c < 256 := hw c (by simp)
            have hd : d < 256 := hw d (by simp)
            have ha : a < 256 := hw a (by simp)
            have hb : b < 256 := hw b (by simp)
            refine ⟨a, b, c, d, rest, rfl, ?_⟩
            split at h
            · next e he =>
              by_cases h0 : be16 c d = 0
              · exact Or.inl h0
              · right
                apply Nat.lt_of_not_le
                intro hle
                rw [tryFrom_ok _ _ h0 hle] at he; cases he
            · split at h
              · cases h
              · split at h <;> cases h
          · cases h
        all_goals
          simp only [handleResponse, ClientReq.fc, Fc.toByte, ne_eq, not_true_eq_false,
            if_false] at h
          (repeat' split at h) <;> cases h
      · rw [handle_ne req f body hf] at h
        split at h
        · split at h <;> cases h
        · cases h
  · rintro ⟨hfc, a, b, c, d, rest, rfl, harith⟩
    have hc : c < 256 := hw c (by simp)
    have hd : d < 256 := hw d (by simp)
    have ha : a < 256 := hw a (by simp)
    have hb : b < 256 := hw b (by simp)
    have h16 := be16_lt hc hd
    have herr : ∃ e, Range.tryFrom (be16 a b) (be16 c d) = .error e := by
      rcases harith with h0 | h1
      · rw [h0]; exact ⟨_, tryFrom_zero _⟩
      · by_cases h0 : be16 c d = 0
        · rw [h0]; exact ⟨_, tryFrom_zero _⟩
        · exact ⟨_, tryFrom_overflow _ _ h0 (by omega) h1⟩
    obtain ⟨e, he⟩ := herr
    cases req <;> simp [ClientReq.fc] at hfc <;>
      simp [handleResponse, ClientReq.fc, Fc.toByte, he]

theorem exCode_roundtrip (b : Nat) : (ExCode.ofByte b).toByte = b := by
  unfold ExCode.ofByte
  repeat' split
  all_goals simp_all [ExCode.toByte]

theorem exCode_ofByte_injective {a b : Nat} (h : ExCode.ofByte a = ExCode.ofByte b) : a = b := by
  rw [← exCode_roundtrip a, ← exCode_roundtrip b, h]

theorem exOfByte_table : ∀ p ∈ Gen.exOfByte, ExCode.ofByte p.1 = p.2 := by decide

theorem exOfByte_unlisted (b : Nat) (h : ∀ p ∈ Gen.exOfByte, p.1 ≠ b) :
    ExCode.ofByte b = .unknown b := by
  simp [Gen.exOfByte] at h
  obtain ⟨h1, h2, h3, h4, h5, h6, h8, h10, h11⟩ := h
  unfold ExCode.ofByte
  repeat' split
  all_goals first | rfl | omega

theorem exToByte_table : ∀ p ∈ Gen.exToByte, p.1.toByte = p.2 := by decide

theorem exToByte_unlisted (c : ExCode) (h : ∀ p ∈ Gen.exToByte, p.1 ≠ c) :
    ∃ b, c = .unknown b ∧ c.toByte = b := by
  cases c <;> simp [Gen.exToByte] at h
  exact ⟨_, rfl, rfl⟩

theorem limits_agree :
    MAX_READ_COILS_COUNT = Gen.maxReadCoils ∧ MAX_READ_REGISTERS_COUNT = Gen.maxReadRegisters ∧
    MAX_WRITE_COILS_COUNT = Gen.maxWriteCoils ∧ MAX_WRITE_REGISTERS_COUNT = Gen.maxWriteRegisters ∧
    COIL_ON = Gen.coilOn ∧ COIL_OFF = Gen.coilOff ∧ Gen.errorMask = 128 ∧
    Gen.maxAduLength = 253 ∧ Gen.mbapMaxFrameLength = 260 ∧ Gen.rtuMaxFrameLength = 256 := by
  decide

theorem fc_table : ∀ p ∈ Gen.fcValue, p.1.toByte = p.2 := by decide


theorem otherwise_error (req : ClientReq) (pdu : Bytes) (hv : ClientValid req) (hw : Bytes.WF pdu)
    (h1 : ¬ ∃ v, WellFormedReply req pdu v) (h2 : ¬ ∃ c, ExceptionReply req pdu c) :
    handleResponse req pdu = .error .badResponse ∨ handleResponse req pdu = .error .badRequest := by
  cases h : handleResponse req pdu with
  | ok v => exact absurd ⟨v, (success_iff req pdu v hv hw).1 h⟩ h1
  | error e =>
    cases e with
    | exception c =>
      have := (exception_iff req pdu c).1 h
      rw [orErr_fc] at this
      exact absurd ⟨c, this⟩ h2
    | badResponse => exact Or.inl rfl
    | badRequest => exact Or.inr rfl


end Rodbus.ClientPdu
