import RodbusModel.Lemmas.ClientPdu
import RodbusModel.Lemmas.Mbap
import RodbusModel.Lemmas.Rtu
/-
  C03  The client transmits exactly the protocol encoding of a request, or nothing: requests
       outside the protocol limits are always rejected, so no frame longer than 260 bytes (TCP) /
       256 bytes (serial) is ever emitted.

  Quantifier: every one of the 8 request kinds, every (start, count) in u16 × u16 (all 2^32
  constructor arguments), every value vector (any length, in particular 0..65536), every
  transaction and unit id, both framings.

  Only property theorems and non-vacuity examples; the proofs are in Lemmas/ClientPdu.lean.
  Vocabulary:
    `encodeRequest req`        validation by the public constructors / `Channel` methods followed
                               by `Serialize for RequestDetails`            (Model/Pdu.lean)
    `Mbap.format`, `Rtu.format`  `format_mbap`, `format_rtu_pdu`            (Model/Mbap.lean, Rtu.lean)
    `ClientValid`, `rejection`, `pdu`, `adu`, `toServer`                    (Spec/Client.lean)
    `req.FieldsU16`            start/count/index/value arguments are < 65536 (u16 in Rust)
    `req.ValuesU16`            the elements of a register vector are < 65536 (`Vec<u16>`)
-/
namespace Rodbus.C03
open Rodbus.Spec.Client
open Rodbus.ClientPdu (instDecidableEqExcept)

/-! ## 1. `AddressRange::try_from`, by arithmetic for all arguments -/

/-- a range is accepted iff its count is not 0 and its last address `start + count - 1` fits u16 -/
theorem tryFrom_ok_iff : ∀ s c, s < 65536 → c < 65536 →
    (Range.tryFrom s c = .ok ⟨s, c⟩ ↔ c ≠ 0 ∧ s + c ≤ 65536) :=
  ClientPdu.tryFrom_ok_iff

/-- count 0 ⇒ `InvalidRange::CountOfZero`, whatever the start -/
theorem tryFrom_zero : ∀ s, Range.tryFrom s 0 = .error .countOfZero := ClientPdu.tryFrom_zero

/-- count ≠ 0 and `start + count > 65536` ⇒ `InvalidRange::AddressOverflow` -/
theorem tryFrom_overflow : ∀ s c, c ≠ 0 → c < 65536 → s + c > 65536 →
    Range.tryFrom s c = .error .addressOverflow :=
  fun s c h0 hc h => ClientPdu.tryFrom_overflow s c h0 (Nat.le_of_lt hc) h

/-- a successful result is the pair itself (no normalisation) -/
theorem tryFrom_ok_only {s c : Nat} {r : Range} (h : Range.tryFrom s c = .ok r) : r = ⟨s, c⟩ :=
  (ClientPdu.tryFrom_ok_inv h).1

/-! ## 2. Something is transmitted iff the request is within the protocol limits -/

/-- On u16 arguments the client produces a request PDU iff the request is valid: quantity ≥ 1,
    no address overflow, quantity ≤ 2000 / 125 (reads), 1968 / 123 (write-multiple). -/
theorem encode_ok_iff (req : ClientReq) (h : req.FieldsU16) :
    (∃ bytes, encodeRequest req = .ok bytes) ↔ ClientValid req := by
  rw [ClientPdu.encode_eq req h, ← ClientPdu.rejection_none_iff req h]
  cases rejection req <;> simp

/-- requests outside the protocol limits are always rejected (nothing is transmitted) -/
theorem reject_invalid (req : ClientReq) (h : req.FieldsU16) (hn : ¬ ClientValid req) :
    ∃ e, encodeRequest req = .error e := by
  cases he : encodeRequest req with
  | ok bytes => exact absurd ((encode_ok_iff req h).1 ⟨bytes, he⟩) hn
  | error e => exact ⟨e, rfl⟩

/-- Which error for which violated clause (`rejection`, Spec/Client.lean: reads — count 0 ⇒
    `BadRange(CountOfZero)`, overflow ⇒ `BadRange(AddressOverflow)`, above the read limit ⇒
    `BadRange(CountTooLargeForType)`; write-multiple — more than 65535 values ⇒
    `CountTooBigForU16`, no value ⇒ `BadRange(CountOfZero)`, overflow ⇒
    `BadRange(AddressOverflow)`, above the write limit ⇒ `CountTooBigForType`), and the bytes
    otherwise: a complete description of `encodeRequest` on u16 arguments. -/
theorem encode_error_kinds (req : ClientReq) (h : req.FieldsU16) :
    encodeRequest req = match rejection req with
      | some e => .error e
      | none => .ok (pdu req) :=
  ClientPdu.encode_eq req h

/-- the individual clauses of `encode_error_kinds`, spelled out for reads of bits … -/
theorem read_bits_errors (s c : Nat) (hc : c < 65536) :
    (c = 0 → encodeRequest (.readCoils s c) = .error (.badRange .countOfZero)) ∧
    (c ≠ 0 → s + c > 65536 →
      encodeRequest (.readCoils s c) = .error (.badRange .addressOverflow)) ∧
    (c ≠ 0 → s + c ≤ 65536 → c > 2000 →
      encodeRequest (.readCoils s c) = .error (.badRange .countTooLargeForType)) := by
  have h := ClientPdu.encode_eq' (.readCoils s c) hc
  refine ⟨fun h0 => ?_, fun h0 h1 => ?_, fun h0 h1 h2 => ?_⟩ <;> rw [h]
  · simp [rejection, h0]
  · simp [rejection, h0, h1]
  · have h1' : ¬ 65536 < s + c := by omega
    simp [rejection, h0, h1', h2]

/-- … for reads of registers … -/
theorem read_registers_errors (s c : Nat) (hc : c < 65536) :
    (c = 0 → encodeRequest (.readHoldingRegisters s c) = .error (.badRange .countOfZero)) ∧
    (c ≠ 0 → s + c > 65536 →
      encodeRequest (.readHoldingRegisters s c) = .error (.badRange .addressOverflow)) ∧
    (c ≠ 0 → s + c ≤ 65536 → c > 125 →
      encodeRequest (.readHoldingRegisters s c) = .error (.badRange .countTooLargeForType)) := by
  have h := ClientPdu.encode_eq' (.readHoldingRegisters s c) hc
  refine ⟨fun h0 => ?_, fun h0 h1 => ?_, fun h0 h1 h2 => ?_⟩ <;> rw [h]
  · simp [rejection, h0]
  · simp [rejection, h0, h1]
  · have h1' : ¬ 65536 < s + c := by omega
    simp [rejection, h0, h1', h2]

/-- … and for write-multiple (coils; registers alike with 123), any start and any vector -/
theorem write_multiple_errors (s : Nat) (vals : List Bool) :
    (vals.length > 65535 → encodeRequest (.writeMultipleCoils s vals) = .error .countTooBigForU16) ∧
    (vals.length = 0 →
      encodeRequest (.writeMultipleCoils s vals) = .error (.badRange .countOfZero)) ∧
    (0 < vals.length → vals.length ≤ 65535 → s + vals.length > 65536 →
      encodeRequest (.writeMultipleCoils s vals) = .error (.badRange .addressOverflow)) ∧
    (vals.length ≤ 65535 → s + vals.length ≤ 65536 → vals.length > 1968 →
      encodeRequest (.writeMultipleCoils s vals) = .error .countTooBigForType) := by
  have h := ClientPdu.encode_eq' (.writeMultipleCoils s vals) trivial
  refine ⟨fun h0 => ?_, fun h0 => ?_, fun h0 h1 h2 => ?_, fun hu h0 h1 => ?_⟩ <;> rw [h]
  · simp [rejection, h0]
  · simp [rejection, h0]
  · have a : ¬ 65535 < vals.length := by omega
    have b : ¬ vals.length = 0 := by omega
    simp [rejection, a, b, h2]
  · have a : ¬ 65535 < vals.length := by omega
    have b : ¬ vals.length = 0 := by omega
    have c : ¬ 65536 < s + vals.length := by omega
    simp [rejection, a, b, c, h1]

theorem write_multiple_registers_errors (s : Nat) (vals : List Nat) :
    (vals.length > 65535 →
      encodeRequest (.writeMultipleRegisters s vals) = .error .countTooBigForU16) ∧
    (vals.length = 0 →
      encodeRequest (.writeMultipleRegisters s vals) = .error (.badRange .countOfZero)) ∧
    (0 < vals.length → vals.length ≤ 65535 → s + vals.length > 65536 →
      encodeRequest (.writeMultipleRegisters s vals) = .error (.badRange .addressOverflow)) ∧
    (vals.length ≤ 65535 → s + vals.length ≤ 65536 → vals.length > 123 →
      encodeRequest (.writeMultipleRegisters s vals) = .error .countTooBigForType) := by
  have h := ClientPdu.encode_eq' (.writeMultipleRegisters s vals) trivial
  refine ⟨fun h0 => ?_, fun h0 => ?_, fun h0 h1 h2 => ?_, fun hu h0 h1 => ?_⟩ <;> rw [h]
  · simp [rejection, h0]
  · simp [rejection, h0]
  · have a : ¬ 65535 < vals.length := by omega
    have b : ¬ vals.length = 0 := by omega
    simp [rejection, a, b, h2]
  · have a : ¬ 65535 < vals.length := by omega
    have b : ¬ vals.length = 0 := by omega
    have c : ¬ 65536 < s + vals.length := by omega
    simp [rejection, a, b, c, h1]

/-! ## 3. What is transmitted is exactly the protocol encoding -/

/-- the PDU the client produces is the protocol encoding of the request (no u16 hypothesis:
    success already implies that the quantity is in range) -/
theorem encode_eq_spec {req : ClientReq} {bytes : Bytes} (h : encodeRequest req = .ok bytes) :
    bytes = pdu req :=
  (ClientPdu.encode_ok_spec h).2

/-- … and the request was valid -/
theorem encode_ok_valid {req : ClientReq} {bytes : Bytes} (hf : req.FieldsU16)
    (h : encodeRequest req = .ok bytes) : ClientValid req :=
  (encode_ok_iff req hf).1 ⟨bytes, h⟩

/-- the TCP/TLS frame is the MBAP encoding: tx id, protocol id 0, length = |PDU| + 1, unit, PDU -/
theorem mbap_frame_eq_spec {req : ClientReq} {bytes : Bytes} (tx unit : Nat)
    (h : encodeRequest req = .ok bytes) : Mbap.format tx unit bytes = adu false tx unit req := by
  rw [encode_eq_spec h]; exact ClientPdu.mbap_format_pdu tx unit req

/-- the serial frame is the RTU encoding: unit, PDU, CRC-16 low byte first -/
theorem rtu_frame_eq_spec {req : ClientReq} {bytes : Bytes} (tx unit : Nat)
    (h : encodeRequest req = .ok bytes) : Rtu.format unit bytes = adu true tx unit req := by
  rw [encode_eq_spec h]; exact ClientPdu.rtu_format_pdu tx unit req

/-! ## 4. Frame size and well-formedness -/

/-- a transmitted PDU has at most 253 bytes -/
theorem encode_len {req : ClientReq} {bytes : Bytes} (hf : req.FieldsU16)
    (h : encodeRequest req = .ok bytes) : bytes.length ≤ 253 := by
  rw [encode_eq_spec h]; exact ClientPdu.pdu_length_le req (encode_ok_valid hf h)

/-- no TCP/TLS frame longer than 260 bytes is ever emitted -/
theorem mbap_frame_len {req : ClientReq} {bytes : Bytes} (tx unit : Nat) (hf : req.FieldsU16)
    (h : encodeRequest req = .ok bytes) :
    (Mbap.format tx unit bytes).length ≤ Gen.mbapMaxFrameLength := by
  have := encode_len hf h
  rw [Mbap.format_length]; unfold Gen.mbapMaxFrameLength; omega

/-- no serial frame longer than 256 bytes is ever emitted -/
theorem rtu_frame_len {req : ClientReq} {bytes : Bytes} (unit : Nat) (hf : req.FieldsU16)
    (h : encodeRequest req = .ok bytes) :
    (Rtu.format unit bytes).length ≤ Gen.rtuMaxFrameLength := by
  have := encode_len hf h
  rw [Rtu.format_length]; unfold Gen.rtuMaxFrameLength; omega

/-- every transmitted PDU consists of bytes (in particular the byte-count field of a
    write-multiple request, `⌈n/8⌉` resp. `2n`, is at most 246: `calc_bytes_for_bits` /
    `calc_bytes_for_registers` cannot fail) -/
theorem encode_wf {req : ClientReq} {bytes : Bytes} (hf : req.FieldsU16)
    (h : encodeRequest req = .ok bytes) : Bytes.WF bytes := by
  rw [encode_eq_spec h]; exact ClientPdu.pdu_wf req (encode_ok_valid hf h)

/-- … hence every frame consists of bytes -/
theorem mbap_frame_wf {req : ClientReq} {bytes : Bytes} (tx unit : Nat) (hu : unit < 256)
    (hf : req.FieldsU16) (h : encodeRequest req = .ok bytes) :
    Bytes.WF (Mbap.format tx unit bytes) :=
  Mbap.format_wf tx unit bytes hu (encode_wf hf h)

/-! ## 5. The encoding denotes the request: round trip through the server's parser -/

/-- The server's `Request::parse` reads a transmitted PDU back as the request the caller made:
    same function, same range / index / value, and the value vector of a write-multiple
    request survives packing (`unpackBits (packBits vals) vals.length = vals`). -/
theorem server_parses_client {req : ClientReq} {fcb : Nat} {body : Bytes} (hf : req.FieldsU16)
    (hv : req.ValuesU16) (h : encodeRequest req = .ok (fcb :: body)) :
    fcb = req.fc.toByte ∧ parseRequest req.fc body = some (toServer req) := by
  have hs := encode_eq_spec h
  obtain ⟨b, hb⟩ := ClientPdu.pdu_head req
  rw [hb] at hs
  injection hs with h1 h2
  subst h1 h2
  exact ⟨rfl, ClientPdu.parse_pdu req (encode_ok_valid hf h) hv _ hb⟩

/-- every transmitted PDU is non-empty and starts with the function code -/
theorem encode_head {req : ClientReq} {bytes : Bytes} (h : encodeRequest req = .ok bytes) :
    ∃ body, bytes = req.fc.toByte :: body := by
  rw [encode_eq_spec h]; exact ClientPdu.pdu_head req

/-- packing round trips -/
theorem coils_roundtrip (vals : List Bool) : unpackBits (packBits vals) vals.length = vals :=
  ClientPdu.unpackBits_packBits vals

theorem registers_roundtrip (vals : List Nat) (h : ∀ v ∈ vals, v < 65536) :
    unpackRegs (packRegs vals) = vals :=
  ClientPdu.unpackRegs_packRegs vals h

/-- bit `i` of the packed bytes is value `i`; the padding bits are 0 -/
theorem packed_bit (vals : List Bool) (i : Nat) : bitAt (packBits vals) i = vals.getD i false :=
  ClientPdu.bitAt_packBits vals i

/-! ## 6. The constants are the ones of the Rust sources (generated tables) -/

theorem limits_agree :
    MAX_READ_COILS_COUNT = Gen.maxReadCoils ∧ MAX_READ_REGISTERS_COUNT = Gen.maxReadRegisters ∧
    MAX_WRITE_COILS_COUNT = Gen.maxWriteCoils ∧ MAX_WRITE_REGISTERS_COUNT = Gen.maxWriteRegisters ∧
    COIL_ON = Gen.coilOn ∧ COIL_OFF = Gen.coilOff ∧ Gen.errorMask = 128 ∧
    Gen.maxAduLength = 253 ∧ Gen.mbapMaxFrameLength = 260 ∧ Gen.rtuMaxFrameLength = 256 :=
  ClientPdu.limits_agree

theorem function_codes_agree : ∀ p ∈ Gen.fcValue, p.1.toByte = p.2 := ClientPdu.fc_table

/-! ## 7. Non-vacuity -/

/-- the largest read of coils: 2000 = 0x07D0 -/
example : encodeRequest (.readCoils 0 2000) = .ok [1, 0, 0, 0x07, 0xD0] := by decide
example : encodeRequest (.readCoils 63536 2000) = .ok [1, 0xF8, 0x30, 0x07, 0xD0] := by decide
example : encodeRequest (.readCoils 0 2001) = .error (.badRange .countTooLargeForType) := by decide
example : encodeRequest (.readCoils 63537 2000) = .error (.badRange .addressOverflow) := by decide
example : encodeRequest (.readCoils 65535 2) = .error (.badRange .addressOverflow) := by decide
example : encodeRequest (.readInputRegisters 7 0) = .error (.badRange .countOfZero) := by decide
example : encodeRequest (.readHoldingRegisters 0 126) = .error (.badRange .countTooLargeForType) := by
  decide
example : encodeRequest (.writeSingleCoil 0xAC true) = .ok [5, 0, 0xAC, 0xFF, 0] := by decide
example : encodeRequest (.writeSingleRegister 1 0xCAFE) = .ok [6, 0, 1, 0xCA, 0xFE] := by decide
/-- 10 coils in two bytes, LSB first, 6 padding bits (the example of the Modbus specification) -/
example : encodeRequest (.writeMultipleCoils 0x13
      [true, false, true, true, false, false, true, true, true, false]) =
    .ok [15, 0, 0x13, 0, 10, 2, 0xCD, 0x01] := by
  rw [ClientPdu.encode_eq _ (by decide)]; decide
example : encodeRequest (.writeMultipleRegisters 1 [0x000A, 0x0102]) =
    .ok [16, 0, 1, 0, 2, 4, 0, 0x0A, 1, 2] := by decide
/-- the first quantities beyond the limits, which would still fit the frame buffer -/
example : encodeRequest (.writeMultipleCoils 0 (List.replicate 1969 true)) =
    .error .countTooBigForType := by
  rw [ClientPdu.encode_eq _ (by decide +kernel)]; decide +kernel
example : encodeRequest (.writeMultipleRegisters 0 (List.replicate 124 0)) =
    .error .countTooBigForType := by
  rw [ClientPdu.encode_eq _ (by decide +kernel)]; decide +kernel
example : ClientValid (.writeMultipleCoils 0 (List.replicate 1968 true)) := by decide +kernel
example : (pdu (.writeMultipleCoils 0 (List.replicate 1968 true))).length = 252 := by decide +kernel
example : (pdu (.writeMultipleRegisters 0 (List.replicate 123 7))).length = 252 := by decide +kernel
example : ¬ ClientValid (.readCoils 65535 2) := by decide +kernel
/-- an MBAP frame -/
example : adu false 0x0007 0x2A (.readHoldingRegisters 0x6B 3) =
    [0, 7, 0, 0, 0, 6, 0x2A, 3, 0, 0x6B, 0, 3] := by decide +kernel
/-- an RTU frame: the test vector of serial/frame.rs (CRC 0x197A, low byte first) -/
example : adu true 0 0x2A (.readCoils 0x10 0x13) =
    [0x2A, 1, 0, 0x10, 0, 0x13, 0x7A, 0x19] := by decide +kernel

end Rodbus.C03
