import RodbusModel.Model.Ffi
import RodbusModel.Spec.Ffi
/-
  Helper lemmas for Props/C18 and Props/C19: association-list maps, the refinement
  `Db ⊑ Table → Index → Option Value`, the read loop on an absent point, the lock model.
-/
namespace Rodbus.Ffi
open Rodbus.Ffi.Spec

/-- two row lists describe the same table (order and duplicates aside, same length) -/
def sameRows {α : Type} [BEq α] (a b : List α) : Bool :=
  a.length == b.length && a.all (b.contains ·) && b.all (a.contains ·)

/-! ### association lists -/

theorem PMap.find_replace (m : PMap) (k v k' : Nat) :
    (m.replace k v).find k' = if k' = k then (m.find k).map (fun _ => v) else m.find k' := by
  induction m with
  | nil => simp [PMap.replace, PMap.find]
  | cons hd tl ih =>
    obtain ⟨a, b⟩ := hd
    simp only [PMap.replace, List.map_cons] at ih ⊢
    by_cases h1 : a = k
    · subst h1
      by_cases h2 : k' = a
      · subst h2; simp [PMap.find]
      · have : ¬ a = k' := fun h => h2 h.symm
        simp [PMap.find, this, h2]
        simpa [PMap.replace, h2] using ih
    · by_cases h2 : k' = k
      · subst h2
        simp only [h1, if_false, PMap.find, if_true]
        simpa [PMap.replace] using ih
      · simp only [h1, if_false, PMap.find, h2]
        by_cases h3 : a = k'
        · simp [h3]
        · simp only [h3, if_false]
          simpa [PMap.replace, h2] using ih

theorem PMap.find_erase (m : PMap) (k k' : Nat) :
    (m.erase k).find k' = if k' = k then none else m.find k' := by
  induction m with
  | nil => simp [PMap.erase, PMap.find]
  | cons hd tl ih =>
    obtain ⟨a, b⟩ := hd
    simp only [PMap.erase] at ih ⊢
    by_cases h1 : a = k
    · subst h1
      simp only [List.filter_cons, ne_eq, not_true_eq_false, decide_false, Bool.false_eq_true,
        if_false]
      rw [ih]
      by_cases h2 : k' = a
      · simp [h2]
      · have : ¬ a = k' := fun h => h2 h.symm
        simp [PMap.find, this, h2]
    · simp only [List.filter_cons, ne_eq, h1, not_false_eq_true, decide_true, if_true, PMap.find]
      by_cases h3 : a = k'
      · subst h3; simp [h1]
      · simp only [h3, if_false]; exact ih

theorem Db.tbl_setTbl (db : Db) (t t' : Table) (m : PMap) :
    (db.setTbl t m).tbl t' = if t' = t then m else db.tbl t' := by
  cases t <;> cases t' <;> simp [Db.setTbl, Db.tbl]

/-! ### refinement of the abstract map -/

/-- the abstraction function -/
def Db.abs (db : Db) : AMap := fun t i => db.find t i

theorem Db.abs_setTbl_cons (db : Db) (t : Table) (i v : Nat) :
    (db.setTbl t ((i, v) :: db.tbl t)).abs = db.abs.set t i (some v) := by
  funext t' i'
  simp only [Db.abs, Db.find, Db.tbl_setTbl, AMap.set]
  by_cases ht : t' = t
  · subst ht
    by_cases hi : i' = i
    · subst hi; simp [PMap.find]
    · have : ¬ i = i' := fun h => hi h.symm
      simp [PMap.find, this, hi]
  · simp [ht]

theorem Db.abs_setTbl_replace (db : Db) (t : Table) (i v : Nat) (h : (db.find t i).isSome) :
    (db.setTbl t ((db.tbl t).replace i v)).abs = db.abs.set t i (some v) := by
  funext t' i'
  simp only [Db.abs, Db.find, Db.tbl_setTbl, AMap.set]
  by_cases ht : t' = t
  · subst ht
    simp only [if_true, PMap.find_replace]
    by_cases hi : i' = i
    · subst hi
      simp only [Db.find] at h
      cases hf : (db.tbl t').find i' with
      | none => simp [hf] at h
      | some x => simp
    · simp [hi]
  · simp [ht]

theorem Db.abs_setTbl_erase (db : Db) (t : Table) (i : Nat) :
    (db.setTbl t ((db.tbl t).erase i)).abs = db.abs.set t i none := by
  funext t' i'
  simp only [Db.abs, Db.find, Db.tbl_setTbl, AMap.set]
  by_cases ht : t' = t
  · subst ht
    simp only [if_true, PMap.find_erase]
    by_cases hi : i' = i <;> simp [hi]
  · simp [ht]

/-- one database call: same result, and the abstraction commutes -/
theorem Db.step_refines (db : Db) (op : DbOp) :
    (db.step op).2 = (db.abs.step op).2 ∧ (db.step op).1.abs = (db.abs.step op).1 := by
  cases op with
  | add t i v =>
    simp only [Db.step, AMap.step]
    cases h : db.find t i with
    | none =>
      have : db.abs t i = none := h
      simp [this, Db.abs_setTbl_cons]
    | some x =>
      have : db.abs t i = some x := h
      simp [this]
  | update t i v =>
    simp only [Db.step, AMap.step]
    cases h : db.find t i with
    | none =>
      have : db.abs t i = none := h
      simp [this]
    | some x =>
      have h' : db.abs t i = some x := h
      have hs : (db.find t i).isSome := by simp [h]
      simp [h', Db.abs_setTbl_replace db t i v hs]
  | delete t i =>
    simp only [Db.step, AMap.step]
    cases h : db.find t i with
    | none =>
      have : db.abs t i = none := h
      simp [this]
    | some x =>
      have h' : db.abs t i = some x := h
      simp [h', Db.abs_setTbl_erase]
  | get t i =>
    simp only [Db.step, AMap.step]
    cases h : db.find t i with
    | none =>
      have : db.abs t i = none := h
      simp [this]
    | some x =>
      have h' : db.abs t i = some x := h
      simp [h']

theorem Db.run_refines (db : Db) (ops : List DbOp) :
    (db.run ops).2 = (db.abs.run ops).2 ∧ (db.run ops).1.abs = (db.abs.run ops).1 := by
  induction ops generalizing db with
  | nil => simp [Db.run, AMap.run]
  | cons op ops ih =>
    obtain ⟨h1, h2⟩ := Db.step_refines db op
    obtain ⟨h3, h4⟩ := ih (db.step op).1
    simp only [Db.run, AMap.run]
    rw [h2] at h3 h4
    exact ⟨by rw [h1, h3], h4⟩

/-! ### the read loop -/

/-- if every error of the getter is `e` and some address of the list fails, the loop stops at the
    first failing address: it has queried exactly the prefix up to and including it -/
theorem readSeq_first_error {α : Type} (get : Nat → Except Nat α) (as : List Nat)
    (x : Nat) (hx : x ∈ as) (e : Nat) (hfail : get x = .error e) :
    ∃ pre y post e', as = pre ++ y :: post ∧ (∀ z ∈ pre, ∃ v, get z = .ok v) ∧
      get y = .error e' ∧ readSeq get as = (pre ++ [y], .error e') := by
  induction as with
  | nil => cases hx
  | cons a rest ih =>
    cases hga : get a with
    | error e' =>
      refine ⟨[], a, rest, e', rfl, ?_, hga, ?_⟩
      · intro z hz; cases hz
      · simp [readSeq, hga]
    | ok v =>
      have hx' : x ∈ rest := by
        cases hx with
        | head => rw [hga] at hfail; cases hfail
        | tail _ h => exact h
      obtain ⟨pre, y, post, e', h1, h2, h3, h4⟩ := ih hx'
      refine ⟨a :: pre, y, post, e', by simp [h1], ?_, h3, ?_⟩
      · intro z hz
        cases hz with
        | head => exact ⟨v, hga⟩
        | tail _ h => exact h2 z h
      · simp [readSeq, hga, h4, Except.map]

theorem readSeq_map {α β : Type} (f : α → β) (get : Nat → Except Nat α) (as : List Nat) :
    readSeq (fun a => (get a).map f) as = ((readSeq get as).1, (readSeq get as).2.map (List.map f)) := by
  induction as with
  | nil => rfl
  | cons a rest ih =>
    cases h : get a with
    | error e => simp [readSeq, h, Except.map]
    | ok v =>
      have e1 : readSeq (fun a => (get a).map f) (a :: rest) =
          (a :: (readSeq (fun a => (get a).map f) rest).1,
           (readSeq (fun a => (get a).map f) rest).2.map (f v :: ·)) := by
        simp [readSeq, h, Except.map]
      rw [e1, ih]
      simp only [readSeq, h]
      cases (readSeq get rest).2 <;> simp [Except.map]

/-! ### the lock model -/

theorem serial_append (db : Db) (ps qs : List Prog) :
    serial db (ps ++ qs) =
      ((serial (serial db ps).1 qs).1, (serial db ps).2 ++ (serial (serial db ps).1 qs).2) := by
  induction ps generalizing db with
  | nil => simp [serial]
  | cons p ps ih => simp [serial, ih]

/-- finishing a transaction from a point in the middle -/
def finishTx (db : Db) (acc : List DbRes) : List DbOp → Db × List DbRes
  | [] => (db, acc)
  | op :: ops => finishTx (db.step op).1 (acc ++ [(db.step op).2]) ops

/-- finishing a read from a point in the middle -/
def finishRead (db : Db) (t : Table) (acc : List Nat) : List Nat → RdOut
  | [] => .ok acc
  | a :: as =>
    match readPoint db t a with
    | .ok v => finishRead db t (acc ++ [v]) as
    | .error e => .error e

/-- what the lock holder will have produced once it has run to completion from `db` -/
def Running.finish (r : Running) (db : Db) : Db × Outcome :=
  match r with
  | .tx _ _ todo acc => ((finishTx db acc todo).1, .tx (finishTx db acc todo).2)
  | .read _ _ t todo acc failed =>
    match failed with
    | some e => (db, .read (.error e))
    | none => (db, .read (finishRead db t acc todo))

theorem finishTx_eq (db : Db) (acc : List DbRes) (ops : List DbOp) :
    finishTx db acc ops = ((db.run ops).1, acc ++ (db.run ops).2) := by
  induction ops generalizing db acc with
  | nil => simp [finishTx, Db.run]
  | cons op ops ih => simp [finishTx, Db.run, ih]

theorem finishRead_eq (db : Db) (t : Table) (acc : List Nat) (as : List Nat) :
    finishRead db t acc as =
      match (readSeq (readPoint db t) as).2 with
      | .ok vs => .ok (acc ++ vs)
      | .error e => .error e := by
  induction as generalizing acc with
  | nil => simp [finishRead, readSeq]
  | cons a rest ih =>
    cases h : readPoint db t a with
    | error e => simp [finishRead, readSeq, h]
    | ok v =>
      simp only [finishRead, readSeq, h, ih]
      cases (readSeq (readPoint db t) rest).2 <;> simp [Except.map]

/-- an actor that has just acquired the lock will produce exactly its atomic outcome -/
theorem Running.finish_start (id : Nat) (p : Prog) (db : Db) :
    (Running.start id p).finish db = p.atomic db := by
  cases p with
  | tx ops => simp [Running.start, Running.finish, finishTx_eq, Prog.atomic]
  | read t addrs =>
    simp only [Running.start, Running.finish, finishRead_eq, Prog.atomic]
    cases (readSeq (readPoint db t) addrs).2 <;> simp [RdOut.ofExcept]

/-- a micro-step does not change what the holder will have produced in the end -/
theorem Running.finish_micro (r : Running) (db : Db) (h : r.isDone = false) :
    (r.micro db).1.finish (r.micro db).2 = r.finish db := by
  cases r with
  | tx id p todo acc =>
    cases todo with
    | nil => simp [Running.isDone] at h
    | cons op ops => simp [Running.micro, Running.finish, finishTx]
  | read id p t todo acc failed =>
    cases failed with
    | some e => simp [Running.isDone] at h
    | none =>
      cases todo with
      | nil => simp [Running.isDone] at h
      | cons a as =>
        simp only [Running.micro]
        cases hr : readPoint db t a with
        | ok v => simp [Running.finish, finishRead, hr]
        | error e => simp [Running.finish, finishRead, hr]

/-- at release the holder has produced what `finish` promised, and the database is final -/
theorem Running.finish_done (r : Running) (db : Db) (h : r.isDone = true) :
    r.finish db = (db, r.outcome) := by
  cases r with
  | tx id p todo acc =>
    cases todo with
    | nil => simp [Running.finish, finishTx, Running.outcome]
    | cons op ops => simp [Running.isDone] at h
  | read id p t todo acc failed =>
    cases failed with
    | some e => simp [Running.finish, Running.outcome]
    | none =>
      cases todo with
      | nil => simp [Running.finish, finishRead, Running.outcome]
      | cons a as => simp [Running.isDone] at h

theorem Running.micro_id (r : Running) (db : Db) : (r.micro db).1.id = r.id := by
  cases r with
  | tx id p todo acc => cases todo <;> simp [Running.micro, Running.id]
  | read id p t todo acc failed =>
    cases failed with
    | some e => cases todo <;> simp [Running.micro, Running.id]
    | none =>
      cases todo with
      | nil => simp [Running.micro, Running.id]
      | cons a as =>
        simp only [Running.micro]
        cases readPoint db t a <;> simp [Running.id]

theorem Running.micro_prog (r : Running) (db : Db) : (r.micro db).1.prog = r.prog := by
  cases r with
  | tx id p todo acc => cases todo <;> simp [Running.micro, Running.prog]
  | read id p t todo acc failed =>
    cases failed with
    | some e => cases todo <;> simp [Running.micro, Running.prog]
    | none =>
      cases todo with
      | nil => simp [Running.micro, Running.prog]
      | cons a as =>
        simp only [Running.micro]
        cases readPoint db t a <;> simp [Running.prog]

theorem Running.start_id (id : Nat) (p : Prog) : (Running.start id p).id = id := by
  cases p <;> rfl

theorem Running.start_prog (id : Nat) (p : Prog) : (Running.start id p).prog = p := by
  cases p <;> rfl

/-- the invariant of the lock model: the log is a serial execution from the initial database
    ending in `base`; the current database is `base`, or is on the way to the result of appending
    the lock holder to that serial execution -/
structure LInv (db0 : Db) (actors : List (Nat × Prog)) (s : LState) (base : Db) : Prop where
  serial_log : serial db0 (s.log.map (·.2.1)) = (base, s.log.map (·.2.2))
  idle : s.holder = none → s.db = base
  busy : ∀ r, s.holder = some r → r.finish s.db = r.prog.atomic base
  log_from : ∀ e ∈ s.log, (e.1, e.2.1) ∈ actors
  holder_from : ∀ r, s.holder = some r → (r.id, r.prog) ∈ actors
  pending_from : ∀ e ∈ s.pending, e ∈ actors

theorem LInv.init (db0 : Db) (actors : List (Nat × Prog)) :
    LInv db0 actors (LState.init db0 actors) db0 where
  serial_log := by simp [LState.init, serial]
  idle := by intro _; rfl
  busy := by intro r h; simp [LState.init] at h
  log_from := by intro e h; simp [LState.init] at h
  holder_from := by intro r h; simp [LState.init] at h
  pending_from := by intro e h; exact h

theorem LInv.sched {db0 : Db} {actors : List (Nat × Prog)} {s : LState} {base : Db}
    (inv : LInv db0 actors s base) (a : Nat) : ∃ base', LInv db0 actors (s.sched a) base' := by
  unfold LState.sched
  cases hh : s.holder with
  | some r =>
    dsimp only
    by_cases hid : r.id ≠ a
    · rw [if_pos hid]; exact ⟨base, inv⟩
    · rw [if_neg hid]
      cases hd : r.isDone with
      | true =>
        simp only [if_true]
        have hfin := Running.finish_done r s.db hd
        have hb := inv.busy r hh
        rw [hfin] at hb
        refine ⟨s.db,
          { serial_log := ?_
            idle := fun _ => rfl
            busy := by intro r' h; simp at h
            log_from := ?_
            holder_from := by intro r' h; simp at h
            pending_from := inv.pending_from }⟩
        · simp only [List.map_append, List.map_cons, List.map_nil]
          rw [serial_append, inv.serial_log]
          simp only [serial]
          rw [← hb]
        · intro e he
          simp only [List.mem_append, List.mem_singleton] at he
          cases he with
          | inl h => exact inv.log_from e h
          | inr h => subst h; exact inv.holder_from r hh
      | false =>
        simp only [Bool.false_eq_true, if_false]
        refine ⟨base,
          { serial_log := inv.serial_log
            idle := by intro h; simp at h
            busy := ?_
            log_from := inv.log_from
            holder_from := ?_
            pending_from := inv.pending_from }⟩
        · intro r' h
          simp only [Option.some.injEq] at h
          subst h
          rw [Running.finish_micro r s.db hd, Running.micro_prog]
          exact inv.busy r hh
        · intro r' h
          simp only [Option.some.injEq] at h
          subst h
          rw [Running.micro_id, Running.micro_prog]
          exact inv.holder_from r hh
  | none =>
    dsimp only
    cases hf : s.pending.find? (·.1 = a) with
    | none => exact ⟨base, inv⟩
    | some e =>
      obtain ⟨id, p⟩ := e
      have hmem : (id, p) ∈ s.pending := List.mem_of_find?_eq_some hf
      have hid : id = a := by
        have := List.find?_some hf
        simpa using this
      refine ⟨base,
        { serial_log := inv.serial_log
          idle := by intro h; simp at h
          busy := ?_
          log_from := inv.log_from
          holder_from := ?_
          pending_from := ?_ }⟩
      · intro r' h
        simp only [Option.some.injEq] at h
        subst h
        rw [Running.finish_start, Running.start_prog, inv.idle hh]
      · intro r' h
        simp only [Option.some.injEq] at h
        subst h
        rw [Running.start_id, Running.start_prog, ← hid]
        exact inv.pending_from _ hmem
      · intro e he
        exact inv.pending_from e (List.mem_filter.mp he).1

theorem LInv.run {db0 : Db} {actors : List (Nat × Prog)} {s : LState} {base : Db}
    (inv : LInv db0 actors s base) (schedule : List Nat) :
    ∃ base', LInv db0 actors (s.run schedule) base' := by
  induction schedule generalizing s base with
  | nil => exact ⟨base, inv⟩
  | cons a rest ih =>
    obtain ⟨b', inv'⟩ := inv.sched a
    exact ih inv'

/-- a serial execution only depends on its transactions as far as the database is concerned -/
theorem serial_db_reads (db : Db) (ps : List Prog) :
    (serial db ps).1 = (serial db (ps.filter fun p => match p with | .tx _ => true | .read _ _ => false)).1 := by
  induction ps generalizing db with
  | nil => rfl
  | cons p ps ih =>
    cases p with
    | tx ops => simp [serial, ih]
    | read t addrs => simp [serial, Prog.atomic, ih]

/-- splitting a serial execution at a position -/
theorem serial_split (db : Db) (pre : List Prog) (p : Prog) (post : List Prog) :
    (serial db (pre ++ p :: post)).2 =
      (serial db pre).2 ++ (p.atomic (serial db pre).1).2 :: (serial (p.atomic (serial db pre).1).1 post).2 := by
  rw [serial_append]; simp [serial]

end Rodbus.Ffi
