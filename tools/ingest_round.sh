#!/bin/bash
# usage: ingest_round.sh <worktree prefix, e.g. /tmp/seed4-> <offset> Cxx...
# copies <prefix>Cxx/out/m1..m3 to seeded/Cxx-m<offset+1>..m<offset+3>
set -e
pre=$1; off=$2; shift 2
for c in "$@"; do
  for i in 1 2 3; do
    d=$pre$c/out/m$i
    [ -f $d/patch.diff ] || { echo "$c m$i: missing"; continue; }
    t=/verif/seeded/$c-m$((i+off))
    mkdir -p $t
    cp $d/patch.diff $d/demo.rs $d/meta.json $t/
  done
done
ls /verif/seeded | grep -c "^C"
