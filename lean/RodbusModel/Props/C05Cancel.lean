import RodbusModel.Props.C05
import RodbusModel.Props.C06
import RodbusModel.Props.C01Session
/-
  Cancel safety of `FramedReader::next_frame` (C05, C02, C20): the `select!` loops of the server
  session (`run_one`) and of the client (`poll`) drop the future of `next_frame` whenever a command
  arrives while the reader waits for the transport.  `read_some` adjusts the buffer indices (reset
  when empty, compaction when the end of the buffer is reached) BEFORE it awaits the transport, so
  what a dropped future leaves behind is `rb.normalize`.  For every delivery schedule and every set
  of cancellation points, both readers deliver exactly what they deliver without cancellations;
  lifted to server sessions: `runSessionC = runSession` for every script.
-/
namespace Rodbus.Cancel
open Rodbus

theorem mbap_blocked_begin (st : Mbap.PState) (b b' : Nat) (d : Bytes)
    (h : Mbap.parse st ⟨b, d⟩ = (.none, st, ⟨b, d⟩)) :
    Mbap.parse st ⟨b', d⟩ = (.none, st, ⟨b', d⟩) := by
  cases st with
  | header hd adu =>
    simp only [Mbap.parse, Mbap.parseBody] at h ⊢
    split at h
    · rename_i hl; simp [hl]
    · simp at h
  | begin =>
    simp only [Mbap.parse] at h ⊢
    split at h
    · rename_i hl; simp [hl]
    · split at h
      · simp at h
      · simp only [Mbap.parseBody] at h
        split at h <;> simp at h

theorem mbap_cancel_from : ∀ (ds : List (Option Bytes)) (st : Mbap.PState) (rb : RB),
    Mbap.Inv rb → Mbap.StOk st → Mbap.parse st rb = (.none, st, rb) →
    runChunksC Mbap.parse st rb ds = runChunks Mbap.parse st rb (ds.filterMap id) := by
  intro ds
  induction ds with
  | nil => intro st rb _ _ _; rfl
  | cons d ds ih =>
    intro st rb hinv hst hb
    cases d with
    | none =>
      simp only [runChunksC, List.filterMap_cons, id]
      have hinv' : Mbap.Inv rb.normalize := by
        have := (Mbap.normalize_inv rb hinv).1
        unfold Mbap.Inv; rw [Mbap.normalize_data]; exact this
      have hb' : Mbap.parse st rb.normalize = (.none, st, rb.normalize) := by
        have hd := Mbap.normalize_data rb
        have : rb.normalize = ⟨rb.normalize.begin, rb.data⟩ := by
          cases hn : rb.normalize; simp [hn] at hd; simp [hd]
        rw [this]
        exact mbap_blocked_begin st rb.begin _ rb.data (by cases rb; exact hb)
      rw [ih st rb.normalize hinv' hst hb', Mbap.run_spec _ st rb.normalize hinv' hst hb',
        Mbap.run_spec _ st rb hinv hst hb, Mbap.normalize_data]
    | some c =>
      simp only [runChunksC, List.filterMap_cons, id, runChunks]
      have hf : 3 * c.length + 2 * rb.data.length + Mbap.hdr st + 1 ≤ fuelFor rb c := by
        unfold fuelFor; cases st <;> simp [Mbap.hdr] <;> omega
      have hp := Mbap.pump_spec (fuelFor rb c) st rb c [] hinv hst hf
      generalize pump Mbap.parse (fuelFor rb c) st rb c = q at hp
      obtain ⟨es, r⟩ := q
      cases r with
      | none => rfl
      | some v =>
        obtain ⟨st', rb'⟩ := v
        simp only [Mbap.Post] at hp
        obtain ⟨_, h2, h3, _, h5⟩ := hp
        simp only
        rw [ih st' rb' h2 h3 h5]

/-- **cancel_safe_mbap** (C05/C02/C20): cancelling pending transport reads at any points of any
    delivery schedule does not change what the MBAP reader delivers -/
theorem cancel_safe_mbap (ds : List (Option Bytes)) :
    runChunksC Mbap.parse .begin RB.empty ds = Mbap.run (ds.filterMap id) :=
  mbap_cancel_from ds .begin RB.empty (by simp [Mbap.Inv, RB.empty, CAP]) trivial rfl

theorem rtu_cancel_from (d : Rtu.Dir) : ∀ (ds : List (Option Bytes)) (st : Rtu.PState) (rb : RB),
    Rtu.Inv rb → Rtu.StOk st → rb.data.length < Rtu.need st →
    runChunksC (Rtu.parse d) st rb ds = runChunks (Rtu.parse d) st rb (ds.filterMap id) := by
  intro ds
  induction ds with
  | nil => intro st rb _ _ _; rfl
  | cons x ds ih =>
    intro st rb hinv hst hb
    cases x with
    | none =>
      simp only [runChunksC, List.filterMap_cons, id]
      have hd := Rtu.normalize_data rb
      have hinv' : Rtu.Inv rb.normalize := by
        have := (Mbap.normalize_inv rb hinv).1
        unfold Rtu.Inv; rw [hd]; exact this
      have hb' : rb.normalize.data.length < Rtu.need st := by rw [hd]; exact hb
      rw [ih st rb.normalize hinv' hst hb', Rtu.runChunks_spec d _ st rb.normalize hinv' hst hb',
        Rtu.runChunks_spec d _ st rb hinv hst hb, hd]
    | some c =>
      simp only [runChunksC, List.filterMap_cons, id, runChunks]
      have hf : 3 * c.length + 2 * rb.data.length + 1 ≤ fuelFor rb c := by
        unfold fuelFor; omega
      have hp := Rtu.pump_spec d (fuelFor rb c) st rb c [] hinv hst hf
      generalize pump (Rtu.parse d) (fuelFor rb c) st rb c = q at hp
      obtain ⟨es, r⟩ := q
      cases r with
      | none => rfl
      | some v =>
        obtain ⟨st', rb'⟩ := v
        simp only [Rtu.Post] at hp
        obtain ⟨_, h2, h3, h4⟩ := hp
        simp only
        rw [ih st' rb' h2 h3 h4]

/-- **cancel_safe_rtu**: the same for the RTU reader, in both directions -/
theorem cancel_safe_rtu (d : Rtu.Dir) (ds : List (Option Bytes)) :
    runChunksC (Rtu.parse d) .start RB.empty ds = Rtu.run d (ds.filterMap id) :=
  rtu_cancel_from d ds .start RB.empty (by simp [Rtu.Inv, RB.empty, CAP]) trivial
    (by simp [RB.empty, Rtu.need])

/-! ## Sessions -/

theorem deliveriesC_cut (script : List SessStep) :
    (deliveriesC script).1.filterMap id = (cutScript script).1
    ∧ (deliveriesC script).2 = (cutScript script).2 := by
  induction script with
  | nil => exact ⟨rfl, rfl⟩
  | cons s rest ih =>
    cases s with
    | data bs => simp only [deliveriesC, cutScript, List.filterMap_cons, id]; exact ⟨by rw [ih.1], ih.2⟩
    | setDecode l => simp only [deliveriesC, cutScript, List.filterMap_cons, id]; exact ih
    | shutdown => exact ⟨rfl, rfl⟩
    | readErr => exact ⟨rfl, rfl⟩
    | eof => exact ⟨rfl, rfl⟩

theorem readerRunC_eq (fr : Framing) (ds : List (Option Bytes)) :
    readerRunC fr ds = readerRun fr (ds.filterMap id) := by
  cases fr with
  | tcp => exact cancel_safe_mbap ds
  | rtu => exact cancel_safe_rtu .request ds

/-- **session_cancel_safe**: a server session in which every `ChangeDecoding` command cancels the
    pending transport read behaves, for every configuration and script, exactly like the session
    model that ignores commands: same bytes, same handler calls, same states, same end -/
theorem session_cancel_safe {σ : Type} (fr : Framing) (cfg : ServerCfg σ) (l : DecodeLevel)
    (hs : List (Nat × σ)) (script : List SessStep) :
    runSessionC fr cfg l hs script = runSession fr cfg l hs script := by
  have h := deliveriesC_cut script
  show handleEvents fr cfg (deliveriesC script).2 hs (readerRunC fr (deliveriesC script).1)
    = handleEvents fr cfg (cutScript script).2 hs (readerRun fr (cutScript script).1)
  rw [readerRunC_eq, h.1, h.2]

/-- **session_cancel_safe_with_write_fault**: the two fault models compose — cancelled reads change
    nothing about a session with a failing transport write either, for every fault position -/
theorem session_cancel_safe_with_write_fault {σ : Type} (fr : Framing) (cfg : ServerCfg σ)
    (l : DecodeLevel) (n : Nat) (hs : List (Nat × σ)) (script : List SessStep) :
    runSessionWC fr cfg l n hs script = runSessionW fr cfg l n hs script := by
  have h := deliveriesC_cut script
  show handleEventsW fr cfg (deliveriesC script).2 n hs (readerRunC fr (deliveriesC script).1)
    = handleEventsW fr cfg (cutScript script).2 n hs (readerRun fr (cutScript script).1)
  rw [readerRunC_eq, h.1, h.2]

/-! ## Non-vacuity: a cancellation that hits a compaction -/

/-- 22 pipelined 12-byte requests = 264 bytes; the first delivery fills the buffer to its end (260)
    with a partial request at the end, the read is cancelled twice, the rest arrives: 22 frames -/
example :
    let req : Bytes := [0, 1, 0, 0, 0, 6, 1, 3, 0, 0, 0, 1]
    let stream := (List.replicate 22 req).flatten
    (runChunksC Mbap.parse .begin RB.empty [some (stream.take 260), none, none, some (stream.drop 260)]).length = 22
    ∧ (stream.take 260).length = 260 := by
  decide +kernel

end Rodbus.Cancel
