import RodbusModel.Props.C19
#print axioms Rodbus.C19.db_refines_map
#print axioms Rodbus.C19.add_succeeds_iff_absent
#print axioms Rodbus.C19.update_succeeds_iff_present
#print axioms Rodbus.C19.delete_succeeds_iff_present
#print axioms Rodbus.C19.get_fails_iff_absent
#print axioms Rodbus.C19.tables_independent
#print axioms Rodbus.C19.db_tables_independent
#print axioms Rodbus.C19.absent_point_exception_02
#print axioms Rodbus.C19.readReply_eq_atomic
#print axioms Rodbus.C19.transaction_atomic
#print axioms Rodbus.C19.read_sees_whole_transactions
#print axioms Rodbus.C19.database_tables
#print axioms Rodbus.C19.absent_is_exception_2
#print axioms Rodbus.C19.transactions_compose
#print axioms Rodbus.C19.transaction_boundaries_invisible
#print axioms Rodbus.C19.successive_transactions_refine_map
