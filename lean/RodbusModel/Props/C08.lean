import RodbusModel.Props.C01
import RodbusModel.Gen.Tables
/-
  C08  Authorization: a denied request has no effect and is answered with exception 01; an allowed
  request behaves exactly as without authorization; the decision is taken per request, before
  anything else happens to it; the built-in policies are what their names say.

  `cfg.auth = some (P, role)` models `AuthorizationType::Handler(handler, role)`; `P fc unit arg role`
  is the answer of the callback for function `fc`.  `cfg.allows dest req` is `is_authorized`,
  `cfg.question dest req` the (at most one) question put to the handler
  (Lemmas/ServerCases.lean).  The `Gen.*` tables are regenerated from the Rust source on every run.
-/
namespace Rodbus.C08
open Rodbus Rodbus.Spec.Server

/-! ## 1. Deny -/

/-- `cfg.allows … = false` means: a handler is configured and it answered `Deny` -/
theorem denied_iff {σ : Type} (cfg : ServerCfg σ) (dest : Nat) (req : Request) :
    cfg.allows dest req = false ↔
      ∃ P role, cfg.auth = some (P, role) ∧ P req.fc dest req.authArg role = false :=
  allows_false_iff cfg dest req

/-- A denied request: the only call is the authorization question, no handler state changes, and
    the answer is exception 01 (`[fc | 0x80, 1]`) — nothing at all on an RTU broadcast.  This holds
    whether or not the addressed unit is configured. -/
theorem deny_no_effect {σ : Type} (cfg : ServerCfg σ) (hs : List (Nat × σ)) (f : Frame)
    (req : Request) (hreq : requestOf f = some req) (hd : cfg.allows f.dest req = false) :
    handleFrame cfg hs f =
      ⟨if isBroadcast cfg f then none else some [req.fc.toByte + 128, 1],
        cfg.question f.dest req, hs⟩ := by
  rw [handleFrame_request cfg hs f hreq, orErr_toByte]; simp [hd]

/-- in particular no `RequestHandler` callback runs -/
theorem deny_no_handler_call {σ : Type} (cfg : ServerCfg σ) (hs : List (Nat × σ)) (f : Frame)
    (req : Request) (hreq : requestOf f = some req) (hd : cfg.allows f.dest req = false) :
    ∀ c ∈ (handleFrame cfg hs f).calls, c.isAuth = true := by
  rw [deny_no_effect cfg hs f req hreq hd]; exact question_isAuth cfg f.dest req

/-- the exception sent on deny is `IllegalFunction`, wire value 1 (generated from task.rs) -/
theorem deny_exception_is_01 : Gen.denyException.toByte = 1 := by decide

/-! ## 2. Allow -/

/-- If the handler allows the request a frame denotes, the frame is handled exactly as by a server
    without authorization — same reply, same handler calls, same new states — except that the
    authorization question is asked first. -/
theorem allow_transparent {σ : Type} (cfg : ServerCfg σ) (hs : List (Nat × σ)) (f : Frame)
    (P : AuthFn) (role : String) (hauth : cfg.auth = some (P, role))
    (hallow : ∀ req, requestOf f = some req → P req.fc f.dest req.authArg role = true) :
    handleFrame cfg hs f =
      ⟨(handleFrame { cfg with auth := none } hs f).reply,
        (match requestOf f with
          | some req => [authQuestion req f.dest role]
          | none => []) ++ (handleFrame { cfg with auth := none } hs f).calls,
        (handleFrame { cfg with auth := none } hs f).states⟩ := by
  cases hreq : requestOf f with
  | none => rw [← handleFrame_no_request_auth cfg none hs f hreq]; rfl
  | some req =>
    have ha : cfg.allows f.dest req = true := by
      simp [ServerCfg.allows, hauth, hallow req hreq]
    rw [handleFrame_request cfg hs f hreq, handleFrame_request _ hs f hreq]
    have hq : cfg.question f.dest req = [authQuestion req f.dest role] := by
      simp [ServerCfg.question, hauth]
    have ha0 : ServerCfg.allows { cfg with auth := none } f.dest req = true := rfl
    have hq0 : ServerCfg.question { cfg with auth := none } f.dest req = [] := rfl
    have hb0 : isBroadcast { cfg with auth := none } f = isBroadcast cfg f := rfl
    simp only [ha, hq, ha0, hq0, hb0, Bool.true_eq_false, if_false, List.nil_append]
    split
    · split <;> rfl
    · split <;> rfl

/-! ## 3. The question: exactly one, first, with the right arguments -/

/-- With a handler configured, a valid request causes exactly one authorization question, before
    any handler call; an invalid / unknown / empty frame causes none (and no other call). -/
theorem auth_first_and_args {σ : Type} (cfg : ServerCfg σ) (hs : List (Nat × σ)) (f : Frame)
    (P : AuthFn) (role : String) (hauth : cfg.auth = some (P, role)) :
    (∀ req, requestOf f = some req →
      ∃ rest, (handleFrame cfg hs f).calls = authQuestion req f.dest role :: rest
        ∧ ∀ c ∈ rest, c.isAuth = false)
    ∧ (requestOf f = none → (handleFrame cfg hs f).calls = []) := by
  refine ⟨?_, fun h => (handleFrame_no_request cfg hs f h).1⟩
  intro req hreq
  have hq : cfg.question f.dest req = [authQuestion req f.dest role] := by
    simp [ServerCfg.question, hauth]
  rw [handleFrame_request cfg hs f hreq, hq]
  split
  · exact ⟨[], rfl, by simp⟩
  · split
    · split
      · rename_i hw
        refine ⟨_, rfl, ?_⟩
        intro c hc
        simp only [applyToAll_write cfg.H req hw] at hc
        obtain ⟨p, _, hc⟩ := List.mem_flatMap.1 hc
        exact writeCalls_not_auth req p.1 c hc
      · exact ⟨[], rfl, by simp⟩
    · split
      · exact ⟨[], rfl, by simp⟩
      · exact ⟨_, rfl, serve_calls_not_auth _ _ _ _⟩

/-- The question carries the destination unit id, the role, and the request's range — or, for the
    two single writes, its index; the callback is the one named after the request. -/
theorem auth_question_args (u : Nat) (role : String) (r : Range) (i : Nat) (b : Bool) (v : Nat)
    (bs : List Bool) (vs : List Nat) :
    authQuestion (.readCoils r) u role = .authRange .readCoils u r role
    ∧ authQuestion (.readDiscreteInputs r) u role = .authRange .readDiscreteInputs u r role
    ∧ authQuestion (.readHoldingRegisters r) u role = .authRange .readHoldingRegisters u r role
    ∧ authQuestion (.readInputRegisters r) u role = .authRange .readInputRegisters u r role
    ∧ authQuestion (.writeSingleCoil i b) u role = .authIndex .writeSingleCoil u i role
    ∧ authQuestion (.writeSingleRegister i v) u role = .authIndex .writeSingleRegister u i role
    ∧ authQuestion (.writeMultipleCoils r bs) u role = .authRange .writeMultipleCoils u r role
    ∧ authQuestion (.writeMultipleRegisters r vs) u role = .authRange .writeMultipleRegisters u r role :=
  ⟨rfl, rfl, rfl, rfl, rfl, rfl, rfl, rfl⟩

/-- the model asks (`authCall` of `Request.authArg`) what the reference prescribes -/
theorem model_question_eq_spec (req : Request) (u : Nat) (role : String) :
    authCall req.fc u req.authArg role = authQuestion req u role :=
  authCall_eq_authQuestion req u role

/-- without a handler nothing is ever asked -/
theorem no_auth_no_question {σ : Type} (cfg : ServerCfg σ) (hs : List (Nat × σ)) (f : Frame)
    (h : cfg.auth = none) : (handleFrame cfg hs f).calls.filter Call.isAuth = [] := by
  rw [handleFrame_auth_calls]; cases requestOf f <;> simp [ServerCfg.question, h]

/-! ## 4. The decision is per request -/

/-- The questions asked for a frame, and hence the decision, are a function of the configuration
    and that frame alone: they are the same whatever the handler states, i.e. whatever was handled
    before. -/
theorem per_request {σ : Type} (cfg : ServerCfg σ) (hs hs' : List (Nat × σ)) (f : Frame) :
    (handleFrame cfg hs f).calls.filter Call.isAuth
      = (handleFrame cfg hs' f).calls.filter Call.isAuth := by
  rw [handleFrame_auth_calls, handleFrame_auth_calls]

/-- Over a whole session: the authorization questions are, in order, one per frame that is a valid
    request — each computed from its own frame; no authorization state is threaded through
    `runFrames`. -/
theorem per_request_session {σ : Type} (cfg : ServerCfg σ) (hs : List (Nat × σ)) (fs : List Frame) :
    (runFrames cfg hs fs).2.1.filter Call.isAuth =
      fs.flatMap fun f => match requestOf f with
        | some req => cfg.question f.dest req
        | none => [] := by
  induction fs generalizing hs with
  | nil => rfl
  | cons f fs ih =>
    simp only [runFrames, List.filter_append, handleFrame_auth_calls, ih, List.flatMap_cons]
    rfl

/-- a frame denied in the middle of a session leaves the session where it was: the frames after it
    are handled as if it had never arrived (apart from its exception reply) -/
theorem denied_frame_skipped {σ : Type} (cfg : ServerCfg σ) (hs : List (Nat × σ)) (f : Frame)
    (fs : List Frame) (req : Request) (hreq : requestOf f = some req)
    (hd : cfg.allows f.dest req = false) :
    (runFrames cfg hs (f :: fs)).2.2 = (runFrames cfg hs fs).2.2
    ∧ (runFrames cfg hs (f :: fs)).2.1 = cfg.question f.dest req ++ (runFrames cfg hs fs).2.1 := by
  constructor <;> simp [runFrames, deny_no_effect cfg hs f req hreq hd]

/-! ## 5. Generated tables -/

/-- `check_authorization` (generated from task.rs): each request kind is put to the callback of the
    same name, and the argument is the index exactly for the two single writes — which is what the
    model (`Request.authArg`, `authQuestion`) does -/
theorem auth_table_correct (req : Request) (u : Nat) (role : String) :
    ∃ cb idx, Gen.authTable.lookup req.fc = some (cb, idx) ∧ cb = req.fc
      ∧ (idx = true ↔ req.fc = .writeSingleCoil ∨ req.fc = .writeSingleRegister)
      ∧ authQuestion req u role =
          (match req.authArg with
            | .range r => .authRange cb u r role
            | .index i => .authIndex cb u i role)
      ∧ (idx = true ↔ ∃ i, req.authArg = .index i) := by
  cases req <;> refine ⟨_, _, rfl, rfl, ?_, rfl, ?_⟩ <;> simp [Request.fc, Request.authArg]

/-- the table has one row per function code -/
theorem auth_table_complete : Gen.authTable.map (·.1) = Fc.all := by decide

/-- `ReadOnlyAuthorizationHandler` (generated): allow ⇔ the function is a read -/
theorem read_only_policy (fc : Fc) : Gen.readOnlyPolicy.lookup fc = some fc.isRead := by
  cases fc <;> rfl

/-- the default methods of `AuthorizationHandler` (generated): deny everything -/
theorem default_deny (fc : Fc) : Gen.defaultPolicy.lookup fc = some false := by
  cases fc <;> rfl

/-! ## Non-vacuity -/

open Demo

/-- a write under the read-only policy: exception 01, one question, no handler call, no change -/
example : (handleFrame tlsReadOnly units ⟨some 9, 1, writeCoil⟩).reply = some [0x85, 1]
    ∧ (handleFrame tlsReadOnly units ⟨some 9, 1, writeCoil⟩).calls
        = [.authIndex .writeSingleCoil 1 1 "viewer"]
    ∧ (handleFrame tlsReadOnly units ⟨some 9, 1, writeCoil⟩).states = units := by
  rw [C01.handleFrame_eq_spec]; decide

/-- the hypotheses of `deny_no_effect` hold for it -/
example : requestOf ⟨some 9, 1, writeCoil⟩ = some (.writeSingleCoil 1 true)
    ∧ tlsReadOnly.allows 1 (.writeSingleCoil 1 true) = false := by decide

/-- a read under the same policy: question first, then the reads, normal reply -/
example : (handleFrame tlsReadOnly units ⟨some 9, 2, [1, 0, 0, 0, 2]⟩).reply = some [1, 1, 0]
    ∧ (handleFrame tlsReadOnly units ⟨some 9, 2, [1, 0, 0, 0, 2]⟩).calls
        = [.authRange .readCoils 2 ⟨0, 2⟩ "viewer", .readCoil 2 0, .readCoil 2 1] := by
  rw [C01.handleFrame_eq_spec]; decide

/-- a denied write to an unconfigured unit is still answered with exception 01 -/
example : (handleFrame tlsReadOnly units ⟨some 9, 77, writeCoil⟩).reply = some [0x85, 1] := by
  rw [C01.handleFrame_eq_spec]; decide

/-- an invalid request is answered 03 without consulting the authorization handler -/
example : (handleFrame tlsReadOnly units ⟨some 9, 1, readZero⟩).reply = some [0x81, 3]
    ∧ (handleFrame tlsReadOnly units ⟨some 9, 1, readZero⟩).calls = [] := by
  rw [C01.handleFrame_eq_spec]; decide

/-- the demo policy is the generated read-only table -/
example : ∀ fc ∈ Fc.all, Gen.readOnlyPolicy.lookup fc = some (readOnly fc 0 (.index 0) "") := by
  decide

end Rodbus.C08
