import RodbusModel.Props.C09
#print axioms Rodbus.C09.versions_correct
#print axioms Rodbus.C09.tls_table_correct
#print axioms Rodbus.C09.negotiated_at_least_min
#print axioms Rodbus.C09.negotiation_succeeds
#print axioms Rodbus.C09.admit_iff
#print axioms Rodbus.C09.role_is_certificate_role
#print axioms Rodbus.C09.no_role_refused
#print axioms Rodbus.C09.no_authz_no_role
#print axioms Rodbus.C09.client_admit_iff
#print axioms Rodbus.C09.cert_accepted_meaning
#print axioms Rodbus.C09.no_certificate_refused
#print axioms Rodbus.C09.extra_certificates_irrelevant
#print axioms Rodbus.C09.role_is_end_entity_role
#print axioms Rodbus.C09.self_signed_single_certificate
#print axioms Rodbus.C09.empty_chain_refused
#print axioms Rodbus.C09.roleless_end_entity_refused
