"""Translation between the `pty` suites (production serial server / client over a pseudo-terminal) and
the in-memory suites whose Lean model produces the expected value.

pty srv <units> <script>   is expected to print what the model prints for
    srv r d000 - <units> <script without ~/R/B steps>      minus the ` end=…` field;
pty cli <script>           is expected to print req= res= port= derived from the model's log of the
    corresponding `cl r d000 q4 m0 …` script (derivation below).
The derivation is plain bookkeeping over the model's output; it is part of the trusted glue."""
import re


def mem_case(line):
    tok = line.split()
    if tok[1] == "port":          # the serial channel task's life cycle: same arguments, driver suite `sport`
        return "sport " + " ".join(tok[2:])
    if tok[1] == "rsrv":          # the RTU server task's open / retry life cycle: same arguments, driver suite `sserver`
        return "sserver " + " ".join(tok[2:])
    return srv_mem_case(line) if tok[1] == "srv" else cli_mem_case(line)[0]


def expected(line, mem_out):
    tok = line.split()
    if tok[1] in ("port", "rsrv"):
        return mem_out
    if tok[1] == "srv":
        return re.sub(r" end=\S+$", "", mem_out)
    cl, nreq, retry = cli_mem_case(line)
    return cli_expected_line(cl, mem_out, nreq, retry)


# ---------------------------------------------------------------- srv
def srv_mem_case(line):
    """With a short retry delay (R<ms>) the production task re-opens the port after a failed
    session: handlers (state, call log) live on, only the parser starts afresh.  Convention of the
    re-open cases: the chunk right before a pause longer than the retry delay is a lone
    session-ending frame (no reply, no call), so the expected output is that of the in-memory
    session over the remaining chunks."""
    _, _, units, script = line.split()
    steps = script.split(",")
    retry = 5000
    for s in steps:
        if s[0] == "R":
            retry = int(s[1:])
    keep = []
    for s in steps:
        if s[0] == "~" and int(s[1:]) > retry and keep:
            keep.pop()
        elif s[0] not in "~RB" and s != "!s":
            keep.append(s)
    return "srv r d000 - %s %s" % (units, ",".join(keep) if keep else "-")


# ---------------------------------------------------------------- cli
def cli_mem_case(line):
    """pty cli script -> cl script; returns (case line, number of requests, retry ms)"""
    steps = line.split()[2].split(",")
    retry = 5000
    while steps and steps[0][0] in "RB":
        if steps[0][0] == "R":
            retry = int(steps[0][1:])
        steps = steps[1:]
    uses_d = "D" in steps
    newsess = "N" if uses_d else "N,F%d" % retry
    out = [newsess, "E"]
    rid = 0
    pending_timeout = None
    answered = False

    def close_request():
        nonlocal pending_timeout, answered
        if pending_timeout is not None and not answered:
            out.append("A%d" % (pending_timeout + 1))
        pending_timeout = None
        answered = False
    for s in steps:
        if s.startswith("q"):
            close_request()
            rid += 1
            kind, unit, timeout, a, b = s[1:].split(".")
            out.append("R0.%d.%s.%s.%s.%s.%s" % (rid, kind, unit, timeout, a, b))
            pending_timeout = int(timeout)
        elif s.startswith("a"):
            if s != "a-":
                out.append("X" + s[1:])
                answered = True
        elif s.startswith("~"):
            out.append("A" + s[1:])
            if int(s[1:]) > retry:
                out.append(newsess)
        elif s == "D":
            close_request()
            out += ["D0", "V"]
        elif s == "E":
            close_request()
            out += ["E0", "N"]
    close_request()
    return "cl r d000 q4 m0 " + ",".join(out), rid, retry


def cli_expected_line(case_cl, mem_out, nreq, retry):
    reqs, res = [], {}
    for g in mem_out.split(" | "):
        if g == "-" or g.startswith("fin."):
            continue
        for e in g.split(";"):
            if e.startswith("sub."):
                m = re.match(r"sub\.(\d+)\.err\.(.*)$", e)
                if m:
                    res[int(m.group(1))] = m.group(2)
            elif e.startswith("done."):
                m = re.match(r"done\.(\d+)\.(.*)\.@\d+(\.dup\d+)?$", e)
                if m:
                    res[int(m.group(1))] = m.group(2) + (m.group(3) or "")
            elif e.startswith("tx."):
                reqs.append(e[3:])
    results = [res.get(i, "missing") for i in range(1, nreq + 1)]
    it = iter(reqs)
    rq = []
    for r in results:
        rq.append("-" if (r.startswith("badreq") or r == "noconn") else next(it, "missing"))
    rest = list(it)
    port = cli_port_expected(case_cl, mem_out, retry)
    line = "req=%s res=%s port=%s" % (";".join(rq) or "-", ";".join(results) or "-", ",".join(port))
    if rest:
        line += " extra-tx=" + ";".join(rest)
    return line


def cli_port_expected(case_cl, mem_out, retry):
    """port sequence: walk the cl steps and their log groups together"""
    steps = case_cl.split()[5].split(",")
    groups = mem_out.split(" | ")
    port = ["Disabled"]
    queued = []
    running = None

    def start_next():
        nonlocal running
        if running is None and queued:
            running = queued.pop(0)
            if running == "N":
                port.append("Open")
    for step, g in zip(steps, groups):
        if step in ("N", "V") or step.startswith("F"):
            queued.append(step)
        ends = [e for e in ([] if g == "-" else g.split(";")) if e.startswith("end.")]
        start_next()
        for e in ends:
            kind = e.split(".")[1]
            if running == "N":
                if kind == "disabled":
                    port.append("Disabled")
                    # the serial task does not wait after a disable
                    if queued and queued[0].startswith("F"):
                        queued.pop(0)
                elif kind != "shutdown":
                    port.append("Wait(%d)" % retry)
            running = None
            start_next()
    port.append("Shutdown")
    return port
