//! `tls` suite (C09): the production rodbus TLS endpoints against an *independent* peer
//! (`openssl s_client` / `openssl s_server`) on loopback, certificates from /verif/certs.
//!
//! tls srv <min 12|13> <mode ca|ss> <authz 0|1> <peer versions 12|13|both> <peer cert|none> [<expected peer cert for ss>]
//! tls srvseq …the same, with `<cert1>,<cert2>,…`: several peers, one after the other, on ONE server
//!            instance; one result group per peer, joined by ` ; `
//! tls cli <min 12|13> <mode ca|ss> <peer versions 12|13|both> <server cert> <server name|-> [<expected peer cert for ss>]
use crate::points::*;
use crate::util::*;
use rodbus::client::*;
use rodbus::server::*;
use rodbus::*;
use std::path::{Path, PathBuf};
use std::process::Stdio;
use std::sync::{Arc, Mutex};
use std::time::Duration;

fn certs() -> PathBuf {
    PathBuf::from(std::env::var("VERIF_CERTS").unwrap_or_else(|_| "/verif/certs".into()))
}

fn cert(name: &str) -> PathBuf {
    certs().join(format!("{name}_cert.pem"))
}

fn key(name: &str) -> PathBuf {
    certs().join(format!("{name}_key.pem"))
}

fn min_version(tok: &str) -> MinTlsVersion {
    if tok == "13" {
        MinTlsVersion::V1_3
    } else {
        MinTlsVersion::V1_2
    }
}

fn version_flags(tok: &str) -> Vec<&'static str> {
    match tok {
        "12" => vec!["-tls1_2"],
        "13" => vec!["-tls1_3"],
        _ => vec!["-min_protocol", "TLSv1.2", "-max_protocol", "TLSv1.3"],
    }
}

fn negotiated(stderr: &str) -> &'static str {
    if stderr.contains("TLSv1.3") {
        "1.3"
    } else if stderr.contains("TLSv1.2") {
        "1.2"
    } else {
        "-"
    }
}

async fn free_port() -> u16 {
    let l = tokio::net::TcpListener::bind("127.0.0.1:0").await.unwrap();
    l.local_addr().unwrap().port()
}

async fn run_srv(tok: &[&str]) -> String {
    let min = min_version(tok[2]);
    let mode_ca = tok[3] == "ca";
    let authz = tok[4] == "1";
    let peer_cert = tok[6];
    let log: Log = Arc::new(Mutex::new(Vec::new()));
    let mut map: ServerHandlerMap<TestHandler> = ServerHandlerMap::new();
    map.add(
        UnitId::new(1),
        TestHandler {
            unit: 1,
            points: Points::parse("s2.0.10.1"),
            log: log.clone(),
        }
        .wrap(),
    );
    let (trust, local) = if mode_ca {
        (cert("ca1"), "srv_ok")
    } else {
        (cert(tok.get(7).copied().unwrap_or("ss_b")), "ss_a")
    };
    let cfg = match TlsServerConfig::new(
        &trust,
        &cert(local),
        &key(local),
        None,
        min,
        if mode_ca {
            CertificateMode::AuthorityBased
        } else {
            CertificateMode::SelfSigned
        },
    ) {
        Ok(c) => c,
        Err(e) => return format!("config-error:{e}"),
    };
    let listener = tokio::net::TcpListener::bind("127.0.0.1:0").await.unwrap();
    let port = listener.local_addr().unwrap().port();
    let (handle, task) = if authz {
        create_tls_server_task_with_authz(
            4,
            listener,
            map,
            Arc::new(TestAuth {
                policy: Policy::Allow,
                log: log.clone(),
            }),
            cfg,
            AddressFilter::Any,
            DecodeLevel::nothing(),
        )
    } else {
        create_tls_server_task(4, listener, map, cfg, AddressFilter::Any, DecodeLevel::nothing())
    };
    let join = tokio::spawn(task.run());
    // `srvseq`: the peers connect one after the other to the same server instance
    let peers: Vec<String> = if tok[1] == "srvseq" {
        peer_cert.split(',').map(|x| x.to_string()).collect()
    } else {
        vec![peer_cert.to_string()]
    };
    let mut groups: Vec<String> = Vec::new();
    // `silent`: a peer that connects and never sends a byte; it stays connected for the rest of the
    // case (a pending handshake must not keep other peers from being served)
    let mut silent: Vec<tokio::net::TcpStream> = Vec::new();
    for peer_cert in peers {
        if peer_cert == "silent" {
            if let Ok(s) = tokio::net::TcpStream::connect(("127.0.0.1", port)).await {
                silent.push(s);
            }
            tokio::time::sleep(Duration::from_millis(50)).await;
            groups.push("hs=fail ver=- reply=- role=- calls=0".to_string());
            continue;
        }
        let seen = log.lock().unwrap().len();
        let (reply, err) = match one_peer(port, tok[5], &peer_cert).await {
            Ok(x) => x,
            Err(e) => return e,
        };
        let n = reply.len();
        let hs = n > 0;
        // what this peer's session logged (the previous peer is gone: its process was killed
        // and reaped before the next one starts)
        let calls: Vec<String> = log.lock().unwrap()[seen..].to_vec();
        let role = calls
            .iter()
            .find(|c| c.starts_with('A'))
            .map(|c| c.rsplit('.').next().unwrap_or("-").to_string())
            .unwrap_or("-".into());
        groups.push(format!(
            "hs={} ver={} reply={} role={} calls={}",
            if hs { "ok" } else { "fail" },
            if hs { negotiated(&err) } else { "-" },
            hex(&reply),
            role,
            calls.iter().filter(|c| !c.starts_with('A')).count()
        ));
    }
    drop(silent);
    drop(handle);
    let _ = tokio::time::timeout(Duration::from_millis(500), join).await;
    groups.join(" ; ")
}

/// one independent peer (`openssl s_client`): handshake, one request, the reply (if any) and the
/// peer's diagnostics
async fn one_peer(port: u16, versions: &str, peer_cert: &str) -> Result<(Vec<u8>, String), String> {
    let mut cmd = std::process::Command::new("openssl");
    cmd.arg("s_client")
        .arg("-connect")
        .arg(format!("127.0.0.1:{port}"))
        .arg("-brief")
        .arg("-no_ign_eof")
        .arg("-servername")
        .arg("test.com");
    for f in version_flags(versions) {
        cmd.arg(f);
    }
    if peer_cert != "none" {
        // `a+b`: a is the end entity, b is sent after it in the Certificate message
        let mut parts = peer_cert.split('+');
        let first = parts.next().unwrap();
        cmd.arg("-cert").arg(cert(first)).arg("-key").arg(key(first));
        if let Some(extra) = parts.next() {
            cmd.arg("-cert_chain").arg(cert(extra));
        }
    }
    cmd.stdin(Stdio::piped()).stdout(Stdio::piped()).stderr(Stdio::piped());
    tokio::task::spawn_blocking(move || {
        use std::io::{Read, Write};
        let mut child = cmd.spawn().map_err(|e| format!("spawn-error:{e}"))?;
        let mut stdin = child.stdin.take().unwrap();
        let mut stdout = child.stdout.take().unwrap();
        let mut stderr = child.stderr.take().unwrap();
        // give the handshake time, then send one request (read holding register 0 of unit 1)
        std::thread::sleep(Duration::from_millis(250));
        let _ = stdin.write_all(&[0, 7, 0, 0, 0, 6, 1, 3, 0, 0, 0, 1]);
        let _ = stdin.flush();
        let (tx, rx) = std::sync::mpsc::channel();
        std::thread::spawn(move || {
            let mut buf = vec![0u8; 64];
            let n = stdout.read(&mut buf).unwrap_or(0);
            buf.truncate(n);
            let _ = tx.send(buf);
        });
        let reply = rx.recv_timeout(Duration::from_millis(700)).unwrap_or_default();
        drop(stdin);
        let _ = child.kill();
        let mut err = String::new();
        let _ = stderr.read_to_string(&mut err);
        let _ = child.wait();
        Ok::<_, String>((reply, err))
    })
    .await
    .unwrap()
}

struct StateLog {
    tx: tokio::sync::mpsc::UnboundedSender<ClientState>,
}

impl Listener<ClientState> for StateLog {
    fn update(&mut self, value: ClientState) -> MaybeAsync<()> {
        let _ = self.tx.send(value);
        MaybeAsync::ready(())
    }
}

async fn run_cli(tok: &[&str]) -> String {
    let min = min_version(tok[2]);
    // `cad` / `ssd`: the deprecated constructor `TlsClientConfig::new` and a DNS host name
    let mode_ca = tok[3] == "ca" || tok[3] == "cad";
    let deprecated = tok[3] == "cad" || tok[3] == "ssd";
    let server_cert = tok[5];
    let name = tok[6];
    let port = free_port().await;
    // the independent peer: openssl s_server requiring a client certificate
    let mut cmd2 = std::process::Command::new("openssl");
    cmd2.arg("s_server")
        .arg("-accept")
        .arg(format!("127.0.0.1:{port}"))
        .arg("-cert")
        .arg(cert(server_cert.split('+').next().unwrap()))
        .arg("-key")
        .arg(key(server_cert.split('+').next().unwrap()))
        .arg("-CAfile")
        .arg(if mode_ca { cert("ca1") } else { cert("ss_a") })
        .arg("-Verify")
        .arg("1")
        .arg("-brief");
    // `a+b`: the server sends certificate b after its own certificate a
    if let Some(extra) = server_cert.split('+').nth(1) {
        cmd2.arg("-cert_chain").arg(cert(extra));
    }
    for f in version_flags(tok[4]) {
        cmd2.arg(f);
    }
    cmd2.stdin(Stdio::piped()).stdout(Stdio::piped()).stderr(Stdio::piped());
    let mut child = match cmd2.spawn() {
        Ok(c) => c,
        Err(e) => return format!("spawn-error:{e}"),
    };
    tokio::time::sleep(Duration::from_millis(300)).await;

    #[allow(deprecated)]
    let cfg = if deprecated {
        TlsClientConfig::new(
            name,
            &if mode_ca {
                cert("ca1")
            } else {
                cert(tok.get(7).copied().unwrap_or(server_cert))
            },
            &cert(if mode_ca { "cli_operator" } else { "ss_a" }),
            &key(if mode_ca { "cli_operator" } else { "ss_a" }),
            None,
            min,
            if mode_ca {
                CertificateMode::AuthorityBased
            } else {
                CertificateMode::SelfSigned
            },
        )
    } else if mode_ca {
        TlsClientConfig::full_pki(
            if name == "-" { None } else { Some(name.to_string()) },
            &cert("ca1"),
            &cert("cli_operator"),
            &key("cli_operator"),
            None,
            min,
        )
    } else {
        TlsClientConfig::self_signed(
            &cert(tok.get(7).copied().unwrap_or(server_cert)),
            &cert("ss_a"),
            &key("ss_a"),
            None,
            min,
        )
    };
    let cfg = match cfg {
        Ok(c) => c,
        Err(e) => return format!("config-error:{e}"),
    };
    let (tx, mut rx) = tokio::sync::mpsc::unbounded_channel();
    let (channel, task) = create_tls_client_task_with_options(
        if deprecated {
            HostAddr::dns("localhost".to_string(), port)
        } else {
            HostAddr::ip("127.0.0.1".parse().unwrap(), port)
        },
        doubling_retry_strategy(Duration::from_millis(2000), Duration::from_millis(2000)),
        cfg,
        Some(Box::new(StateLog { tx })),
        ClientOptions::default(),
    );
    let join = tokio::spawn(task.run());
    channel.enable().await.unwrap();
    let mut outcome = "none";
    let deadline = tokio::time::Instant::now() + Duration::from_millis(1500);
    loop {
        match tokio::time::timeout_at(deadline, rx.recv()).await {
            Ok(Some(ClientState::Connected)) => {
                outcome = "ok";
                break;
            }
            Ok(Some(ClientState::WaitAfterFailedConnect(_))) => {
                outcome = "fail";
                break;
            }
            Ok(Some(_)) => {}
            _ => break,
        }
    }
    // a connection that was announced must be usable: the peer does not answer, so a request
    // times out (and does not fail with an I/O error)
    let mut req = "-".to_string();
    if outcome == "ok" {
        let r = channel
            .read_holding_registers(
                RequestParam::new(UnitId::new(1), Duration::from_millis(200)),
                AddressRange::try_from(0, 1).unwrap(),
            )
            .await;
        req = match r {
            Ok(_) => "ok".into(),
            Err(e) => req_err(e),
        };
    }
    let _ = channel.shutdown().await;
    let _ = tokio::time::timeout(Duration::from_millis(500), join).await;
    let _ = child.kill();
    let err = tokio::task::spawn_blocking(move || {
        child
            .wait_with_output()
            .map(|o| String::from_utf8_lossy(&o.stderr).to_string())
            .unwrap_or_default()
    })
    .await
    .unwrap_or_default();
    format!(
        "hs={} ver={} req={}",
        outcome,
        if outcome == "ok" { negotiated(&err) } else { "-" },
        req
    )
}

pub async fn run_tls(tok: &[&str]) -> String {
    let _ = Path::new("/");
    if tok[1] == "srv" || tok[1] == "srvseq" {
        run_srv(tok).await
    } else {
        run_cli(tok).await
    }
}
