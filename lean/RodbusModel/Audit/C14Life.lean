import RodbusModel.Props.C14Life
#print axioms Rodbus.C14Life.conforms_append
#print axioms Rodbus.C14Life.counter_append
#print axioms Rodbus.C14Life.DelayPhase.congr
#print axioms Rodbus.C14Life.delay_zero
#print axioms Rodbus.C14Life.step_delay
#print axioms Rodbus.C14Life.advance_delay
#print axioms Rodbus.C14Life.delayRun_start
#print axioms Rodbus.C14Life.stop_delayRun
#print axioms Rodbus.C14Life.runStops_delayRun
#print axioms Rodbus.C14Life.announced_delays_conform
#print axioms Rodbus.C14Life.logged_delays_conform
#print axioms Rodbus.C14Life.conforms_last
#print axioms Rodbus.C14Life.counter_spec
