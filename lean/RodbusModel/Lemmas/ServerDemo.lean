import RodbusModel.Lemmas.ServerServe
/-
  A small concrete application (handler, unit map, configurations) used by the non-vacuity
  examples of Props/C01, C02, C08, C17.  Nothing else depends on it.
-/
namespace Rodbus.Demo

/-- a tiny point database: coils and holding registers; discrete inputs and input registers are
    computed from the address -/
structure Db where
  coils : List Bool
  regs : List Nat
deriving DecidableEq, Repr

/-- exception 02 (illegal data address) outside the database -/
def H : Handler Db where
  readCoil s a := if h : a < s.coils.length then .ok s.coils[a] else .error 2
  readDiscreteInput _ a := if a < 16 then .ok (a % 2 == 1) else .error 2
  readHoldingRegister s a := if h : a < s.regs.length then .ok s.regs[a] else .error 2
  readInputRegister _ a := if a < 16 then .ok (a * 1000) else .error 2
  writeSingleCoil s i v :=
    if i < s.coils.length then (.ok (), { s with coils := s.coils.set i v }) else (.error 2, s)
  writeSingleRegister s i v :=
    if i < s.regs.length then (.ok (), { s with regs := s.regs.set i v }) else (.error 2, s)
  writeMultipleCoils s r items :=
    if r.start + r.count ≤ s.coils.length then
      (.ok (), { s with coils := items.foldl (fun cs p => cs.set p.1 p.2) s.coils })
    else (.error 2, s)
  writeMultipleRegisters s r items :=
    if r.start + r.count ≤ s.regs.length then
      (.ok (), { s with regs := items.foldl (fun rs p => rs.set p.1 p.2) s.regs })
    else (.error 2, s)

def db1 : Db := ⟨[true, false, true, true, false, false, true, false, true, true], [0x1234, 0xABCD, 7]⟩
def db2 : Db := ⟨[false, false], [1, 2]⟩

/-- two configured units, ascending ids like the `BTreeMap` of the implementation -/
def units : List (Nat × Db) := [(1, db1), (2, db2)]

/-- the built-in read-only policy (`ReadOnlyAuthorizationHandler`) -/
def readOnly : AuthFn := fun fc _ _ _ => fc.isRead

def tcp : ServerCfg Db := ⟨false, H, none⟩
def rtu : ServerCfg Db := ⟨true, H, none⟩
def tlsReadOnly : ServerCfg Db := ⟨false, H, some (readOnly, "viewer")⟩

/-- read 8 coils from address 0 -/
def readCoils8 : Bytes := [1, 0, 0, 0, 8]
/-- read 10 coils from address 0 -/
def readCoils10 : Bytes := [1, 0, 0, 0, 10]
/-- read 3 holding registers from address 0 -/
def readRegs3 : Bytes := [3, 0, 0, 0, 3]
/-- read 3 holding registers from address 2: address 3 does not exist -/
def readRegsFail : Bytes := [3, 0, 2, 0, 3]
/-- write single coil 1 := ON -/
def writeCoil : Bytes := [5, 0, 1, 0xFF, 0]
/-- write 2 registers 0x0102, 0x0304 at address 0 -/
def writeRegs : Bytes := [16, 0, 0, 0, 2, 4, 1, 2, 3, 4]
/-- read 0 coils: invalid -/
def readZero : Bytes := [1, 0, 0, 0, 0]

end Rodbus.Demo
