import RodbusModel.Lemmas.ServerDemo
/-
  C01  The server replies exactly as the Modbus application protocol prescribes.

  Quantifiers: every request PDU (function code 0..255 × every payload, in fact every list of
  naturals — no well-formedness of the bytes is needed except where stated), every handler
  (`Handler σ` over an arbitrary state type, i.e. every per-address value / exception map), every
  unit-id map `hs`, TCP and RTU framing (`cfg.rtu`), with or without an authorization handler,
  every sequence of frames (`runFrames`).

  Only property theorems and non-vacuity examples; proofs are in Lemmas/{Codec,Server,ServerCases,
  ServerServe}.lean.  Vocabulary:
    `handleFrame cfg hs f`   model of `SessionTask::handle_frame`               (Model/Server.lean)
    `parseRequest`           model of `Request::parse` (cursor style)          (Model/Pdu.lean)
    `respond`, `validBody`, `decode`, `serve`   the reference server           (Spec/Server.lean)
    `requestOf f`            the request a frame denotes (`validBody`/`decode`) (Lemmas/ServerCases)
    `isBroadcast`, `cfg.allows`, `cfg.question`, `mkRead`, `readCall`, `H.readBit`, `H.readReg`,
    `H.readErr`, `writeCalls`, `H.applyWrite`, `writeEcho`, `frameReply`, `silent`   (same file)
-/
namespace Rodbus.C01
open Rodbus Rodbus.Spec.Server

/-! ## 1. The model is the reference server -/

/-- THE central theorem: for every configuration, unit map and frame the model of
    `handle_frame` produces the reply, the application calls (in order) and the new handler states
    that the declarative reference server prescribes.  No hypothesis on the bytes is needed. -/
theorem handleFrame_eq_spec {σ : Type} (cfg : ServerCfg σ) (hs : List (Nat × σ)) (f : Frame) :
    handleFrame cfg hs f = respond cfg hs f :=
  handleFrame_eq_respond cfg hs f

/-- the form asked for in the plan (with the byte well-formedness hypothesis, which is not used) -/
theorem handleFrame_eq_spec_wf {σ : Type} (cfg : ServerCfg σ) (hs : List (Nat × σ)) (f : Frame)
    (_ : Bytes.WF f.pdu) : handleFrame cfg hs f = respond cfg hs f :=
  handleFrame_eq_respond cfg hs f

/-- `Request::parse` (cursor style: range, limit, byte count, payload, `expect_empty`) accepts
    exactly the bodies that are valid by position and length, and yields the request they denote -/
theorem parse_iff_valid (fc : Fc) (body : Bytes) (r : Request) :
    parseRequest fc body = some r ↔ validBody fc body = true ∧ r = decode fc body :=
  parseRequest_iff fc body r

/-- …and rejects every other body -/
theorem parse_none_iff_invalid (fc : Fc) (body : Bytes) :
    parseRequest fc body = none ↔ validBody fc body = false := by
  rw [parseRequest_eq]; cases validBody fc body <;> simp

/-- `requestOf` (used below to say "the frame is a valid request") means: known function code
    followed by a valid body -/
theorem request_of_frame (f : Frame) (req : Request) :
    requestOf f = some req ↔
      ∃ b body fc, f.pdu = b :: body ∧ Fc.ofByte b = some fc ∧ validBody fc body = true
        ∧ req = decode fc body :=
  requestOf_some_iff f req

/-- `AddressRange::try_from` on u16 arguments -/
theorem range_tryFrom (s c : Nat) (hc : c < 65536) (r : Range) :
    Range.tryFrom s c = .ok r ↔ c ≠ 0 ∧ s + c ≤ 65536 ∧ r = ⟨s, c⟩ :=
  Range.tryFrom_ok_iff (Nat.le_of_lt hc) r

/-- a session of the model is the same session of the reference server (`specRun`: the fold of
    `respond` over the frames) -/
theorem runFrames_eq_spec {σ : Type} (cfg : ServerCfg σ) (hs : List (Nat × σ)) (fs : List Frame) :
    runFrames cfg hs fs = specRun cfg hs fs :=
  runFrames_eq_specRun cfg hs fs

/-! ## 2. Framing of replies -/

/-- MBAP: transaction id of the request, protocol id 0, length = PDU + unit byte, unit id, PDU -/
theorem reply_framing_tcp (f : Frame) (tx : Nat) (h : f.tx = some tx) (pdu : Bytes) :
    frameReply false f pdu = u16be tx ++ [0, 0] ++ u16be (pdu.length + 1) ++ [f.dest] ++ pdu := by
  simp [frameReply, Mbap.format, h]

/-- RTU: address of the request, PDU, CRC-16 of both, low byte first -/
theorem reply_framing_rtu (f : Frame) (pdu : Bytes) :
    frameReply true f pdu = [f.dest] ++ pdu ++ u16le (Crc.crc ([f.dest] ++ pdu)) := by
  simp [frameReply, Rtu.format]

/-- every reply PDU the server produces has at most 253 bytes (read quantities are ≤ 2000 / 125) -/
theorem reply_pdu_len {σ : Type} (cfg : ServerCfg σ) (hs : List (Nat × σ)) (f : Frame)
    (pdu : Bytes) (h : (handleFrame cfg hs f).reply = some pdu) : pdu.length ≤ 253 :=
  handleFrame_reply_len cfg hs f pdu h

/-- …so the framed reply never exceeds the 260-byte writer buffer: MBAP ≤ 7 + 253, RTU ≤ 1 + 253 + 2 -/
theorem framed_reply_len {σ : Type} (cfg : ServerCfg σ) (hs : List (Nat × σ)) (f : Frame)
    (pdu : Bytes) (h : (handleFrame cfg hs f).reply = some pdu) :
    (frameReply false f pdu).length ≤ 260 ∧ (frameReply true f pdu).length ≤ 256 := by
  have := handleFrame_reply_len cfg hs f pdu h
  simp [frameReply, Mbap.format, Rtu.format, u16be, u16le]; omega

/-! ## 3. Frames that are not requests -/

/-- an empty PDU is ignored -/
theorem empty_pdu_silent {σ : Type} (cfg : ServerCfg σ) (hs : List (Nat × σ)) (f : Frame)
    (h : f.pdu = []) : handleFrame cfg hs f = ⟨none, [], hs⟩ :=
  handleFrame_empty cfg hs f h

/-- a function code that is not one of the eight supported ones, sent to a configured unit:
    exception 01 with the function byte `| 0x80`, no calls, nothing changes -/
theorem unknown_function_reply {σ : Type} (cfg : ServerCfg σ) (hs : List (Nat × σ)) (f : Frame)
    (b : Nat) (body : Bytes) (s : σ) (hp : f.pdu = b :: body) (hfc : Fc.ofByte b = none)
    (hb : isBroadcast cfg f = false) (hl : lookupUnit hs f.dest = some s) :
    handleFrame cfg hs f = ⟨some [orErr b, 1], [], hs⟩ := by
  rw [handleFrame_unknown cfg hs f hp hfc]; simp [hb, hl]

/-- the supported function codes are exactly 1, 2, 3, 4, 5, 6, 15, 16 -/
theorem unknown_function_iff (b : Nat) :
    Fc.ofByte b = none ↔ b ∉ [1, 2, 3, 4, 5, 6, 15, 16] := by
  unfold Fc.ofByte
  repeat' split
  all_goals simp_all

/-- on bytes, `orErr` sets the top bit -/
theorem orErr_is_or_0x80 (b : Nat) (h : b < 256) : orErr b = b ||| 0x80 := orErr_eq_lor b h

/-- a supported function with an invalid body (wrong length, quantity 0 or over the limit,
    address overflow, undefined coil value), sent to a configured unit: exception 03 -/
theorem invalid_request_reply {σ : Type} (cfg : ServerCfg σ) (hs : List (Nat × σ)) (f : Frame)
    (fc : Fc) (body : Bytes) (s : σ) (hp : f.pdu = fc.toByte :: body)
    (hv : validBody fc body = false)
    (hb : isBroadcast cfg f = false) (hl : lookupUnit hs f.dest = some s) :
    handleFrame cfg hs f = ⟨some [fc.toByte + 128, 3], [], hs⟩ := by
  rw [handleFrame_invalid cfg hs f hp (Fc.ofByte_toByte fc) hv, orErr_toByte]; simp [hb, hl]

/-- a frame for a unit id nobody is configured for is never answered and never reaches a handler,
    unless an authorization handler denies it (that case is `C08.deny_no_effect`) -/
theorem unconfigured_silent {σ : Type} (cfg : ServerCfg σ) (hs : List (Nat × σ)) (f : Frame)
    (hb : isBroadcast cfg f = false) (hl : lookupUnit hs f.dest = none)
    (hok : ∀ req, requestOf f = some req → cfg.allows f.dest req = true) :
    (handleFrame cfg hs f).reply = none ∧ (∀ c ∈ (handleFrame cfg hs f).calls, c.isAuth = true)
      ∧ (handleFrame cfg hs f).states = hs := by
  cases hreq : requestOf f with
  | none =>
    obtain ⟨h1, h2, h3⟩ := handleFrame_no_request cfg hs f hreq
    exact ⟨h3 (Or.inr hl), by simp [h1], h2⟩
  | some req =>
    rw [handleFrame_request cfg hs f hreq]
    simp only [hok req hreq, hb, hl, Bool.true_eq_false, Bool.false_eq_true, if_false]
    exact ⟨trivial, question_isAuth cfg f.dest req, trivial⟩

/-- without an authorization handler such a frame has no effect whatsoever, whatever its PDU -/
theorem unconfigured_silent_no_auth {σ : Type} (cfg : ServerCfg σ) (hs : List (Nat × σ)) (f : Frame)
    (hb : isBroadcast cfg f = false) (hl : lookupUnit hs f.dest = none) (ha : cfg.auth = none) :
    handleFrame cfg hs f = ⟨none, [], hs⟩ := by
  cases hreq : requestOf f with
  | none =>
    obtain ⟨h1, h2, h3⟩ := handleFrame_no_request cfg hs f hreq
    have h3 := h3 (Or.inr hl)
    cases h : handleFrame cfg hs f; simp_all
  | some req =>
    rw [handleFrame_request cfg hs f hreq]
    simp [ServerCfg.allows, ServerCfg.question, ha, hb, hl]

/-! ## 4. Reads -/

/-- a served request: reply, calls and new state are those of `serve` -/
theorem served {σ : Type} (cfg : ServerCfg σ) (hs : List (Nat × σ)) (f : Frame) (req : Request)
    (s : σ) (hreq : requestOf f = some req) (hb : isBroadcast cfg f = false)
    (hl : lookupUnit hs f.dest = some s) (ha : cfg.allows f.dest req = true) :
    handleFrame cfg hs f =
      ⟨some (serve cfg.H f.dest s req).1, cfg.question f.dest req ++ (serve cfg.H f.dest s req).2.1,
        setUnit hs f.dest (serve cfg.H f.dest s req).2.2⟩ := by
  rw [handleFrame_request cfg hs f hreq]; simp [ha, hb, hl]

/-- a valid read request is `mkRead` of the two big-endian words of its body -/
theorem read_request_of_frame (f : Frame) (fc : Fc) (body : Bytes) (hr : fc.isRead = true)
    (hp : f.pdu = fc.toByte :: body) (hv : validBody fc body = true) :
    requestOf f = some (mkRead fc ⟨u16At body 0, u16At body 2⟩) := by
  rw [requestOf_of hp (Fc.ofByte_toByte fc) hv, decode_read fc hr]

/-- Read coils / discrete inputs, all `n = r.count` addresses readable: the reply is the function
    code, the byte count ⌈n/8⌉ and ⌈n/8⌉ payload bytes; bit `k` of byte `j` is the value at
    address `start + 8j + k` when `8j + k < n`, and 0 (padding) otherwise. -/
theorem read_bits_payload {σ : Type} (cfg : ServerCfg σ) (hs : List (Nat × σ)) (f : Frame)
    (fc : Fc) (r : Range) (s : σ) (hfc : fc = .readCoils ∨ fc = .readDiscreteInputs)
    (hreq : requestOf f = some (mkRead fc r)) (hb : isBroadcast cfg f = false)
    (hl : lookupUnit hs f.dest = some s) (ha : cfg.allows f.dest (mkRead fc r) = true)
    (hok : ∀ i < r.count, ∃ v, cfg.H.readBit fc s (r.start + i) = .ok v) :
    ∃ payload, (handleFrame cfg hs f).reply = some (fc.toByte :: (r.count + 7) / 8 :: payload)
      ∧ payload.length = (r.count + 7) / 8 ∧ Bytes.WF payload
      ∧ ∀ j k, k < 8 → (payload.getD j 0 / 2 ^ k % 2 = 1 ↔
          (8 * j + k < r.count ∧ cfg.H.readBit fc s (r.start + (8 * j + k)) = .ok true)) := by
  have hok' : ∀ i < r.count, cfg.H.readErr fc s (r.start + i) = none := fun i hi => by
    rw [readErr_bit _ _ hfc]; exact (errOf_eq_none _).2 (hok i hi)
  refine ⟨(List.range ((r.count + 7) / 8)).map
      (packedByte (fun i => valOr false (cfg.H.readBit fc s (r.start + i))) r.count), ?_, ?_, ?_, ?_⟩
  · rw [served cfg hs f _ s hreq hb hl ha, serve_read_bits_ok _ _ _ _ _ hfc hok']
  · simp
  · intro b hb'
    simp only [List.mem_map, List.mem_range] at hb'
    obtain ⟨j, _, rfl⟩ := hb'; exact packedByte_lt _ _ _
  · intro j k hk
    by_cases hj : j < (r.count + 7) / 8
    · have e : ((List.range ((r.count + 7) / 8)).map
          (packedByte (fun i => valOr false (cfg.H.readBit fc s (r.start + i))) r.count)).getD j 0
          = packedByte (fun i => valOr false (cfg.H.readBit fc s (r.start + i))) r.count j := by
        simp [List.getD_eq_getElem?_getD, hj]
      rw [e, packedByte_bit _ _ _ _ hk]
      constructor
      · rintro ⟨h1, h2⟩
        obtain ⟨v, hv⟩ := hok _ h1
        rw [hv] at h2 ⊢; simp only [valOr] at h2; rw [h2]; exact ⟨h1, rfl⟩
      · rintro ⟨h1, h2⟩; rw [h2]; exact ⟨h1, rfl⟩
    · have e : ((List.range ((r.count + 7) / 8)).map
          (packedByte (fun i => valOr false (cfg.H.readBit fc s (r.start + i))) r.count)).getD j 0
          = 0 := by
        simp [List.getD_eq_getElem?_getD, hj]
      rw [e]
      constructor
      · intro h; simp [Nat.zero_div] at h
      · rintro ⟨h1, _⟩; omega

/-- Read holding / input registers, all `n = r.count` addresses readable: function code, byte
    count `2n`, then `2n` payload bytes; register `i` (the value at `start + i`) occupies bytes
    `2i` (high) and `2i + 1` (low). -/
theorem read_regs_payload {σ : Type} (cfg : ServerCfg σ) (hs : List (Nat × σ)) (f : Frame)
    (fc : Fc) (r : Range) (s : σ) (hfc : fc = .readHoldingRegisters ∨ fc = .readInputRegisters)
    (hreq : requestOf f = some (mkRead fc r)) (hb : isBroadcast cfg f = false)
    (hl : lookupUnit hs f.dest = some s) (ha : cfg.allows f.dest (mkRead fc r) = true)
    (hok : ∀ i < r.count, ∃ v, cfg.H.readReg fc s (r.start + i) = .ok v) :
    ∃ payload, (handleFrame cfg hs f).reply = some (fc.toByte :: 2 * r.count :: payload)
      ∧ payload.length = 2 * r.count ∧ Bytes.WF payload
      ∧ ∀ i v, i < r.count → cfg.H.readReg fc s (r.start + i) = .ok v →
          payload.getD (2 * i) 0 = v / 256 % 256 ∧ payload.getD (2 * i + 1) 0 = v % 256 := by
  have hok' : ∀ i < r.count, cfg.H.readErr fc s (r.start + i) = none := fun i hi => by
    rw [readErr_reg _ _ hfc]; exact (errOf_eq_none _).2 (hok i hi)
  refine ⟨packRegs ((List.range r.count).map fun i => valOr 0 (cfg.H.readReg fc s (r.start + i))),
    ?_, ?_, packRegs_wf _, ?_⟩
  · rw [served cfg hs f _ s hreq hb hl ha, serve_read_regs_ok _ _ _ _ _ hfc hok']
  · simp [packRegs_length]
  · intro i v hi hv
    have := packRegs_getD ((List.range r.count).map fun i => valOr 0 (cfg.H.readReg fc s (r.start + i)))
      i (by simpa using hi)
    simpa [hv, valOr] using this

/-- the byte-count field of a read reply fits its byte (`calc_bytes_for_bits` /
    `calc_bytes_for_registers` cannot fail): at most 250 for every valid read request -/
theorem read_byte_count_fits (f : Frame) (fc : Fc) (r : Range) (hr : fc.isRead = true)
    (hreq : requestOf f = some (mkRead fc r)) :
    ((fc = .readCoils ∨ fc = .readDiscreteInputs) → (r.count + 7) / 8 ≤ 250)
    ∧ ((fc = .readHoldingRegisters ∨ fc = .readInputRegisters) → 2 * r.count ≤ 250) := by
  have h := requestOf_inLimits hreq
  cases fc <;> simp [Fc.isRead] at hr <;> simp only [mkRead, Request.InLimits] at h <;>
    simp <;> omega

/-- If some address of a read raises an exception, the reply is `[fc | 0x80, e]` for the FIRST such
    address in ascending order (the handler is not asked about later addresses: C02). -/
theorem first_exception_reply {σ : Type} (cfg : ServerCfg σ) (hs : List (Nat × σ)) (f : Frame)
    (fc : Fc) (r : Range) (s : σ) (hr : fc.isRead = true)
    (hreq : requestOf f = some (mkRead fc r)) (hb : isBroadcast cfg f = false)
    (hl : lookupUnit hs f.dest = some s) (ha : cfg.allows f.dest (mkRead fc r) = true)
    (k e : Nat) (hk : k < r.count) (he : cfg.H.readErr fc s (r.start + k) = some e)
    (hbefore : ∀ i < k, cfg.H.readErr fc s (r.start + i) = none) :
    (handleFrame cfg hs f).reply = some [fc.toByte + 128, e] := by
  rw [served cfg hs f _ s hreq hb hl ha, serve_read_fail _ _ _ _ _ hr hk he hbefore, orErr_toByte]

/-- `readErr` is the exception (as its wire byte) the handler's read callback returns -/
theorem readErr_meaning {σ : Type} (H : Handler σ) (s : σ) (a e : Nat) :
    (H.readErr .readCoils s a = some e ↔ H.readCoil s a = .error e)
    ∧ (H.readErr .readDiscreteInputs s a = some e ↔ H.readDiscreteInput s a = .error e)
    ∧ (H.readErr .readHoldingRegisters s a = some e ↔ H.readHoldingRegister s a = .error e)
    ∧ (H.readErr .readInputRegisters s a = some e ↔ H.readInputRegister s a = .error e) :=
  ⟨errOf_eq_some _ _, errOf_eq_some _ _, errOf_eq_some _ _, errOf_eq_some _ _⟩

/-! ## 5. Writes -/

/-- a served write is answered with function code + echo if the handler accepts it, and with
    `[fc | 0x80, e]` if the handler raises `e` -/
theorem write_echo {σ : Type} (cfg : ServerCfg σ) (hs : List (Nat × σ)) (f : Frame) (req : Request)
    (s : σ) (hreq : requestOf f = some req) (hw : isWrite req = true)
    (hb : isBroadcast cfg f = false) (hl : lookupUnit hs f.dest = some s)
    (ha : cfg.allows f.dest req = true) :
    (handleFrame cfg hs f).reply = some
      (match (cfg.H.applyWrite s req).1 with
        | .ok () => req.fc.toByte :: writeEcho req
        | .error e => [req.fc.toByte + 128, e]) := by
  rw [served cfg hs f _ s hreq hb hl ha, serve_write _ _ _ _ hw, orErr_toByte]; rfl

/-- …and the echo is literally the first five bytes of the request PDU (function code, address,
    value / function code, start, quantity), given that the request bytes are bytes -/
theorem write_echo_is_request_prefix {σ : Type} (cfg : ServerCfg σ) (hs : List (Nat × σ))
    (f : Frame) (req : Request) (s : σ) (hwf : Bytes.WF f.pdu)
    (hreq : requestOf f = some req) (hw : isWrite req = true)
    (hb : isBroadcast cfg f = false) (hl : lookupUnit hs f.dest = some s)
    (ha : cfg.allows f.dest req = true) (hok : (cfg.H.applyWrite s req).1 = .ok ()) :
    (handleFrame cfg hs f).reply = some (f.pdu.take 5) := by
  rw [write_echo cfg hs f req s hreq hw hb hl ha, hok]
  obtain ⟨b, body, fc, hp, hfc, hv, rfl⟩ := (requestOf_some_iff f _).1 hreq
  rw [hp] at hwf ⊢
  simp only [decode_fc]
  rw [writeEcho_decode hfc (Bytes.WF_cons.1 hwf).2 hv hw]

/-! ## 6. Sessions -/

/-- the replies of a session are, in order, the replies to its frames: handling `fs` and then `gs`
    yields the replies (and calls) of `fs` followed by those of `gs` handled from the state `fs`
    left behind -/
theorem session_replies {σ : Type} (cfg : ServerCfg σ) (hs : List (Nat × σ)) (fs gs : List Frame) :
    (runFrames cfg hs (fs ++ gs)).1 =
        (runFrames cfg hs fs).1 ++ (runFrames cfg (runFrames cfg hs fs).2.2 gs).1
    ∧ (runFrames cfg hs (fs ++ gs)).2.1 =
        (runFrames cfg hs fs).2.1 ++ (runFrames cfg (runFrames cfg hs fs).2.2 gs).2.1
    ∧ (runFrames cfg hs (fs ++ gs)).2.2 = (runFrames cfg (runFrames cfg hs fs).2.2 gs).2.2 := by
  rw [runFrames_append]; exact ⟨rfl, rfl, rfl⟩

/-- one frame: its reply (if any) paired with the frame, then the rest -/
theorem session_replies_cons {σ : Type} (cfg : ServerCfg σ) (hs : List (Nat × σ)) (f : Frame)
    (fs : List Frame) :
    (runFrames cfg hs (f :: fs)).1 =
      (match (handleFrame cfg hs f).reply with | some p => [(f, p)] | none => [])
        ++ (runFrames cfg (handleFrame cfg hs f).states fs).1 := rfl

/-- the answered frames are a subsequence of the received frames: at most one reply per frame,
    never reordered, never invented -/
theorem session_replies_in_order {σ : Type} (cfg : ServerCfg σ) (hs : List (Nat × σ))
    (fs : List Frame) : ((runFrames cfg hs fs).1.map Prod.fst).Sublist fs :=
  runFrames_replies_sublist cfg hs fs

/-- the set of configured unit ids never changes during a session -/
theorem session_units_constant {σ : Type} (cfg : ServerCfg σ) (hs : List (Nat × σ))
    (fs : List Frame) : (runFrames cfg hs fs).2.2.map Prod.fst = hs.map Prod.fst :=
  runFrames_keys cfg hs fs

/-! ## Non-vacuity: concrete frames against a two-unit configuration (Lemmas/ServerDemo.lean) -/

open Demo

/-- read 8 coils of unit 1 over TCP: one payload byte, LSB = coil 0 -/
example : (handleFrame tcp units ⟨some 7, 1, readCoils8⟩).reply = some [1, 1, 0x4D] := by
  rw [handleFrame_eq_spec]; decide

/-- read 10 coils: two payload bytes, six zero padding bits -/
example : (handleFrame tcp units ⟨some 7, 1, readCoils10⟩).reply = some [1, 2, 0x4D, 0x03] := by
  rw [handleFrame_eq_spec]; decide

example : (handleFrame tcp units ⟨some 7, 1, readRegs3⟩).reply
    = some [3, 6, 0x12, 0x34, 0xAB, 0xCD, 0, 7] := by
  rw [handleFrame_eq_spec]; decide

/-- address 3 does not exist: exception 02, and only addresses 2 and 3 were asked for -/
example : (handleFrame tcp units ⟨some 7, 1, readRegsFail⟩).reply = some [0x83, 2]
    ∧ (handleFrame tcp units ⟨some 7, 1, readRegsFail⟩).calls
        = [.readHoldingRegister 1 2, .readHoldingRegister 1 3] := by
  rw [handleFrame_eq_spec]; decide

example : (handleFrame tcp units ⟨some 7, 1, writeCoil⟩).reply = some writeCoil := by
  rw [handleFrame_eq_spec]; decide

example : (handleFrame tcp units ⟨some 7, 1, writeRegs⟩).reply = some [16, 0, 0, 0, 2]
    ∧ lookupUnit (handleFrame tcp units ⟨some 7, 1, writeRegs⟩).states 1
        = some ⟨db1.coils, [0x0102, 0x0304, 7]⟩ := by
  rw [handleFrame_eq_spec]; decide

example : (handleFrame tcp units ⟨some 7, 1, readZero⟩).reply = some [0x81, 3] := by
  rw [handleFrame_eq_spec]; decide

example : (handleFrame tcp units ⟨some 7, 1, [0x2B, 14, 1, 0]⟩).reply = some [0xAB, 1] := by
  rw [handleFrame_eq_spec]; decide

/-- unit 9 is not configured: silence even for garbage -/
example : (handleFrame tcp units ⟨some 7, 9, [0x2B, 14, 1, 0]⟩).reply = none := by
  rw [handleFrame_eq_spec]; decide

/-- the hypotheses of `read_bits_payload` are satisfiable -/
example : requestOf ⟨some 7, 1, readCoils8⟩ = some (mkRead .readCoils ⟨0, 8⟩)
    ∧ isBroadcast tcp ⟨some 7, 1, readCoils8⟩ = false ∧ lookupUnit units 1 = some db1
    ∧ tcp.allows 1 (mkRead .readCoils ⟨0, 8⟩) = true
    ∧ ∀ i < 8, ∃ v, H.readBit .readCoils db1 (0 + i) = .ok v := by
  refine ⟨by decide, by decide, by decide, by decide, ?_⟩
  intro i hi
  have : i = 0 ∨ i = 1 ∨ i = 2 ∨ i = 3 ∨ i = 4 ∨ i = 5 ∨ i = 6 ∨ i = 7 := by omega
  rcases this with rfl | rfl | rfl | rfl | rfl | rfl | rfl | rfl <;> exact ⟨_, rfl⟩

/-- the hypotheses of `write_echo_is_request_prefix` (including the byte well-formedness of the
    PDU) are satisfiable, and its conclusion is what evaluation gives -/
example : Bytes.WF writeRegs ∧ requestOf ⟨some 7, 1, writeRegs⟩
      = some (.writeMultipleRegisters ⟨0, 2⟩ [0x0102, 0x0304])
    ∧ (H.applyWrite db1 (.writeMultipleRegisters ⟨0, 2⟩ [0x0102, 0x0304])).1 = .ok ()
    ∧ writeRegs.take 5 = [16, 0, 0, 0, 2] := ⟨by decide, by decide, rfl, by decide⟩

example : frameReply false ⟨some 7, 1, readCoils8⟩ [1, 1, 0x4D] = [0, 7, 0, 0, 0, 4, 1, 1, 1, 0x4D] := by
  decide

end Rodbus.C01
