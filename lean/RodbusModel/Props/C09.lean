import RodbusModel.Model.Tls
import RodbusModel.Gen.Tables
/-
  C09 — TLS admits only authenticated peers at or above the minimum protocol version.
  Proved: rodbus's own part of the decision. Hypotheses (not proved, exercised by the tls grid
  against openssl peers): the TLS library negotiates the highest common enabled version and
  reports the certificate attributes correctly.
-/
namespace Rodbus.C09
open Rodbus.Tls

/-- **versions_correct**: a version is enabled iff it is at or above the configured minimum -/
theorem versions_correct (m v : Ver) : v ∈ enabled m ↔ m.rank ≤ v.rank := by
  cases m <;> cases v <;> simp [enabled, Ver.rank]

/-- the version table regenerated from `tcp/tls/client.rs` agrees with the model:
    rows are (minimum is 1.3?, enables 1.2?, enables 1.3?) -/
theorem tls_table_correct :
    Gen.tlsVersions = [(false, (enabled .v12).contains .v12, (enabled .v12).contains .v13),
                       (true, (enabled .v13).contains .v12, (enabled .v13).contains .v13)] := by
  decide

/-- never below the minimum -/
theorem negotiated_at_least_min (m : Ver) (offered : List Ver) (v : Ver)
    (h : negotiate (enabled m) offered = some v) : m.rank ≤ v.rank ∧ v ∈ offered := by
  unfold negotiate at h
  cases m <;> simp [enabled] at h
  · split at h
    · simp at h; subst h; simp [Ver.rank]; assumption
    · split at h
      · simp at h; subst h; simp [Ver.rank]; assumption
      · simp at h
  · obtain ⟨h1, h2⟩ := h
    subst h2; simp [Ver.rank]; exact h1

/-- always when the peer offers any version at or above the minimum -/
theorem negotiation_succeeds (m : Ver) (offered : List Ver)
    (h : ∃ v ∈ offered, m.rank ≤ v.rank) : (negotiate (enabled m) offered).isSome := by
  obtain ⟨v, hv, hr⟩ := h
  unfold negotiate
  by_cases h13 : Ver.v13 ∈ offered
  · cases m <;> simp [enabled, h13]
  · have hv12 : v = .v12 := by
      cases v with
      | v12 => rfl
      | v13 => exact absurd hv h13
    subst hv12
    cases m with
    | v12 => simp [enabled, h13, hv]
    | v13 => simp [Ver.rank] at hr

/-- the property's predicate for the server role -/
def ServerAdmits (min : Ver) (mode : Mode) (authz : Bool) (offered : List Ver)
    (peer : Option Cert) : Prop :=
  (∃ v ∈ offered, min.rank ≤ v.rank) ∧ certAccepted mode none peer = true ∧
  (authz = true → ∃ c r, peer = some c ∧ c.roles = [r])

/-- **admit_iff** (server): a session is created iff the peer offers a version at or above the
    minimum, its certificate validates under the configured mode, and — in authorization mode —
    it carries exactly one role; the session's role is then exactly that role -/
theorem admit_iff (min : Ver) (mode : Mode) (authz : Bool) (offered : List Ver)
    (peer : Option Cert) :
    (admitServer min mode authz offered peer).isSome ↔ ServerAdmits min mode authz offered peer := by
  unfold admitServer ServerAdmits
  constructor
  · intro h
    cases hn : negotiate (enabled min) offered with
    | none => simp [hn] at h
    | some v =>
      have hv := negotiated_at_least_min min offered v hn
      simp only [hn] at h
      by_cases hc : certAccepted mode none peer = true
      · simp only [hc, Bool.not_true, Bool.false_eq_true, if_false] at h
        refine ⟨⟨v, hv.2, hv.1⟩, hc, ?_⟩
        intro ha
        subst ha
        simp only [if_true] at h
        cases peer with
        | none => simp at h
        | some c =>
          simp only [Option.bind, extractRole] at h
          match hr : c.roles with
          | [r] => exact ⟨c, r, rfl, hr⟩
          | [] => rw [hr] at h; simp at h
          | _ :: _ :: _ => rw [hr] at h; simp at h
      · simp [hc] at h
  · rintro ⟨hv, hc, hr⟩
    have hs := negotiation_succeeds min offered hv
    cases hn : negotiate (enabled min) offered with
    | none => simp [hn] at hs
    | some v =>
      simp only [hc, Bool.not_true, Bool.false_eq_true, if_false]
      cases authz with
      | false => simp
      | true =>
        obtain ⟨c, r, rfl, hroles⟩ := hr rfl
        simp [Option.bind, extractRole, hroles]

/-- the role handed to the authorization handler is exactly the single role of the certificate -/
theorem role_is_certificate_role (min : Ver) (mode : Mode) (offered : List Ver) (c : Cert)
    (a : Admission) (h : admitServer min mode true offered (some c) = some a) :
    ∃ r, c.roles = [r] ∧ a.role = some r := by
  unfold admitServer at h
  cases hn : negotiate (enabled min) offered with
  | none => simp [hn] at h
  | some v =>
    simp only [hn] at h
    split at h
    · simp at h
    · simp only [if_true, Option.bind, extractRole] at h
      match hr : c.roles with
      | [r] => rw [hr] at h; simp at h; exact ⟨r, rfl, by rw [← h]⟩
      | [] => rw [hr] at h; simp at h
      | _ :: _ :: _ => rw [hr] at h; simp at h

/-- certificates carrying no role (or several) are refused in authorization mode -/
theorem no_role_refused (min : Ver) (mode : Mode) (offered : List Ver) (c : Cert)
    (h : c.roles.length ≠ 1) : admitServer min mode true offered (some c) = none := by
  unfold admitServer
  cases negotiate (enabled min) offered with
  | none => rfl
  | some v =>
    simp only
    split
    · rfl
    · simp only [if_true, Option.bind, extractRole]
      match hr : c.roles with
      | [r] => rw [hr] at h; simp at h
      | [] => rfl
      | _ :: _ :: _ => rfl

/-- without authorization the session carries no role (`AuthorizationType::None`) -/
theorem no_authz_no_role (min : Ver) (mode : Mode) (offered : List Ver) (peer : Option Cert)
    (a : Admission) (h : admitServer min mode false offered peer = some a) : a.role = none := by
  unfold admitServer at h
  cases hn : negotiate (enabled min) offered with
  | none => simp [hn] at h
  | some v =>
    simp only [hn] at h
    split at h
    · simp at h
    · simp at h; rw [← h]

/-- **admit_iff** (client) -/
theorem client_admit_iff (min : Ver) (mode : Mode) (name : Option String) (offered : List Ver)
    (server : Option Cert) :
    (admitClient min mode name offered server).isSome ↔
      (∃ v ∈ offered, min.rank ≤ v.rank) ∧ certAccepted mode name server = true := by
  unfold admitClient
  constructor
  · intro h
    cases hn : negotiate (enabled min) offered with
    | none => simp [hn] at h
    | some v =>
      have hv := negotiated_at_least_min min offered v hn
      simp only [hn] at h
      by_cases hc : certAccepted mode name server = true
      · exact ⟨⟨v, hv.2, hv.1⟩, hc⟩
      · simp [hc] at h
  · rintro ⟨hv, hc⟩
    have hs := negotiation_succeeds min offered hv
    cases hn : negotiate (enabled min) offered with
    | none => simp [hn] at hs
    | some v => simp [hc]

/-- what "validates under the configured mode" means -/
theorem cert_accepted_meaning (mode : Mode) (name : Option String) (c : Cert) :
    certAccepted mode name (some c) = true ↔
      match mode with
      | .authority t => c.authority = some t ∧ c.validNow = true ∧ (∀ n, name = some n → n ∈ c.names)
      | .selfSigned e => c.bytesId = e ∧ c.validNow = true := by
  cases mode with
  | authority t =>
    cases name with
    | none => simp [certAccepted]
    | some n => simp [certAccepted, and_assoc]
  | selfSigned e => simp [certAccepted]

theorem no_certificate_refused (mode : Mode) (name : Option String) :
    certAccepted mode name none = false := rfl

/-- non-vacuity -/
example : admitServer .v12 (.authority 1) true [.v12, .v13]
    (some ⟨some 1, ["client"], true, ["operator"], 7⟩) = some ⟨.v13, some "operator"⟩ := by decide
example : admitServer .v13 (.authority 1) false [.v12] (some ⟨some 1, [], true, [], 7⟩) = none := by decide
example : admitClient .v12 (.authority 1) (some "test.com") [.v13] (some ⟨some 1, ["test.com"], true, [], 3⟩) = some .v13 := by decide
example : admitClient .v12 (.authority 1) (some "test.com") [.v13] (some ⟨some 1, ["other.com"], true, [], 3⟩) = none := by decide


/-! ## The Certificate message as a list: the role is the end entity's -/

/-- In authority mode certificates sent after the end entity change nothing: admission, version
    and role are those of the first certificate alone.  (`peer_certificates().first()`) -/
theorem extra_certificates_irrelevant (min : Ver) (t : Nat) (authz : Bool) (offered : List Ver)
    (c : Cert) (rest : List Cert) :
    admitServerChain min (.authority t) authz offered (c :: rest)
      = admitServer min (.authority t) authz offered (some c) := by
  cases rest <;> rfl

/-- …so the session's role is exactly the single role extension of the end-entity certificate,
    whatever roles the other presented certificates carry -/
theorem role_is_end_entity_role (min : Ver) (t : Nat) (offered : List Ver) (c : Cert)
    (rest : List Cert) (a : Admission)
    (h : admitServerChain min (.authority t) true offered (c :: rest) = some a) :
    ∃ r, c.roles = [r] ∧ a.role = some r := by
  rw [extra_certificates_irrelevant] at h
  exact role_is_certificate_role min (.authority t) offered c a h

/-- a role-less end entity is refused even when a later certificate carries a role -/
theorem roleless_end_entity_refused (min : Ver) (t : Nat) (offered : List Ver) (c : Cert)
    (rest : List Cert) (h : c.roles.length ≠ 1) :
    admitServerChain min (.authority t) true offered (c :: rest) = none := by
  rw [extra_certificates_irrelevant]
  exact no_role_refused min (.authority t) offered c h

/-- the self-signed verifier accepts exactly one certificate -/
theorem self_signed_single_certificate (min : Ver) (e : Nat) (authz : Bool) (offered : List Ver)
    (c d : Cert) (rest : List Cert) :
    admitServerChain min (.selfSigned e) authz offered (c :: d :: rest) = none := rfl

/-- an empty Certificate message is refused in every mode -/
theorem empty_chain_refused (min : Ver) (mode : Mode) (authz : Bool) (offered : List Ver) :
    admitServerChain min mode authz offered [] = none := by
  cases mode <;> simp [admitServerChain, admitServer, certAccepted] <;> split <;> rfl

example : (admitServerChain .v12 (.authority 1) true [.v13]
    [⟨some 1, ["client"], true, ["operator"], 7⟩, ⟨none, ["x"], true, ["admin"], 99⟩]).map (·.role)
      = some (some "operator") := by decide


/-! ## Several peers on one server: every admission is decided on its own -/

/-- the outcome for the peer at position `i` is the outcome that peer would get alone -/
theorem admitServerSeq_get (min : Ver) (mode : Mode) (authz : Bool) (peers : List Peer) (i : Nat) :
    (admitServerSeq min mode authz peers)[i]? =
      peers[i]?.map (fun p => admitServerChain min mode authz p.1 p.2) := by
  simp [admitServerSeq]

theorem admitServerSeq_length (min : Ver) (mode : Mode) (authz : Bool) (peers : List Peer) :
    (admitServerSeq min mode authz peers).length = peers.length := by
  simp [admitServerSeq]

/-- **admission_history_independent**: whoever connected before (`before`) and whoever connects
    afterwards (`after`) — authorized or not, with whatever role — the peer `p` is admitted iff
    it would be admitted by a fresh server, with the same version and the same role: the role
    handed to the authorization handler is always the one in the certificate presented on
    *this* connection (`role_is_end_entity_role`), never one remembered from another peer -/
theorem admission_history_independent (min : Ver) (mode : Mode) (authz : Bool)
    (before after : List Peer) (p : Peer) :
    (admitServerSeq min mode authz (before ++ p :: after))[before.length]? =
      some (admitServerChain min mode authz p.1 p.2) := by
  simp [admitServerSeq]

/-- the same, comparing two histories: if two sequences of peers have the same peer at
    position `i`, the outcomes at position `i` are equal -/
theorem admission_depends_on_peer_only (min : Ver) (mode : Mode) (authz : Bool)
    (peers peers' : List Peer) (i : Nat) (h : peers[i]? = peers'[i]?) :
    (admitServerSeq min mode authz peers)[i]? = (admitServerSeq min mode authz peers')[i]? := by
  rw [admitServerSeq_get, admitServerSeq_get, h]

/-- in particular a role-less certificate is refused (authorization mode) after any history … -/
theorem roleless_refused_after_any_history (min : Ver) (t : Nat) (before after : List Peer)
    (offered : List Ver) (c : Cert) (rest : List Cert) (h : c.roles.length ≠ 1) :
    (admitServerSeq min (.authority t) true (before ++ (offered, c :: rest) :: after))[before.length]?
      = some none := by
  rw [admission_history_independent]
  exact congrArg some (roleless_end_entity_refused min t offered c rest h)

/-- … and an admitted peer's role is its own certificate's role after any history -/
theorem role_is_own_role_after_any_history (min : Ver) (t : Nat) (before after : List Peer)
    (offered : List Ver) (c : Cert) (rest : List Cert) (a : Admission)
    (h : (admitServerSeq min (.authority t) true (before ++ (offered, c :: rest) :: after))[before.length]?
      = some (some a)) :
    ∃ r, c.roles = [r] ∧ a.role = some r := by
  rw [admission_history_independent] at h
  exact role_is_end_entity_role min t offered c rest a (Option.some.inj h)

/-- operator, then viewer, then a role-less certificate, then operator again -/
example :
    let op : Cert := ⟨some 1, ["client"], true, ["operator"], 7⟩
    let vw : Cert := ⟨some 1, ["client"], true, ["viewer"], 8⟩
    let nr : Cert := ⟨some 1, ["client"], true, [], 9⟩
    (admitServerSeq .v12 (.authority 1) true
        [([.v13], [op]), ([.v12], [vw]), ([.v13], [nr]), ([.v12, .v13], [op])]).map
      (fun o => o.map (fun a => (a.version, a.role)))
      = [some (.v13, some "operator"), some (.v12, some "viewer"), none, some (.v13, some "operator")] := by
  decide

end Rodbus.C09
