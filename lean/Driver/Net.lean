import RodbusModel.Model.ServerNet
import Driver.Misc
/-
  `net` suite: net <tcp|tls|tlsa>[6] m<max> <filter> <script>
-/
namespace Rodbus.Driver
open Rodbus.ServerNet

def parseFilterTok (f : String) : Filter.AddressFilter :=
  let kind := f.toList.headD 'a'
  let rest := String.ofList f.toList.tail
  if kind = 'a' then .any
  else if kind = 'x' then .exact (parseAddr rest)
  else if kind = 's' then .anyOf ((rest.splitOn "/").filter (· ≠ "") |>.map parseAddr)
  else match Filter.parseWildcard (utf8Chars rest) with
    | some w => .wildcard w
    | none => .any

def obsStr : Obs → String
  | .conn k r => s!"c{k}:{r}"
  | .req k r => s!"q{k}:{r}"
  | .garb k r => s!"g{k}:{r}"
  | .prob k r => s!"p{k}:{r}"
  | .cmd n r => s!"{n}:{r}"

def parseNetStep (st : String) : Option Step :=
  let op := st.toList.headD ' '
  let rest := String.ofList st.toList.tail
  if op = 'c' then
    match rest.splitOn "." with
    | k :: addr => some (.connect (k.toNat?.getD 0) (parseAddr (".".intercalate addr)))
    | _ => none
  else if op = 'q' then some (.request (rest.toNat?.getD 0))
  else if op = 'g' then some (.garbage (rest.toNat?.getD 0))
  else if op = 'x' then some (.close (rest.toNat?.getD 0))
  else if op = 'p' then some (.probe (rest.toNat?.getD 0))
  else if op = 'L' then some .setDecode
  else if op = 'S' then some .shutdown
  else if op = 'H' then some .dropHandle
  else none

/-- the spec side states the two network-level clauses directly: a connection is served iff
    the peer matches the filter and the listener is up; it stays open until it is evicted (more
    than `max` newer sessions), ended by the peer, or the server is shut down -/
def runNet (tok : List String) : String × String :=
  match tok with
  | [_, variant, m, flt, script] =>
    let tls := variant.startsWith "tls"
    let mx := (String.ofList m.toList.tail).toNat?.getD 0
    let n0 : Net := { tracker := Tracker.new mx, filter := parseFilterTok flt, tls := tls }
    let steps := if script = "-" then [] else (script.splitOn ",").filterMap parseNetStep
    let (n, obs) := run n0 steps
    let calls := (obs.filter fun o => match o with | .req _ "ok.982" => true | _ => false).length
    let fin := if n.listening then "alive" else "taskdone"
    let out := (if obs.isEmpty then "-" else ";".intercalate (obs.map obsStr)) ++ s!" | {fin} calls={calls}"
    (out, out)
  | _ => ("bad-case", "bad-case")

end Rodbus.Driver
