import RodbusModel.Model.Basic
/-
  M9: `retry.rs` — the doubling retry strategy. Durations are natural numbers of nanoseconds.
  `std::time::Duration` holds at most `u64::MAX` seconds + 999 999 999 ns.
-/
namespace Rodbus.Retry

/-- `Duration::MAX` in nanoseconds -/
def DURATION_MAX : Nat := (2 ^ 64 - 1) * 1000000000 + 999999999

/-- `struct Doubling` -/
structure Doubling where
  min : Nat
  max : Nat
  current : Nat
deriving DecidableEq, Repr

/-- `Doubling::create`: the first delay is already capped -/
def create (min max : Nat) : Doubling := ⟨min, max, Nat.min min max⟩

/-- `RetryStrategy::reset` -/
def reset (d : Doubling) : Doubling := { d with current := Nat.min d.min d.max }

/-- `RetryStrategy::after_failed_connect`: returns the current delay and doubles it, saturating
    at `Duration::MAX`, capped at `max` -/
def afterFailedConnect (d : Doubling) : Nat × Doubling :=
  (d.current, { d with current := Nat.min (Nat.min (2 * d.current) DURATION_MAX) d.max })

/-- `RetryStrategy::after_disconnect` -/
def afterDisconnect (d : Doubling) : Nat := d.min

inductive Op | failed | disconnect | reset
deriving DecidableEq, Repr

/-- run a call sequence, collecting the returned delays -/
def run : Doubling → List Op → List Nat
  | _, [] => []
  | d, .failed :: ops => let (x, d') := afterFailedConnect d; x :: run d' ops
  | d, .disconnect :: ops => afterDisconnect d :: run d ops
  | d, .reset :: ops => run (reset d) ops

/-- `k` consecutive failed connects -/
def failures : Doubling → Nat → List Nat
  | _, 0 => []
  | d, k + 1 => let (x, d') := afterFailedConnect d; x :: failures d' k

end Rodbus.Retry
