import RodbusModel.Model.ServerNet
import RodbusModel.Model.Server
import RodbusModel.Model.Mbap
import Driver.Points
import Driver.Misc
/-
  `net` suite: net <tcp|tls|tlsa>[6] m<max> <filter> <script>
-/
namespace Rodbus.Driver
open Rodbus.ServerNet

def parseFilterTok (f : String) : Filter.AddressFilter :=
  let kind := f.toList.headD 'a'
  let rest := String.ofList f.toList.tail
  if kind = 'a' then .any
  else if kind = 'x' then .exact (parseAddr rest)
  else if kind = 's' then .anyOf ((rest.splitOn "/").filter (· ≠ "") |>.map parseAddr)
  else match Filter.parseWildcard (utf8Chars rest) with
    | some w => .wildcard w
    | none => .any

/-- the application of the `net` suite: unit 1 with 125 holding registers -/
def netUnits : List (Nat × Points) := [(1, Points.parse "s2.0.125.1")]

/-- the bytes the server session model answers to request number `tx` of a pipelined step
    (read 125 holding registers of unit 1): `handleFrame`, framed by `Mbap.format` -/
def pipeReply (tx : Nat) : Bytes :=
  let f : Frame := ⟨some tx, 1, [3, 0, 0, 0, 125]⟩
  match (handleFrame (⟨false, pointsHandler, none⟩ : ServerCfg Points) netUnits f).reply with
  | some pdu => Mbap.format tx 1 pdu
  | none => []

/-- handler calls of one request of a pipelined step -/
def pipeCalls : Nat :=
  (handleFrame (⟨false, pointsHandler, none⟩ : ServerCfg Points) netUnits ⟨some 0, 1, [3, 0, 0, 0, 125]⟩).calls.length

def obsStr : Obs → String
  | .conn k r => s!"c{k}:{r}"
  | .req k r => s!"q{k}:{r}"
  | .pipe k r cnt => if r = "ok" then s!"P{k}:n={cnt},{toHex (pipeReply 0)}" else s!"P{k}:{r}"
  | .garb k r => s!"g{k}:{r}"
  | .prob k r => s!"p{k}:{r}"
  | .cmd n r => s!"{n}:{r}"

/-- label of the churn peers (the scripts number their connections from 1) -/
def churnLabel : Nat := 0

/-- one script step = a list of model steps: `B<k1>/<k2>/…` is the closes of these connections
    (the model has no notion of "at the same instant": the outcome must be that of closing them
    one after the other), `W<n>.<src>` is n × (connect; close) -/
def parseNetStep (st : String) : List Step :=
  let op := st.toList.headD ' '
  let rest := String.ofList st.toList.tail
  if op = 'c' then
    match rest.splitOn "." with
    | k :: addr => [.connect (k.toNat?.getD 0) (parseAddr (".".intercalate addr))]
    | _ => []
  -- `C<k1>.<ip1>/<k2>.<ip2>/…`: burst connect = the connects one after the other
  else if op = 'C' then (rest.splitOn "/").filterMap fun item =>
    match item.splitOn "." with
    | k :: addr => some (.connect (k.toNat?.getD 0) (parseAddr (".".intercalate addr)))
    | _ => none
  else if op = 'q' then [.request (rest.toNat?.getD 0)]
  -- `h<k>` … `t<k>`: one request delivered in two segments with other steps in between: nothing
  -- happens at `h`, the request is answered at `t` (the harness prints it as `q<k>`)
  -- `J<n>`: shutdown requested behind n queued decode-level commands, before the task first runs
  else if op = 'J' then [.shutdown]
  else if op = 'h' then []
  else if op = 't' then [.request (rest.toNat?.getD 0)]
  else if op = 'P' then
    match rest.splitOn "." with
    | [k, cnt] => [.pipeline (k.toNat?.getD 0) (cnt.toNat?.getD 0)]
    -- `P<k>.<n>.<l>`: l decode-level changes while the session is blocked in a write: observational
    | [k, cnt, _l] => [.pipeline (k.toNat?.getD 0) (cnt.toNat?.getD 0)]
    | _ => []
  else if op = 'B' then (rest.splitOn "/").filterMap fun k => k.toNat?.map Step.close
  else if op = 'W' then
    match rest.splitOn "." with
    | cnt :: addr => churnSteps churnLabel (parseAddr (".".intercalate addr)) (cnt.toNat?.getD 0)
    | _ => []
  else if op = 'g' then [.garbage (rest.toNat?.getD 0)]
  else if op = 'x' then [.close (rest.toNat?.getD 0)]
  else if op = 'p' then [.probe (rest.toNat?.getD 0)]
  else if op = 'L' then [.setDecode]
  else if op = 'S' then [.shutdown]
  else if op = 'H' then [.dropHandle]
  else []

/-- the spec side states the two network-level clauses directly: a connection is served iff
    the peer matches the filter and the listener is up; it stays open until it is evicted (more
    than `max` newer sessions), ended by the peer, or the server is shut down -/
def runNet (tok : List String) : String × String :=
  match tok with
  | [_, variant, m, flt, script] =>
    let tls := variant.startsWith "tls"
    let mx := (String.ofList m.toList.tail).toNat?.getD 0
    let n0 : Net := { tracker := Tracker.new mx, filter := parseFilterTok flt, tls := tls }
    let steps := if script = "-" then [] else ((script.splitOn ",").map parseNetStep).flatten
    -- `runTR` = `run` (`C15Net.runTR_eq_run`), with constant stack
    let (n, obs0) := runTR n0 steps
    -- the churn peers are not observed
    let obs := obs0.filter fun o => match o with | .conn k _ => k ≠ churnLabel | _ => true
    let calls := (obs.map fun o => match o with
      | .req _ "ok.982" => 1
      | .pipe _ _ cnt => cnt * pipeCalls
      | _ => 0).foldl (· + ·) 0
    let fin := if n.listening then "alive" else "taskdone"
    -- `Z<k>.<n>`: a stalled peer (requests written, nothing read, connection kept): how many were
    -- answered before its window closed is not determined; nothing else may depend on it
    let stalled := (script.splitOn ",").any (·.startsWith "Z")
    let callsStr := if stalled then "*" else toString calls
    let out := (if obs.isEmpty then "-" else ";".intercalate (obs.map obsStr)) ++ s!" | {fin} calls={callsStr}"
    (out, out)
  | _ => ("bad-case", "bad-case")

end Rodbus.Driver
