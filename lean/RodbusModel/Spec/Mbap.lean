import RodbusModel.Model.Mbap
/-
  Declarative whole-stream specification of MBAP framing: no buffer, no chunks, no parser state.
  Frame boundaries are determined by the length field alone.
-/
namespace Rodbus.Mbap

/-- the events of a whole byte stream: cut 7 header bytes, validate, cut `len - 1` ADU bytes,
    repeat; the first bad header ends the list; an incomplete tail yields nothing -/
def specFrames (s : Bytes) : List Event :=
  if _h : s.length < 7 then []
  else match parseHeader (s.take 7) with
    | .error e => [.err e]
    | .ok (hd, adu) =>
      let rest := s.drop 7
      if rest.length < adu then []
      else .frame ⟨some hd.tx, hd.unit, rest.take adu⟩ :: specFrames (rest.drop adu)
termination_by s.length
decreasing_by simp [List.length_drop]; omega

/-- the error with which a header with protocol id `p` and length field `len` is rejected
    (meaningful when `p ≠ 0 ∨ len = 0 ∨ len > 254`) -/
def badHeaderErr (p len : Nat) : FrameErr :=
  if p ≠ 0 then .unknownProtocolId p
  else if len > 254 then .frameLengthTooBig len 254
  else .mbapLengthZero

/-- a message on the wire: transaction id, unit id, PDU (function code + body) -/
structure Msg where
  tx : Nat
  unit : Nat
  pdu : Bytes
deriving DecidableEq, Repr

/-- what `format_mbap` emits for the message -/
def Msg.bytes (m : Msg) : Bytes := format m.tx m.unit m.pdu

/-- the frame the reader must deliver for the message -/
def Msg.event (m : Msg) : Event := .frame ⟨some m.tx, m.unit, m.pdu⟩

/-- u16 transaction id, u8 unit id, at most `MAX_ADU_LENGTH` = 253 PDU bytes -/
def Msg.Valid (m : Msg) : Prop :=
  m.tx < 65536 ∧ m.unit < 256 ∧ m.pdu.length ≤ 253 ∧ Bytes.WF m.pdu

/-- the stream bytes a delivered event accounts for (`[]` for an error) -/
def eventBytes : Event → Bytes
  | .frame f => format (f.tx.getD 0) f.dest f.pdu
  | .err _ => []

/-- The reader states at the head of the `next_frame` loop (`pump`) that can occur in any run
    from the initial state, for any sequence of network reads:
    after a frame was returned, after `read_some` returned (with whatever amount `pend` the
    transport had), and when the reader blocks with nothing to read. -/
inductive Reach : PState → RB → Prop
  | init : Reach .begin RB.empty
  | frame {st rb f st' rb'} : Reach st rb → parse st rb = (.frame f, st', rb') → Reach st' rb'
  | block {st rb st' rb'} : Reach st rb → parse st rb = (.none, st', rb') → Reach st' rb'
  | read {st rb st' rb' pend rb'' pend'} : Reach st rb → parse st rb = (.none, st', rb') →
      readSome rb' pend = some (rb'', pend') → Reach st' rb''

end Rodbus.Mbap
