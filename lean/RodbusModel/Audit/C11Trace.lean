import RodbusModel.Props.C11Trace
/-! axiom audit of every property theorem of Props/C11Trace and of the lemmas it rests on
    (Lemmas/ClientCause, Lemmas/ClientEnc) -/
#print axioms Rodbus.Client.completion_cause
#print axioms Rodbus.Client.completion_caused_by_matching_frame
#print axioms Rodbus.Client.foreign_frame_never_result
#print axioms Rodbus.Client.written_txid_unique
#print axioms Rodbus.Client.no_reply_completion_unless_inflight
#print axioms Rodbus.Client.idle_frame_dropped_any_order
#print axioms Rodbus.Client.respResult_ok_iff
#print axioms Rodbus.Client.respResult_exc_iff
#print axioms Rodbus.Client.ok_completion_is_wellformed_reply
#print axioms Rodbus.Client.exc_completion_is_exception_reply
#print axioms Rodbus.Client.tickInflight_fine
#print axioms Rodbus.Client.tick_done_cause
#print axioms Rodbus.Client.runState_done_cause
#print axioms Rodbus.Client.mem_runTrace
#print axioms Rodbus.Client.runTrace_mem
#print axioms Rodbus.Client.pollReader_fail_kind
#print axioms Rodbus.Client.inflightSent_reach
#print axioms Rodbus.Client.steps_sent_mono
#print axioms Rodbus.Client.runTrace_inv
#print axioms Rodbus.Client.runTrace_inflightEnc
