import RodbusModel.Lemmas.Mbap
import RodbusModel.Lemmas.ClientMeaning
/-
  `discard_buffered_frames` (C11): when a request is written, the read buffer holds no complete
  frame, so nothing that had been received completely before can become its result.
-/
namespace Rodbus.Client

section
variable {σ : Type}

/-- the discard loop runs until the parser reports `Ok(None)` (its fuel suffices) and that report
    is stable -/
def DiscardComplete (F : Framing σ) : Prop :=
  ∀ st rb st' rb', discardBuffered F (discardFuel rb) st rb = (none, st', rb') →
    F.parse st' rb' = (.none, st', rb')

/-- the same for one reader state -/
def DiscardCompleteAt (F : Framing σ) (st : σ) (rb : RB) : Prop :=
  ∀ st' rb', discardBuffered F (discardFuel rb) st rb = (none, st', rb') →
    F.parse st' rb' = (.none, st', rb')

/-- a reader that holds no complete frame reports nothing without new bytes from the transport -/
theorem readerPoll_blocked (F : Framing σ) (fuel : Nat) (st : σ) (rb : RB)
    (h : F.parse st rb = (.none, st, rb)) : readerPoll F fuel st rb [] = (.blocked, st, rb, []) := by
  cases fuel with
  | zero => rfl
  | succ n => simp [readerPoll, h]

theorem finish_pos_not_inflight (s : State σ) (m : Nat) (r : Req) (res : Res) (m' : Nat)
    (r' : Req) (tx dl : Nat) : (finish s m r res).pos ≠ .inflight m' r' tx dl := by
  have h := core_finish s m r res
  have := afterCore_not_inflight { core s with log := doneEntry (core s) r res :: s.log } m res
    m' r' tx dl
  rw [← h] at this
  exact this

/-- `startRequest` either finishes the request at once or leaves the reader as the discard loop
    left it -/
theorem startRequest_cases (F : Framing σ) (s : State σ) (m : Nat) (r : Req) :
    (∃ s1 res, startRequest F s m r = finish s1 m r res)
      ∨ ∃ st' rb', discardBuffered F (discardFuel s.rb) s.pst s.rb = (none, st', rb')
          ∧ (startRequest F s m r).pst = st' ∧ (startRequest F s m r).rb = rb' := by
  unfold startRequest
  simp only []
  split
  · exact Or.inl ⟨_, _, rfl⟩
  · split
    · exact Or.inl ⟨_, _, rfl⟩
    · rename_i st' rb' hd
      split
      · exact Or.inl ⟨_, _, rfl⟩
      · refine Or.inr ⟨st', rb', hd, ?_, ?_⟩ <;>
          (generalize isLatest _ m = b; cases b <;> rfl)

/-- the reader state in which `startRequest` leaves a request in flight -/
theorem startRequest_reader_at (F : Framing σ) (s : State σ) (m : Nat)
    (hF : DiscardCompleteAt F s.pst s.rb)
    (r : Req) (m' : Nat) (r' : Req) (tx dl : Nat)
    (h : (startRequest F s m r).pos = .inflight m' r' tx dl) :
    F.parse (startRequest F s m r).pst (startRequest F s m r).rb
      = (.none, (startRequest F s m r).pst, (startRequest F s m r).rb) := by
  rcases startRequest_cases F s m r with ⟨s1, res, he⟩ | ⟨st', rb', hd, h1, h2⟩
  · rw [he] at h
    exact absurd h (finish_pos_not_inflight _ _ _ _ _ _ _ _)
  · rw [h1, h2]
    exact hF _ _ hd

theorem startRequest_reader (F : Framing σ) (hF : DiscardComplete F) (s : State σ) (m : Nat)
    (r : Req) (m' : Nat) (r' : Req) (tx dl : Nat)
    (h : (startRequest F s m r).pos = .inflight m' r' tx dl) :
    F.parse (startRequest F s m r).pst (startRequest F s m r).rb
      = (.none, (startRequest F s m r).pst, (startRequest F s m r).rb) := by
  rcases startRequest_cases F s m r with ⟨s1, res, he⟩ | ⟨st', rb', hd, h1, h2⟩
  · rw [he] at h
    exact absurd h (finish_pos_not_inflight _ _ _ _ _ _ _ _)
  · rw [h1, h2]
    exact hF _ _ _ _ hd

end

/-! ### MBAP -/

theorem mbap_discard (fuel : Nat) (st : Mbap.PState) (rb : RB) (st' : Mbap.PState) (rb' : RB)
    (h1 : st = .begin → rb.data.length < fuel) (h2 : st ≠ .begin → rb.data.length + 1 < fuel)
    (h : discardBuffered mbap fuel st rb = (none, st', rb')) :
    Mbap.parse st' rb' = (.none, st', rb') := by
  induction fuel generalizing st rb with
  | zero =>
    by_cases hb : st = .begin
    · have := h1 hb; omega
    · have := h2 hb; omega
  | succ n ih =>
    unfold discardBuffered at h
    split at h
    · rename_i f st1 rb1 hp
      have hp' : Mbap.parse st rb = (.frame f, st1, rb1) := hp
      obtain ⟨_, hle, _, h7, hst1⟩ := Mbap.parse_frame st rb f st1 rb1 [] hp'
      subst hst1
      refine ih .begin rb1 (fun _ => ?_) (fun hne => absurd rfl hne) h
      by_cases hb : st = .begin
      · have := h7 hb; have := h1 hb; omega
      · have := h2 hb; omega
    · rename_i st1 rb1 hp
      simp at h
      obtain ⟨rfl, rfl⟩ := h
      exact (Mbap.parse_none st rb _ _ [] hp).2.2.2.2.2
    · simp at h

theorem mbap_discardComplete : DiscardComplete mbap := by
  intro st rb st' rb' h
  exact mbap_discard _ st rb st' rb' (fun _ => by simp [discardFuel])
    (fun _ => by simp [discardFuel]) h

end Rodbus.Client
