import RodbusModel.Props.C11
import RodbusModel.Lemmas.ClientStokRun
/-
  C11 (continued): `stale_frame_never_accepted_rtu` without its hypothesis on the parser state.

  `Rtu.StOk` (the parser states the reader can be in between calls) is an invariant of the RTU
  client: it holds for the fresh parser, `reader.reset()` at the start of a session re-establishes
  it, and the reader and the discard loop keep it (`rtu_stok_reachable`, Lemmas/ClientStokRun).
  So in every state that a script can reach — for every capacity, timeout limit, decode level and
  every resolution of the scheduler's polling order — a request that has been written cannot be
  completed from bytes received before it was transmitted.
-/
namespace Rodbus.Client

/-- `stale_frame_never_accepted_rtu` for every reachable state of the RTU client -/
theorem stale_frame_never_accepted_rtu_reachable (cap maxTo : Nat) (d : Decode)
    (coins : List Bool) (steps : List Step) (m : Nat) (r : Req) (m' : Nat) (r' : Req)
    (tx dl : Nat)
    (h : (startRequest rtu (runState rtu (State.init rtu cap maxTo d coins) steps) m r).pos
          = .inflight m' r' tx dl) :
    let t := startRequest rtu (runState rtu (State.init rtu cap maxTo d coins) steps) m r
    (∀ fuel, readerPoll rtu fuel t.pst t.rb [] = (.blocked, t.pst, t.rb, []))
      ∧ ((getMock t m').rx = [] → t.now < dl → tickInflight rtu t m' r' tx dl = none) :=
  stale_frame_never_accepted_rtu (runState rtu (State.init rtu cap maxTo d coins) steps)
    (rtu_stok_reachable cap maxTo d coins steps) m r m' r' tx dl h

/-! ### non-vacuity -/

namespace Example

/-- the initial state of the RTU client used below -/
def r16 : State Rtu.PState := State.init rtu 16 0 ⟨0, 0, 0⟩ []

/-- the hypothesis of `stale_frame_never_accepted_rtu_reachable` is satisfiable: in a session that
    has received the first three bytes of a frame (the parser waits in `ReadFullBody`, not in its
    initial state), writing a request leaves it in flight -/
example :
    (runState rtu r16 [.newSession, .rx (.data [1, 1, 1])]).pst = .fullBody 1 2
      ∧ (startRequest rtu (runState rtu r16 [.newSession, .rx (.data [1, 1, 1])]) 0
            (rc "a" .future 1000)).pos
          = .inflight 0 (rc "a" .future 1000) 0 1000 := by decide

/-- the same through the script: the submitted request is taken from the queue, written
    (`01 01 00 00 00 08 3D CC`) and in flight -/
example :
    let s := runState rtu r16
      [.newSession, .rx (.data [1, 1, 1]), .submit .R 0 (rc "a" .future 1000)]
    s.pos = .inflight 0 (rc "a" .future 1000) 0 1000
      ∧ s.log = [.tx [1, 1, 0, 0, 0, 8, 0x3D, 0xCC]] := by decide +kernel

/-- a complete RTU reply (`01 01 01 55` + CRC) received while idle is dropped; the request
    submitted afterwards is not completed by it and times out at its deadline -/
example :
    (runState rtu r16
      [.newSession, .rx (.data [1, 1, 1, 0x55, 0x91, 0xB7]),
       .submit .R 0 (rc "a" .future 10), .advance 10]).log
      = [.done "a" .future .timeout 10, .tx [1, 1, 0, 0, 0, 8, 0x3D, 0xCC]] := by decide +kernel

/-- two replies delivered together while `a` is outstanding and `b` is queued: the first completes
    `a`; the second, received before `b` was transmitted, never becomes the result of `b`,
    whichever branch `select!` polls first -/
example :
    let script := [Step.newSession, .submit .R 0 (rc "a" .future 1000),
      .submit .R 0 (rc "b" .future 1000),
      .rx (.data [1, 1, 1, 0x55, 0x91, 0xB7, 1, 1, 1, 0xFF, 0x11, 0xC8])]
    (doneIds (runState rtu (State.init rtu 16 0 ⟨0, 0, 0⟩ [true]) script).log = ["a"])
      ∧ (doneIds (runState rtu (State.init rtu 16 0 ⟨0, 0, 0⟩ [false]) script).log = ["a"])
      ∧ inflightIds (runState rtu (State.init rtu 16 0 ⟨0, 0, 0⟩ [true]) script).pos = ["b"]
      ∧ inflightIds (runState rtu (State.init rtu 16 0 ⟨0, 0, 0⟩ [false]) script).pos = ["b"] := by
  decide +kernel

end Example

end Rodbus.Client
