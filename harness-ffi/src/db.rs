//! Suites `ffi db` (point database through the C ABI inside transactions, interleaved with client
//! reads) and `ffi atomic` (transactions vs. multi-register reads under real threads).
use crate::cb::*;
use crate::e2e::{ffi_call, Args, Op};
use crate::env::*;
use rodbus_ffi::ffi;
use std::sync::atomic::{AtomicBool, Ordering};
use std::sync::{Arc, Mutex};
use std::time::Duration;

#[derive(Clone, Copy, Debug)]
enum DbOp {
    Add(u8, u16, u16),
    Update(u8, u16, u16),
    Delete(u8, u16),
    Get(u8, u16),
    Read(u8, u16, u16),
    /// `c`: the transaction ends here (the next database op starts a new one)
    Commit,
}

fn parse_op(s: &str) -> Option<DbOp> {
    if s == "c" {
        return Some(DbOp::Commit);
    }
    let kind = s.chars().next()?;
    let parts: Vec<&str> = s[1..].split('.').collect();
    let t: u8 = parts.first()?.parse().ok()?;
    if t > 3 {
        return None;
    }
    let a: u16 = parts.get(1)?.parse().ok()?;
    let b = || -> Option<u16> { parts.get(2)?.parse().ok() };
    Some(match kind {
        'a' => DbOp::Add(t, a, b()?),
        'u' => DbOp::Update(t, a, b()?),
        'd' => DbOp::Delete(t, a),
        'g' => DbOp::Get(t, a),
        'r' => DbOp::Read(t, a, b()?),
        _ => return None,
    })
}

unsafe fn apply(db: *mut rodbus_ffi::Database, op: DbOp) -> String {
    let b = |x: bool| if x { "1".to_string() } else { "0".to_string() };
    match op {
        DbOp::Add(0, i, v) => b(ffi::rodbus_database_add_coil(db, i, v != 0)),
        DbOp::Add(1, i, v) => b(ffi::rodbus_database_add_discrete_input(db, i, v != 0)),
        DbOp::Add(2, i, v) => b(ffi::rodbus_database_add_holding_register(db, i, v)),
        DbOp::Add(_, i, v) => b(ffi::rodbus_database_add_input_register(db, i, v)),
        DbOp::Update(0, i, v) => b(ffi::rodbus_database_update_coil(db, i, v != 0)),
        DbOp::Update(1, i, v) => b(ffi::rodbus_database_update_discrete_input(db, i, v != 0)),
        DbOp::Update(2, i, v) => b(ffi::rodbus_database_update_holding_register(db, i, v)),
        DbOp::Update(_, i, v) => b(ffi::rodbus_database_update_input_register(db, i, v)),
        DbOp::Delete(0, i) => b(ffi::rodbus_database_delete_coil(db, i)),
        DbOp::Delete(1, i) => b(ffi::rodbus_database_delete_discrete_input(db, i)),
        DbOp::Delete(2, i) => b(ffi::rodbus_database_delete_holding_register(db, i)),
        DbOp::Delete(_, i) => b(ffi::rodbus_database_delete_input_register(db, i)),
        DbOp::Get(t, i) if t < 2 => {
            let mut v = false;
            let rc = if t == 0 {
                ffi::rodbus_database_get_coil(db, i, &mut v)
            } else {
                ffi::rodbus_database_get_discrete_input(db, i, &mut v)
            };
            if rc == 0 {
                (v as u8).to_string()
            } else if rc == 10 {
                "err".into()
            } else {
                format!("err{rc}")
            }
        }
        DbOp::Get(t, i) => {
            let mut v = 0u16;
            let rc = if t == 2 {
                ffi::rodbus_database_get_holding_register(db, i, &mut v)
            } else {
                ffi::rodbus_database_get_input_register(db, i, &mut v)
            };
            if rc == 0 {
                v.to_string()
            } else if rc == 10 {
                "err".into()
            } else {
                format!("err{rc}")
            }
        }
        DbOp::Read(..) | DbOp::Commit => "?".into(),
    }
}

fn client_read(t: u8, start: u16, count: u16, unit: u8) -> String {
    let op = [Op::Rc, Op::Rd, Op::Rh, Op::Ri][t as usize];
    let (rc, cb) = ffi_call(world().client.0, op, &Args::Range(start, count), param(unit, 2000), false);
    if rc != 0 {
        // still let the callback finish
        wait_done(&cb, Duration::from_millis(200));
        return format!("rc.{}", param_error_name(rc));
    }
    let st = wait_done(&cb, Duration::from_secs(5));
    match st.results.as_slice() {
        [one] => {
            if one == "ModbusExceptionIllegalDataAddress" {
                "exc.2".into()
            } else {
                one.clone()
            }
        }
        [] => "none".into(),
        many => many.join("+"),
    }
}

/// ffi db <op>,<op>,...   maximal runs of database ops (between reads and `c` tokens) form one
/// transaction each
pub fn run_db(tok: &[&str]) -> String {
    let ops: Vec<DbOp> = match tok.get(2) {
        Some(&"-") => vec![],
        Some(s) => match s.split(',').map(parse_op).collect::<Option<Vec<_>>>() {
            Some(v) => v,
            None => return "bad-case".into(),
        },
        None => return "bad-case".into(),
    };
    let mut out: Vec<String> = Vec::new();
    let mut touched: Vec<(u8, u16)> = Vec::new();
    let mut i = 0;
    while i < ops.len() {
        if let DbOp::Read(t, s, c) = ops[i] {
            out.push(client_read(t, s, c, UNIT_DB));
            i += 1;
            continue;
        }
        if let DbOp::Commit = ops[i] {
            i += 1;
            continue;
        }
        let mut j = i;
        while j < ops.len() && !matches!(ops[j], DbOp::Read(..) | DbOp::Commit) {
            if let DbOp::Add(t, idx, _) = ops[j] {
                touched.push((t, idx));
            }
            j += 1;
        }
        let batch: Vec<DbOp> = ops[i..j].to_vec();
        let res = Arc::new(Mutex::new(Vec::new()));
        let res2 = res.clone();
        let rc = transaction(UNIT_DB, move |db| {
            for op in &batch {
                res2.lock().unwrap().push(unsafe { apply(db, *op) });
            }
        });
        if rc != 0 {
            out.push(format!("txerr{rc}"));
        }
        out.extend(res.lock().unwrap().drain(..));
        i = j;
    }
    // leave the unit empty for the next case
    transaction(UNIT_DB, move |db| {
        for (t, idx) in &touched {
            unsafe { apply(db, DbOp::Delete(*t, *idx)) };
        }
    });
    if out.is_empty() {
        "-".into()
    } else {
        out.join(";")
    }
}

/// first counter register of `ffi atomic … w` (thread t owns `COUNTER_BASE + t`) and the register the
/// concurrent client writes to; both outside the block 0..125 the reads look at
const COUNTER_BASE: u16 = 200;
const CLIENT_REG: u16 = 300;

/// ffi atomic <n regs> <n transactions per thread> <n reads> <threads> [<flags>]
/// flags: `d` = the server decodes app + frame while the stress runs, `w` = disjoint writers (one
/// counter register per transaction thread, incremented inside the transaction, and a client
/// writing yet another register through the write handler)
pub fn run_atomic(tok: &[&str]) -> String {
    let num = |i: usize| tok.get(i).and_then(|x| x.parse::<u32>().ok());
    let (n, ntx, nreads, threads) = match (num(2), num(3), num(4), num(5)) {
        (Some(a), Some(b), Some(c), Some(d)) if (1..=125).contains(&a) && d >= 1 && d <= 16 => (a as u16, b, c, d),
        _ => return "bad-case".into(),
    };
    let flags: Option<&str> = tok.get(6).copied();
    if tok.len() > 7 || flags.map_or(false, |f| f.is_empty() || f.chars().any(|c| c != 'd' && c != 'w' && c != 'a')) {
        return "bad-case".into();
    }
    let decode = flags.map_or(false, |f| f.contains('d'));
    let writers = flags.map_or(false, |f| f.contains('w'));
    // `a`: the block exists in all four tables, every transaction sets all four to one common value
    // (bits: its parity) and the reads rotate over the four read functions
    let all = flags.map_or(false, |f| f.contains('a'));
    let paced = flags.is_some();
    let w = world();
    *WMODE.lock().unwrap() = WMode::Apply;
    // (re)create the block with a common value, the counters and the client's register with 0
    transaction(UNIT_ATOMIC, move |db| unsafe {
        for i in 0..125u16 {
            ffi::rodbus_database_delete_holding_register(db, i);
        }
        for i in 0..16u16 {
            ffi::rodbus_database_delete_holding_register(db, COUNTER_BASE + i);
        }
        ffi::rodbus_database_delete_holding_register(db, CLIENT_REG);
        for i in 0..n {
            ffi::rodbus_database_add_holding_register(db, i, 0);
        }
        for i in 0..125u16 {
            ffi::rodbus_database_delete_coil(db, i);
            ffi::rodbus_database_delete_discrete_input(db, i);
            ffi::rodbus_database_delete_input_register(db, i);
        }
        if all {
            for i in 0..n {
                ffi::rodbus_database_add_coil(db, i, false);
                ffi::rodbus_database_add_discrete_input(db, i, false);
                ffi::rodbus_database_add_input_register(db, i, 0);
            }
        }
        if writers {
            for i in 0..threads as u16 {
                ffi::rodbus_database_add_holding_register(db, COUNTER_BASE + i, 0);
            }
            ffi::rodbus_database_add_holding_register(db, CLIENT_REG, 0);
        }
    });
    if decode {
        // everything enabled; the sessions pick the new level up between two requests
        let rc = unsafe { ffi::rodbus_server_set_decode_level(w.server.0, ffi::DecodeLevel { app: 3, frame: 2, physical: 2 }) };
        if rc != 0 {
            return format!("declevel-err{rc}");
        }
        std::thread::sleep(Duration::from_millis(20));
        for _ in 0..2 {
            client_read(2, 0, 1, UNIT_ATOMIC);
        }
    }
    let stop = Arc::new(AtomicBool::new(false));
    let server = w.server;
    let mut handles = Vec::new();
    for th in 0..threads {
        let stop = stop.clone();
        handles.push(std::thread::spawn(move || {
            let server = server;
            let mut k = 0u32;
            // failed get / update calls on the thread's own counter
            let dberr = Arc::new(std::sync::atomic::AtomicU32::new(0));
            while k < ntx && !stop.load(Ordering::Relaxed) {
                let value = ((th * 7919 + k * 13 + 1) % 65536) as u16;
                let dberr2 = dberr.clone();
                let rc = unsafe {
                    ffi::rodbus_server_update_database(
                        server.0,
                        UNIT_ATOMIC,
                        database_callback(move |db| {
                            for i in 0..n {
                                ffi::rodbus_database_update_holding_register(db, i, value);
                                if all {
                                    ffi::rodbus_database_update_input_register(db, i, value);
                                    ffi::rodbus_database_update_coil(db, i, value & 1 == 1);
                                    ffi::rodbus_database_update_discrete_input(db, i, value & 1 == 1);
                                }
                                if i % 16 == 0 {
                                    std::thread::yield_now();
                                }
                            }
                            if writers {
                                // read-modify-write of the thread's own register
                                let mut v = 0u16;
                                let reg = COUNTER_BASE + th as u16;
                                if ffi::rodbus_database_get_holding_register(db, reg, &mut v) != 0 {
                                    dberr2.fetch_add(1, Ordering::Relaxed);
                                }
                                if k % 8 == 3 {
                                    std::thread::sleep(Duration::from_micros(100));
                                } else {
                                    std::thread::yield_now();
                                }
                                if !ffi::rodbus_database_update_holding_register(db, reg, v.wrapping_add(1)) {
                                    dberr2.fetch_add(1, Ordering::Relaxed);
                                }
                            }
                        }),
                    )
                };
                if rc != 0 {
                    return Err(rc);
                }
                k += 1;
                if paced {
                    // the mutex is not fair: leave it alone for a moment so that the sessions
                    // (and the other threads) get it too
                    if k % 2 == 0 {
                        std::thread::sleep(Duration::from_micros(30));
                    } else {
                        std::thread::yield_now();
                    }
                }
            }
            Ok((k, dberr.load(Ordering::Relaxed)))
        }));
    }
    // the writing client: the Rust-API twin (its own connection, hence its own session on the
    // server), write j then read it back; (acknowledged, lost, failed requests, last acknowledged)
    let client_writer = if writers {
        let stop = stop.clone();
        let ch = w.rust.clone();
        Some(std::thread::spawn(move || {
            let p = rodbus::client::RequestParam::new(rodbus::UnitId::new(UNIT_ATOMIC), Duration::from_millis(2000));
            let range = rodbus::AddressRange::try_from(CLIENT_REG, 1).unwrap();
            let (mut acked, mut lost, mut failed, mut last) = (0u32, 0u32, 0u32, 0u16);
            let mut j = 0u16;
            while !stop.load(Ordering::Relaxed) {
                j = j.wrapping_add(1);
                let ch2 = ch.clone();
                let r = hrt().block_on(async move {
                    let a = ch2.write_single_register(p, rodbus::Indexed::new(CLIENT_REG, j)).await;
                    let b = ch2.read_holding_registers(p, range).await;
                    (a, b)
                });
                match r {
                    (Ok(_), Ok(v)) => {
                        acked += 1;
                        last = j;
                        if v.len() != 1 || v[0].value != j {
                            lost += 1;
                        }
                    }
                    _ => failed += 1,
                }
            }
            (acked, lost, failed, last)
        }))
    } else {
        None
    };
    let mut torn: Option<String> = None;
    let mut ntorn = 0u32;
    let mut reads_done = 0u32;
    let started = std::time::Instant::now();
    for r in 0..nreads {
        // flagged cases belong to the quick tier: bounded run time even if the reader is starved
        if paced && started.elapsed() > Duration::from_millis(2000) {
            break;
        }
        reads_done += 1;
        let table = if all { [2u8, 3, 0, 1][(r % 4) as usize] } else { 2 };
        let s = client_read(table, 0, n, UNIT_ATOMIC);
        let whole = match (s.strip_prefix("g0:"), s.strip_prefix("b0:")) {
            (Some(vals), _) => {
                let vs: Vec<&str> = vals.split('/').collect();
                vs.len() == n as usize && vs.iter().all(|v| *v == vs[0])
            }
            (_, Some(bits)) => {
                let b = bits.as_bytes();
                b.len() == n as usize && b.iter().all(|c| *c == b[0])
            }
            _ => false,
        };
        if !whole {
            ntorn += 1;
            if torn.is_none() {
                torn = Some(format!("read{r}:{s}"));
            }
            if flags.is_none() {
                break;
            }
        }
    }
    stop.store(true, Ordering::Relaxed);
    let mut txerr = None;
    let mut done: Vec<u32> = Vec::new();
    let mut dberrs = 0u32;
    for h in handles {
        match h.join() {
            Ok(Ok((k, e))) => {
                done.push(k);
                dberrs += e;
            }
            Ok(Err(rc)) => {
                txerr = Some(rc);
                done.push(0);
            }
            Err(_) => {
                txerr = Some(-1);
                done.push(0);
            }
        }
    }
    let cw = client_writer.map(|h| h.join().unwrap_or((0, 0, 1, 0)));
    // the final contents of the counters and of the client's register
    let fin = Arc::new(Mutex::new(Vec::new()));
    if writers {
        let fin2 = fin.clone();
        transaction(UNIT_ATOMIC, move |db| unsafe {
            let mut out = Vec::new();
            for i in (0..threads as u16).map(|t| COUNTER_BASE + t).chain([CLIENT_REG]) {
                let mut v = 0u16;
                out.push(if ffi::rodbus_database_get_holding_register(db, i, &mut v) == 0 { Some(v) } else { None });
            }
            *fin2.lock().unwrap() = out;
        });
    }
    if decode {
        unsafe { ffi::rodbus_server_set_decode_level(w.server.0, decode_nothing()) };
        std::thread::sleep(Duration::from_millis(20));
        client_read(2, 0, 1, UNIT_ATOMIC);
    }
    WLOG.lock().unwrap().clear();
    let first = match (&torn, txerr) {
        (None, None) => "uniform".to_string(),
        (Some(t), _) => format!("torn:{t}"),
        (None, Some(rc)) => format!("txerr{rc}"),
    };
    if flags.is_none() {
        return first;
    }
    let mut lost = 0u64;
    let mut detail = String::new();
    let mut work = done.iter().all(|k| *k > 0) && reads_done > 0;
    if writers {
        let fin = fin.lock().unwrap().clone();
        for (t, k) in done.iter().enumerate() {
            let want = (*k % 65536) as u16;
            match fin.get(t).copied().flatten() {
                Some(v) if v == want => {}
                Some(v) => {
                    lost += want.wrapping_sub(v) as u64;
                    detail.push_str(&format!(" cnt{t}={v}/{want}"));
                }
                None => {
                    lost += 1;
                    detail.push_str(&format!(" cnt{t}=absent"));
                }
            }
        }
        let (acked, wlost, failed, last) = cw.unwrap_or((0, 0, 1, 0));
        lost += wlost as u64;
        let fv = fin.get(threads as usize).copied().flatten();
        if acked > 0 && failed == 0 && fv != Some(last) {
            lost += 1;
        }
        if wlost > 0 || failed > 0 || (acked > 0 && fv != Some(last)) {
            detail.push_str(&format!(" cw=acked{acked}/lost{wlost}/failed{failed}/last{last}/final{fv:?}"));
        }
        if dberrs > 0 {
            detail.push_str(&format!(" dberr={dberrs}"));
        }
        work = work && acked > 0 && failed == 0 && dberrs == 0;
    }
    format!("{first} torn={ntorn} lost={lost} work={}{detail}", if work { "ok" } else { "idle" })
}
