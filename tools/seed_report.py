#!/usr/bin/env python3
"""writes seeded/README.md from seeded/*/meta.json, verified.json and RESULTS.json"""
import json, os, glob
V = os.path.normpath(os.path.join(os.path.dirname(os.path.abspath(__file__)), ".."))
res = json.load(open(os.path.join(V, "seeded", "RESULTS.json")))
notes = {}
np = os.path.join(V, "seeded", "NOTES.json")
if os.path.exists(np):
    notes = json.load(open(np))
rows = []
for d in sorted(glob.glob(os.path.join(V, "seeded", "C*"))):
    name = os.path.basename(d)
    meta = json.load(open(os.path.join(d, "meta.json")))
    ver = json.load(open(os.path.join(d, "verified.json"))) if os.path.exists(os.path.join(d, "verified.json")) else {}
    r = res.get(name, {})
    caught = ", ".join(f"{p}{'' if v.get('caught') else ' (missed)'}" for p, v in r.items()) if r else "not run"
    ok = ver.get("existing_suite_rc_with_patch") == 0 and ver.get("demo_rc_with_patch", 0) != 0 and ver.get("demo_rc_without_patch") == 0
    rows.append((name, meta.get("summary", "").replace("|", "/"), meta.get("needs", "").replace("|", "/"),
                 "yes" if ok else ("pending" if not ver else "NO"), caught, notes.get(name, "")))
with open(os.path.join(V, "seeded", "README.md"), "w") as f:
    f.write("# Seeded changes\n\nEach directory holds a change to stepfunc/rodbus produced by a fresh sub-agent that saw only the text of one\n"
            "property (patch.diff), its demonstration (demo.rs: fails with the change, passes without), meta.json (what it\n"
            "breaks and what it needs to manifest) and verified.json (independent confirmation by tools/verify_seed.sh in a\n"
            "scratch worktree: the existing suite passes with the patch, the demo fails with it and passes without it).\n"
            "`tools/run_seeds.py` applies each change to /repo, runs the quick check of its property and reverts\n"
            "(results: RESULTS.json). None of these changes is ever committed to /repo.\n\n"
            "| change | what it breaks | needs | confirmed | caught by quick check | strengthening it caused |\n|---|---|---|---|---|---|\n")
    for row in rows:
        f.write("| " + " | ".join(row) + " |\n")
print(len(rows), "seeds")
