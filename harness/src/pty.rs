//! `pty` suites: the production *serial* code paths (`spawn_rtu_server_task`,
//! `spawn_rtu_client_task`, `serial::open`, `PhysLayer::new_serial` with its inter-character
//! delay, `SessionTask::sleep_for`) end to end over a Unix98 pseudo-terminal pair, real time.
//! The library opens the *slave* (`/dev/pts/<n>`) like any serial device; the harness plays the
//! wire on the *master*.
//!
//! pty srv <units> <script>      -> tx=<hex> calls=<log> st=<state>
//!   script steps: <hex chunk> | ~<ms> | !s (last step: shutdown command instead of dropping the
//!   handle); leading options R<ms>, B<baud>[.<data>.<parity>.<stop>.<flow>]
//! pty cli <script>              -> req=<hex;…> res=<result;…> port=<PortState,…>
//!   script steps: q<kind>.<unit>.<timeout ms>.<a>.<b> | a<hex> | a- | ~<ms> | E | D; same options
//! pty port r<min ms>.<max ms> <script> -> <PortState,…>   (life cycle of the client channel task)
//!   script steps: f | o | x | E | D | S | X | ~<ms>; the device path is a symbolic link to the slave
//! pty rsrv r<min ms>.<max ms> <units> <script> -> <Fail(ms) | Open | Wait(ms) | tx:<hex> | End,…>
//!   (open / retry life cycle of the RTU server task; its announcements are `tracing` events)
//!   script steps: f | o | x | q<hex> | b<hex> | S | X | ~<ms>
//!
//! For chunks that hold whole frames the output of `pty srv <units> <script>` equals that of
//! `srv r d000 - <units> <script>` without its ` end=…` suffix. See PROTOCOL.md, section "pty".
use crate::client::{bits_str, regs_str, res_str};
use crate::points::*;
use crate::util::*;
use rodbus::client::*;
use rodbus::server::*;
use rodbus::*;
use std::ffi::CStr;
use std::sync::{Arc, Mutex};
use std::time::{Duration, Instant};

/// the wire is considered quiet when nothing arrived for this long …
const QUIET_MS: u64 = 60;
/// … and at least this many polling rounds saw nothing (a round = sleep + yields, so that the
/// library task had a chance to run even if the process was not scheduled for a while)
const QUIET_ROUNDS: u32 = 20;
/// pause between two polls of the master
const POLL_MS: u64 = 2;
/// upper bound for one "until quiet" wait
const MAX_WAIT_MS: u64 = 1500;
/// how long the library may take to open / release the slave
const OPEN_WAIT_MS: u64 = 1000;
/// delay of the retry strategy unless the script starts with `R<ms>`: longer than any case, so
/// that a failed session is never re-opened behind the script's back
const DEFAULT_RETRY_MS: u64 = 5000;

/// master side of a pseudo-terminal pair
struct Pty {
    master: libc::c_int,
    slave_path: String,
    /// quiet window of this case (QUIET_MS unless the baud rate is very low)
    quiet_ms: u64,
}

fn os_err(what: &str) -> String {
    format!("{what}: {}", std::io::Error::last_os_error())
}

impl Pty {
    fn open() -> Result<Pty, String> {
        unsafe {
            let master = libc::posix_openpt(libc::O_RDWR | libc::O_NOCTTY | libc::O_CLOEXEC);
            if master < 0 {
                return Err(os_err("posix_openpt"));
            }
            // from here on the fd is owned (closed on every error path)
            let mut pty = Pty {
                master,
                slave_path: String::new(),
                quiet_ms: QUIET_MS,
            };
            if libc::grantpt(master) != 0 {
                return Err(os_err("grantpt"));
            }
            if libc::unlockpt(master) != 0 {
                return Err(os_err("unlockpt"));
            }
            let mut buf = [0 as libc::c_char; 128];
            if libc::ptsname_r(master, buf.as_mut_ptr(), buf.len()) != 0 {
                return Err(os_err("ptsname_r"));
            }
            pty.slave_path = CStr::from_ptr(buf.as_ptr()).to_string_lossy().into_owned();
            // raw mode: no echo, no line discipline processing, no CR/NL translation. On Linux the
            // termios of a pty pair is one object, reachable through either end; the library
            // applies its own (raw) settings when it opens the slave, this covers the time before.
            let mut tio: libc::termios = std::mem::zeroed();
            if libc::tcgetattr(master, &mut tio) != 0 {
                return Err(os_err("tcgetattr"));
            }
            libc::cfmakeraw(&mut tio);
            if libc::tcsetattr(master, libc::TCSANOW, &tio) != 0 {
                return Err(os_err("tcsetattr"));
            }
            let fl = libc::fcntl(master, libc::F_GETFL);
            if fl < 0 || libc::fcntl(master, libc::F_SETFL, fl | libc::O_NONBLOCK) != 0 {
                return Err(os_err("fcntl(O_NONBLOCK)"));
            }
            Ok(pty)
        }
    }

    /// everything that can be read right now (never blocks); EIO = the slave is closed
    fn read_avail(&self, out: &mut Vec<u8>) -> usize {
        let mut total = 0;
        let mut buf = [0u8; 1024];
        loop {
            let n = unsafe { libc::read(self.master, buf.as_mut_ptr() as *mut libc::c_void, buf.len()) };
            if n > 0 {
                out.extend_from_slice(&buf[..n as usize]);
                total += n as usize;
            } else {
                return total;
            }
        }
    }

    /// writes all bytes (bounded retries on EAGAIN); false if the master refused them
    async fn write_all(&self, data: &[u8]) -> bool {
        let mut off = 0;
        let deadline = Instant::now() + Duration::from_millis(500);
        while off < data.len() {
            let n = unsafe {
                libc::write(
                    self.master,
                    data[off..].as_ptr() as *const libc::c_void,
                    data.len() - off,
                )
            };
            if n > 0 {
                off += n as usize;
            } else {
                let e = std::io::Error::last_os_error();
                if e.kind() != std::io::ErrorKind::WouldBlock && e.kind() != std::io::ErrorKind::Interrupted {
                    return false;
                }
                if Instant::now() > deadline {
                    return false;
                }
                tokio::time::sleep(Duration::from_millis(1)).await;
            }
        }
        true
    }

    /// number of descriptors of this process that refer to the slave (the harness itself never
    /// opens it): > 0 exactly while the library holds the port open
    fn slave_fds(&self) -> Option<usize> {
        let mut n = 0;
        for e in std::fs::read_dir("/proc/self/fd").ok()?.flatten() {
            if let Ok(target) = std::fs::read_link(e.path()) {
                if target.to_string_lossy() == self.slave_path {
                    n += 1;
                }
            }
        }
        Some(n)
    }

    async fn wait_slave_fds(&self, want_open: bool) -> bool {
        let deadline = Instant::now() + Duration::from_millis(OPEN_WAIT_MS);
        loop {
            match self.slave_fds() {
                Some(n) if (n > 0) == want_open => return true,
                Some(_) => {}
                None => {
                    // no /proc: the open happens in the task's first poll, the close in its last
                    tokio::time::sleep(Duration::from_millis(100)).await;
                    return true;
                }
            }
            if Instant::now() > deadline {
                return false;
            }
            tokio::time::sleep(Duration::from_millis(POLL_MS)).await;
        }
    }
}

impl Drop for Pty {
    fn drop(&mut self) {
        unsafe {
            libc::close(self.master);
        }
    }
}

/// one polling round: let the library task run, then take what it wrote
async fn poll_round(pty: &Pty, out: &mut Vec<u8>) -> usize {
    tokio::time::sleep(Duration::from_millis(POLL_MS)).await;
    tokio::task::yield_now().await;
    tokio::task::yield_now().await;
    pty.read_avail(out)
}

/// collects bytes until the wire has been quiet (`quiet_ms` and QUIET_ROUNDS)
async fn read_until_quiet(pty: &Pty, out: &mut Vec<u8>) {
    let deadline = Instant::now() + Duration::from_millis(MAX_WAIT_MS);
    let mut last = Instant::now();
    let mut rounds = 0u32;
    loop {
        if poll_round(pty, out).await > 0 {
            last = Instant::now();
            rounds = 0;
        } else {
            rounds += 1;
        }
        if rounds >= QUIET_ROUNDS && last.elapsed() >= Duration::from_millis(pty.quiet_ms) {
            return;
        }
        if Instant::now() > deadline {
            return;
        }
    }
}

fn retry_of(ms: u64) -> Box<dyn RetryStrategy> {
    doubling_retry_strategy(Duration::from_millis(ms), Duration::from_millis(ms))
}

/// leading option steps of a script: `R<ms>` (delay of the retry strategy) and
/// `B<baud>[.<data bits 5-8>.<parity N|E|O>.<stop bits 1|2>.<flow N|S|H>]` (serial settings)
struct Options {
    retry_ms: u64,
    settings: SerialSettings,
}

fn options<'a>(steps: &'a [&'a str]) -> (Options, &'a [&'a str]) {
    // explicit 9600 8N1 without flow control (= `SerialSettings::default()`)
    let mut o = Options {
        retry_ms: DEFAULT_RETRY_MS,
        settings: SerialSettings {
            baud_rate: 9600,
            data_bits: DataBits::Eight,
            flow_control: FlowControl::None,
            stop_bits: StopBits::One,
            parity: Parity::None,
        },
    };
    let mut rest = steps;
    while let Some(first) = rest.first() {
        if let Some(ms) = first.strip_prefix('R') {
            o.retry_ms = ms.parse().unwrap();
        } else if let Some(spec) = first.strip_prefix('B') {
            let p: Vec<&str> = spec.split('.').collect();
            o.settings.baud_rate = p[0].parse().unwrap();
            if p.len() == 5 {
                o.settings.data_bits = match p[1] {
                    "5" => DataBits::Five,
                    "6" => DataBits::Six,
                    "7" => DataBits::Seven,
                    _ => DataBits::Eight,
                };
                o.settings.parity = match p[2] {
                    "E" => Parity::Even,
                    "O" => Parity::Odd,
                    _ => Parity::None,
                };
                o.settings.stop_bits = if p[3] == "2" { StopBits::Two } else { StopBits::One };
                o.settings.flow_control = match p[4] {
                    "S" => FlowControl::Software,
                    "H" => FlowControl::Hardware,
                    _ => FlowControl::None,
                };
            }
        } else {
            break;
        }
        rest = &rest[1..];
    }
    (o, rest)
}

/// two frames written back to back are separated by the inter-character delay of
/// `PhysLayer::write` (3.5 characters of 11 bits): the quiet window must be longer than that
fn quiet_for(baud: u32) -> u64 {
    let delay_ms = 38_500 / baud.max(1) as u64 + 1;
    QUIET_MS.max(2 * delay_ms + 10)
}

/// pty srv <units> <script>
async fn run_srv(tok: &[&str]) -> String {
    let mut pty = match Pty::open() {
        Ok(p) => p,
        Err(e) => return format!("pty-error:{e}"),
    };
    let log: Log = Arc::new(Mutex::new(Vec::new()));
    // the handler map is built exactly like in the `srv` suite
    let mut map: ServerHandlerMap<TestHandler> = ServerHandlerMap::new();
    let mut handlers = Vec::new();
    if tok[2] != "-" {
        for u in tok[2].split(';') {
            let (id, items) = u.split_once(':').unwrap();
            let unit: u8 = id.parse().unwrap();
            let h = TestHandler {
                unit,
                points: Points::parse(items),
                log: log.clone(),
            }
            .wrap();
            handlers.push((unit, h.clone()));
            map.add(UnitId::new(unit), h);
        }
    }
    let all: Vec<&str> = if tok[3] == "-" { vec![] } else { tok[3].split(',').collect() };
    let (opt, steps) = options(&all);
    pty.quiet_ms = quiet_for(opt.settings.baud_rate);
    let handle = match spawn_rtu_server_task(
        &pty.slave_path,
        opt.settings,
        retry_of(opt.retry_ms),
        map,
        DecodeLevel::nothing(),
    ) {
        Ok(h) => h,
        Err(e) => return format!("pty-error:spawn_rtu_server_task: {e}"),
    };
    if !pty.wait_slave_fds(true).await {
        return format!("pty-error:the server did not open {}", pty.slave_path);
    }
    let mut tx: Vec<u8> = Vec::new();
    let mut explicit_shutdown = false;
    for step in steps {
        if let Some(ms) = step.strip_prefix('~') {
            tokio::time::sleep(Duration::from_millis(ms.parse().unwrap())).await;
            pty.read_avail(&mut tx);
        } else if *step == "!s" {
            explicit_shutdown = true;
            break;
        } else {
            // while the server has the port closed (after a failed session) the bytes go nowhere
            let _ = pty.write_all(&unhex(step)).await;
            read_until_quiet(&pty, &mut tx).await;
        }
    }
    pty.read_avail(&mut tx);
    // end of the case: the task must release the port, either because the command was sent or
    // because the last handle is gone
    let keep = if explicit_shutdown {
        let _ = tokio::time::timeout(Duration::from_millis(500), handle.shutdown()).await;
        Some(handle)
    } else {
        drop(handle);
        None
    };
    let released = pty.wait_slave_fds(false).await;
    pty.read_avail(&mut tx);
    drop(keep);
    if !released {
        return "pty-error:the server did not release the port on shutdown".into();
    }
    let calls = log.lock().unwrap().join(";");
    handlers.sort_by_key(|(u, _)| *u);
    let st = handlers
        .iter()
        .map(|(u, h)| format!("{}[{}]", u, h.lock().unwrap_or_else(|e| e.into_inner()).points.state_string()))
        .collect::<Vec<_>>()
        .join(";");
    format!(
        "tx={} calls={} st={}",
        hex(&tx),
        if calls.is_empty() { "-".into() } else { calls },
        if st.is_empty() { "-".into() } else { st },
    )
}

struct PortLog {
    log: Arc<Mutex<Vec<PortState>>>,
}

impl Listener<PortState> for PortLog {
    fn update(&mut self, value: PortState) -> MaybeAsync<()> {
        self.log.lock().unwrap().push(value);
        MaybeAsync::ready(())
    }
}

fn port_str(s: &PortState) -> String {
    match s {
        PortState::Disabled => "Disabled".into(),
        PortState::Wait(d) => format!("Wait({})", d.as_millis()),
        PortState::Open => "Open".into(),
        PortState::Shutdown => "Shutdown".into(),
    }
}

async fn wait_port(log: &Arc<Mutex<Vec<PortState>>>, len: usize) -> bool {
    let deadline = Instant::now() + Duration::from_millis(OPEN_WAIT_MS);
    loop {
        if log.lock().unwrap().len() >= len {
            return true;
        }
        if Instant::now() > deadline {
            return false;
        }
        tokio::time::sleep(Duration::from_millis(POLL_MS)).await;
    }
}

/// issues one request through the channel; the result is formatted like in the `cl` suite
fn submit(ch: &Channel, spec: &str) -> (Duration, tokio::task::JoinHandle<String>) {
    // <kind>.<unit>.<timeout ms>.<args>
    let p: Vec<&str> = spec.split('.').collect();
    let kind = p[0].to_string();
    let unit: u8 = p[1].parse().unwrap();
    let timeout = Duration::from_millis(p[2].parse().unwrap());
    let a: u16 = p[3].parse().unwrap();
    let b: u32 = p[4].parse().unwrap();
    let param = RequestParam::new(UnitId::new(unit), timeout);
    let ch = ch.clone();
    let task = tokio::spawn(async move {
        let range = || AddressRange::try_from(a, b as u16).map_err(|e| RequestError::BadRequest(e.into()));
        match kind.as_str() {
            "rc" | "rd" | "rh" | "ri" => {
                let range = match range() {
                    Ok(r) => r,
                    Err(e) => return req_err(e),
                };
                match kind.as_str() {
                    "rc" => res_str(ch.read_coils(param, range).await, |v| bits_str(&v)),
                    "rd" => res_str(ch.read_discrete_inputs(param, range).await, |v| bits_str(&v)),
                    "rh" => res_str(ch.read_holding_registers(param, range).await, |v| regs_str(&v)),
                    _ => res_str(ch.read_input_registers(param, range).await, |v| regs_str(&v)),
                }
            }
            "wc" => res_str(
                ch.write_single_coil(param, Indexed::new(a, b != 0)).await,
                |v: Indexed<bool>| format!("c{}:{}", v.index, v.value as u8),
            ),
            "wr" => res_str(
                ch.write_single_register(param, Indexed::new(a, b as u16)).await,
                |v: Indexed<u16>| format!("s{}:{}", v.index, v.value),
            ),
            other => panic!("bad request kind {other}"),
        }
    });
    (timeout, task)
}

/// pty cli <script>
async fn run_cli(tok: &[&str]) -> String {
    let mut pty = match Pty::open() {
        Ok(p) => p,
        Err(e) => return format!("pty-error:{e}"),
    };
    let all: Vec<&str> = if tok[2] == "-" { vec![] } else { tok[2].split(',').collect() };
    let (opt, steps) = options(&all);
    pty.quiet_ms = quiet_for(opt.settings.baud_rate);
    let port: Arc<Mutex<Vec<PortState>>> = Arc::new(Mutex::new(Vec::new()));
    let channel = spawn_rtu_client_task(
        &pty.slave_path,
        opt.settings,
        4,
        retry_of(opt.retry_ms),
        DecodeLevel::nothing(),
        Some(Box::new(PortLog { log: port.clone() })),
    );
    // Disabled (task started), then Open once enabled
    let _ = tokio::time::timeout(Duration::from_millis(500), channel.enable()).await;
    if !wait_port(&port, 2).await || port.lock().unwrap()[1] != PortState::Open {
        let seen = port.lock().unwrap().iter().map(port_str).collect::<Vec<_>>().join(",");
        let _ = tokio::time::timeout(Duration::from_millis(500), channel.shutdown()).await;
        return format!("pty-error:the client did not open {} (port={seen})", pty.slave_path);
    }
    let mut reqs: Vec<String> = Vec::new();
    let mut results: Vec<String> = Vec::new();
    let mut stray: Vec<u8> = Vec::new();
    let mut i = 0;
    while i < steps.len() {
        let step = steps[i];
        i += 1;
        if let Some(ms) = step.strip_prefix('~') {
            tokio::time::sleep(Duration::from_millis(ms.parse().unwrap())).await;
        } else if step == "E" || step == "D" {
            let cmd = async {
                if step == "E" {
                    channel.enable().await
                } else {
                    channel.disable().await
                }
            };
            let _ = tokio::time::timeout(Duration::from_millis(500), cmd).await;
            let mut sink = Vec::new();
            read_until_quiet(&pty, &mut sink).await;
            stray.extend(sink);
        } else if let Some(data) = step.strip_prefix('a') {
            // bytes from the device that no request is waiting for
            let _ = pty.write_all(&unhex(data)).await;
            let mut sink = Vec::new();
            read_until_quiet(&pty, &mut sink).await;
            stray.extend(sink);
        } else if let Some(spec) = step.strip_prefix('q') {
            let (timeout, task) = submit(&channel, spec);
            // the request as it appears on the wire
            let mut req: Vec<u8> = Vec::new();
            let give_up = Instant::now() + timeout + Duration::from_millis(500);
            let mut last = Instant::now();
            let mut rounds = 0u32;
            loop {
                if poll_round(&pty, &mut req).await > 0 {
                    last = Instant::now();
                    rounds = 0;
                } else {
                    rounds += 1;
                }
                let quiet = rounds >= QUIET_ROUNDS && last.elapsed() >= Duration::from_millis(pty.quiet_ms);
                if quiet && (!req.is_empty() || task.is_finished()) {
                    break;
                }
                if Instant::now() > give_up {
                    break;
                }
            }
            reqs.push(hex(&req));
            // the device's answer: the following `a…` steps (with optional pauses in between)
            while i < steps.len() && (steps[i].starts_with('a') || steps[i].starts_with('~')) {
                if let Some(ms) = steps[i].strip_prefix('~') {
                    tokio::time::sleep(Duration::from_millis(ms.parse().unwrap())).await;
                } else if &steps[i][1..] != "-" {
                    let _ = pty.write_all(&unhex(&steps[i][1..])).await;
                }
                i += 1;
            }
            let res = match tokio::time::timeout(timeout + Duration::from_millis(1000), task).await {
                Ok(Ok(s)) => s,
                Ok(Err(e)) if e.is_panic() => "panic".to_string(),
                Ok(Err(_)) => "cancelled".to_string(),
                Err(_) => "hung".to_string(),
            };
            results.push(res);
            // let the idle client consume whatever the device sent after the request was over
            // (a late reply that is still unread when the next request goes out would be taken
            // for that request's reply: RTU has no transaction id), and catch anything else the
            // client writes (it must not)
            read_until_quiet(&pty, &mut stray).await;
        } else {
            panic!("bad step {step}");
        }
    }
    let before = port.lock().unwrap().len();
    let _ = tokio::time::timeout(Duration::from_millis(500), channel.shutdown()).await;
    // the task announces Shutdown and releases the port
    let deadline = Instant::now() + Duration::from_millis(OPEN_WAIT_MS);
    while Instant::now() < deadline {
        if port.lock().unwrap()[before..].contains(&PortState::Shutdown) {
            break;
        }
        tokio::time::sleep(Duration::from_millis(POLL_MS)).await;
    }
    let released = pty.wait_slave_fds(false).await;
    pty.read_avail(&mut stray);
    let mut out = format!(
        "req={} res={} port={}",
        if reqs.is_empty() { "-".into() } else { reqs.join(";") },
        if results.is_empty() { "-".into() } else { results.join(";") },
        port.lock().unwrap().iter().map(port_str).collect::<Vec<_>>().join(","),
    );
    // never expected; visible in the diff if it happens
    if !stray.is_empty() {
        out.push_str(&format!(" stray={}", hex(&stray)));
    }
    if !released {
        out.push_str(" port-not-released");
    }
    out
}

/// listener of the `pty port` suite: every announcement is handed to the harness together with a
/// release handle; the task stays inside `update(..)` until the harness lets it go (lock step, like
/// the gate of the `life` suite), so no step of a script depends on how fast either side runs
struct PortGate {
    tx: tokio::sync::mpsc::UnboundedSender<(PortState, tokio::sync::oneshot::Sender<()>)>,
}

impl Listener<PortState> for PortGate {
    fn update(&mut self, value: PortState) -> MaybeAsync<()> {
        let (rel_tx, rel_rx) = tokio::sync::oneshot::channel();
        let _ = self.tx.send((value, rel_tx));
        MaybeAsync::asynchronous(async move {
            let _ = rel_rx.await;
        })
    }
}

/// how long an announcement that must come may take (the longest delay of a case is < 1 s)
const PORT_WAIT_MS: u64 = 4000;

static PORT_CASE: std::sync::atomic::AtomicUsize = std::sync::atomic::AtomicUsize::new(0);

/// the observer's side of one `pty port` case
struct PortCase {
    rx: tokio::sync::mpsc::UnboundedReceiver<(PortState, tokio::sync::oneshot::Sender<()>)>,
    /// everything announced so far, in order
    seen: Vec<String>,
    /// the task is held inside `update(Wait(_))`: its delay starts when it is released
    held: Option<tokio::sync::oneshot::Sender<()>>,
    last: Option<PortState>,
    /// never expected; visible in the diff
    notes: Vec<String>,
    /// an announcement that had to come did not: the rest of the script is skipped
    stuck: bool,
}

impl PortCase {
    fn release(&mut self) {
        if let Some(rel) = self.held.take() {
            let _ = rel.send(());
        }
    }

    /// records one announcement; a `Wait` keeps the task held, everything else lets it run on
    /// (after `Disabled` / `Open` the task blocks by itself until the next event).
    /// The descriptor check: the port is open at `Open` and closed at every other announcement.
    fn record(&mut self, state: PortState, rel: tokio::sync::oneshot::Sender<()>, pty: &Option<Pty>) {
        if let Some(n) = pty.as_ref().and_then(|p| p.slave_fds()) {
            if (state == PortState::Open) != (n > 0) {
                self.notes.push(format!("fds={n}@{}", self.seen.len()));
            }
        }
        self.seen.push(port_str(&state));
        self.last = Some(state);
        if let PortState::Wait(_) = state {
            self.held = Some(rel);
        } else {
            let _ = rel.send(());
        }
    }

    /// waits for the announcement that the last action must cause
    async fn next(&mut self, pty: &Option<Pty>) {
        if self.stuck {
            return;
        }
        match tokio::time::timeout(Duration::from_millis(PORT_WAIT_MS), self.rx.recv()).await {
            Ok(Some((state, rel))) => self.record(state, rel, pty),
            Ok(None) => {
                self.seen.push("listener-dropped".into());
                self.stuck = true;
            }
            Err(_) => {
                self.seen.push("timeout".into());
                self.stuck = true;
            }
        }
    }
}

/// pty port r<min ms>.<max ms> <script>
///
/// The production `spawn_rtu_client_task` on a device path that is a symbolic link (fresh
/// directory per case) to the slave of a pseudo-terminal: link absent = `serial::open` fails, link
/// present = it succeeds; closing the master hangs up an open port (the client reads EOF).
/// Steps: `f` / `o` remove / create the link and let a pending wait elapse (the task, held in
/// `update(Wait(_))`, is released and makes its next attempt), `x` removes the link and closes the
/// master, `E` / `D` / `S` use the channel handle, `X` drops it, `~<ms>` sleeps.  The harness waits for an
/// announcement exactly when its own action must cause one (an attempt of an enabled channel, a
/// disable of an enabled channel, the loss of an open port, the shutdown); whatever is announced at
/// any time is printed in order, so an announcement too many or too few shows in the output.
async fn run_port(tok: &[&str]) -> String {
    let Some((rmin, rmax)) = tok[2].strip_prefix('r').and_then(|x| x.split_once('.')) else {
        return "pty-error:usage: pty port r<min ms>.<max ms> <script>".into();
    };
    let (Ok(rmin), Ok(rmax)) = (rmin.parse::<u64>(), rmax.parse::<u64>()) else {
        return "pty-error:usage: pty port r<min ms>.<max ms> <script>".into();
    };
    let steps: Vec<&str> = if tok[3] == "-" { vec![] } else { tok[3].split(',').collect() };
    let nanos = std::time::SystemTime::now()
        .duration_since(std::time::UNIX_EPOCH)
        .map(|d| d.subsec_nanos())
        .unwrap_or(0);
    let dir = std::env::temp_dir().join(format!(
        "verif-sport-{}-{}-{}",
        std::process::id(),
        PORT_CASE.fetch_add(1, std::sync::atomic::Ordering::Relaxed),
        nanos
    ));
    if let Err(e) = std::fs::create_dir_all(&dir) {
        return format!("pty-error:create {}: {e}", dir.display());
    }
    let link = dir.join("port");
    let (tx, rx) = tokio::sync::mpsc::unbounded_channel();
    // `None` once the script dropped every handle (`X`)
    let mut channel = Some(spawn_rtu_client_task(
        link.to_str().unwrap(),
        SerialSettings::default(),
        64,
        doubling_retry_strategy(Duration::from_millis(rmin), Duration::from_millis(rmax)),
        DecodeLevel::nothing(),
        Some(Box::new(PortGate { tx })),
    ));
    let mut c = PortCase {
        rx,
        seen: Vec::new(),
        held: None,
        last: None,
        notes: Vec::new(),
        stuck: false,
    };
    let mut pty: Option<Pty> = None;
    // what the harness itself asked for through the handle
    let mut enabled = false;
    let mut finished = false;
    // the task starts: Disabled
    c.next(&pty).await;
    let cmd_wait = Duration::from_millis(500);
    for step in steps {
        if c.stuck {
            break;
        }
        match step {
            "f" | "o" => {
                if step == "f" {
                    let _ = std::fs::remove_file(&link);
                } else {
                    if pty.is_none() {
                        match Pty::open() {
                            Ok(p) => pty = Some(p),
                            Err(e) => {
                                c.notes.push(format!("pty-error:{e}"));
                                break;
                            }
                        }
                    }
                    if std::fs::symlink_metadata(&link).is_err() {
                        if let Err(e) = std::os::unix::fs::symlink(&pty.as_ref().unwrap().slave_path, &link) {
                            c.notes.push(format!("pty-error:symlink: {e}"));
                            break;
                        }
                    }
                }
                // a pending wait elapses: the next attempt of the task sees the path as it is now
                if c.held.is_some() {
                    c.release();
                    c.next(&pty).await;
                }
            }
            "x" => {
                let _ = std::fs::remove_file(&link);
                let was_open = c.last == Some(PortState::Open);
                // closing the master hangs up the slave: an open port reads EOF
                pty = None;
                if was_open {
                    c.next(&pty).await;
                }
            }
            // commands need a handle: after `X` there is none and nothing happens
            "E" => {
                if let Some(ch) = channel.as_ref() {
                    let _ = tokio::time::timeout(cmd_wait, ch.enable()).await;
                    if !enabled && !finished {
                        enabled = true;
                        // `wait_for_enabled` returns: open attempt
                        c.next(&pty).await;
                    }
                }
            }
            "D" => {
                if let Some(ch) = channel.as_ref() {
                    let _ = tokio::time::timeout(cmd_wait, ch.disable()).await;
                    if enabled && !finished {
                        enabled = false;
                        c.release();
                        c.next(&pty).await;
                    }
                }
            }
            "S" => {
                if let Some(ch) = channel.as_ref() {
                    let _ = tokio::time::timeout(cmd_wait, ch.shutdown()).await;
                    if !finished {
                        finished = true;
                        c.release();
                        c.next(&pty).await;
                    }
                }
            }
            "X" => {
                // every handle is dropped: the command queue is closed, the task must end
                // (announcing `Shutdown`) wherever it is
                if channel.take().is_some() && !finished {
                    finished = true;
                    c.release();
                    c.next(&pty).await;
                }
            }
            _ => {
                if let Some(ms) = step.strip_prefix('~').and_then(|x| x.parse::<u64>().ok()) {
                    tokio::time::sleep(Duration::from_millis(ms)).await;
                } else {
                    c.notes.push(format!("bad-step:{step}"));
                    break;
                }
            }
        }
    }
    // end of the case: shutdown (if the script did not ask for it), then the task must end, i.e.
    // drop its listener; anything announced meanwhile is recorded
    if let Some(ch) = channel.as_ref() {
        let _ = tokio::time::timeout(cmd_wait, ch.shutdown()).await;
    }
    c.release();
    let deadline = Instant::now() + Duration::from_millis(PORT_WAIT_MS);
    loop {
        match tokio::time::timeout_at(deadline.into(), c.rx.recv()).await {
            Ok(Some((state, rel))) => {
                c.record(state, rel, &pty);
                c.release();
            }
            Ok(None) => break,
            Err(_) => {
                c.notes.push("task-alive".into());
                break;
            }
        }
    }
    if let Some(p) = pty.as_ref() {
        if !p.wait_slave_fds(false).await {
            c.notes.push("port-not-released".into());
        }
    }
    drop(channel);
    drop(pty);
    let _ = std::fs::remove_dir_all(&dir);
    let mut out = c.seen.join(",");
    if !c.notes.is_empty() {
        out.push(' ');
        out.push_str(&c.notes.join(" "));
    }
    out
}

// ------------------------------------------------------------------------------------------
// pty rsrv: open / retry life cycle of the RTU server task
// ------------------------------------------------------------------------------------------

/// what `RtuServerTask::run` announces about its life cycle (it has no listener: the carrier is
/// its `tracing` events)
#[derive(Clone, Debug, PartialEq)]
enum Announce {
    /// "unable to open serial port, retrying in <delay> - error: …"
    Fail(Duration),
    /// "opened port"
    Open,
    /// "waiting <delay> to reopen port"
    Wait(Duration),
    /// a message that looks like one of the above but carries no delay that can be extracted
    Unparsed(String),
}

/// `{:?}` of a `std::time::Duration` ("40ms", "1.5s", "2.000000001s", "100µs", "7ns") back to
/// a `Duration`; exact (no floating point)
fn parse_debug_duration(text: &str) -> Option<Duration> {
    let split = text.find(|c: char| !(c.is_ascii_digit() || c == '.'))?;
    let (num, unit) = text.split_at(split);
    // nanoseconds per unit = 10^exp
    let exp: u32 = match unit {
        "ns" => 0,
        "µs" | "us" => 3,
        "ms" => 6,
        "s" => 9,
        _ => return None,
    };
    let (int, frac) = num.split_once('.').unwrap_or((num, ""));
    if int.is_empty() || frac.len() > exp as usize || num.ends_with('.') {
        return None;
    }
    let int: u128 = int.parse().ok()?;
    let mut nanos = int.checked_mul(10u128.pow(exp))?;
    if !frac.is_empty() {
        let f: u128 = frac.parse().ok()?;
        nanos = nanos.checked_add(f * 10u128.pow(exp - frac.len() as u32))?;
    }
    let secs = u64::try_from(nanos / 1_000_000_000).ok()?;
    Some(Duration::new(secs, (nanos % 1_000_000_000) as u32))
}

/// THE one place that knows the wording of the library's log messages (wording is not API: if it
/// changes, this is what has to follow).  `None`: the message is none of the three announcements.
fn classify_server_message(msg: &str) -> Option<Announce> {
    if msg == "opened port" {
        return Some(Announce::Open);
    }
    if let Some(rest) = msg.strip_prefix("waiting ") {
        if let Some(delay) = rest.strip_suffix(" to reopen port") {
            return Some(match parse_debug_duration(delay) {
                Some(d) => Announce::Wait(d),
                None => Announce::Unparsed(msg.to_string()),
            });
        }
    }
    if let Some(rest) = msg.strip_prefix("unable to open serial port") {
        let delay = rest
            .strip_prefix(", retrying in ")
            .and_then(|x| x.split_once(" - error").map(|(d, _)| d));
        return Some(match delay.and_then(parse_debug_duration) {
            Some(d) => Announce::Fail(d),
            None => Announce::Unparsed(msg.to_string()),
        });
    }
    // a re-worded announcement would most likely still speak of waiting / retrying
    if (msg.contains("reopen") || msg.contains("retry")) && msg.contains("port") {
        return Some(Announce::Unparsed(msg.to_string()));
    }
    None
}

/// `tracing` subscriber of one `pty rsrv` case (thread-local default while the case runs; the
/// runtime is single-threaded, so the library task logs on this thread): hands every life-cycle
/// announcement of the server task to the harness, keeps the other messages for diagnostics
struct Capture {
    tx: tokio::sync::mpsc::UnboundedSender<Announce>,
    other: Arc<Mutex<Vec<String>>>,
}

struct MessageOf(String);

impl tracing::field::Visit for MessageOf {
    fn record_debug(&mut self, field: &tracing::field::Field, value: &dyn std::fmt::Debug) {
        if field.name() == "message" {
            self.0 = format!("{value:?}");
        }
    }
}

impl tracing::Subscriber for Capture {
    fn enabled(&self, metadata: &tracing::Metadata<'_>) -> bool {
        *metadata.level() <= tracing::Level::INFO
    }
    fn new_span(&self, _span: &tracing::span::Attributes<'_>) -> tracing::span::Id {
        tracing::span::Id::from_u64(1)
    }
    fn record(&self, _span: &tracing::span::Id, _values: &tracing::span::Record<'_>) {}
    fn record_follows_from(&self, _span: &tracing::span::Id, _follows: &tracing::span::Id) {}
    fn event(&self, event: &tracing::Event<'_>) {
        if !event.metadata().target().starts_with("rodbus") {
            return;
        }
        let mut m = MessageOf(String::new());
        event.record(&mut m);
        match classify_server_message(&m.0) {
            Some(a) => {
                let _ = self.tx.send(a);
            }
            // `serial/server.rs` logs nothing but the three announcements: anything else from
            // there is an announcement that is no longer understood
            None if event.metadata().target().ends_with("serial::server") => {
                let _ = self.tx.send(Announce::Unparsed(m.0));
            }
            None => self.other.lock().unwrap().push(m.0),
        }
    }
    fn enter(&self, _span: &tracing::span::Id) {}
    fn exit(&self, _span: &tracing::span::Id) {}
}

/// the production doubling strategy, every call passed through untouched and written down; the
/// task owns the object, so its drop tells that the task is over
struct RetryTap {
    inner: Box<dyn RetryStrategy>,
    calls: Arc<Mutex<Vec<String>>>,
    dropped: Arc<std::sync::atomic::AtomicBool>,
}

impl RetryStrategy for RetryTap {
    fn reset(&mut self) {
        self.inner.reset();
        self.calls.lock().unwrap().push("Open".into());
    }
    fn after_failed_connect(&mut self) -> Duration {
        let d = self.inner.after_failed_connect();
        self.calls.lock().unwrap().push(format!("Fail({})", d.as_millis()));
        d
    }
    fn after_disconnect(&mut self) -> Duration {
        let d = self.inner.after_disconnect();
        self.calls.lock().unwrap().push(format!("Wait({})", d.as_millis()));
        d
    }
}

impl Drop for RetryTap {
    fn drop(&mut self) {
        self.dropped.store(true, std::sync::atomic::Ordering::SeqCst);
    }
}

/// where the server task is, as far as the harness can tell from what it did and saw itself
#[derive(Clone, Copy, PartialEq)]
enum SrvPhase {
    /// spawned, nothing announced yet: the first open attempt is still to come
    Starting,
    /// the last announcement carried a delay: the task sleeps
    Waiting,
    /// the last announcement was "opened port"
    Open,
    /// shutdown sent / every handle dropped
    Done,
}

struct RsrvCase {
    rx: tokio::sync::mpsc::UnboundedReceiver<Announce>,
    other: Arc<Mutex<Vec<String>>>,
    dropped: Arc<std::sync::atomic::AtomicBool>,
    /// everything observed so far, in order
    seen: Vec<String>,
    /// the announcements alone (compared with the strategy's calls at the end)
    announced: Vec<String>,
    phase: SrvPhase,
    notes: Vec<String>,
    stuck: bool,
}

impl RsrvCase {
    /// the port is open at "opened port" and closed at a failed open (while the task sleeps after
    /// a session error the descriptor is still held: `phys` lives to the end of the match arm)
    fn record(&mut self, a: Announce, pty: &Option<Pty>) {
        let fds = pty.as_ref().and_then(|p| p.slave_fds());
        let (text, phase, want_open) = match &a {
            Announce::Fail(d) => (format!("Fail({})", d.as_millis()), SrvPhase::Waiting, Some(false)),
            Announce::Open => ("Open".to_string(), SrvPhase::Open, Some(true)),
            Announce::Wait(d) => (format!("Wait({})", d.as_millis()), SrvPhase::Waiting, None),
            Announce::Unparsed(m) => {
                self.notes.push(format!("pty-error:no-delay-in-log-message:{}", m.replace(' ', "_")));
                self.stuck = true;
                return;
            }
        };
        if let (Some(n), Some(want)) = (fds, want_open) {
            if (n > 0) != want {
                self.notes.push(format!("fds={n}@{}", self.seen.len()));
            }
        }
        self.seen.push(text.clone());
        self.announced.push(text);
        if self.phase != SrvPhase::Done {
            self.phase = phase;
        }
    }

    /// waits for the announcement that the last action must cause
    async fn next(&mut self, pty: &Option<Pty>) {
        if self.stuck {
            return;
        }
        match tokio::time::timeout(Duration::from_millis(PORT_WAIT_MS), self.rx.recv()).await {
            Ok(Some(a)) => self.record(a, pty),
            Ok(None) => {
                self.seen.push("subscriber-dropped".into());
                self.stuck = true;
            }
            Err(_) => {
                self.seen.push("timeout".into());
                // if the wording of the messages changed, say so instead of just timing out
                let other = self.other.lock().unwrap();
                if !other.is_empty() {
                    let all = other.iter().map(|m| m.replace(' ', "_")).collect::<Vec<_>>().join("|");
                    self.notes.push(format!("pty-error:no-announcement-recognised-among:{all}"));
                }
                self.stuck = true;
            }
        }
    }

    /// the task must end: it drops its strategy object; whatever it announces meanwhile is recorded
    async fn wait_end(&mut self, pty: &Option<Pty>) {
        self.phase = SrvPhase::Done;
        let deadline = Instant::now() + Duration::from_millis(PORT_WAIT_MS);
        loop {
            // let the task run first, then look
            tokio::task::yield_now().await;
            while let Ok(a) = self.rx.try_recv() {
                self.record(a, pty);
            }
            if self.seen.len() > 200 {
                // a task that ignores the shutdown and retries without waiting
                self.notes.push("runaway".into());
                self.notes.push("task-alive".into());
                self.stuck = true;
                return;
            }
            if self.dropped.load(std::sync::atomic::Ordering::SeqCst) {
                self.seen.push("End".into());
                return;
            }
            if Instant::now() > deadline {
                self.notes.push("task-alive".into());
                self.stuck = true;
                return;
            }
            tokio::time::sleep(Duration::from_millis(POLL_MS)).await;
        }
    }
}

static RSRV_CASE: std::sync::atomic::AtomicUsize = std::sync::atomic::AtomicUsize::new(0);

/// pty rsrv r<min ms>.<max ms> <units> <script>
///
/// The production `spawn_rtu_server_task` on a device path that is a symbolic link (fresh
/// directory per case) to the slave of a pseudo-terminal, with `doubling_retry_strategy(min, max)`.
/// The task has no listener; it announces a failed open, a successful open and the end of a
/// session through `tracing` events that carry the delay it then sleeps.  The harness installs a
/// subscriber for the case and reads those.  Lock step without a gate: runtime and subscriber
/// are single-threaded, so after an announcement the task cannot go on before the harness
/// yields; the harness performs the step that decides the next attempt (`f` / `o`: remove / create
/// the link) before it yields again.  Hence between an announcement with a delay and the next
/// `f` / `o` / `S` / `X` step nothing that yields is allowed (`q`, `b`, `~` need an open port).
async fn run_rsrv(tok: &[&str]) -> String {
    let usage = "pty-error:usage: pty rsrv r<min ms>.<max ms> <units> <script>";
    let Some((rmin, rmax)) = tok[2].strip_prefix('r').and_then(|x| x.split_once('.')) else {
        return usage.into();
    };
    let (Ok(rmin), Ok(rmax)) = (rmin.parse::<u64>(), rmax.parse::<u64>()) else {
        return usage.into();
    };
    let steps: Vec<&str> = if tok[4] == "-" { vec![] } else { tok[4].split(',').collect() };
    let nanos = std::time::SystemTime::now()
        .duration_since(std::time::UNIX_EPOCH)
        .map(|d| d.subsec_nanos())
        .unwrap_or(0);
    let dir = std::env::temp_dir().join(format!(
        "verif-rsrv-{}-{}-{}",
        std::process::id(),
        RSRV_CASE.fetch_add(1, std::sync::atomic::Ordering::Relaxed),
        nanos
    ));
    if let Err(e) = std::fs::create_dir_all(&dir) {
        return format!("pty-error:create {}: {e}", dir.display());
    }
    let link = dir.join("port");
    // handlers exactly like `pty srv`
    let log: Log = Arc::new(Mutex::new(Vec::new()));
    let mut map: ServerHandlerMap<TestHandler> = ServerHandlerMap::new();
    if tok[3] != "-" {
        for u in tok[3].split(';') {
            let (id, items) = u.split_once(':').unwrap_or((u, ""));
            let unit: u8 = id.parse().unwrap();
            let h = TestHandler {
                unit,
                points: Points::parse(items),
                log: log.clone(),
            }
            .wrap();
            map.add(UnitId::new(unit), h);
        }
    }
    let (tx, rx) = tokio::sync::mpsc::unbounded_channel();
    let other = Arc::new(Mutex::new(Vec::new()));
    let calls = Arc::new(Mutex::new(Vec::new()));
    let dropped = Arc::new(std::sync::atomic::AtomicBool::new(false));
    // from here to the end of the case the events of this thread go to `Capture`
    let _guard = tracing::subscriber::set_default(Capture { tx, other: other.clone() });
    let retry = RetryTap {
        inner: doubling_retry_strategy(Duration::from_millis(rmin), Duration::from_millis(rmax)),
        calls: calls.clone(),
        dropped: dropped.clone(),
    };
    let mut handle = match spawn_rtu_server_task(
        link.to_str().unwrap(),
        SerialSettings::default(),
        Box::new(retry),
        map,
        DecodeLevel::nothing(),
    ) {
        Ok(h) => Some(h),
        Err(e) => {
            let _ = std::fs::remove_dir_all(&dir);
            return format!("pty-error:spawn_rtu_server_task: {e}");
        }
    };
    let mut c = RsrvCase {
        rx,
        other,
        dropped,
        seen: Vec::new(),
        announced: Vec::new(),
        phase: SrvPhase::Starting,
        notes: Vec::new(),
        stuck: false,
    };
    let mut pty: Option<Pty> = None;
    let cmd_wait = Duration::from_millis(500);
    for step in steps {
        if c.stuck {
            break;
        }
        match step {
            "f" | "o" => {
                if step == "f" {
                    let _ = std::fs::remove_file(&link);
                } else {
                    if pty.is_none() {
                        match Pty::open() {
                            Ok(p) => pty = Some(p),
                            Err(e) => {
                                c.notes.push(format!("pty-error:{e}"));
                                break;
                            }
                        }
                    }
                    if std::fs::symlink_metadata(&link).is_err() {
                        if let Err(e) = std::os::unix::fs::symlink(&pty.as_ref().unwrap().slave_path, &link) {
                            c.notes.push(format!("pty-error:symlink: {e}"));
                            break;
                        }
                    }
                }
                // the first attempt / the attempt after the pending wait sees the path as it is now
                if c.phase == SrvPhase::Starting || c.phase == SrvPhase::Waiting {
                    c.next(&pty).await;
                }
            }
            "x" => {
                let _ = std::fs::remove_file(&link);
                let was_open = c.phase == SrvPhase::Open;
                // closing the master hangs up the slave: an open port reads EOF
                pty = None;
                if was_open {
                    c.next(&pty).await;
                }
            }
            "S" => {
                if let Some(h) = handle.as_ref() {
                    let _ = tokio::time::timeout(cmd_wait, h.shutdown()).await;
                    if c.phase != SrvPhase::Done {
                        c.wait_end(&pty).await;
                    }
                }
            }
            "X" => {
                if handle.take().is_some() && c.phase != SrvPhase::Done {
                    c.wait_end(&pty).await;
                }
            }
            _ => {
                if let Some(ms) = step.strip_prefix('~').and_then(|x| x.parse::<u64>().ok()) {
                    if c.phase != SrvPhase::Open && c.phase != SrvPhase::Done {
                        c.notes.push(format!("bad-step:{step}"));
                        break;
                    }
                    tokio::time::sleep(Duration::from_millis(ms)).await;
                } else if step.starts_with('q') || step.starts_with('b') {
                    let (Some(p), true) = (pty.as_ref(), c.phase == SrvPhase::Open) else {
                        c.notes.push(format!("bad-step:{step}"));
                        break;
                    };
                    let _ = p.write_all(&unhex(&step[1..])).await;
                    if step.starts_with('q') {
                        // a request: whatever the server answers
                        let mut reply = Vec::new();
                        read_until_quiet(p, &mut reply).await;
                        c.seen.push(format!("tx:{}", hex(&reply)));
                    } else {
                        // a frame that ends the session: the task announces the wait
                        c.next(&pty).await;
                    }
                } else {
                    c.notes.push(format!("bad-step:{step}"));
                    break;
                }
            }
        }
    }
    // end of the case: shutdown (if the script did not end the task), the task must end and
    // release the port
    if c.phase != SrvPhase::Done || !c.dropped.load(std::sync::atomic::Ordering::SeqCst) {
        if let Some(h) = handle.as_ref() {
            let _ = tokio::time::timeout(cmd_wait, h.shutdown()).await;
        }
        if !c.notes.iter().any(|n| n == "task-alive") {
            c.stuck = false;
            c.wait_end(&pty).await;
        }
    }
    if let Some(p) = pty.as_ref() {
        // nothing the server wrote may be left over (replies are collected by their `q` step)
        let mut rest = Vec::new();
        p.read_avail(&mut rest);
        if !rest.is_empty() {
            c.notes.push(format!("stray={}", hex(&rest)));
        }
        if !p.wait_slave_fds(false).await {
            c.notes.push("port-not-released".into());
        }
    }
    // every announcement is a call of the strategy object with the same value, in the same order
    let calls = calls.lock().unwrap().join(",");
    if calls != c.announced.join(",") {
        c.notes.push(format!("strategy-calls={}", if calls.is_empty() { "-" } else { calls.as_str() }));
    }
    drop(handle);
    drop(pty);
    let _ = std::fs::remove_dir_all(&dir);
    let mut out = if c.seen.is_empty() { "-".to_string() } else { c.seen.join(",") };
    if !c.notes.is_empty() {
        out.push(' ');
        out.push_str(&c.notes.join(" "));
    }
    out
}

pub async fn run_pty(tok: &[&str]) -> String {
    match tok.get(1).copied() {
        Some("srv") if tok.len() >= 4 => run_srv(tok).await,
        Some("cli") if tok.len() >= 3 => run_cli(tok).await,
        Some("port") if tok.len() >= 4 => run_port(tok).await,
        Some("rsrv") if tok.len() >= 5 => run_rsrv(tok).await,
        _ => "pty-error:usage: pty srv <units> <script> | pty cli <script> | pty port r<min>.<max> <script> | pty rsrv r<min>.<max> <units> <script>".into(),
    }
}
