import Driver.Points
