import RodbusModel.Lemmas.Lifecycle
import RodbusModel.Spec.LifecycleObs
/-
  C14 for the TCP / TLS client channel task (`TcpChannelTask::run`), for ALL scripts: whatever
  the user does at whatever callback or idle period, whatever the peers do (refuse, fail the TLS
  handshake, close, send garbage, stay silent, serve, serve and go away) and however the
  `select!` races resolve, the delays carried by the announced wait states pass the checker
  `Spec.LifeObs.conforms`, which looks at the announced sequence alone:

  * `WaitAfterFailedConnect d`: `d = min(min · 2^k, max)`, `k` the number of
    `WaitAfterFailedConnect` announcements since the last `Connected` (or since the start) — the
    counter is reset ONLY at `Connected`, not by a disable / enable, not by a TCP connect whose
    TLS handshake fails afterwards;
  * `WaitAfterDisconnect d`: `d = min`.

  (`C13.announced_delays_follow_strategy*` state the same for one script shape: enable, then
  watch.)  The style is that of `C14Serial.announced_delays_conform`.
-/
namespace Rodbus.C14Life
open Rodbus.Life Rodbus.Spec.Life Rodbus.Spec.LifeObs Rodbus.Retry

/-! ### the checker on appended sequences -/

theorem conforms_append (mn mx : Nat) (l r : List St) (k : Nat) :
    conforms mn mx k (l ++ r) = (conforms mn mx k l && conforms mn mx (counter k l) r) := by
  induction l generalizing k with
  | nil => simp [conforms, counter]
  | cons st l ih => simp [conforms, counter, ih, Bool.and_assoc]

theorem counter_append (l r : List St) (k : Nat) :
    counter k (l ++ r) = counter (counter k l) r := by
  induction l generalizing k with
  | nil => rfl
  | cons st l ih => simp [counter, ih]

/-! ### the invariant -/

/-- at an iteration of the task: the strategy object holds `min(min · 2^k, max)`, `k` the value
    of the checker's counter after the state announced last; right after `Connected` (before
    the reset at the start of the session) the counter is 0 and the object is about to be reset -/
def DelayPhase (mn mx k : Nat) (ph : Phase) (s : S) : Prop :=
  s.retry.min = mn ∧ s.retry.max = mx ∧
  match ph with
  | .sessionStart _ => k = 0
  | _ => s.retry.current = delay mn mx k

/-- at a blocking point (`k`: the counter after the states logged so far): the state about to be
    announced passes the check, and the task continues in a phase that fits the counter after it -/
def DelayPos (mn mx k : Nat) (s : S) : Pos → Prop
  | .gate st next => stOk mn mx k st = true ∧ DelayPhase mn mx (count k st) next s
  | .idle ph => DelayPhase mn mx k ph s
  | .done => True

theorem DelayPhase.congr {mn mx k ph} {s s' : S} (h : s'.retry = s.retry)
    (hp : DelayPhase mn mx k ph s) : DelayPhase mn mx k ph s' := by
  unfold DelayPhase at *
  rw [h]; exact hp

theorem delay_zero (mn mx : Nat) : delay mn mx 0 = Nat.min mn mx := by simp [delay]

theorem step_delay (mn mx : Nat) (hmx : mx ≤ DURATION_MAX) (k : Nat) (ph : Phase) (s : S)
    (h : DelayPhase mn mx k ph s) :
    (step ph s).sat (DelayPhase mn mx k) (DelayPos mn mx k) := by
  obtain ⟨h1, h2, h3⟩ := h
  cases ph
  case sessionStart b =>
    simp only [] at h3
    subst h3
    simp [step, DelayPhase, Retry.reset, h1, h2, delay_zero]
  case connect =>
    simp only [] at h3
    have hc := C14.current_after mn mx hmx k s.retry h1 h2 h3
    unfold step
    simp only []
    repeat' split
    all_goals simp_all [DelayPhase, DelayPos, stOk, count, Retry.afterFailedConnect, delay]
  all_goals
    simp only [] at h3
    unfold step
    simp only []
    repeat' split
    all_goals simp_all [DelayPhase, DelayPos, stOk, count, Retry.afterDisconnect]

theorem advance_delay (mn mx : Nat) (hmx : mx ≤ DURATION_MAX) (k : Nat) (fuel : Nat) (ph : Phase)
    (s : S) (h : DelayPhase mn mx k ph s) :
    DelayPos mn mx k (advance fuel ph s).1 (advance fuel ph s).2 :=
  advance_inv (P := DelayPhase mn mx k) (Q := DelayPos mn mx k) (fun _ _ h => h)
    (step_delay mn mx hmx k) fuel ph s h

/-- the invariant of a run -/
def DelayRun (mn mx : Nat) (s : S) (pos : Pos) : Prop :=
  conforms mn mx 0 (states s.log) = true ∧ DelayPos mn mx (counter 0 (states s.log)) s pos

theorem delayRun_start (mn mx : Nat) (s0 : S) (h0 : Initial s0) (hr : s0.retry = Retry.create mn mx) :
    DelayRun mn mx (start s0).1 (start s0).2 := by
  obtain ⟨_, _, _, h4, _⟩ := h0
  simp [DelayRun, start, h4, conforms, counter, DelayPos, stOk, count, DelayPhase, hr, Retry.create,
    delay_zero]

theorem stop_delayRun (mn mx : Nat) (hmx : mx ≤ DURATION_MAX) (s : S) (pos : Pos)
    (acts : List Action) (h : DelayRun mn mx s pos) :
    DelayRun mn mx (stop s pos acts).1 (stop s pos acts).2 := by
  obtain ⟨hconf, hpos⟩ := h
  cases pos with
  | done =>
    simp only [stop]
    have hf := (foldl_applyDone_frame acts s).1
    exact ⟨by rw [hf]; exact hconf, trivial⟩
  | idle ph =>
    simp only [stop]
    have hf := foldl_applyAction_frame acts (s.emit .idle)
    generalize acts.foldl applyAction (s.emit .idle) = s2 at hf
    have hst : states (advance (fuelFor s2) ph s2).1.log = states s.log := by
      rw [advance_states, hf.1]; simp
    rw [DelayRun, hst]
    refine ⟨hconf, advance_delay mn mx hmx _ _ ph s2 ?_⟩
    exact DelayPhase.congr (by rw [hf.2.2.2.1]; simp) hpos
  | gate st next =>
    simp only [stop]
    obtain ⟨hok, hph⟩ := hpos
    have hf := foldl_applyAction_frame acts (s.report.emit (.gate st))
    generalize acts.foldl applyAction (s.report.emit (.gate st)) = s2 at hf
    have hst : states (advance (fuelFor s2) next s2).1.log = states s.log ++ [st] := by
      rw [advance_states, hf.1]; simp
    rw [DelayRun, hst, conforms_append, counter_append]
    refine ⟨by simp [hconf, conforms, hok], ?_⟩
    simp only [counter]
    exact advance_delay mn mx hmx _ _ next s2 (DelayPhase.congr (by rw [hf.2.2.2.1]; simp) hph)

theorem runStops_delayRun (mn mx : Nat) (hmx : mx ≤ DURATION_MAX) (script : List (List Action))
    (s : S) (pos : Pos) (h : DelayRun mn mx s pos) :
    DelayRun mn mx (runStops s pos script).1 (runStops s pos script).2 := by
  induction script generalizing s pos with
  | nil => simpa [runStops] using h
  | cons acts rest ih =>
    rw [runStops_cons]
    exact ih _ _ (stop_delayRun mn mx hmx s pos acts h)

/-! ### the theorems -/

/-- the states announced in a run: those the environment has seen (logged), and the one the task
    is blocked in the callback of -/
def announced (r : S × Pos) : List St :=
  states r.1.log ++ (match r.2 with | .gate st _ => [st] | _ => [])

/-- **announced_delays_conform**: for every initial state (any peer behaviour list, any timeout
    limit, any scheduler coins), every `(min, max)` with a representable `max`, and EVERY script of
    stops (user actions at every callback and idle period, stops after the end of the task
    included), the sequence of announced states — the pending announcement included — passes the
    checker: every `WaitAfterFailedConnect` carries `min(min · 2^k, max)` where `k` counts the
    `WaitAfterFailedConnect`s since the last `Connected` (or the start), every
    `WaitAfterDisconnect` carries `min`. -/
theorem announced_delays_conform (mn mx : Nat) (hmx : mx ≤ DURATION_MAX) (s0 : S) (h0 : Initial s0)
    (hr : s0.retry = Retry.create mn mx) (script : List (List Action)) :
    conforms mn mx 0 (announced (Life.run s0 script)) = true := by
  have h := runStops_delayRun mn mx hmx script _ _ (delayRun_start mn mx s0 h0 hr)
  unfold announced Life.run
  generalize runStops (start s0).1 (start s0).2 script = r at h
  obtain ⟨s, pos⟩ := r
  obtain ⟨hconf, hpos⟩ := h
  cases pos with
  | gate st next =>
    simp only []
    rw [conforms_append]
    simp [hconf, conforms, hpos.1]
  | idle ph => simpa using hconf
  | done => simpa using hconf

/-- … in particular the logged states do -/
theorem logged_delays_conform (mn mx : Nat) (hmx : mx ≤ DURATION_MAX) (s0 : S) (h0 : Initial s0)
    (hr : s0.retry = Retry.create mn mx) (script : List (List Action)) :
    conforms mn mx 0 (states (Life.run s0 script).1.log) = true :=
  (runStops_delayRun mn mx hmx script _ _ (delayRun_start mn mx s0 h0 hr)).1

/-- the checker spelled out for one announcement: if the announced sequence is `pre ++ [st]`
    and passes, then `st = WaitAfterFailedConnect d` implies `d = min(min · 2^k, max)` with
    `k = counter 0 pre`, and `st = WaitAfterDisconnect d` implies `d = min` -/
theorem conforms_last (mn mx : Nat) (pre : List St) (st : St)
    (h : conforms mn mx 0 (pre ++ [st]) = true) :
    (∀ d, st = .waitFail d → d = delay mn mx (counter 0 pre)) ∧
    (∀ d, st = .waitDisc d → d = mn) := by
  rw [conforms_append] at h
  simp only [conforms, Bool.and_true, Bool.and_eq_true] at h
  constructor
  · intro d hd; subst hd; simpa [stOk] using h.2
  · intro d hd; subst hd; simpa [stOk] using h.2

/-- the counter is the number of `WaitAfterFailedConnect`s since the last `Connected` -/
theorem counter_spec (pre post : List St) (hpost : ∀ st ∈ post, st ≠ .connected) :
    counter 0 (pre ++ .connected :: post) = post.countP (fun st => match st with | .waitFail _ => true | _ => false) := by
  rw [counter_append]
  simp only [counter, count]
  have : ∀ (l : List St) (k : Nat), (∀ st ∈ l, st ≠ .connected) →
      counter k l = k + l.countP (fun st => match st with | .waitFail _ => true | _ => false) := by
    intro l
    induction l with
    | nil => intro k _; simp [counter]
    | cons st l ih =>
      intro k hl
      have h1 := ih (count k st) (fun x hx => hl x (List.mem_cons_of_mem _ hx))
      have h2 : st ≠ .connected := hl st (by simp)
      simp only [counter, h1, List.countP_cons]
      cases st <;> simp_all [count] <;> omega
  simpa using this post 0 hpost

/-! ### non-vacuity -/

/-- the checker rejects a sequence that restarts the doubling without a connection, one that
    does not restart after a connection, and a wrong `WaitAfterDisconnect` -/
example : conforms 10 80 0 [.disabled, .connecting, .waitFail 10, .connecting, .waitFail 20,
    .disabled, .connecting, .waitFail 10] = false := by decide
example : conforms 10 80 0 [.disabled, .connecting, .waitFail 10, .connecting, .connected,
    .waitDisc 10, .connecting, .waitFail 20] = false := by decide
example : conforms 10 80 0 [.disabled, .connecting, .connected, .waitDisc 20] = false := by decide
example : conforms 10 80 0 [.disabled, .connecting, .waitFail 10, .connecting, .waitFail 20,
    .disabled, .connecting, .waitFail 40, .connecting, .waitFail 80, .connecting, .waitFail 80,
    .connecting, .connected, .waitDisc 10, .connecting, .waitFail 10] = true := by decide

/-- a run with a disable / enable in the middle of a failure sequence (the counter is not reset),
    a connection lost in the middle of a session and a restart at the minimum -/
example :
    states (Life.run
      { retry := Retry.create 10 80,
        behaviours := [.refuse, .refuse, .hsfail, .serveN 1 true, .refuse, .serve] }
      [[.enable], [], [], [], [.disable], [.enable], [], [], [], [], [.request 1, .request 2],
       [], [], [], [], []]).1.log =
    [.disabled, .connecting, .waitFail 10, .connecting, .waitFail 20, .disabled, .connecting,
     .waitFail 40, .connecting, .connected, .waitDisc 10, .connecting, .waitFail 10,
     .connecting, .connected] := by decide

end Rodbus.C14Life
