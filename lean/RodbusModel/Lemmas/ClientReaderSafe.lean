import RodbusModel.Lemmas.ClientReaderRun
import RodbusModel.Lemmas.ClientSettle
/-
  The reader of the client task never takes the branch in which `ReadBuffer::read_some` is handed
  an empty slice (and reports `UnexpectedEof` although the peer did not close), never reports the
  internal short-read error, and every failure it reports is a framing error of the protocol, a
  transport error that the transport delivered, or an end of file that the transport delivered.

  `ReaderSafe F I`: `I` is an invariant of (parser state, read buffer) that holds for the fresh
  reader, is kept by the parser and by `read_some`, guarantees room for `read_some` whenever the
  parser asked for more bytes, and under which parser errors are neither of the two internal
  conditions.  Proved for MBAP (`Mbap.Inv rb ∧ Mbap.StOk st`) and for the RTU response parser
  (`Rtu.Inv rb ∧ Rtu.StOk st`).  With Lemmas/ClientReaderRun it holds in every reachable state.
-/
namespace Rodbus.Client

section
variable {σ : Type}

/-- does `readerPoll` (same arguments) reach the branch `readSome rb' bs = none`, i.e. does
    `read_some` report the spurious `UnexpectedEof`?  (A mirror of `readerPoll` that only records
    that branch.) -/
def spuriousIn (F : Framing σ) : Nat → σ → RB → List Rx → Bool
  | 0, _, _, _ => false
  | fuel + 1, st, rb, rx =>
    match F.parse st rb with
    | (.none, st', rb') =>
      match rx with
      | .data bs :: rest =>
        if bs = [] then false
        else match readSome rb' bs with
          | none => true
          | some (rb'', rem) =>
            spuriousIn F fuel st' rb'' (if rem = [] then rest else .data rem :: rest)
      | _ => false
    | _ => false

/-- what a failure reported by the reader on the deliveries `rx` can be -/
def ReaderFailure (rx : List Rx) (res : Res) : Prop :=
  (∃ k, res = .bf k) ∨ (res = .io .reset ∧ Rx.err ∈ rx)
    ∨ (res = .io .eof ∧ (Rx.eof ∈ rx ∨ Rx.data [] ∈ rx))

structure ReaderSafe (F : Framing σ) (I : σ × RB → Prop) : Prop where
  init : I (F.init, RB.empty)
  frame : ∀ st rb f st' rb', I (st, rb) → F.parse st rb = (.frame f, st', rb') → I (st', rb')
  none : ∀ st rb st' rb', I (st, rb) → F.parse st rb = (.none, st', rb') →
    I (st', rb') ∧ ∀ bs, readSome rb' bs ≠ Option.none
  read : ∀ st rb bs rb' rem, I (st, rb) → bs ≠ [] → readSome rb bs = some (rb', rem) → I (st, rb')
  err : ∀ st rb e st' rb', I (st, rb) → F.parse st rb = (.err e, st', rb') →
    I (F.init, rb') ∧ e ≠ .internalShortRead ∧ e ≠ .spuriousEof

theorem frameErrRes_bf (e : FrameErr) (h1 : e ≠ .internalShortRead) (h2 : e ≠ .spuriousEof) :
    ∃ k, frameErrRes e = .bf k := by
  cases e <;> simp [frameErrRes] at *

variable {F : Framing σ} {I : σ × RB → Prop}

/-- from a state satisfying the invariant the reader ends in such a state, never takes the
    spurious-EOF branch, and reports only genuine failures -/
theorem ReaderSafe.readerPoll (hS : ReaderSafe F I) (fuel : Nat) (st : σ) (rb : RB)
    (rx : List Rx) (h : I (st, rb)) :
    I ((readerPoll F fuel st rb rx).2.1, (readerPoll F fuel st rb rx).2.2.1)
      ∧ spuriousIn F fuel st rb rx = false
      ∧ ∀ res, (readerPoll F fuel st rb rx).1 = .fail res → ReaderFailure rx res := by
  induction fuel generalizing st rb rx with
  | zero => exact ⟨h, rfl, fun res hr => by simp [Client.readerPoll] at hr⟩
  | succ n ih =>
    unfold Client.readerPoll spuriousIn
    split
    · rename_i f st' rb' hp
      have hp' : F.parse st rb = (.frame f, st', rb') := hp
      simp only [hp']
      exact ⟨hS.frame _ _ _ _ _ h hp', trivial, fun res hr => by simp at hr⟩
    · rename_i e st' rb' hp
      have hp' : F.parse st rb = (.err e, st', rb') := hp
      simp only [hp']
      obtain ⟨a, b, c⟩ := hS.err _ _ _ _ _ h hp'
      refine ⟨a, trivial, ?_⟩
      intro res hr
      simp only [ReadRes.fail.injEq] at hr
      subst hr
      exact Or.inl (frameErrRes_bf e b c)
    · rename_i st' rb' hp
      have hp' : F.parse st rb = (.none, st', rb') := hp
      simp only [hp']
      obtain ⟨a, room⟩ := hS.none _ _ _ _ h hp'
      split
      · exact ⟨a, rfl, fun res hr => by simp at hr⟩
      · refine ⟨a, rfl, ?_⟩
        intro res hr
        simp only [ReadRes.fail.injEq] at hr
        subst hr
        exact Or.inr (Or.inl ⟨rfl, by simp⟩)
      · refine ⟨a, rfl, ?_⟩
        intro res hr
        simp only [ReadRes.fail.injEq] at hr
        subst hr
        exact Or.inr (Or.inr ⟨rfl, Or.inl (by simp)⟩)
      · rename_i bs rest
        split
        · rename_i hbs
          refine ⟨a, by simp [hbs], ?_⟩
          intro res hr
          simp only [ReadRes.fail.injEq] at hr
          subst hr
          exact Or.inr (Or.inr ⟨rfl, Or.inr (by simp [hbs])⟩)
        · rename_i hbs
          split
          · rename_i hr
            exact absurd hr (room bs)
          · rename_i rb'' rem hr
            have hI := hS.read _ _ _ _ _ a hbs hr
            obtain ⟨i1, i2, i3⟩ := ih st' rb'' (if rem = [] then rest else .data rem :: rest) hI
            refine ⟨i1, by simp only [hbs, hr, if_false]; exact i2, ?_⟩
            intro res hres
            have hsub : ∀ x, x ∈ (if rem = [] then rest else Rx.data rem :: rest) → x ≠ .data rem →
                x ∈ Rx.data bs :: rest := by
              intro x hx hne
              split at hx
              · simp [hx]
              · simp only [List.mem_cons] at hx
                rcases hx with rfl | hx
                · exact absurd rfl hne
                · simp [hx]
            have hrem : ¬ rem = [] → True := fun _ => trivial
            rcases i3 res hres with ⟨k, hk⟩ | ⟨h1, h2⟩ | ⟨h1, h2⟩
            · exact Or.inl ⟨k, hk⟩
            · exact Or.inr (Or.inl ⟨h1, hsub _ h2 (by simp)⟩)
            · refine Or.inr (Or.inr ⟨h1, ?_⟩)
              rcases h2 with h2 | h2
              · exact Or.inl (hsub _ h2 (by simp))
              · by_cases hr0 : rem = []
                · rw [if_pos hr0] at h2
                  exact Or.inr (by simp [h2])
                · rw [if_neg hr0] at h2
                  simp only [List.mem_cons, Rx.data.injEq] at h2
                  rcases h2 with h2 | h2
                  · exact absurd h2.symm hr0
                  · exact Or.inr (by simp [h2])

/-- the discard loop keeps the invariant and reports only framing errors of the protocol -/
theorem ReaderSafe.discard (hS : ReaderSafe F I) (fuel : Nat) (st : σ) (rb : RB)
    (h : I (st, rb)) :
    I ((discardBuffered F fuel st rb).2.1, (discardBuffered F fuel st rb).2.2)
      ∧ ∀ res, (discardBuffered F fuel st rb).1 = some res → ∃ k, res = .bf k := by
  induction fuel generalizing st rb with
  | zero => exact ⟨h, fun res hr => by simp [discardBuffered] at hr⟩
  | succ n ih =>
    unfold discardBuffered
    split
    · rename_i f st' rb' hp
      exact ih st' rb' (hS.frame _ _ _ _ _ h hp)
    · rename_i st' rb' hp
      exact ⟨(hS.none _ _ _ _ h hp).1, fun res hr => by simp at hr⟩
    · rename_i e st' rb' hp
      obtain ⟨a, b, c⟩ := hS.err _ _ _ _ _ h hp
      refine ⟨a, ?_⟩
      intro res hr
      simp only [Option.some.injEq] at hr
      subst hr
      exact frameErrRes_bf e b c

theorem ReaderSafe.rdInv (hS : ReaderSafe F I) : RdInv F I where
  init := hS.init
  reader := fun fuel st rb rx h => (hS.readerPoll fuel st rb rx h).1
  discard := fun fuel st rb h => (hS.discard fuel st rb h).1

/-- in every reachable state the reader satisfies the invariant -/
theorem ReaderSafe.reachable (hS : ReaderSafe F I) (cap maxTo : Nat) (d : Decode)
    (coins : List Bool) (steps : List Step) :
    I (runState F (State.init F cap maxTo d coins) steps).rd :=
  reachable_rd hS.rdInv cap maxTo d coins steps

end

/-! ### MBAP -/

/-- indices within the 260-byte array, pending ADU length at most 253 -/
def MbapRd (x : Mbap.PState × RB) : Prop := Mbap.Inv x.2 ∧ Mbap.StOk x.1

theorem mbap_readerSafe : ReaderSafe mbap MbapRd where
  init := ⟨by simp [Mbap.Inv, RB.empty, CAP], trivial⟩
  frame := by
    intro st rb f st' rb' h hp
    obtain ⟨_, _, h3, _, h5⟩ := Mbap.parse_frame st rb f st' rb' [] hp
    subst h5
    exact ⟨by have := h.1; simp only [Mbap.Inv] at *; omega, trivial⟩
  none := by
    intro st rb st' rb' h hp
    have hpp : Mbap.parse st rb = (.none, st', rb') := hp
    refine ⟨?_, fun bs => ?_⟩
    · obtain ⟨a, b, _⟩ := Mbap.readSome_after_none st rb st' rb' [] h.1 h.2 hpp
      exact ⟨a, b⟩
    · exact (Mbap.readSome_after_none st rb st' rb' bs h.1 h.2 hpp).2.2
  read := by
    intro st rb bs rb' rem h _ hr
    exact ⟨(Mbap.readSome_some rb bs rb' rem h.1 hr).2.2.1, h.2⟩
  err := by
    intro st rb e st' rb' h hp
    obtain ⟨_, he, _, _, hrb, hl⟩ := Mbap.parse_err st rb e st' rb' [] hp
    subst hrb
    refine ⟨⟨?_, trivial⟩, he.ne_internal, he.ne_spurious⟩
    have := h.1
    simp only [Mbap.Inv, RB.consume, List.length_drop] at *
    omega

/-! ### RTU (response parser) -/

theorem rtu_fullBody_end (dest len : Nat) (rb : RB) (r : PResult) (st' : Rtu.PState) (rb' : RB)
    (h : Rtu.parseFullBody dest len rb = (r, st', rb')) :
    rb'.begin + rb'.data.length = rb.begin + rb.data.length := by
  by_cases h1 : len + 1 > 253
  · rw [Rtu.parseFullBody_tooBig _ _ _ h1] at h; cases h; rfl
  · by_cases h2 : rb.data.length < len + 3
    · rw [Rtu.parseFullBody_short _ _ _ h1 h2] at h; cases h; rfl
    · rw [Rtu.parseFullBody_ready _ _ _ h1 h2] at h
      have hc : (rb.consume (len + 3)).begin + (rb.consume (len + 3)).data.length
          = rb.begin + rb.data.length := by
        simp [RB.consume]; omega
      split at h <;> (cases h; exact hc)

theorem rtu_toOffset_end (dest off : Nat) (rb : RB) (r : PResult) (st' : Rtu.PState) (rb' : RB)
    (h : Rtu.parseToOffset dest off rb = (r, st', rb')) :
    rb'.begin + rb'.data.length = rb.begin + rb.data.length := by
  by_cases h1 : rb.data.length < 1 + off
  · rw [Rtu.parseToOffset_short _ _ _ h1] at h; cases h; rfl
  · rw [Rtu.parseToOffset_ready _ _ _ h1] at h
    exact rtu_fullBody_end _ _ _ _ _ _ h

theorem rtu_start_end (d : Rtu.Dir) (rb : RB) (r : PResult) (st' : Rtu.PState) (rb' : RB)
    (h : Rtu.parseStart d rb = (r, st', rb')) :
    rb'.begin + rb'.data.length = rb.begin + rb.data.length := by
  by_cases h1 : rb.data.length < 2
  · rw [Rtu.parseStart_short _ _ h1] at h; cases h; rfl
  · rw [Rtu.parseStart_ready _ _ h1] at h
    have hc : (rb.consume 1).begin + (rb.consume 1).data.length = rb.begin + rb.data.length := by
      simp [RB.consume]; omega
    split at h
    · rw [rtu_fullBody_end _ _ _ _ _ _ h, hc]
    · rw [rtu_toOffset_end _ _ _ _ _ _ h, hc]
    · cases h; exact hc

/-- the RTU parser never moves the end of the buffered bytes -/
theorem rtu_parse_end (d : Rtu.Dir) (st : Rtu.PState) (rb : RB) (r : PResult) (st' : Rtu.PState)
    (rb' : RB) (h : Rtu.parse d st rb = (r, st', rb')) :
    rb'.begin + rb'.data.length = rb.begin + rb.data.length := by
  cases st with
  | start => exact rtu_start_end d rb r st' rb' h
  | toOffset dest off => exact rtu_toOffset_end dest off rb r st' rb' h
  | fullBody dest len => exact rtu_fullBody_end dest len rb r st' rb' h

/-- indices within the 260-byte array, parser in a state it can be in between calls -/
def RtuRd (x : Rtu.PState × RB) : Prop := Rtu.Inv x.2 ∧ Rtu.StOk x.1

theorem rtu_readerSafe : ReaderSafe rtu RtuRd where
  init := ⟨by simp [Rtu.Inv, RB.empty, CAP], trivial⟩
  frame := by
    intro st rb f st' rb' h hp
    have hpp : Rtu.parse .response st rb = (.frame f, st', rb') := hp
    have hsim := Rtu.parse_sim .response st rb [] h.2
    rw [hpp] at hsim
    obtain ⟨_, h2, _, h4⟩ := hsim
    subst h2
    exact ⟨by have := h.1; simp only [Rtu.Inv] at *; omega, trivial⟩
  none := by
    intro st rb st' rb' h hp
    have hpp : Rtu.parse .response st rb = (.none, st', rb') := hp
    have hsim := Rtu.parse_sim .response st rb [] h.2
    rw [hpp] at hsim
    obtain ⟨_, h2, _, h4, h5⟩ := hsim
    have hinv : Rtu.Inv rb' := by have := h.1; simp only [Rtu.Inv] at *; omega
    refine ⟨⟨hinv, h4⟩, fun bs => ?_⟩
    have := Rtu.need_le st' h4
    exact Rtu.readSome_ne_none rb' bs hinv (by simp only [CAP]; omega)
  read := by
    intro st rb bs rb' rem h hbs hr
    exact ⟨(Rtu.readSome_some rb bs rb' rem hbs h.1 hr).2.2.1, h.2⟩
  err := by
    intro st rb e st' rb' h hp
    have hpp : Rtu.parse .response st rb = (.err e, st', rb') := hp
    have hend := rtu_parse_end .response st rb _ st' rb' hpp
    refine ⟨⟨by have := h.1; simp only [Rtu.Inv] at *; omega, trivial⟩, ?_⟩
    rcases Rtu.parse_err .response st rb e st' rb' hpp with ⟨_, h⟩ | ⟨_, h⟩ | ⟨_, _, _, h⟩ <;>
      rw [h] <;> simp

/-! ### the fuel of `settled` suffices -/

section
variable {σ : Type}

theorem settle_blocked_of_fuel (F : Framing σ) (w : σ → Nat) (hw : ParseMeasure F w) (n : Nat)
    (s : State σ) (h : mu w s < n) : Blocked F (settle F n s) := by
  rcases settle_progress F w hw n s with hb | hm
  · exact hb
  · omega

/-- `settleFuel` exceeds the termination measure when the parser-state weight is at most 11 -/
theorem mu_lt_settleFuel (w : σ → Nat) (hb : ∀ st, w st ≤ 11) (s : State σ) :
    mu w s < settleFuel s := by
  have h1 : posW s.pos ≤ 3 := by
    cases s.pos <;> simp only [posW] <;> try omega
    rename_i dl c; cases c <;> simp
  have h2 := heldW_le s.held
  have h3 := hb s.pst
  simp only [mu, ctl, rho, settleFuel]
  omega

/-- the tasks run to the end: `settled` always reaches a blocked state -/
theorem settled_is_blocked (F : Framing σ) (w : σ → Nat) (hw : ParseMeasure F w)
    (hb : ∀ st, w st ≤ 11) (s : State σ) : Blocked F (settled F s) :=
  settle_blocked_of_fuel F w hw _ s (mu_lt_settleFuel w hb s)

/-- once the measure is below the fuel, more fuel changes nothing -/
theorem settle_fuel_irrelevant (F : Framing σ) (w : σ → Nat) (hw : ParseMeasure F w) (n n' : Nat)
    (s : State σ) (h : mu w s < n) (h' : mu w s < n') : settle F n s = settle F n' s := by
  induction n generalizing n' s with
  | zero => omega
  | succ k ih =>
    cases n' with
    | zero => omega
    | succ k' =>
      cases ht : tick F s with
      | none =>
        rw [settle_succ_none F k s ht, settle_succ_none F k' s ht]
        by_cases hh : s.held = 0
        · rw [if_pos hh, if_pos hh]
        · rw [if_neg hh, if_neg hh]
          have e : mu w ({ s with held := 0 } : State σ) + 1 = mu w s := by
            simp only [mu, ctl, rho, heldW, hh, if_false, if_true]; omega
          exact ih k' _ (by omega) (by omega)
      | some t =>
        rw [settle_succ_some F k s t ht, settle_succ_some F k' s t ht]
        have := tick_mu F w hw s t ht
        exact ih k' t (by omega) (by omega)

end

theorem mbapW_le1 (st : Mbap.PState) : mbapW st ≤ 11 := by cases st <;> simp [mbapW]

theorem mbap_settled_blocked (s : State Mbap.PState) : Blocked mbap (settled mbap s) :=
  settled_is_blocked mbap mbapW mbap_measure mbapW_le1 s

theorem rtu_settled_blocked (s : State Rtu.PState) : Blocked rtu (settled rtu s) :=
  settled_is_blocked rtu (fun _ => 0) rtu_measure (fun _ => by omega) s

end Rodbus.Client
