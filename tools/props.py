"""Per-property configuration of tools/check.py."""
import re
import gen

TRUSTED_BASE = [
    "Lean 4.33.0 kernel (theorems) and compiler (compiled driver rodbus_model)",
    "axioms: propext, Classical.choice, Quot.sound only (audited per theorem with #print axioms); no native_decide / bv_decide / sorry",
    "tools/translate.py (Rust tables -> Lean Gen/Tables.lean) and the hand-written model (tied to the code only by the correspondence runs)",
    "verif-harness (Rust, production rodbus code in-process via feature verif-hooks), its scripted transport and canonicalisation",
    "rustc, tokio, scursor, crc crate",
]


# Generated table section -> generators whose exhaustive sub-domains run the production code over the
# table's whole domain against the model (used when the section's source can no longer be translated;
# see check.py).  Sections without an entry have no behavioural fallback.
TABLE_FALLBACK = {
    "limits": {"srv_tcp", "srv_rtu", "srv_auth", "cl_enc", "cl_resp"},          # boundary lattice L-1, L, L+1 per function
    "server_limits": {"srv_tcp", "srv_rtu", "srv_auth"},
    "function_codes": {"srv_tcp", "cl_enc", "cl_resp"},                          # all 256 function bytes / all 8 kinds
    "exception_codes": {"srv_tcp", "cl_resp"},                                   # all 256 exception bytes, both directions
    "frame_constants": {"srv_tcp", "srv_rtu", "rdr_mbap", "rdr_rtu", "cl_enc"},  # largest frames and header length fields
    "length_mode": {"rdr_rtu", "srv_rtu"},                                       # all 256 function bytes x direction
    "auth_table": {"srv_auth"}, "deny": {"srv_auth"}, "policies": {"srv_auth"},  # policies x 8 kinds x (un)configured unit
    "broadcast": {"srv_rtu"}, "request_function": {"srv_tcp", "srv_rtu", "srv_auth"},
    "session_ending": {"cl_task"},                                               # every way a request can end, then a second one
    "tls_versions": {"tls"},                                                     # min version x offered versions, both roles
    # C ABI: every conversion over its whole domain (ffi tab), every operation x outcome (ffi op), every
    # write result (ffi wres), the database operations (ffi db)
    "ffi": {"ffi_tab", "ffi_db"},
}

HOOK_COMMITS = ["30e20bd", "42a3e10", "f48b181", "076be68", "2621594"]


def always(*_a):
    return True


def no_key(c, i, sp):
    return None


def classify_rdr(case, impl):
    out = []
    n = impl.count("F")
    out.append("frames=%s" % ("0" if n == 0 else "1" if n == 1 else "2-5" if n <= 5 else "6+"))
    m = re.search(r"E([a-z.]+)", impl)
    out.append("end=" + (m.group(1) if m else "blocked"))
    nchunks = case.split(" ")[-1].count(",") + 1
    out.append("chunks=%s" % ("1" if nchunks == 1 else "2-5" if nchunks <= 5 else "6-50" if nchunks <= 50 else "51+"))
    return out


def nontrivial_rdr(case, impl):
    return impl not in ("-", "")


def classify_srv(case, impl):
    out = []
    m = re.search(r"end=(\S+)", impl)
    out.append("end=" + (m.group(1) if m else "?"))
    out.append("replies=" + ("none" if "tx=- " in impl else "some"))
    out.append("calls=" + ("none" if "calls=- " in impl else "some"))
    tok = case.split(" ")
    out.append("framing=" + tok[1])
    out.append("auth=" + ("none" if tok[3] == "-" else tok[3].split(".")[0].rstrip("0123456789")))
    return out


def nontrivial_srv(case, impl):
    return "tx=- calls=- " not in impl


def _parse_cl_request(step):
    """R/C/T/Q<h>.<rid>.<kind>.<unit>.<timeout>.<args…> -> dict"""
    style = step[0]
    parts = step[1:].split(".")
    d = dict(style=style, rid=parts[1], kind=parts[2], unit=int(parts[3]))
    k = d["kind"]
    if k in ("rc", "rd", "rh", "ri"):
        d["start"], d["count"] = int(parts[5]), int(parts[6])
    elif k in ("wc", "wr"):
        d["idx"], d["val"] = int(parts[5]), int(parts[6])
    else:
        d["start"] = int(parts[5])
        spec = parts[6]
        if spec.startswith("n"):
            n, seed = spec[1:].split("s")
            n, seed = int(n), int(seed)
            d["vals"] = gen.pat_bits(n, seed) if k == "wC" else gen.pat_regs(n, seed)
        elif spec == "-":
            d["vals"] = []
        elif k == "wC":
            d["vals"] = [c == "1" for c in spec]
        else:
            d["vals"] = [int(x) for x in spec.split("/")]
        d["count"] = len(d["vals"])
    return d


def _client_valid(d):
    """the property's own validity conditions (C03)"""
    k = d["kind"]
    if k in ("wc", "wr"):
        return True
    lim = {"rc": 2000, "rd": 2000, "rh": 125, "ri": 125, "wC": 1968, "wR": 123}[k]
    return 1 <= d["count"] <= lim and d["start"] + d["count"] <= 65536


def _protocol_pdu(d):
    fc = gen.FC_OF[d["kind"]]
    k = d["kind"]
    if k in ("rc", "rd", "rh", "ri"):
        return bytes([fc]) + gen.be16(d["start"]) + gen.be16(d["count"])
    if k == "wc":
        return bytes([fc]) + gen.be16(d["idx"]) + (b"\xff\x00" if d["val"] else b"\x00\x00")
    if k == "wr":
        return bytes([fc]) + gen.be16(d["idx"]) + gen.be16(d["val"])
    if k == "wC":
        payload = gen.pack_bits(d["vals"])
        return bytes([fc]) + gen.be16(d["start"]) + gen.be16(d["count"]) + bytes([len(payload)]) + payload
    payload = b"".join(gen.be16(v) for v in d["vals"])
    return bytes([fc]) + gen.be16(d["start"]) + gen.be16(d["count"]) + bytes([len(payload)]) + payload


def cl_enc_oracle(case, impl):
    """C03 stated directly: every transmitted frame is the protocol encoding of a valid request
    (tx id = number of requests dequeued so far), invalid requests transmit nothing, and no frame
    exceeds 260 (TCP) / 256 (RTU) bytes"""
    tok = case.split(" ")
    if tok[0] != "cl":
        return None
    rtu_mode = tok[1] == "r"
    steps = tok[5].split(",")
    groups = impl.split(" | ")
    if len(groups) != len(steps) + 2:
        return None     # not one group per step (harness-panic etc. is caught by the model diff)
    tx = 0
    armed = False       # `W` / `Wi`: the transport fails the next write
    for st, g in zip(steps, groups):
        if st[0] not in "RCTQ":
            if any(e.startswith("tx.") for e in g.split(";")):
                return "a frame was transmitted in a step that submits nothing: " + st
            if st[0] == "W":
                armed = True
            continue
        d = _parse_cl_request(st)
        frames = [e[3:] for e in g.split(";") if e.startswith("tx.")]
        for f in frames:
            if len(f) // 2 > (256 if rtu_mode else 260):
                return f"frame of {len(f) // 2} bytes emitted"
        if not _client_valid(d):
            if frames:
                return f"invalid request {st} was transmitted"
            if not any(e.startswith(f"sub.{d['rid']}.err.") or e.startswith(f"done.{d['rid']}.") for e in g.split(";")):
                return f"invalid request {st} was neither refused nor completed with an error"
            # a request rejected while it is serialised has consumed a transaction id
            if any(e.startswith(f"done.{d['rid']}.badreq.type") for e in g.split(";")) and d["style"] != "T" or \
               (any(e.startswith(f"done.{d['rid']}.badreq.type") for e in g.split(";"))):
                tx = (tx + 1) % 65536
            continue
        pdu = _protocol_pdu(d)
        if armed:
            # the transport refuses the write: nothing reaches the wire (in particular no second
            # attempt), the request fails with the transport's error; its transaction id is used up
            armed = False
            if frames:
                return f"request {st}: the transport failed the write but {frames} was transmitted"
            if not any(e.startswith(f"done.{d['rid']}.io.") for e in g.split(";")):
                return f"request {st}: write failed but the request did not complete with the transport error"
            tx = (tx + 1) % 65536
            continue
        expect = gen.rtu(d["unit"], pdu) if rtu_mode else gen.mbap(tx, d["unit"], pdu)
        if frames != [expect.hex()]:
            return f"request {st}: transmitted {frames} instead of [{expect.hex()}]"
        tx = (tx + 1) % 65536
    return None


def ffi_finding_key(case, impl, model):
    """open findings of the C ABI, by call site"""
    t = case.split()
    # F10 is exactly this: everything is as specified except that the callback of the REFUSED third
    # request receives Shutdown instead of an error that says "queue full".  Any other deviation of
    # a qfull run (an earlier request refused, a callback fired twice, the task gone) is not F10.
    if len(t) > 3 and t[0] == "ffi" and t[1] == "op" and t[3] == "qfull" and \
            impl.replace("r3:TooManyRequests,Shutdown ", "r3:TooManyRequests,TooManyRequests ") == model.split(" || ")[0]:
        return "F10-queue-full-shutdown"
    return None


def cl_task_oracle(case, impl, shutdown_clause=True):
    """C10 stated on the implementation's own log: no request completes twice; `shutdown` is
    reported only when the task is gone (after an abort); `noconn` only if a waiting phase was ever
    started; `timeout` only in a step that lets time pass"""
    tok = case.split(" ")
    if tok[0] != "cl" or " | " not in impl:
        return None
    steps = tok[5].split(",") if tok[5] != "-" else []
    groups = impl.split(" | ")
    if len(groups) != len(steps) + 2:
        return None
    aborted = False
    waited = False
    seen = set()
    zero_timeout = set()
    for st, g in zip(steps + ["-"], groups[:-1]):
        if st.startswith("K"):
            aborted = True
        if st[0] in "VF":
            waited = True
        if st[0] in "RCTQ":
            parts = st[1:].split(".")
            if len(parts) > 4 and parts[4] in ("0", "0s"):
                zero_timeout.add(parts[1])
        for e in ([] if g == "-" else g.split(";")):
            if not e.startswith("done."):
                continue
            parts = e.split(".")
            rid = parts[1]
            if ".dup" in e or rid in seen:
                return f"request {rid} completed twice"
            seen.add(rid)
            if parts[2] == "shutdown" and not aborted and shutdown_clause:
                if f"sub.{rid}.err.full" in g:
                    return "KNOWN:F10-queue-full-shutdown"
                return f"request {rid} completed with shutdown while the task is alive (step {st})"
            if parts[2] == "noconn" and not waited:
                return f"request {rid} failed with no-connection although no waiting phase was ever started"
            if parts[2] == "timeout" and not st.startswith("A") and rid not in zero_timeout:
                return f"request {rid} timed out in a step that does not advance time ({st})"
    return None


LIFE_NEXT = {
    "Disabled": {"Connecting", "Shutdown"},
    "Connecting": {"Connected", "WaitFail", "Disabled", "Shutdown"},
    "Connected": {"WaitDisc", "Disabled", "Shutdown"},
    "WaitFail": {"Connecting", "Disabled", "Shutdown"},
    "WaitDisc": {"Connecting", "Disabled", "Shutdown"},
    "Shutdown": set(),
}


def life_oracle(case, impl):
    """C13/C14 stated directly on the implementation's own log (independent of the Lean model):
    legal state path, Connecting only while enabled, fail-fast results, announced delays follow
    the doubling rule, every announced connection is seen closed by its peer before the next
    state is announced, the task terminates and handles report shutdown afterwards"""
    if " | " not in impl:
        return "malformed output"
    logpart, summary = impl.split(" | ", 1)
    evs = [] if logpart == "-" else logpart.split(";")
    states = [e[2:].split("(")[0] for e in evs if e.startswith("g:")]
    if states and states[0] != "Disabled":
        return "first state is not Disabled"
    for a, b in zip(states, states[1:]):
        if b not in LIFE_NEXT[a]:
            return f"illegal transition {a} -> {b}"
    if states.count("Shutdown") > 1:
        return "Shutdown announced twice"
    if "early" in evs:
        return "next connect attempt started before the announced delay elapsed"
    if "shutdown_seen=true" not in summary or "fin=term" not in summary:
        return "task did not terminate on shutdown: " + summary
    if "after=ok" in summary or "after=pending" in summary:
        return "a handle did not report shutdown after the task ended"
    if "acc=ok" not in summary:
        return "connection attempts do not match announced states: " + summary
    # announced delays: k-th consecutive WaitFail = min(min*2^(k-1), max); WaitDisc = min
    tok = case.split(" ")
    rmin, rmax = [int(x) for x in tok[1][1:].split(".")]
    k = 0
    for e in evs:
        if e.startswith("g:WaitFail("):
            d = int(e[len("g:WaitFail("):-1])
            if d != min(min(rmin, rmax) * (2 ** k), rmax):
                return f"WaitFail delay {d} is not min*2^{k} capped"
            k += 1
        elif e.startswith("g:WaitDisc("):
            if int(e[len("g:WaitDisc("):-1]) != rmin:
                return "WaitAfterDisconnect delay is not min"
        elif e == "g:Connected":
            k = 0
    # the connection: open from `g:Connected` until the peer reports `closed`, which must happen
    # before the next state is announced (directly in front of it) and nowhere else.
    # fail fast: noconn only without a connection; ok / transport errors only with one
    connected = False
    for i, e in enumerate(evs):
        if e.startswith("g:"):
            if connected:
                return f"{e[2:]} announced while the connection announced before was still open (no `closed`)"
            connected = e == "g:Connected"
        elif e == "closed":
            if not connected:
                return "`closed` reported without an open announced connection"
            if i + 1 >= len(evs) or not evs[i + 1].startswith("g:"):
                return "`closed` is not directly followed by a state announcement"
            connected = False
        elif e.startswith("done:"):
            res = e.split(":", 2)[2]
            if res == "ok.4660" and not connected:
                return "a request succeeded while not connected"
            if res in ("io.eof", "io.reset", "io.pipe", "io.other", "bf.proto", "timeout") and not connected:
                return f"a request failed with {res} while not connected"
            if res == "noconn" and connected:
                return "a request failed with no-connection while connected"
    # exactly once: every submitted request has at most one completion, every completion a submission
    subs = [e[2:] for e in evs if e.startswith("a:R")]
    dones = [e.split(":")[1] for e in evs if e.startswith("done:")]
    if len(set(subs)) != len(subs) or len(set(dones)) != len(dones) or not set(dones) <= set(subs):
        return "a request was completed twice or without having been submitted"
    # after `Shutdown`: nothing is announced or observed, every completion is `shutdown`; once
    # the task has ended (first refused call / immediate completion) every call reports shutdown
    if "g:Shutdown" in evs:
        tail = evs[evs.index("g:Shutdown") + 1:]
        ended = False
        for i, e in enumerate(tail):
            if e.startswith("g:") or e in ("idle", "closed", "early"):
                return f"`{e}` after Shutdown"
            if e.startswith("done:"):
                if not e.endswith(":shutdown"):
                    return "a request completed after Shutdown with something else than shutdown"
                continue
            if e.endswith(":blocked"):
                return "a call on a handle of the ended task blocked"
            if e.endswith(":shutdown"):
                ended = True
            elif ended and e != "a:X":
                if not e.startswith("a:R"):
                    return f"`{e}`: a call after the end of the task did not report shutdown"
                if i + 1 >= len(tail) or tail[i + 1] != f"done:{e[2:]}:shutdown":
                    return f"`{e}`: a request after the end of the task did not complete with shutdown at once"
        for r in [e[2:] for e in tail if e.startswith("a:R")]:
            if f"done:{r}:shutdown" not in evs:
                return f"request {r} submitted after Shutdown was never completed"
    return None


PROPS = {
    "C05": dict(
        tables=[],
        audit_modules=["RodbusModel.Audit.C05", "RodbusModel.Audit.C05Client"],
        required_theorems=["Rodbus.Client.rx_chunking_mbap", "Rodbus.Client.rx_chunking_rtu", "Rodbus.chunking_independent", "Rodbus.no_spurious_eof",
                           "Rodbus.bad_header_ends_session", "Rodbus.frames_roundtrip",
                           "Rodbus.no_loss_no_reread", "Rodbus.read_has_space", "Rodbus.Cancel.cancel_safe_mbap", "Rodbus.Cancel.session_cancel_safe"],
        suites=[dict(gen="rdr_mbap", n=(3000, 60000),
                     exhaustive="all chunk compositions of 5 short streams (<=10 bytes quick, <=12 thorough); "
                                "header length fields 0..599 (+3) x protocol id {0,1} quick, all 65536 thorough; "
                                "max-size frame split points; buffer-boundary streams"),
                dict(gen="cl_task", n=(500, 40000), corpus=["cl"]), dict(gen="srv_tcp", n=(600, 40000))],
        level_text="Proof: chunking_independent (for every list of reads the buffered two-state reader yields exactly the "
                   "frames/errors of a whole-stream specification), read_has_space / no_spurious_eof (buffer-full spurious EOF "
                   "unreachable), bad_header_ends_session, frames_roundtrip / no_loss_no_reread are Lean theorems over all byte "
                   "streams and all chunkings, by induction and a refinement invariant. The model (ReadBuffer, MbapParser, "
                   "FramedReader loop) is hand-written and tied to the code by running the production FramedReader on the same "
                   "chunk schedules (exhaustive compositions of short streams, all header length fields, buffer-boundary streams, random). Cancel safety: Cancel.cancel_safe_mbap / cancel_safe_rtu / session_cancel_safe - dropping the future of next_frame at any blocked point (select! with the command queue) leaves rb.normalize behind and changes nothing that is delivered afterwards, for every delivery schedule.",
        level_note="Trusted: Lean kernel (axioms propext, Classical.choice, Quot.sound), translator for the frame constants, "
                   "the hand-written model of buffer.rs/tcp/frame.rs/FramedReader (checked only by differential runs), the harness transport. "
                   "Per-connection statement: the client's reader persisting across reconnects is finding F14 (fixed).",
        technique="Lean 4 refinement proof (chunked reader = whole-stream spec) + differential correspondence on chunk schedules",
        classify=classify_rdr, nontrivial=nontrivial_rdr, finding_key=no_key,
        rule="cases = corpus + exhaustive sub-domains + seeded random MBAP streams under random chunkings; "
             "distinct = distinct case line; non-trivial = the reader produced at least one frame or error event",
        assumptions=["the transport delivers bytes in order; a delivery larger than the free buffer space is split by read()",
                     "model of ReadBuffer/MbapParser is hand-written; equality with the code is sampled by the rdr suite"],
    ),
    "C06": dict(
        tables=['length_mode', 'frame_constants'],
        audit_modules=["RodbusModel.Audit.C06", "RodbusModel.Audit.C03Run"],
        required_theorems=["Rodbus.Client.rtu_sent_frames", "Rodbus.C06.span_unchanged", "Rodbus.C06.corruption_rejected_data_bytes", "Rodbus.C06.length_mode_table_correct", "Rodbus.C06.format_crc", "Rodbus.C06.format_len_le", "Rodbus.C06.accept_sound",
                           "Rodbus.C06.rtu_chunking_independent", "Rodbus.C06.burst_detected",
                           "Rodbus.C06.single_bit_detected", "Rodbus.C06.double_bit_detected",
                           "Rodbus.C06.crc_trailer_zero_iff", "Rodbus.C06.corrupted_frame_crc_mismatch",
                           "Rodbus.C06.corruption_rejected_partial", "Rodbus.C06.format_parse_roundtrip"],
        suites=[dict(gen="crc", n=(3000, 100000)),
                dict(gen="rdr_rtu", n=(3000, 60000),
                     exhaustive="both parser directions: all chunk compositions of fixed frames <= 9 (11) bytes; every single-bit "
                                "error of 17 fixed frames; double-bit errors (every 23rd pair quick, all pairs thorough); "
                                "bursts <= 16 bits at every 3rd (every) start"),
                # emission: every frame the library writes on a serial link (server replies incl.
                # exception replies, client requests) and its acceptance by the peer's rule
                dict(gen="srv_rtu", n=(1200, 80000)), dict(gen="cl_enc", n=(300, 20000)),
                dict(gen="cl_task", n=(400, 30000)), dict(gen="pty_srv", n=(60, 800), jobs=16), dict(gen="pty_cli", n=(60, 800), jobs=16)],
        level_text="Proof: CRC-16/MODBUS algebra on the bit-serial register (linearity, injectivity on 16-bit values, order of x) "
                   "gives burst_detected (<=16 bits), single_bit_detected, double_bit_detected (frames up to 2100 bits) and the bridge "
                   "crc_trailer_zero_iff; format_crc/format_len_le (emitted frames carry the right CRC, <= 256 bytes); accept_sound (a frame "
                   "is delivered only if its CRC verifies over exactly the span the length rule selects); rtu_chunking_independent (all "
                   "chunkings, both directions); corrupted_frame_crc_mismatch; corruption_rejected_partial (parser level, under the hypothesis "
                   "that the corruption leaves the length rule's result unchanged - a protocol limit, witness byte_count_flip_accepted). "
                   "Tie: production RtuParser/FramedReader and the crc crate run on the same streams.",
        level_note="Partial: corruption theorem requires unchanged delimitation (forced by length-delimited RTU framing). Trusted: Lean kernel; "
                   "bitwise CRC model vs. the crc crate's table implementation (sampled by the crc suite); hand-written parser model; emitted-frame "
                   "bound for client requests relies on C03's request limits.",
        technique="Lean 4 algebraic proof of CRC detection + refinement proof of the RTU reader + differential correspondence incl. exhaustive bit flips",
        classify=classify_rdr, nontrivial=nontrivial_rdr, finding_key=no_key,
        rule="crc suite: random byte strings (1..260 B) + repo vectors; rdr suite: see exhaustive_subdomains + seeded random RTU streams "
             "(valid frames of all 8 functions and exception replies, bit flips, bad CRC, garbage, truncation) under random chunkings; "
             "distinct = distinct case line; non-trivial = at least one frame or error event (crc: every case)",
        assumptions=["serial line delivers bytes in order", "inter-frame timing (t3.5) is not used by the code and not modelled"],
    ),
    "C14": dict(
        tables=[],
        audit_modules=["RodbusModel.Audit.C14", "RodbusModel.Audit.C14Serial", "RodbusModel.Audit.C14Server", "RodbusModel.Audit.C14Life"],
        required_theorems=["Rodbus.C14Life.announced_delays_conform", "Rodbus.C14Serial.drop_all_ends_task", "Rodbus.C14Server.run_eq_spec", "Rodbus.C14Server.observed_delays_conform", "Rodbus.C14Server.failures_from_start", "Rodbus.C14Server.restart_after_port_loss", "Rodbus.C14Server.restart_after_bad_frame", "Rodbus.C14Server.shutdown_from_every_state", "Rodbus.C14Server.ended_final", "Rodbus.C14.kth_delay_get", "Rodbus.C14.delay_saturates", "Rodbus.C14Serial.run_eq_spec", "Rodbus.C14Serial.announced_delays_conform", "Rodbus.C14Serial.restart_after_disable", "Rodbus.C14Serial.restart_after_port_loss", "Rodbus.C14Serial.no_open_while_disabled", "Rodbus.C14Serial.shutdown_final", "Rodbus.C14.kth_delay", "Rodbus.C14.kth_delay_created", "Rodbus.C14.kth_delay_after_reset",
                           "Rodbus.C14.disconnect_is_min", "Rodbus.C14.no_overflow", "Rodbus.C14.delay_le_max"],
        suites=[dict(gen="retry", n=(4000, 300000),
                     exhaustive="11x11 lattice of special (min,max) durations incl. 0, Duration::MAX, MAX/2, MAX/2+1"),
                dict(gen="life", n=(20, 1200), jobs=16), dict(gen="slife", n=(8, 300), jobs=8), dict(gen="pty_cli", n=(10, 200), jobs=16), dict(gen="sport", n=(60, 400), jobs=16), dict(gen="sserver", n=(60, 400), jobs=16)],
        extra_oracle=lambda c, i: life_oracle(c, i) if c.startswith("life ") else None,
        level_text="Proof: kth_delay (by induction on the call sequence, for all (min,max) with max representable and all k: the k-th "
                   "consecutive after_failed_connect since creation/reset returns min*2^(k-1) capped at max), disconnect_is_min, "
                   "kth_delay_after_reset, delay_le_max, no_overflow (the saturating doubling never exceeds Duration::MAX). Tie: the public "
                   "doubling_retry_strategy object is run on the same (min,max) and call sequences as the model and as a stateless closed-form "
                   "specification. Task-level part (announced delay = waited delay, reset on connect) is exercised by the lifecycle suite (C13).",
        level_note="Trusted: Lean kernel; hand-written 20-line model of retry.rs tied by differential runs; std::time::Duration arithmetic "
                   "(saturating_mul, min). The use of the strategy by the channel tasks is not proved here (see C13).",
        technique="Lean 4 induction over call sequences + differential run of the public strategy object",
        classify=lambda c, i: ["panic" if "panic" in i else "ok", "len=%d" % min(9, i.count(",") // 10)],
        nontrivial=lambda c, i: i != "-", finding_key=no_key,
        rule="cases = special-value lattice + seeded random (min,max) and op strings over {f,d,r}; distinct = distinct case line; "
             "non-trivial = at least one delay returned",
        assumptions=["durations are modelled as natural numbers of nanoseconds"],
    ),
    "C15": dict(
        tables=[],
        audit_modules=["RodbusModel.Audit.C15", "RodbusModel.Audit.C15Net"],
        required_theorems=["Rodbus.C15Net.no_service_before_admission_reachable", "Rodbus.C15Net.pipeline_answer", "Rodbus.C15Net.churn_keeps_sessions", "Rodbus.C15Net.burst_order_irrelevant", "Rodbus.C15.tracker_bound", "Rodbus.C15.evicts_oldest", "Rodbus.C15.remove_absent",
                           "Rodbus.C15.fresh_id", "Rodbus.C15Net.open_bound", "Rodbus.C15Net.isolation",
                           "Rodbus.C15Net.shutdown_closes_all", "Rodbus.C15Net.evicted_is_oldest",
                           "Rodbus.C15Net.refused_after_shutdown"],
        suites=[dict(gen="trk", n=(3000, 200000),
                     exhaustive="all op sequences of length <= 4 (5 thorough) over {add, remove 0, remove 1, remove 2} for max_sessions 0..4"),
                dict(gen="net", n=(60, 1500), jobs=16), dict(gen="srv_edge", n=(1, 1), exhaustive="a session whose command sender is dropped (eviction, shutdown, handle drop) while 20000 / 3000 complete requests of its peer are ready must end without serving the backlog")],
        level_text="Proof: tracker_bound (for every add/remove sequence the number of live sessions is <= max(1,max_sessions)), evicts_oldest "
                   "(a full tracker evicts exactly the smallest id = the earliest-added live session, ids strictly increase), remove_absent "
                   "(late removal of an evicted id is a no-op), fresh_id. Tie: the production SessionTracker is driven through the verif hook on "
                   "the same op sequences. The network-level parts (isolation between sessions, shutdown closes all sessions, evicted "
                   "session actually closed) are exercised over loopback by the srvnet suite.",
        level_note="Partial: session isolation and shutdown are runtime behaviour (tokio tasks, sockets); they are exercised, not proved. "
                   "Trusted: Lean kernel, hand-written tracker model tied by differential runs.",
        technique="Lean 4 invariant proof over add/remove sequences + differential run of the production SessionTracker + loopback scenarios",
        classify=lambda c, i: ["max=" + c.split(" ")[1], "evictions" if True else ""],
        nontrivial=lambda c, i: "+" in i, finding_key=no_key,
        rule="cases = exhaustive short sequences + seeded random sequences (max 0,1,2,3,4,8,100); distinct = distinct case line; "
             "non-trivial = at least one add",
        assumptions=["eviction in the real server is asynchronous: the evicted task ends at its next poll"],
    ),
    "C16": dict(
        tables=[],
        audit_modules=["RodbusModel.Audit.C16", "RodbusModel.Audit.C15Net"],
        required_theorems=["Rodbus.C16.matches_spec", "Rodbus.C16.wildcard_parse_iff", "Rodbus.C16.wrong_field_count_rejected",
                           "Rodbus.C16.parsed_fields_are_octets", "Rodbus.C16.splitDots_join",
                           "Rodbus.C15Net.accept_iff_matches", "Rodbus.C15Net.rejected_no_effect"],
        suites=[dict(gen="flt", n=(4000, 300000)),
                dict(gen="fltm", n=(3000, 200000),
                     exhaustive="all 4^4 wildcard patterns over {*,0,127,255} x 5 peers (3^4+1 peers thorough)"),
                dict(gen="net", n=(40, 1000), jobs=16,
                     exhaustive="{tcp,tls,tls+authz} x 11 filters x 4 loopback source addresses; IPv6 loopback peers"),
                dict(gen="ffi_flt", n=(300, 3000), harness="ffi"),
                dict(gen="ffi_fnet", n=(40, 290), harness="ffi", jobs=8,
                     exhaustive="C ABI server constructors {tcp, tls, tls+authz} x matching / non-matching filters x loopback source addresses")],
        level_text="Proof: matches_spec (AddressFilter::matches decides exactly the declarative meaning for every filter and peer; IPv6 never "
                   "matches a wildcard), wildcard_parse_iff (a string parses iff it splits on '.' into exactly four fields each '*' or a numeral "
                   "accepted by u8::from_str, and the result is their meaning), parsed_fields_are_octets, splitDots_join/no_dot. Tie: the Rust "
                   "parser and matcher are run on grammar-aware strings (signs, leading zeros, 255/256, empty fields, non-ASCII digits) and a "
                   "boundary lattice of patterns x peers. Accept-path part (every server variant, Rust API and C ABI) is exercised over loopback.",
        level_note="Reading: numeric fields accept what Rust's u8::from_str accepts (optional '+', leading zeros). Partial: that every server variant "
                   "consults the filter before serving is exercised over loopback / via the C ABI, not proved. Trusted: Lean kernel, hand-written "
                   "model of address_filter.rs and of u8::from_str.",
        technique="Lean 4 iff-characterisation of parser and matcher + differential runs on grammar-aware strings",
        classify=lambda c, i: [i[:3]],
        nontrivial=lambda c, i: i.startswith("ok") or i == "true", finding_key=no_key,
        rule="flt: fixed edge strings + seeded grammar-aware wildcard strings (about half valid); fltm: pattern x peer lattice + random; "
             "distinct = distinct case line; non-trivial = the string parsed / the filter matched",
        assumptions=["IPv6 peers are compared by their canonical text form in the model"],
    ),
    "C01": dict(
        tables=['function_codes', 'exception_codes', 'limits', 'server_limits', 'request_function', 'broadcast', 'frame_constants'],
        audit_modules=["RodbusModel.Audit.C01"],
        required_theorems=["Rodbus.C01.configured_always_answered", "Rodbus.C01.session_replies_exact", "Rodbus.C01.frameOut_eq_frameReply", "Rodbus.C01.handleFrame_eq_spec", "Rodbus.C01.parse_iff_valid", "Rodbus.C01.runFrames_eq_spec",
                           "Rodbus.C01.reply_pdu_len", "Rodbus.C01.unknown_function_reply", "Rodbus.C01.invalid_request_reply",
                           "Rodbus.C01.read_bits_payload", "Rodbus.C01.read_regs_payload", "Rodbus.C01.first_exception_reply",
                           "Rodbus.C01.write_echo", "Rodbus.C01.session_replies", "Rodbus.Tables.fc_table_correct",
                           "Rodbus.Tables.exception_roundtrip", "Rodbus.Tables.server_limits_correct",
                           "Rodbus.C01Stream.stream_replies", "Rodbus.C01Stream.session_chunking_independent",
                           "Rodbus.C01W.write_failure_wire", "Rodbus.C01W.write_failure_wire_spec", "Rodbus.C01W.write_failure_session", "Rodbus.C01W.write_failure_prefix"],
        suites=[dict(gen="srv_wfail", n=(300, 30000), exhaustive="failing transport write: every fault position 0..6 of fixed six-request sessions (TCP incl. unknown function and unconfigured unit; RTU incl. a broadcast), frame-by-frame and in one segment"),
                dict(gen="srv_tcp", n=(2500, 150000),
                     exhaustive="MBAP: every function byte 0..255 x payload lengths {0,1,3,4,5,6} (0..12 thorough) x {configured, unconfigured} unit; "
                                "quantity x start boundary lattice for the six ranged functions"),
                dict(gen="srv_rtu", n=(1500, 100000), exhaustive="RTU: quantity x start boundary lattice"), dict(gen="net", n=(6, 200), jobs=16)],
        level_text="Proof: handleFrame_eq_spec - the model of SessionTask::handle_frame (cursor-style parser, getter loops, exception fallback, "
                   "authorization, unit dispatch, broadcast) equals the declarative reference server Spec.Server.respond for EVERY configuration, "
                   "handler state machine, unit map, framing and frame (no well-formedness hypothesis), lifted to sessions (runFrames_eq_spec, "
                   "session_replies) and composed with the framing theorems of C05/C06; corollaries state each clause of the property (unknown "
                   "function -> 01, invalid -> 03, unconfigured/empty -> silence, bit/register payload layout, first exception in ascending order, "
                   "write echo, reply PDU <= 253 bytes); table theorems re-prove function codes, exception codes and limits against tables "
                   "regenerated from the Rust source on every run. Tie: production SessionTask::run over an in-memory transport with instrumented handlers. Failing transport write (fault model runSessionW, every fault position): write_failure_wire(_spec) - the wire carries exactly the first n framed replies of the reference server; write_failure_session - calls and states are those of the reference run over the handled prefix (the request whose reply was lost was executed once), the session ends with the write error iff the fault is reached.",
        level_note="Trusted: Lean kernel; translator; hand-written model of server/task.rs, server/request.rs, common/serialize.rs (tied by differential "
                   "sessions, exhaustive on the listed sub-domains, sampled elsewhere); harness. Reading: redundant byte-count field not demanded; "
                   "on RTU an unknown function cannot be framed (C06).",
        technique="Lean 4 refinement proof (model of handle_frame = declarative reference server) + generated table theorems + differential sessions",
        classify=classify_srv, nontrivial=nontrivial_srv, finding_key=no_key, rule="cases = corpus (witnesses of repaired defects first) + exhaustive sub-domains + seeded sessions of 1..12 (quick) / 1..40 (thorough) requests mixing valid (3/4), malformed (grammar-aware mutations), exception-raising and wrong-unit requests over random unit maps (0..4 units, per-address read/write exceptions), delivered frame-by-frame or under random chunkings, with commands injected; distinct = distinct case line; non-trivial = the session produced a reply or an application call",
        assumptions=["handlers are deterministic state machines; reads do not mutate (they take &self)"],
    ),
    "C02": dict(
        tables=[],
        audit_modules=["RodbusModel.Audit.C02"],
        required_theorems=["Rodbus.C02.session_calls_justified", "Rodbus.C02.framing_error_ends_session", "Rodbus.C02.calls_justified", "Rodbus.C02.write_once", "Rodbus.C02.write_once_broadcast",
                           "Rodbus.C02.reads_ascending_prefix", "Rodbus.C02.invalid_no_effect", "Rodbus.C02.reads_no_state_change_lookup",
                           "Rodbus.C01W.write_failure_calls_justified", "Rodbus.C01W.write_failure_prefix", "Rodbus.Cancel.session_cancel_safe"],
        suites=[dict(gen="srv_wfail", n=(300, 30000)), dict(gen="srv_edge", n=(1, 1), exhaustive="k = 1..11 pipelined requests + a long write whose first delivery ends at offset 259/260/261 of the receive buffer, a ChangeDecoding command cancelling the pending read, then the rest; handler mutex held by an application thread while a unicast / broadcast write arrives"), dict(gen="srv_tcp", n=(2500, 150000)), dict(gen="srv_rtu", n=(1500, 100000)), dict(gen="srv_auth", n=(1500, 100000))],
        level_text="Proof: calls_justified (every handler call of handle_frame is justified by a valid, in-limit, permitted request addressed to that "
                   "unit or broadcast, and is either exactly the decoded write or a read inside the requested range), write_once / "
                   "write_once_broadcast (exactly one write call per target with exactly count items (start+i, v_i)), reads_ascending_prefix, "
                   "invalid_no_effect (malformed, unknown function, wrong unit, denied => no handler call, states unchanged), for all frames and "
                   "configurations. Tie: the ordered call log (method, unit, arguments incl. the collected iterator items) and the final handler "
                   "states of the production session are compared with the model. With a failing transport write the call log is a prefix of the fault-free one (write_failure_prefix); commands that cancel a pending read do not change what is decoded (Cancel.session_cancel_safe).",
        level_note="Trusted as C01. Frames rejected by the framer (bad CRC / bad header) never reach handle_frame: C05/C06.",
        technique="Lean 4 proof over the call log of the handle_frame model + differential call-log comparison",
        classify=classify_srv, nontrivial=nontrivial_srv, finding_key=no_key, rule="cases = corpus (witnesses of repaired defects first) + exhaustive sub-domains + seeded sessions of 1..12 (quick) / 1..40 (thorough) requests mixing valid (3/4), malformed (grammar-aware mutations), exception-raising and wrong-unit requests over random unit maps (0..4 units, per-address read/write exceptions), delivered frame-by-frame or under random chunkings, with commands injected; distinct = distinct case line; non-trivial = the session produced a reply or an application call",
        assumptions=["handlers are deterministic state machines"],
    ),
    "C08": dict(
        tables=['auth_table', 'deny', 'policies'],
        audit_modules=["RodbusModel.Audit.C08"],
        required_theorems=["Rodbus.C08.deny_no_effect", "Rodbus.C08.allow_transparent", "Rodbus.C08.auth_first_and_args",
                           "Rodbus.C08.per_request", "Rodbus.C08.per_request_session", "Rodbus.C08.auth_table_correct",
                           "Rodbus.C08.read_only_policy", "Rodbus.C08.default_deny", "Rodbus.C08.deny_exception_is_01"],
        suites=[dict(gen="srv_auth", n=(3000, 200000)), dict(gen="srv_rtu", n=(600, 40000))],
        level_text="Proof: deny_no_effect (deny => no handler call, states unchanged, reply [fc|0x80, 01], nothing on broadcast), allow_transparent "
                   "(allow => identical to the run without authorization except for the authorization call), auth_first_and_args (exactly one "
                   "authorization call, first, with the frame's unit id, the request's range or index and the session's role; none for malformed "
                   "requests), per_request / per_request_session (no authorization state is threaded), for every policy function, role string and "
                   "frame; auth_table_correct, read_only_policy, default_deny, deny_exception_is_01 by decide over tables regenerated from "
                   "server/task.rs and server/handler.rs. Tie: production session with AuthorizationType::Handler(handler, role) attached through "
                   "the hook for arbitrary role strings; policies allow/deny/hash family and the real ReadOnlyAuthorizationHandler.",
        level_note="The role string is attached through the verif hook; extraction of the role from the certificate is C09. Trusted as C01.",
        technique="Lean 4 proof over the handle_frame model with an arbitrary policy + generated policy tables + differential sessions",
        classify=classify_srv, nontrivial=nontrivial_srv, finding_key=no_key, rule="cases = corpus (witnesses of repaired defects first) + exhaustive sub-domains + seeded sessions of 1..12 (quick) / 1..40 (thorough) requests mixing valid (3/4), malformed (grammar-aware mutations), exception-raising and wrong-unit requests over random unit maps (0..4 units, per-address read/write exceptions), delivered frame-by-frame or under random chunkings, with commands injected; distinct = distinct case line; non-trivial = the session produced a reply or an application call",
        assumptions=["authorization handlers are pure functions of (callback, unit, argument, role)"],
    ),
    "C17": dict(
        tables=[],
        audit_modules=["RodbusModel.Audit.C17"],
        required_theorems=["Rodbus.C17.silent_unless_addressed", "Rodbus.C17.broadcast_write", "Rodbus.C17.broadcast_read_ignored",
                           "Rodbus.C17.broadcast_never_answered", "Rodbus.C17.unit0_ordinary_on_tcp",
                           "Rodbus.C17.silent_unless_addressed_or_denied", "Rodbus.C17.denied_answered_even_if_unconfigured", "Rodbus.C01W.broadcast_survives_write_fault", "Rodbus.C01W.foreign_frames_invisible_to_fault"],
        suites=[dict(gen="srv_edge", n=(1, 1), exhaustive="every kind of broadcast / unicast write while an application thread holds the handler mutex of one unit"), dict(gen="srv_rtu", n=(3000, 200000)), dict(gen="srv_tcp", n=(800, 50000)), dict(gen="srv_auth", n=(600, 50000)), dict(gen="pty_srv", n=(120, 1500), jobs=16)],
        level_text="Proof: silent_unless_addressed (for EVERY pdu - valid, failing in the handler or malformed - a frame for an unconfigured, "
                   "non-broadcast address yields no reply and no call), broadcast_write (RTU destination 0, valid write => exactly one write call per "
                   "configured unit in ascending order, results ignored, no reply), broadcast_never_answered (not even exceptions, also when "
                   "malformed or denied), broadcast_read_ignored, unit0_ordinary_on_tcp. Tie: production RTU sessions over the in-memory transport "
                   "with unit maps of 0..4 units and random destinations incl. 0 and unconfigured ids; silence is visible as absent bytes before the "
                   "reply of a later request. With a failing transport write: broadcast_survives_write_fault, foreign_frames_invisible_to_fault.",
        level_note="Trusted as C01. Finding F1 (malformed frames to unconfigured units were answered) is fixed in the tree. With an authorization handler (TLS sessions only) the silence theorem is silent_unless_addressed_or_denied: a DENIED request to an unconfigured unit id is answered with exception 01 (denied_answered_even_if_unconfigured), because C08 prescribes the deny answer for all unit ids and places the question before unit dispatch; that single point is read as governed by C08, not as a C17 violation (DESIGN.md).",
        technique="Lean 4 proof (RTU instance of the handle_frame model) + differential RTU sessions",
        classify=classify_srv, nontrivial=nontrivial_srv, finding_key=no_key, rule="cases = corpus (witnesses of repaired defects first) + exhaustive sub-domains + seeded sessions of 1..12 (quick) / 1..40 (thorough) requests mixing valid (3/4), malformed (grammar-aware mutations), exception-raising and wrong-unit requests over random unit maps (0..4 units, per-address read/write exceptions), delivered frame-by-frame or under random chunkings, with commands injected; distinct = distinct case line; non-trivial = the session produced a reply or an application call",
        assumptions=["a serial bus delivers every frame to every device; framing is by the length rule of C06"],
    ),
    "C09": dict(
        tables=['tls_versions'],
        audit_modules=["RodbusModel.Audit.C09"],
        required_theorems=["Rodbus.C15Net.no_service_before_admission_reachable", "Rodbus.C09.client_self_signed_single_certificate", "Rodbus.C09.client_extra_certificates_irrelevant", "Rodbus.C09.admission_history_independent", "Rodbus.C09.role_is_own_role_after_any_history", "Rodbus.C09.versions_correct", "Rodbus.C09.tls_table_correct", "Rodbus.C09.admit_iff",
                           "Rodbus.C09.client_admit_iff", "Rodbus.C09.role_is_certificate_role", "Rodbus.C09.no_role_refused",
                           "Rodbus.C09.negotiated_at_least_min", "Rodbus.C09.negotiation_succeeds",
                           "Rodbus.C09.role_is_end_entity_role", "Rodbus.C09.roleless_end_entity_refused"],
        suites=[dict(gen="tls", n=(0, 0), jobs=16,
                     exhaustive="thorough: the full grid {min 1.2,1.3} x {authority,self-signed} x {authz,no authz} x {client,server} x peer "
                                "versions {1.2,1.3,both} x certificate kinds incl. certificate lists and IP-literal expected names (336 handshakes); quick: all "
                                "version cells with valid certificates + half of the certificate kinds + every certificate-list and IP-name cell (about 75 handshakes)"), dict(gen="role", n=(0, 0))],
        level_text="Proof (rodbus's own logic): versions_correct (a version is enabled iff it is >= the configured minimum) and tls_table_correct "
                   "(the MinTlsVersion -> ProtocolVersions table regenerated from tcp/tls/client.rs equals the model's), admit_iff / "
                   "client_admit_iff (a session exists iff the peer offers a version >= min, its certificate validates under the configured mode "
                   "and - in authorization mode - carries exactly one role), role_is_certificate_role, no_role_refused, no_authz_no_role, "
                   "negotiated_at_least_min, negotiation_succeeds, cert_accepted_meaning; role_is_end_entity_role / extra_certificates_irrelevant / "
                   "roleless_end_entity_refused (the role is read from the first certificate of the Certificate message, whatever follows it). Exploration (the TLS library's part): real rodbus TLS "
                   "servers and clients against independent openssl s_client / s_server peers restricted to TLS 1.2, 1.3 or both, with minted "
                   "certificates (valid, wrong authority, wrong name, CN-only, expired, not yet valid, role-less, other role, none, impostor "
                   "self-signed, a second certificate with another role after the end entity, IP-literal expected names with and without IP SAN); observed: handshake outcome, negotiated version, role string seen by the authorization handler, handler calls.",
        level_note="Partial: certificate path validation, signature and validity checks, name matching and version negotiation are done by "
                   "rustls / webpki / sfio-rustls-config; in the theorems they are attributes of the presented certificate and the rule 'highest "
                   "common version'; they are exercised by the grid, not proved. Certificates with 0, 1, 2 or 3 role extensions are built by DER "
                   "surgery (tools/der.py; the openssl CLI cannot mint duplicates) and run through the production role extraction (suite role). Trusted: openssl 3.5 CLI as independent peer; certificates in /verif/certs "
                   "(tools/mint_certs.sh), valid until 2070.",
        technique="Lean 4 proof of the admission logic + generated version table + handshake grid against openssl peers",
        classify=lambda c, i: (["role extensions=%d" % (0 if c.split(" ")[1] == "-" else len(c.split(" ")[1].split("/"))),
                                "role " + i.split("=")[0]] if c.startswith("role ")
                               else [i.split(" ")[0], " ".join(c.split(" ")[1:4])]),
        nontrivial=lambda c, i: True, finding_key=no_key,
        rule="cases = corpus (witnesses of the repaired version table first) + the grid; every handshake is non-trivial; distinct = distinct case line",
        assumptions=["system clock between 2021 and 2069 (expired / not-yet-valid test certificates)",
                     "the TLS library negotiates the highest version enabled by both sides"],
    ),
    "C07": dict(
        tables=['limits', 'frame_constants'],
        audit_modules=["RodbusModel.Audit.C07", "RodbusModel.Audit.C07Client"],
        required_theorems=["Rodbus.Client.client_phase_outcome_mbap", "Rodbus.Client.client_phase_outcome_rtu", "Rodbus.Client.client_no_spin_mbap", "Rodbus.Client.client_no_spin_rtu", "Rodbus.Client.client_shutdown_honoured", "Rodbus.C07.session_outcome", "Rodbus.C07.shutdown_honoured", "Rodbus.C07.reply_fits_writer",
                           "Rodbus.C07.range_addresses_fit", "Rodbus.C07.reader_errors_are_protocol_errors",
                           "Rodbus.no_spurious_eof", "Rodbus.C06.no_spurious_eof", "Rodbus.C06.peek_in_bounds",
                           "Rodbus.C01W.write_failure_ends_session", "Rodbus.C01W.write_failure_unreached"],
        suites=[dict(gen="srv_wfail", n=(300, 30000)), dict(gen="srv_edge", n=(1, 1), exhaustive="flooding peer (20000 / 3000 ready requests) with a Shutdown command queued at the same moment, both framings; commands cancelling reads at the buffer boundary; handler-mutex contention"), dict(gen="srv_fuzz", n=(3000, 400000)), dict(gen="rdr_fuzz", n=(3000, 400000)),
                dict(gen="cl_fuzz", n=(800, 100000)),
                dict(gen="srv_tcp", n=(800, 50000)), dict(gen="srv_rtu", n=(800, 50000)), dict(gen="net", n=(6, 200), jobs=16), dict(gen="pty_srv", n=(40, 600), jobs=16)],
        level_text="Proof for the modelled logic: bounds at the arithmetic/indexing sites mirrored from the Rust code (range_addresses_fit, "
                   "indexed_indices_fit, mbap_length_field_fits, byte_counts_fit, read_buffer_indices_in_bounds, peek_in_bounds, "
                   "reply_fits_writer), no internal error and no spurious EOF in any reachable reader state of either framer (so nothing can be "
                   "returned without consuming input), session_outcome (every byte stream ends a server session with EOF, transport error, "
                   "shutdown or a *protocol* framing error - no other outcome), shutdown_honoured. Exploration for what is not modelled (logging / "
                   "Display paths, tokio, OS): the production server session, framers and client loop run under catch_unwind with overflow checks "
                   "and debug assertions on, cycling through all 36 decode levels with a formatting tracing subscriber installed, on grammar-aware "
                   "mutations of valid traffic and raw random bytes, each followed by a shutdown command that must still be honoured; any 'panic' or "
                   "'hung' outcome or disagreement with the model's outcome is a violation. A failing transport write ends the session with the transport's error exactly when the fault is reached (write_failure_ends_session); oracle cases: a flooding peer cannot starve a queued Shutdown command.",
        level_note="Partial by nature: absence of panics in code that is not modelled (tracing/Display formatting, tokio, the OS, the TLS stack) "
                   "rests on the differential runs, which are tests. Finding F13 (u16 overflow panic in AddressIterator for ranges ending at 65535) "
                   "was found by these runs and is fixed.",
        technique="Lean 4 bounds/progress/outcome lemmas over the models + fuzz-style differential runs under catch_unwind at all decode levels",
        classify=lambda c, i: ([("end=" + i.split("end=")[1]) if "end=" in i else ("rdr:" + (i.rsplit(";", 1)[-1][:10] if i != "-" else "blocked")),
                               "level=" + c.split(" ")[2]]),
        nontrivial=lambda c, i: i not in ("-", "") and "tx=- calls=- " not in i or "end=bf" in i or i.startswith("E") or ";E" in i,
        finding_key=no_key,
        rule="cases = seeded streams: raw random bytes (1/5) or 1..10 frames of valid / malformed requests with bad CRC, bad protocol id, "
             "wrong length field, bit flips, truncation; random unit maps; every case at a decode level cycling through all 36; shutdown "
             "command appended; plus the C01 session generators; distinct = distinct case line; non-trivial = the session produced output or "
             "ended with a framing error",
        assumptions=["harness built with overflow-checks and debug-assertions on (profile.dev)"],
    ),
    "C20": dict(
        tables=[],
        audit_modules=["RodbusModel.Audit.C20", "RodbusModel.Audit.C20Client"],
        required_theorems=["Rodbus.C20.decode_noninterference_server", "Rodbus.C20.level_change_transparent_server",
                           "Rodbus.C20.level_changes_transparent_server", "Rodbus.Client.decode_noninterference_client",
                           "Rodbus.Client.level_change_content_irrelevant", "Rodbus.Client.level_change_is_a_queued_command",
                           "Rodbus.Client.level_change_transparent_client_partial", "Rodbus.Cancel.session_cancel_safe"],
        suites=[dict(gen="srv_edge", n=(1, 1), exhaustive="a ChangeDecoding command cancelling the pending read right after a compaction of the receive buffer (first delivery ends at offset 259/260/261), k = 1..11 pipelined requests, both framings"), dict(gen="dec_srv", n=(150, 6000)), dict(gen="dec_rdr", n=(150, 6000)), dict(gen="dec_cl", n=(200, 8000)), dict(gen="net", n=(6, 200), jobs=16)],
        level_text="Proof: decode_noninterference_server (the session model's bytes, application calls, final states and end kind do not depend on "
                   "the decode level: the level only selects log lines), level_change_transparent_server / level_changes_transparent_server (a "
                   "ChangeDecoding command inserted at any position - also in the middle of a partially received frame - changes nothing; no buffered "
                   "byte is lost). Tie: every case of the C01-C06 generators is replayed at the lowest level, the highest level and a random one, and "
                   "with level changes injected at random positions of the script, with a formatting tracing subscriber installed; all variants must "
                   "equal the (level-independent) model output. Cancel.session_cancel_safe: the finer session model in which every ChangeDecoding command cancels the pending transport read equals runSession for every script (so 'commands are invisible to the reader' is proved, not assumed).",
        level_note="Server side: immediate because the session model consults the level only for log lines - that this mirrors the code (tracing "
                   "calls guarded by decode.*.enabled()) is what the paired runs check. Client side (Props/C20Client): decode_noninterference_client "
                   "and level_change_content_irrelevant hold for every script; transparency of an INSERTED set-decode command is proved from quiescent "
                   "states only (level_change_transparent_client_partial): in general the command occupies a queue slot (a later try-send can be "
                   "refused: level_change_refused_when_full), is dequeued only after the outstanding transaction, and ends a session only if the "
                   "channel is disabled.",
        technique="Lean 4 non-interference theorems over the session model + paired differential runs at different decode levels",
        classify=lambda c, i: ["level=" + c.split(" ")[2], "injected" if ("!d" in c.split(" ")[-1]) else "plain"],
        nontrivial=lambda c, i: i not in ("-", "") and "tx=- calls=- " not in i,
        finding_key=no_key,
        rule="cases = for each base case of the srv / rdr generators: the case at d000, d322, a random level, and two copies with 1..3 level "
             "changes inserted at random script positions; distinct = distinct case line; non-trivial = produced a reply, a call or a frame",
        assumptions=["a tracing subscriber that formats every event into a sink is installed in the harness"],
    ),
    "C13": dict(
        tables=[],
        audit_modules=["RodbusModel.Audit.C13", "RodbusModel.Audit.C14Serial", "RodbusModel.Audit.C13Serial", "RodbusModel.Audit.C13Conn", "RodbusModel.Audit.C14Life"],
        required_theorems=["Rodbus.C13.after_shutdown_handles_report_shutdown", "Rodbus.C13.closed_before_next_state", "Rodbus.C13.disable_closes_connection'", "Rodbus.C13.wait_after_lost_connection_mid_session", "Rodbus.C13.legal_path_every_resolution", "Rodbus.C13Serial.legal_port_path", "Rodbus.C13Serial.attempt_only_enabled", "Rodbus.C13Serial.wait_causes", "Rodbus.C13Serial.open_causes", "Rodbus.C13Serial.disabled_causes", "Rodbus.C14Serial.drop_all_ends_task", "Rodbus.C14Serial.no_open_while_disabled", "Rodbus.C14Serial.shutdown_final", "Rodbus.C13.decode_level_never_dials", "Rodbus.C13.wait_after_failed_attempt", "Rodbus.C13.announced_delays_follow_strategy_failures", "Rodbus.C13.legal_path", "Rodbus.C13.connecting_only_enabled", "Rodbus.C13.no_attempt_while_disabled",
                           "Rodbus.C13.connected_only_after_connecting", "Rodbus.C13.fail_fast", "Rodbus.C13.shutdown_from_anywhere",
                           "Rodbus.C13.disable_leads_to_disabled", "Rodbus.C13.wait_after_refused",
                           "Rodbus.C13.wait_after_lost_connection", "Rodbus.C13.announced_delays_follow_strategy",
                           "Rodbus.C13.exactly_once", "Rodbus.C13.never_sleeps_on_requests"],
        suites=[dict(gen="life", n=(45, 2500), jobs=16,
                     exhaustive="thorough: every action sequence of length <= 4 over {none, enable, disable, shutdown, drop handles, request} "
                                "(one per stop) for each single environment fault followed by recovery"), dict(gen="sport", n=(40, 300), jobs=16), dict(gen="cl_block", n=(20, 500))],
        extra_oracle=lambda c, i: life_oracle(c, i) if c.startswith("life ") else None,
        level_text="Proof over the model of TcpChannelTask (run / run_inner / connect / try_connect_and_run / run_connection / "
                   "handle_failed_connection) + the command handling of ClientLoop, for EVERY script of user actions injected at every listener "
                   "callback and every idle point, every list of peer behaviours (refused, closed, garbage, silent, served), every (min,max) and "
                   "timeout limit: legal_path (Disabled first, every adjacent pair legal, Shutdown at most once and last), "
                   "connecting_only_enabled / no_attempt_while_disabled, connected_only_after_connecting, wait_after_refused / "
                   "wait_after_lost_connection / silent_session_ends_after_maxto, disable_leads_to_disabled / disable_closes_connection, fail_fast "
                   "(amended: requests dequeued while not connected complete with no-connection in the same step), never_sleeps_on_requests, "
                   "shutdown_from_anywhere (a shutdown command or the last handle drop terminates the task from every reachable position within "
                   "a bounded number of steps, completing every queued request exactly once), conservation / exactly_once, and the task-level half "
                   "of C14 (announced_delays_follow_strategy, retry_reset_on_connect). Tie: the production create_tcp_client_task_with_options task "
                   "against a scripted loopback peer, the listener callback used as a lock-step gate, real time; plus an independent Python "
                   "oracle (legal path, delays, termination) on the implementation's own log.",
        level_note="Partial: real connect timing, OS errors and simultaneously-ready select! branches are environment; the generator keeps away from "
                   "schedules it cannot force (commands queued at the Connected gate of a connection the peer closes at once). Serial channels "
                   "(SerialChannelTask) are modelled separately (Model/SerialLife, theorems C14Serial.*) and run on pseudo-terminals (suite sport = pty port). Trusted: Lean kernel, "
                   "hand-written lifecycle model tied by the life suite.",
        technique="Lean 4 invariant proofs over the life-cycle state machine + gated loopback runs of the production task + independent log oracle",
        classify=lambda c, i: (["serial port states=%d" % min(12, i.count(",") + 1)] if c.startswith("pty ")
                               else ["beh=" + c.split(" ")[4].split("/")[0], "states=%d" % min(12, i.count("g:")),
                                     "shutdown-in-script" if "g:Shutdown" in i else "wind-down"]),
        nontrivial=lambda c, i: (i.count(",") >= 2) if c.startswith("pty ") else i.count("g:") >= 3,
        finding_key=no_key,
        rule="cases = fixed fault/recovery scenarios + (thorough) exhaustive short action sequences + seeded random scripts of 2..10 stops over "
             "1..4 peer behaviours, retry (10..50, 10..200) ms, timeout limit 0..3; distinct = distinct case line; non-trivial = at least 3 "
             "announced states",
        assumptions=["loopback connect/accept completes within the 450 ms idle threshold", "the listener callback blocks the task (MaybeAsync::asynchronous)"],
    ),
    "C03": dict(
        tables=['function_codes', 'limits', 'frame_constants'],
        audit_modules=["RodbusModel.Audit.C03", "RodbusModel.Audit.C03Run"],
        required_theorems=["Rodbus.Client.sent_is_encoding", "Rodbus.Client.mbap_sent_frames", "Rodbus.Client.rtu_sent_frames", "Rodbus.Client.tx_log_is_sent", "Rodbus.Client.startRequest_emission", "Rodbus.Client.invalid_never_sent", "Rodbus.C03.tryFrom_ok_iff", "Rodbus.C03.encode_ok_iff", "Rodbus.C03.encode_eq_spec",
                           "Rodbus.C03.mbap_frame_eq_spec", "Rodbus.C03.rtu_frame_eq_spec", "Rodbus.C03.encode_len",
                           "Rodbus.C03.mbap_frame_len", "Rodbus.C03.rtu_frame_len", "Rodbus.C03.server_parses_client",
                           "Rodbus.C03.encode_error_kinds"],
        suites=[dict(gen="range", n=(3000, 1000000), exhaustive="9x9 boundary lattice of (start,count) + start+count = 65536 +-2"),
                dict(gen="cl_enc", n=(700, 60000),
                     exhaustive="per kind: counts {0,1,limit-1,limit,limit+1,(limit+8,+9,2008,2009,2040,2041),65535,65536} x starts "
                                "{0,1,65535-c,65536-c,65535} x {TCP,RTU}; struct-literal ranges for the reads")],
        extra_oracle=lambda c, i: cl_enc_oracle(c, i) if c.startswith("cl ") else None,
        level_text="Proof: tryFrom_ok_iff (all 2^32 constructor arguments, by arithmetic), encode_ok_iff (a request is encoded iff it is "
                   "ClientValid: non-empty, no address overflow, within 2000/125 read and 1968/123 write limits), encode_eq_spec / "
                   "mbap_frame_eq_spec / rtu_frame_eq_spec (the bytes are the declarative protocol ADU: tx id, protocol id 0, length, unit, function, "
                   "big-endian fields, LSB-first packed coils, byte count; RTU: unit, PDU, CRC low byte first), encode_error_kinds, encode_len + "
                   "mbap_frame_len <= 260 / rtu_frame_len <= 256, encode_wf, server_parses_client (round trip with the server parser); the "
                   "task-level 'nothing is transmitted on error, the transaction id is still consumed' is in the client-task model (C10/C11). Tie: "
                   "the production ClientLoop behind a real Channel / CallbackSession / FfiChannel over the in-memory transport, bytes captured; "
                   "plus an independent Python oracle re-stating the encoding.",
        level_note="Trusted: Lean kernel; hand-written model of types.rs / client/requests/* / common/serialize.rs / frame writers tied by "
                   "differential runs (exhaustive boundary lattice, sampled elsewhere). Findings F3 (over-limit writes transmitted) and F8 (struct "
                   "literal ranges) are fixed in the tree.",
        technique="Lean 4 iff-characterisation of the request encoder + differential runs through the production client loop + independent oracle",
        classify=lambda c, i: ["cl:" + ("tx" if "tx." in i else "refused") if c.startswith("cl ") else "range:" + i.split(" ")[0],
                               "fr=" + c.split(" ")[1] if c.startswith("cl ") else "range"],
        nontrivial=lambda c, i: ("tx." in i or "err" in i or "badreq" in i) if c.startswith("cl ") else True,
        finding_key=no_key,
        rule="range: boundary lattice + seeded random pairs; cl_enc: boundary lattice per kind and framing + seeded scripts of 1..4 requests "
             "(2/3 valid) submitted future-, callback- or try-send-style; distinct = distinct case line; non-trivial = a frame was transmitted "
             "or the request was refused",
        assumptions=["requests are constructed through the public constructors (AddressRange::try_from, WriteMultiple::from) or as struct literals (Q style)"],
    ),
    "C04": dict(
        tables=['function_codes', 'exception_codes', 'limits'],
        audit_modules=["RodbusModel.Audit.C04", "RodbusModel.Audit.C11Trace"],
        required_theorems=["Rodbus.Client.ok_completion_is_wellformed_reply", "Rodbus.Client.exc_completion_is_exception_reply", "Rodbus.C04.success_iff", "Rodbus.C04.exception_iff", "Rodbus.C04.otherwise_error", "Rodbus.C04.trichotomy",
                           "Rodbus.C04.exception_code_roundtrip", "Rodbus.C04.returned_indices", "Rodbus.C04.end_to_end"],
        suites=[dict(gen="cl_resp", n=(600, 60000),
                     exhaustive="for one request of each of 6 kinds: function bytes 0..23, 0x80..0x97, 0xFF (all 256 thorough) x 11 bodies; all 256 "
                                "exception codes; the genuine reply cut/extended to every length 0..len+3 on TCP and RTU")],
        level_text="Proof: success_iff (a request succeeds iff the reply is WellFormedReply: the request's function code, exactly the implied length - "
                   "any byte-count value -, for writes the exact echo; the values are then exactly those encoded, indexed upward from the start), "
                   "exception_iff (exactly [fc|0x80, code] yields exactly that code), otherwise_error / trichotomy (every other reply fails with a "
                   "non-exception error - never data), exception_code_roundtrip over the generated tables (all 256 codes), returned_indices (no u16 "
                   "overflow in start+i), end_to_end / end_to_end_wire (client o server composition returns exactly the handler's values or its "
                   "first exception). Tie: scripted replies through the production client loop.",
        level_note="Trusted: Lean kernel, hand-written model of client/message.rs and client/requests/*, tied by differential runs (exhaustive on the "
                   "listed families). Reading: the redundant byte-count field of read replies is not demanded (the statement requires the length).",
        technique="Lean 4 iff-characterisation of the response decoder + client/server composition theorem + differential scripted replies",
        classify=lambda c, i: [("ok" if ".ok." in i else "exc" if ".exc." in i else "badresp" if "badresp" in i else "timeout" if "timeout" in i else "other"),
                               "fr=" + c.split(" ")[1]],
        nontrivial=lambda c, i: "done." in i,
        finding_key=no_key,
        rule="cl_resp: exhaustive perturbation families per kind + seeded scripts of 1..3 requests each answered by the genuine reply (1/3), an "
             "exception, or a grammar-aware perturbation (function byte, truncation, extension, byte count, coil encoding, bit flip, echo "
             "mismatch, empty, random), whole or split in two deliveries; distinct = distinct case line; non-trivial = the request completed",
        assumptions=["RTU replies are generated so that the response parser delimits them (otherwise they are framing errors, C06)"],
    ),
    "C18": dict(
        harness="ffi",
        audit_modules=["RodbusModel.Audit.C18"],
        required_theorems=["Rodbus.C18.error_table", "Rodbus.C18.exception_table", "Rodbus.C18.state_tables", "Rodbus.C18.decode_tables",
                           "Rodbus.C18.serial_tables", "Rodbus.C18.tls_enum_tables", "Rodbus.C18.write_result_conversion",
                           "Rodbus.C18.write_callbacks_use_conversion", "Rodbus.C18.forwards_filter", "Rodbus.C18.callbacks_wrapped_first",
                           "Rodbus.C18.callback_exactly_once", "Rodbus.C18.exception_roundtrip", "Rodbus.C18.pass_through"],
        suites=[dict(gen="ffi_tab", n=(300, 4000), exhaustive="every variant of every enum crossing the boundary; all 256 exception bytes; all 36 decode levels"),
                dict(gen="ffi_wres", n=(60, 1100), jobs=8, exhaustive="4 write functions x {success, each standard exception, raw codes}"),
                dict(gen="ffi_op", n=(120, 3800), jobs=8)],
        level_text="Proof over tables REGENERATED from the FFI sources on every run (helpers/conversions.rs, helpers/ext.rs, client.rs, server.rs): "
                   "error_table, exception_table, state_tables, decode_tables, serial_tables, tls_enum_tables, param_error_table (every variant maps "
                   "to its same-named counterpart), write_result_conversion + write_callbacks_use_conversion (all four write callbacks return "
                   "convert_to_result), forwards_filter (every server constructor forwards the caller's filter), pass_through / client_forward "
                   "(arguments forwarded unchanged), callbacks_wrapped_first + callback_exactly_once (for every submission outcome the completion "
                   "callback fires exactly once), exception_roundtrip (all 256 exception bytes reach the C callback as the error named after them). "
                   "Tie: the real extern \"C\" functions are driven end to end over loopback (runtime, device map, server, client channel created "
                   "through the C ABI; callbacks counted) and compared with the model and with the Rust API on the same scenario.",
        level_note="Open finding F10 (FfiChannel try_send on a full queue completes the callback with Shutdown while the task is alive; no suitable "
                   "error variant exists) is listed in KNOWN_FINDINGS.txt. Findings F5, F6, F9 are fixed. Timeouts and no-connection scenarios "
                   "use real time (tolerances of a few hundred ms). Trusted: translator heuristics for the FFI sources, harness-ffi.",
        technique="Lean 4 decide-proofs over tables generated from the FFI sources + end-to-end runs through the extern C functions",
        classify=lambda c, i: [" ".join(c.split(" ")[1:3])],
        nontrivial=lambda c, i: True,
        finding_key=ffi_finding_key,
        rule="ffi_tab: every conversion reachable from outside the crate on every variant; ffi_wres / ffi_op: all operations x provoked outcomes "
             "(success, each exception, timeout, no connection, shutdown, queue full, bad range, null pointers) + seeded random ones; every case "
             "is non-trivial; distinct = distinct case line",
        assumptions=["loopback TCP; real-time tolerances"],
    ),
    "C19": dict(
        harness="ffi",
        audit_modules=["RodbusModel.Audit.C19"],
        required_theorems=["Rodbus.C19.disjoint_writers_commute", "Rodbus.C19.incr_applied_once", "Rodbus.C19.db_refines_map", "Rodbus.C19.absent_point_exception_02", "Rodbus.C19.transaction_atomic",
                           "Rodbus.C19.read_sees_whole_transactions", "Rodbus.C19.tables_independent"],
        suites=[dict(gen="ffi_db", n=(150, 3200), jobs=8), dict(gen="ffi_atomic", n=(1, 4), jobs=4)],
        level_text="Proof: db_refines_map (for every op sequence over the four point types the results of add/update/delete/get equal those of the "
                   "abstract per-type map: add succeeds iff absent, update/delete iff present, get fails iff absent; tables independent) by "
                   "induction over the op list; absent_point_exception_02 (a read touching an absent point is answered with exception 02 after "
                   "querying only the ascending prefix); transaction_atomic / read_sees_whole_transactions (under the modelling hypothesis that a "
                   "transaction and the serving of a client request each hold the handler mutex, every schedule is serialisable: a reply equals "
                   "reading a state produced by whole transactions); database_tables (generated: the 16 database functions use the right map, the "
                   "transaction callback runs under the lock). Tie: op sequences through the extern \"C\" database functions inside "
                   "server_update_database on a live server, interleaved with client reads; thread stress run for atomicity.",
        level_note="Partial: that the real code holds the handler mutex across the whole reply and the whole transaction is a fact about lock scopes "
                   "in Rust; the model assumes it (stated as hypothesis) and the stress run samples it.",
        technique="Lean 4 map-refinement induction + lock-model serialisability proof + differential runs through the C ABI + stress sampling",
        classify=lambda c, i: [c.split(" ")[1]],
        nontrivial=lambda c, i: True,
        finding_key=ffi_finding_key,
        rule="ffi_db: seeded op sequences over a small index set interleaved with client reads; ffi_atomic: concurrent whole-block transactions "
             "vs. block reads; distinct = distinct case line",
        assumptions=["loopback TCP"],
    ),
    "C10": dict(
        tables=['session_ending'],
        audit_modules=["RodbusModel.Audit.C10", "RodbusModel.Audit.C10Drain"],
        required_theorems=["Rodbus.Client.drain_completes", "Rodbus.Client.drain_completes_mbap", "Rodbus.Client.drain_completes_rtu", "Rodbus.Client.session_ending_table_correct", "Rodbus.Client.pending_partition", "Rodbus.Client.never_completed_twice", "Rodbus.Client.closed_trace_exactly_once",
                           "Rodbus.Client.drained_exactly_once", "Rodbus.Client.error_meaning_noconn", "Rodbus.Client.error_meaning_timeout",
                           "Rodbus.Client.error_meaning_transport", "Rodbus.Client.error_meaning_shutdown_task",
                           "Rodbus.Client.error_meaning_shutdown_partial", "Rodbus.Client.drain_completes_partial"],
        suites=[dict(gen="cl_task", n=(1200, 120000), corpus=["cl"]), dict(gen="cl_block", n=(150, 5000)), dict(gen="pty_cli", n=(60, 600), jobs=16)],
        extra_oracle=cl_task_oracle,
        level_text="Proof over the client-task model (queue, handles, one-in-flight transaction engine, phases, promises with Drop) for EVERY step "
                   "sequence, queue capacity, timeout limit, framing and every resolution of tokio::select! races (scheduler coins are universally "
                   "quantified): pending_partition (per request id: completions + queued + in flight = accepted), never_completed_twice, "
                   "closed_trace_exactly_once / drained_exactly_once, error_meaning_noconn / _timeout / _transport / _shutdown_task, "
                   "error_meaning_shutdown_partial (the one exclusion is open finding F10), drain_completes (from EVERY reachable state in which the task "
                   "is alive - mid-session, requests in flight and queued, any timeouts - finitely many clock advances and fail_requests_for phases, "
                   "with no cooperation of peer or user, complete every accepted request exactly as often as it was accepted; termination measure "
                   "tick_mu; framing hypothesis Consuming proved for MBAP and RTU). Tie: the production ClientLoop behind real Channel / CallbackSession / "
                   "FfiChannel handles, in-memory transport, paused clock, lock-step; plus an independent oracle on the implementation's log.",
        level_note="Senders waiting for queue capacity are queue entries beyond the capacity in the model (cl_block scripts); real thread "
                   "interleavings inside tokio are represented by scheduler coins (both orders proved; the harness observes whichever occurs). "
                   "Open finding F10 is reported as KNOWN-FINDING.",
        technique="Lean 4 invariant proofs over the client-task state machine (all schedules) + model-steered differential event scripts + log oracle",
        classify=lambda c, i: ["fr=" + c.split(" ")[1], "done=%d" % min(6, i.count("done.")), "end=" + ("abort" if "fin.aborted" in i else "alive")],
        nontrivial=lambda c, i: "done." in i,
        finding_key=lambda c, i, sp: "F10-queue-full-shutdown" if "KNOWN:F10" in sp else None,
        rule="cl_task: event scripts of up to 14 (quick) / 24 (thorough) steps over {submit future-/callback-/try-send-style from any live handle, genuine / perturbed / split / stale / future / duplicate / unsolicited replies, garbage, read error, EOF, write error, enable, disable, set-decode, shutdown, clone / drop handle, abort, new session, wait-enabled and fail-for phases, time advances to deadline-1 / deadline / deadline+1}, steered by the model state after each prefix so that replies target the request really in flight; queue capacities 1,2,4,16; timeout limits 0..3; MBAP (3/4) and RTU; plus the corpus of 2200 deterministic and 300 scheduler-dependent scripts validated against the binary; a script whose outcome depends on tokio::select! polling order is accepted if the implementation's output is one of the model's outcomes over all scheduler choices; distinct = distinct case line; non-trivial = at least one request completed",
        assumptions=["virtual (paused) time; each script step settles fully before the next (lock-step)"],
    ),
    "C11": dict(
        tables=[],
        audit_modules=["RodbusModel.Audit.C11", "RodbusModel.Audit.C11Run", "RodbusModel.Audit.C11Trace"],
        required_theorems=["Rodbus.Client.completion_caused_by_matching_frame", "Rodbus.Client.foreign_frame_never_result", "Rodbus.Client.idle_frame_dropped_any_order", "Rodbus.Client.rtu_stok_reachable", "Rodbus.Client.stale_frame_never_accepted_rtu_reachable", "Rodbus.Client.one_outstanding", "Rodbus.Client.fifo_order", "Rodbus.Client.txid_formula", "Rodbus.Client.txid_next_wraps",
                           "Rodbus.Client.consecutive_differ", "Rodbus.Client.mismatch_discarded", "Rodbus.Client.idle_dropped",
                           "Rodbus.Client.stale_frame_never_accepted", "Rodbus.Client.stale_frame_never_accepted_mbap"],
        suites=[dict(gen="cl_task", n=(1200, 120000), corpus=["cl"]), dict(gen="cl_txwrap", n=(0, 1))],
        level_text="Proof (all step sequences, all schedules): one_outstanding / write_only_when_idle, fifo_order (the wire log is the dequeued "
                   "requests in submission order), txid_formula (the k-th dequeued request carries k mod 65536, unbounded k), txid_next_wraps, "
                   "consecutive_differ, mismatch_discarded (+ at the deadline), idle_dropped / idle_frame_no_effect, stale_frame_never_accepted "
                   "(after the repair of F16: once a request is transmitted no frame received earlier is left in the reader, for every schedule). "
                   "Tie: the cl_task scripts contain stale (by 1, 2, 32768, 65535), future, duplicate and unsolicited frames, replies coalesced with "
                   "the next id, at every timing; thorough adds a run across the 65535 -> 0 wrap (70000 ids).",
        level_note="Bytes delivered to the socket but not yet read by the client are indistinguishable from bytes arriving later; the theorem is "
                   "about frames received (read into the buffer). Finding F16 (a buffered frame with the next id answered the next request when "
                   "the queue won the select! race) is fixed.",
        technique="Lean 4 invariant proofs (transaction-id formula, discard lemmas) + model-steered differential scripts with stale/future/duplicate frames",
        classify=lambda c, i: ["fr=" + c.split(" ")[1], "tx=%d" % min(6, i.count("tx."))],
        nontrivial=lambda c, i: "tx." in i,
        finding_key=no_key,
        rule="cl_task: event scripts of up to 14 (quick) / 24 (thorough) steps over {submit future-/callback-/try-send-style from any live handle, genuine / perturbed / split / stale / future / duplicate / unsolicited replies, garbage, read error, EOF, write error, enable, disable, set-decode, shutdown, clone / drop handle, abort, new session, wait-enabled and fail-for phases, time advances to deadline-1 / deadline / deadline+1}, steered by the model state after each prefix so that replies target the request really in flight; queue capacities 1,2,4,16; timeout limits 0..3; MBAP (3/4) and RTU; plus the corpus of 2200 deterministic and 300 scheduler-dependent scripts validated against the binary; a script whose outcome depends on tokio::select! polling order is accepted if the implementation's output is one of the model's outcomes over all scheduler choices; distinct = distinct case line; non-trivial = at least one request completed",
        assumptions=["virtual time, lock-step"],
    ),
    "C12": dict(
        tables=[],
        audit_modules=["RodbusModel.Audit.C12", "RodbusModel.Audit.C12Run"],
        required_theorems=["Rodbus.Client.timeout_at_deadline_run_mbap", "Rodbus.Client.timeout_completion_at_deadline_run", "Rodbus.Client.max_timeouts_exact_run", "Rodbus.Client.no_limit_never_max_timeouts", "Rodbus.Client.timeout_iff", "Rodbus.Client.timeout_only_at_deadline", "Rodbus.Client.before_deadline",
                           "Rodbus.Client.timeout_keeps_connection", "Rodbus.Client.counter_exact", "Rodbus.Client.counter_restarts_per_session",
                           "Rodbus.Client.counter_no_limit", "Rodbus.Client.deadline_is_write_time_plus_timeout"],
        suites=[dict(gen="cl_task", n=(1200, 120000), corpus=["cl"]),
                # the limit as configured through the public ClientOptions builder on a real channel
                dict(gen="life", n=(25, 800), jobs=16)],
        extra_oracle=lambda c, i: life_oracle(c, i) if c.startswith("life ") else cl_task_oracle(c, i, shutdown_clause=False),
        level_text="Proof (virtual time as Nat, all step sequences and schedules): deadline_is_write_time_plus_timeout, timeout_iff "
                   "(a transmitted request times out at exactly t_tx + timeout iff no matching complete frame and no transport / framing error was "
                   "delivered before; otherwise it completes at the delivery time with that result; at the exact deadline both outcomes of the "
                   "select! race are admitted and nowhere else), timeout_keeps_connection, counter_exact (the session ends with MaxTimeouts "
                   "exactly at the first point where the last N outcomes are timeouts, for every outcome sequence and N >= 1), counter_no_limit, "
                   "counter_restarts_per_session. Tie: cl_task scripts advance the paused clock to deadline-1, deadline, deadline+1 and split "
                   "replies across the deadline; corpus witness for F12.",
        level_note="Hypothesis made explicit: now + timeout representable - finding F12 (Duration::MAX panicked the task) is fixed by a far-future "
                   "fallback, which the model treats as 'never fires within a script'.",
        technique="Lean 4 proofs over the timed client-task model + differential scripts around the deadline in paused time",
        classify=lambda c, i: ["timeouts=%d" % min(5, i.count(".timeout.")), "maxto" if "end.maxto" in i else "no-maxto"],
        nontrivial=lambda c, i: "done." in i,
        finding_key=lambda c, i, sp: "F10-queue-full-shutdown" if "KNOWN:F10" in sp else None,
        rule="cl_task: event scripts of up to 14 (quick) / 24 (thorough) steps over {submit future-/callback-/try-send-style from any live handle, genuine / perturbed / split / stale / future / duplicate / unsolicited replies, garbage, read error, EOF, write error, enable, disable, set-decode, shutdown, clone / drop handle, abort, new session, wait-enabled and fail-for phases, time advances to deadline-1 / deadline / deadline+1}, steered by the model state after each prefix so that replies target the request really in flight; queue capacities 1,2,4,16; timeout limits 0..3; MBAP (3/4) and RTU; plus the corpus of 2200 deterministic and 300 scheduler-dependent scripts validated against the binary; a script whose outcome depends on tokio::select! polling order is accepted if the implementation's output is one of the model's outcomes over all scheduler choices; distinct = distinct case line; non-trivial = at least one request completed",
        assumptions=["virtual time, lock-step"],
    ),
}
