import RodbusModel.Model.Session
import RodbusModel.Props.C05
import RodbusModel.Props.C06
import RodbusModel.Props.C01
/-
  C01 / C05 / C06 composed at stream level: what a server session writes, calls and ends with
  depends only on the byte stream it receives, not on how the transport cuts it into reads, and
  it is the reference server mapped over the frames of the whole-stream specification.
-/
namespace Rodbus.C01Stream

/-- whole-stream frames of a server-side stream -/
def specEvents : Framing → Bytes → List Event
  | .tcp, s => Mbap.specFrames s
  | .rtu, s => Rtu.specFrames .request s

theorem readerRun_eq_spec (fr : Framing) (chunks : List Bytes) :
    readerRun fr chunks = specEvents fr chunks.flatten := by
  cases fr with
  | tcp => exact chunking_independent chunks
  | rtu => exact C06.rtu_chunking_independent .request chunks

theorem cutScript_data (chunks : List Bytes) (tail : List SessStep) :
    cutScript (chunks.map SessStep.data ++ tail) = (chunks ++ (cutScript tail).1, (cutScript tail).2) := by
  induction chunks with
  | nil => simp
  | cons c cs ih => simp only [List.map_cons, List.cons_append, cutScript]; rw [ih]

/-- **stream_replies**: for every configuration, byte stream and segmentation, the session's
    output is `handleFrame` (= the reference server, `C01.handleFrame_eq_spec`) folded over the
    frames of the whole-stream specification up to the first framing error -/
theorem stream_replies {σ : Type} (fr : Framing) (cfg : ServerCfg σ) (l : DecodeLevel)
    (hs : List (Nat × σ)) (chunks : List Bytes) :
    runSession fr cfg l hs (chunks.map SessStep.data ++ [.eof]) =
      handleEvents fr cfg .eof hs (specEvents fr chunks.flatten) := by
  unfold runSession
  rw [cutScript_data]
  simp only [cutScript, List.append_nil]
  rw [readerRun_eq_spec]

/-- **session_chunking_independent**: two segmentations of the same stream give the same bytes
    written, the same application calls in the same order, the same final states and the same
    end of session -/
theorem session_chunking_independent {σ : Type} (fr : Framing) (cfg : ServerCfg σ)
    (l : DecodeLevel) (hs : List (Nat × σ)) (c₁ c₂ : List Bytes) (h : c₁.flatten = c₂.flatten) :
    runSession fr cfg l hs (c₁.map SessStep.data ++ [.eof]) =
      runSession fr cfg l hs (c₂.map SessStep.data ++ [.eof]) := by
  rw [stream_replies, stream_replies, h]

/-- the per-frame step of `handleEvents` is the reference server -/
theorem handleEvents_uses_reference_server {σ : Type} (fr : Framing) (cfg : ServerCfg σ)
    (k : EndKind) (hs : List (Nat × σ)) (f : Frame) (rest : List Event) :
    handleEvents fr cfg k hs (.frame f :: rest) =
      (let o := Spec.Server.respond cfg hs f
       let r := handleEvents fr cfg k o.states rest
       ⟨(match o.reply with | some p => frameOut fr f p | none => []) ++ r.tx, o.calls ++ r.calls,
        r.states, r.ended⟩) := by
  show (let o := handleFrame cfg hs f
        let r := handleEvents fr cfg k o.states rest
        (⟨(match o.reply with | some p => frameOut fr f p | none => []) ++ r.tx, o.calls ++ r.calls,
          r.states, r.ended⟩ : SessOut σ)) = _
  rw [C01.handleFrame_eq_spec]

end Rodbus.C01Stream
