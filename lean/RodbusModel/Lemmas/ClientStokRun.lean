import RodbusModel.Lemmas.ClientStaleRtu
/-
  An invariant of the parser state of the client's reader (`State.pst`) along every script.

  `pst` is written in three places of Model/Client.lean: by the reader (`pollReader`), by the
  discard loop inside `startRequest`, and by `startPhase` when a session starts
  (`reader.reset()`).  `PstInv F P` says that `P` holds for the initial parser state and is kept by
  the reader and by the discard loop; then `P` holds for `pst` after every script
  (`runState_pst`).  For RTU, `Rtu.StOk` is such a predicate (`rtu_stok_reachable`).
-/
namespace Rodbus.Client

section
variable {σ : Type}

/-- `P` holds initially / after a reset and is kept by the two loops that run the parser -/
structure PstInv (F : Framing σ) (P : σ → Prop) : Prop where
  init : P F.init
  reader : ∀ fuel st rb rx, P st → P (readerPoll F fuel st rb rx).2.1
  discard : ∀ fuel st rb, P st → P (discardBuffered F fuel st rb).2.1

/-! ### updaters that do not touch `pst` -/

@[simp] theorem pst_emit (s : State σ) (e : LogEntry) : (emit s e).pst = s.pst := rfl

@[simp] theorem pst_complete (s : State σ) (r : Req) (res : Res) : (complete s r res).pst = s.pst :=
  rfl

@[simp] theorem pst_endPhase (s : State σ) (k : EndKind) : (endPhase s k).pst = s.pst := rfl

@[simp] theorem pst_accept (s : State σ) (rid : Rid) : (accept s rid).pst = s.pst := rfl

@[simp] theorem pst_enqueue (s : State σ) (c : Cmd) : (enqueue s c).pst = s.pst := rfl

@[simp] theorem pst_applySetting (s : State σ) (c : Cmd) : (applySetting s c).pst = s.pst := by
  cases c <;> rfl

@[simp] theorem pst_flip (s : State σ) : (flip s).2.pst = s.pst := by
  unfold flip; cases s.coins <;> rfl

@[simp] theorem pst_setMock (s : State σ) (m : Nat) (k : Mock) : (setMock s m k).pst = s.pst := rfl

@[simp] theorem pst_afterRequest (s : State σ) (m : Nat) (res : Res) :
    (afterRequest s m res).pst = s.pst := by
  unfold afterRequest
  split
  · rfl
  · split
    · split
      · rfl
      · split <;> rfl
    · rfl

@[simp] theorem pst_finish (s : State σ) (m : Nat) (r : Req) (res : Res) :
    (finish s m r res).pst = s.pst := by
  unfold finish; rw [pst_afterRequest, pst_complete]

@[simp] theorem pst_idleReader (s : State σ) (r : ReadRes) : (idleReader s r).pst = s.pst := by
  unfold idleReader
  split
  · split <;> rfl
  · rfl

@[simp] theorem pst_inflightReader (s : State σ) (m : Nat) (q : Req) (tx : Nat) (r : ReadRes) :
    (inflightReader s m q tx r).pst = s.pst := by
  unfold inflightReader
  split
  · split
    · exact pst_finish _ _ _ _
    · rfl
  · exact pst_finish _ _ _ _
  · rfl

@[simp] theorem pst_waitCmd (s : State σ) (c : Cmd) : (waitCmd s c).pst = s.pst := by
  unfold waitCmd
  split
  · rfl
  · rfl
  · exact pst_applySetting _ _

@[simp] theorem pst_failCmd (s : State σ) (c : Cmd) : (failCmd s c).pst = s.pst := by
  unfold failCmd
  split
  · rfl
  · rfl
  · simp only []
    split
    · exact pst_applySetting _ _
    · rw [pst_endPhase]; exact pst_applySetting _ _

theorem pst_tickWait (s t : State σ) (h : tickWait s = some t) : t.pst = s.pst := by
  unfold tickWait at h
  split at h
  · cases h; rfl
  · split at h
    · cases h; exact pst_waitCmd _ _
    · split at h
      · cases h; rfl
      · cases h

theorem pst_tickFail (s t : State σ) (dl : Nat) (b : Bool) (h : tickFail s dl b = some t) :
    t.pst = s.pst := by
  unfold tickFail at h
  simp only [] at h
  split at h
  · split at h
    · split at h
      · cases h; rw [pst_endPhase]; exact pst_flip s
      · cases h; exact pst_flip s
    · cases h; rfl
  · split at h
    · cases h; exact pst_failCmd _ _
    · split at h
      · cases h; rfl
      · split at h
        · cases h; rfl
        · cases h

@[simp] theorem pst_moveClock (s : State σ) (target : Nat) : (moveClock s target).pst = s.pst := rfl

@[simp] theorem pst_completeAll (s : State σ) (res : Res) (rs : List Req) :
    (completeAll s res rs).pst = s.pst := by
  induction rs generalizing s with
  | nil => rfl
  | cons r rs ih => unfold completeAll; rw [ih]; rfl

@[simp] theorem pst_abort (s : State σ) : (abort s).pst = s.pst := by
  unfold abort
  split
  · rfl
  · exact pst_completeAll _ _ _

@[simp] theorem pst_submit (s : State σ) (op : SubmitOp) (r : Req) : (submit s op r).pst = s.pst := by
  unfold submit
  split
  · rfl
  · split <;> rfl
  · simp only []
    split
    · split
      · rfl
      · split <;> rfl
    · split <;> rfl

@[simp] theorem pst_trySetting (s : State σ) (op : CmdOp) (c : Cmd) :
    (trySetting s op c).pst = s.pst := by
  unfold trySetting; split <;> rfl

@[simp] theorem pst_addPhase (s : State σ) (p : Phase) : (addPhase s p).pst = s.pst := by
  unfold addPhase; split <;> rfl

@[simp] theorem pst_pushRx (s : State σ) (x : Rx) : (pushRx s x).pst = s.pst := by
  unfold pushRx; split <;> rfl

@[simp] theorem pst_applyStep (s : State σ) (st : Step) : (applyStep s st).pst = s.pst := by
  cases st with
  | newSession => simp only [applyStep]; rw [pst_addPhase]
  | waitEnabled => exact pst_addPhase _ _
  | failFor ms => exact pst_addPhase _ _
  | enable h => simp only [applyStep]; split <;> simp
  | disable h => simp only [applyStep]; split <;> simp
  | setDecode d => simp only [applyStep]; split <;> simp
  | shutdown h => simp only [applyStep]; split <;> simp
  | cloneHandle => rfl
  | dropHandle i => rfl
  | submit op h r => simp only [applyStep]; split <;> simp
  | rx x => exact pst_pushRx _ _
  | failWrite => simp only [applyStep]; split <;> rfl
  | advance ms => rfl
  | abort => exact pst_abort _

/-! ### the three writers of `pst` -/

variable {F : Framing σ} {P : σ → Prop}

theorem pollReader_pst (hP : PstInv F P) (s : State σ) (m : Nat) (h : P s.pst) :
    P (pollReader F s m).2.pst :=
  hP.reader (readerFuel (getMock s m).rx) s.pst s.rb (getMock s m).rx h

theorem startRequest_pst (hP : PstInv F P) (s : State σ) (m : Nat) (r : Req) (h : P s.pst) :
    P (startRequest F s m r).pst := by
  have hd := hP.discard (discardFuel s.rb) s.pst s.rb h
  unfold startRequest
  simp only []
  split
  · rw [pst_finish]; exact h
  · split
    · rename_i res st' rb' hdd
      rw [pst_finish]
      have hdd' : discardBuffered F (discardFuel s.rb) s.pst s.rb = (some res, st', rb') := hdd
      rw [hdd'] at hd; exact hd
    · rename_i st' rb' hdd
      have hdd' : discardBuffered F (discardFuel s.rb) s.pst s.rb = (none, st', rb') := hdd
      rw [hdd'] at hd
      split
      · rw [pst_finish]; exact hd
      · generalize isLatest _ m = b
        cases b <;> exact hd

theorem startPhase_pst (hP : PstInv F P) (s t : State σ) (h : P s.pst)
    (ht : startPhase F s = some t) : P t.pst := by
  unfold startPhase at ht
  split at ht
  · cases ht
  · cases ht; exact hP.init
  · cases ht; exact h
  · cases ht; exact h

/-! ### the task -/

theorem runCmd_pst (hP : PstInv F P) (s : State σ) (m : Nat) (c : Cmd) (h : P s.pst) :
    P (runCmd F s m c).pst := by
  unfold runCmd
  split
  · exact startRequest_pst hP s m _ h
  · exact h
  · simp only []
    split
    · rw [pst_applySetting]; exact h
    · rw [pst_endPhase, pst_applySetting]; exact h

theorem sessionRecv_pst (hP : PstInv F P) (s t : State σ) (m : Nat) (h : P s.pst)
    (ht : sessionRecv F s m = some t) : P t.pst := by
  unfold sessionRecv at ht
  split at ht
  · cases ht; exact runCmd_pst hP _ m _ h
  · split at ht
    · cases ht; exact h
    · cases ht

theorem tickIdle_pst (hP : PstInv F P) (s t : State σ) (m : Nat) (h : P s.pst)
    (ht : tickIdle F s m = some t) : P t.pst := by
  have hr := pollReader_pst hP s m h
  unfold tickIdle at ht
  generalize pollReader F s m = pr at hr ht
  obtain ⟨r, s'⟩ := pr
  simp only [] at hr ht
  split at ht
  · split at ht
    · rename_i t' hs
      cases ht
      exact sessionRecv_pst hP s' _ m hr hs
    · split at ht
      · cases ht; exact hr
      · cases ht
  · split at ht
    · split at ht
      · cases ht; rw [pst_idleReader]; exact hr
      · exact sessionRecv_pst hP _ _ m (by rw [pst_flip]; exact h) ht
    · cases ht; rw [pst_idleReader]; exact hr

theorem tickInflight_pst (hP : PstInv F P) (s t : State σ) (m : Nat) (q : Req) (tx dl : Nat)
    (h : P s.pst) (ht : tickInflight F s m q tx dl = some t) : P t.pst := by
  have hr := pollReader_pst hP s m h
  unfold tickInflight at ht
  generalize pollReader F s m = pr at hr ht
  obtain ⟨r, s'⟩ := pr
  simp only [] at hr ht
  split at ht
  · split at ht
    · cases ht; rw [pst_finish]; exact hr
    · split at ht
      · cases ht; exact hr
      · cases ht
  · split at ht
    · split at ht
      · cases ht; rw [pst_finish, pst_flip]; exact h
      · cases ht; rw [pst_inflightReader]; exact hr
    · cases ht; rw [pst_inflightReader]; exact hr

theorem tick_pst (hP : PstInv F P) (s t : State σ) (h : P s.pst) (ht : tick F s = some t) :
    P t.pst := by
  unfold tick at ht
  split at ht
  · cases ht
  · split at ht
    · exact startPhase_pst hP s t h ht
    · exact tickIdle_pst hP s t _ h ht
    · exact tickInflight_pst hP s t _ _ _ _ h ht
    · rw [pst_tickWait s t ht]; exact h
    · rw [pst_tickFail s t _ _ ht]; exact h

theorem settle_pst (hP : PstInv F P) (fuel : Nat) (s : State σ) (h : P s.pst) :
    P (settle F fuel s).pst := by
  induction fuel generalizing s with
  | zero => exact h
  | succ n ih =>
    unfold settle
    split
    · split
      · exact h
      · exact ih _ h
    · rename_i s' ht
      exact ih s' (tick_pst hP s s' h ht)

theorem settled_pst (hP : PstInv F P) (s : State σ) (h : P s.pst) : P (settled F s).pst :=
  settle_pst hP _ s h

theorem advance_pst (hP : PstInv F P) (fuel target : Nat) (s : State σ) (h : P s.pst) :
    P (advance F fuel target s).pst := by
  induction fuel generalizing s with
  | zero => exact h
  | succ n ih =>
    unfold advance
    split
    · split
      · exact ih _ (settled_pst hP _ h)
      · exact h
    · exact h

theorem stepState_pst (hP : PstInv F P) (s : State σ) (st : Step) (h : P s.pst) :
    P (stepState F s st).pst := by
  unfold stepState
  split
  · exact advance_pst hP _ _ s h
  · exact settled_pst hP _ (by rw [pst_applyStep]; exact h)

/-- a predicate that the writers of `pst` keep holds along every script -/
theorem runState_pst (hP : PstInv F P) (s : State σ) (steps : List Step) (h : P s.pst) :
    P (runState F s steps).pst := by
  induction steps generalizing s with
  | nil => exact h
  | cons st rest ih => exact ih _ (stepState_pst hP s st h)

/-- ... in particular from the initial state -/
theorem reachable_pst (hP : PstInv F P) (cap maxTo : Nat) (d : Decode) (coins : List Bool)
    (steps : List Step) : P (runState F (State.init F cap maxTo d coins) steps).pst :=
  runState_pst hP _ steps hP.init

end

/-! ### RTU -/

/-- `Rtu.StOk` holds for the fresh parser and is kept by the reader and the discard loop -/
theorem rtu_stok_pstInv : PstInv rtu Rtu.StOk where
  init := trivial
  reader := rtu_readerPoll_stok
  discard := rtu_discard_stok

/-- in every reachable state of the RTU client the parser is in a state it can be in between
    calls -/
theorem rtu_stok_reachable (cap maxTo : Nat) (d : Decode) (coins : List Bool) (steps : List Step) :
    Rtu.StOk (runState rtu (State.init rtu cap maxTo d coins) steps).pst :=
  reachable_pst rtu_stok_pstInv cap maxTo d coins steps

end Rodbus.Client
