//! Suites `ffi wres` and `ffi op`: the eight client operations through the C ABI, end to end.
use crate::cb::*;
use crate::env::*;
use rodbus_ffi::ffi;
use std::os::raw::c_int;
use std::time::{Duration, Instant};

#[derive(Clone, Copy, PartialEq, Eq, Debug)]
pub enum Op {
    Rc,
    Rd,
    Rh,
    Ri,
    Wc,
    Wr,
    WC,
    WR,
}

impl Op {
    pub fn parse(s: &str) -> Option<Op> {
        Some(match s {
            "rc" => Op::Rc,
            "rd" => Op::Rd,
            "rh" => Op::Rh,
            "ri" => Op::Ri,
            "wc" => Op::Wc,
            "wr" => Op::Wr,
            "wC" => Op::WC,
            "wR" => Op::WR,
            _ => return None,
        })
    }
    pub fn is_read(self) -> bool {
        matches!(self, Op::Rc | Op::Rd | Op::Rh | Op::Ri)
    }
    pub fn table(self) -> u8 {
        match self {
            Op::Rc | Op::Wc | Op::WC => 0,
            Op::Rd => 1,
            Op::Rh | Op::Wr | Op::WR => 2,
            Op::Ri => 3,
        }
    }
}

#[derive(Clone, Debug)]
pub enum Args {
    Range(u16, u16),
    Bit(u16, bool),
    Reg(u16, u16),
    Bits(u16, Vec<bool>),
    Regs(u16, Vec<u16>),
}

pub fn default_args(op: Op) -> Args {
    match op {
        Op::Rc | Op::Rd => Args::Range(0, 8),
        Op::Rh | Op::Ri => Args::Range(0, 4),
        Op::Wc => Args::Bit(3, true),
        Op::Wr => Args::Reg(3, 777),
        Op::WC => Args::Bits(2, vec![true, false, true, true]),
        Op::WR => Args::Regs(2, vec![7, 8, 9]),
    }
}

fn parse_bits(s: &str) -> Option<Vec<bool>> {
    if s == "-" {
        return Some(vec![]);
    }
    if let Some(n) = s.strip_prefix('n') {
        // n<count>: bit i = (7i) % 3 == 0
        let n: usize = n.parse().ok()?;
        return Some((0..n).map(|i| (7 * i) % 3 == 0).collect());
    }
    s.chars()
        .map(|c| match c {
            '0' => Some(false),
            '1' => Some(true),
            _ => None,
        })
        .collect()
}

fn parse_regs(s: &str) -> Option<Vec<u16>> {
    if s == "-" {
        return Some(vec![]);
    }
    if let Some(n) = s.strip_prefix('n') {
        let n: usize = n.parse().ok()?;
        return Some((0..n).map(|i| ((31 * i + 5) % 65536) as u16).collect());
    }
    s.split('/').map(|x| x.parse().ok()).collect()
}

pub fn parse_args(op: Op, a: &[&str]) -> Option<Args> {
    Some(match op {
        Op::Rc | Op::Rd | Op::Rh | Op::Ri => Args::Range(a.first()?.parse().ok()?, a.get(1)?.parse().ok()?),
        Op::Wc => Args::Bit(a.first()?.parse().ok()?, *a.get(1)? != "0"),
        Op::Wr => Args::Reg(a.first()?.parse().ok()?, a.get(1)?.parse().ok()?),
        Op::WC => Args::Bits(a.first()?.parse().ok()?, parse_bits(a.get(1)?)?),
        Op::WR => Args::Regs(a.first()?.parse().ok()?, parse_regs(a.get(1)?)?),
    })
}

/// issue the operation through the C ABI; `null_list`: pass a null list pointer (wC / wR)
pub fn ffi_call(ch: *mut rodbus_ffi::ClientChannel, op: Op, args: &Args, p: ffi::RequestParam, null_list: bool) -> (c_int, Cb) {
    let cb = new_cb();
    let rc = unsafe {
        match (op, args) {
            (Op::Rc, Args::Range(s, c)) => {
                ffi::rodbus_client_channel_read_coils(ch, p, ffi::AddressRange { start: *s, count: *c }, bit_read_callback(&cb))
            }
            (Op::Rd, Args::Range(s, c)) => {
                ffi::rodbus_client_channel_read_discrete_inputs(ch, p, ffi::AddressRange { start: *s, count: *c }, bit_read_callback(&cb))
            }
            (Op::Rh, Args::Range(s, c)) => ffi::rodbus_client_channel_read_holding_registers(
                ch,
                p,
                ffi::AddressRange { start: *s, count: *c },
                register_read_callback(&cb),
            ),
            (Op::Ri, Args::Range(s, c)) => ffi::rodbus_client_channel_read_input_registers(
                ch,
                p,
                ffi::AddressRange { start: *s, count: *c },
                register_read_callback(&cb),
            ),
            (Op::Wc, Args::Bit(i, v)) => {
                ffi::rodbus_client_channel_write_single_coil(ch, p, ffi::BitValue { index: *i, value: *v }, write_callback(&cb))
            }
            (Op::Wr, Args::Reg(i, v)) => {
                ffi::rodbus_client_channel_write_single_register(ch, p, ffi::RegisterValue { index: *i, value: *v }, write_callback(&cb))
            }
            (Op::WC, Args::Bits(s, vs)) => {
                let list = if null_list {
                    std::ptr::null_mut()
                } else {
                    let l = ffi::rodbus_bit_list_create(vs.len() as u32);
                    for v in vs {
                        ffi::rodbus_bit_list_add(l, *v);
                    }
                    l
                };
                let rc = ffi::rodbus_client_channel_write_multiple_coils(ch, p, *s, list, write_callback(&cb));
                ffi::rodbus_bit_list_destroy(list);
                rc
            }
            (Op::WR, Args::Regs(s, vs)) => {
                let list = if null_list {
                    std::ptr::null_mut()
                } else {
                    let l = ffi::rodbus_register_list_create(vs.len() as u32);
                    for v in vs {
                        ffi::rodbus_register_list_add(l, *v);
                    }
                    l
                };
                let rc = ffi::rodbus_client_channel_write_multiple_registers(ch, p, *s, list, write_callback(&cb));
                ffi::rodbus_register_list_destroy(list);
                rc
            }
            _ => panic!("op/args mismatch"),
        }
    };
    (rc, cb)
}

pub fn rust_err(e: rodbus::RequestError) -> String {
    use rodbus::RequestError::*;
    match e {
        Io(_) => "io".into(),
        Exception(x) => format!("exc.{}", u8::from(x)),
        BadRequest(_) => "badreq".into(),
        BadFrame(_) => "badframe".into(),
        BadResponse(_) => "badresp".into(),
        Internal(_) => "internal".into(),
        ResponseTimeout => "timeout".into(),
        NoConnection => "noconn".into(),
        Shutdown => "shutdown".into(),
    }
}

/// the same operation through the Rust API (`rodbus::client::Channel`)
pub fn rust_call(ch: &rodbus::client::Channel, op: Op, args: &Args, unit: u8, timeout_ms: u64) -> String {
    let p = rodbus::client::RequestParam::new(rodbus::UnitId::new(unit), Duration::from_millis(timeout_ms));
    let ch = ch.clone();
    let args = args.clone();
    let fut = async move {
        match (op, args) {
            (o, Args::Range(s, c)) => {
                let range = match rodbus::AddressRange::try_from(s, c) {
                    Ok(r) => r,
                    Err(rodbus::InvalidRange::CountOfZero) => return "badrange.zero".to_string(),
                    Err(rodbus::InvalidRange::AddressOverflow(_, _)) => return "badrange.overflow".to_string(),
                    Err(rodbus::InvalidRange::CountTooLargeForType(_, _)) => return "badrange.toolarge".to_string(),
                };
                match o {
                    Op::Rc | Op::Rd => {
                        let r = if o == Op::Rc {
                            ch.read_coils(p, range).await
                        } else {
                            ch.read_discrete_inputs(p, range).await
                        };
                        match r {
                            Ok(v) => bits_text(&v.iter().map(|x| (x.index, x.value)).collect::<Vec<_>>()),
                            Err(e) => rust_err(e),
                        }
                    }
                    _ => {
                        let r = if o == Op::Rh {
                            ch.read_holding_registers(p, range).await
                        } else {
                            ch.read_input_registers(p, range).await
                        };
                        match r {
                            Ok(v) => regs_text(&v.iter().map(|x| (x.index, x.value)).collect::<Vec<_>>()),
                            Err(e) => rust_err(e),
                        }
                    }
                }
            }
            (_, Args::Bit(i, v)) => match ch.write_single_coil(p, rodbus::Indexed::new(i, v)).await {
                Ok(x) if x.index == i && x.value == v => "complete".into(),
                Ok(x) => format!("complete?{}:{}", x.index, x.value),
                Err(e) => rust_err(e),
            },
            (_, Args::Reg(i, v)) => match ch.write_single_register(p, rodbus::Indexed::new(i, v)).await {
                Ok(x) if x.index == i && x.value == v => "complete".into(),
                Ok(x) => format!("complete?{}:{}", x.index, x.value),
                Err(e) => rust_err(e),
            },
            (_, Args::Bits(s, vs)) => {
                let n = vs.len();
                match rodbus::client::WriteMultiple::from(s, vs) {
                    Err(_) => "badreq.ctor".into(),
                    Ok(w) => match ch.write_multiple_coils(p, w).await {
                        Ok(r) if r.start == s && r.count as usize == n => "complete".into(),
                        Ok(r) => format!("complete?{}+{}", r.start, r.count),
                        Err(e) => rust_err(e),
                    },
                }
            }
            (_, Args::Regs(s, vs)) => {
                let n = vs.len();
                match rodbus::client::WriteMultiple::from(s, vs) {
                    Err(_) => "badreq.ctor".into(),
                    Ok(w) => match ch.write_multiple_registers(p, w).await {
                        Ok(r) if r.start == s && r.count as usize == n => "complete".into(),
                        Ok(r) => format!("complete?{}+{}", r.start, r.count),
                        Err(e) => rust_err(e),
                    },
                }
            }
        }
    };
    hrt().block_on(async move {
        match tokio::time::timeout(Duration::from_secs(5), fut).await {
            Ok(s) => s,
            Err(_) => "hung".into(),
        }
    })
}

pub(crate) fn take_log() -> String {
    let mut l = WLOG.lock().unwrap();
    let s = if l.is_empty() { "-".to_string() } else { l.join(";") };
    l.clear();
    s
}

pub(crate) const WAIT: Duration = Duration::from_secs(5);

fn exception_token(tok: &str) -> Option<(bool, c_int, u8)> {
    if tok == "ok" {
        Some(wr_success())
    } else if let Some(k) = tok.strip_prefix("ok") {
        // `ok<k>`: success with an `exception` field that was never initialised (e.g. `write_result_t r = {0};
        // r.success = true;` in C: 0 is not an enumerator); `k` is the raw integer of that field
        let (s, _, raw) = wr_success();
        Some((s, k.parse().ok()?, raw))
    } else if let Some(b) = tok.strip_prefix("raw") {
        Some(wr_raw(b.parse().ok()?))
    } else if let Some(e) = tok.strip_prefix('e') {
        let e: c_int = e.parse().ok()?;
        if ![1, 2, 3, 4, 5, 6, 8, 10, 11, 255].contains(&e) {
            return None;
        }
        Some(wr_exception(e))
    } else {
        None
    }
}

/// ffi wres <wc|wr|wC|wR> <ok|ok<k>|e<n>|raw<b>|null>
pub fn run_wres(tok: &[&str]) -> String {
    let op = match tok.get(2).and_then(|x| Op::parse(x)) {
        Some(o) if !o.is_read() => o,
        _ => return "bad-case".into(),
    };
    let what = match tok.get(3) {
        Some(w) => *w,
        None => return "bad-case".into(),
    };
    let w = world();
    let unit = if what == "null" {
        UNIT_NULL
    } else {
        match exception_token(what) {
            Some((success, exception, raw)) => {
                *WMODE.lock().unwrap() = WMode::Fixed { success, exception, raw };
                UNIT_MAIN
            }
            None => return "bad-case".into(),
        }
    };
    take_log();
    let args = default_args(op);
    let (rc, cb) = ffi_call(w.client.0, op, &args, param(unit, 2000), false);
    let st = wait_done(&cb, WAIT);
    let app = take_log();
    let rust = rust_call(&w.rust, op, &args, unit, 2000);
    let rapp = take_log();
    *WMODE.lock().unwrap() = WMode::Apply;
    format!("rc={} ffi={} app={} rust={} rapp={}", param_error_name(rc), summary(&st), app, rust, rapp)
}

pub(crate) fn readback(op: Op, args: &Args) -> String {
    // values now stored at the written addresses of unit 1 (err = absent)
    let (table, idxs): (u8, Vec<u16>) = match args {
        Args::Bit(i, _) => (0, vec![*i]),
        Args::Reg(i, _) => (2, vec![*i]),
        Args::Bits(s, v) => (0, (0..v.len()).map(|k| s.wrapping_add(k as u16)).collect()),
        Args::Regs(s, v) => (2, (0..v.len()).map(|k| s.wrapping_add(k as u16)).collect()),
        _ => (op.table(), vec![]),
    };
    let out = std::sync::Arc::new(std::sync::Mutex::new(Vec::new()));
    let out2 = out.clone();
    transaction(UNIT_MAIN, move |db| unsafe {
        for i in &idxs {
            if table == 0 {
                let mut v = false;
                let rc = ffi::rodbus_database_get_coil(db, *i, &mut v);
                out2.lock().unwrap().push(if rc == 0 { (v as u8).to_string() } else { "err".into() });
                // restore the initial contents
                ffi::rodbus_database_update_coil(db, *i, bit_value(0, *i));
            } else {
                let mut v = 0u16;
                let rc = ffi::rodbus_database_get_holding_register(db, *i, &mut v);
                out2.lock().unwrap().push(if rc == 0 { v.to_string() } else { "err".into() });
                ffi::rodbus_database_update_holding_register(db, *i, reg_value(2, *i));
            }
        }
    });
    let v = out.lock().unwrap();
    if v.is_empty() {
        "-".into()
    } else {
        v.join("/")
    }
}

/// a short-lived client channel on the world's C-ABI runtime pointed at `port`
pub(crate) struct TmpClient {
    pub(crate) ch: *mut rodbus_ffi::ClientChannel,
    pub(crate) states: States,
}

impl TmpClient {
    pub(crate) fn new(port: u16, max_queued: u16, enable: bool, wait_connected: bool) -> TmpClient {
        let (ch, states) = create_client(world().runtime.0, port, max_queued, retry_ms(100, 100));
        if enable {
            assert_eq!(unsafe { ffi::rodbus_client_channel_enable(ch) }, 0);
            if wait_connected {
                assert!(wait_state(&states, CLIENT_CONNECTED, Duration::from_secs(3)), "client did not connect");
            }
        }
        TmpClient { ch, states }
    }
}

impl Drop for TmpClient {
    fn drop(&mut self) {
        if !self.ch.is_null() {
            unsafe { ffi::rodbus_client_channel_destroy(self.ch) };
        }
    }
}

fn line(rc: c_int, st: &CbState, rust: &str) -> String {
    format!("rc={} ffi={} rust={}", param_error_name(rc), summary(st), rust)
}

/// scenario against a scripted peer: C ABI and Rust API each with a fresh channel
fn with_peer(mode: PeerMode, op: Op, timeout_ms: u64) -> String {
    let args = default_args(op);
    let peer = spawn_peer(mode);
    let c = TmpClient::new(peer.port, 16, true, true);
    let t0 = Instant::now();
    let (rc, cb) = ffi_call(c.ch, op, &args, param(7, timeout_ms), false);
    let st = wait_done(&cb, WAIT);
    let el = t0.elapsed();
    drop(c);
    let r = rust_client(peer.port, 16, true, true);
    let rust = rust_call(&r, op, &args, 7, timeout_ms);
    drop(r);
    let mut out = line(rc, &st, &rust);
    if matches!(mode, PeerMode::Silent) {
        // the configured timeout is the one that was applied
        let ok = el >= Duration::from_millis(timeout_ms) && el <= Duration::from_millis(timeout_ms + 600);
        out.push_str(if ok { " t=ok" } else { " t=off" });
    }
    out
}

/// ffi op <operation> <scenario> [args]
pub fn run_op(tok: &[&str]) -> String {
    let op = match tok.get(2).and_then(|x| Op::parse(x)) {
        Some(o) => o,
        None => return "bad-case".into(),
    };
    let scen = match tok.get(3) {
        Some(s) => *s,
        None => return "bad-case".into(),
    };
    let rest = &tok[4.min(tok.len())..];
    let w = world();
    match scen {
        // ---- against the world's server (unit 1: 4 x 100 points)
        "read" | "write" => {
            if (scen == "read") != op.is_read() {
                return "bad-case".into();
            }
            let args = match parse_args(op, rest) {
                Some(a) => a,
                None => return "bad-case".into(),
            };
            *WMODE.lock().unwrap() = WMode::Apply;
            take_log();
            let (rc, cb) = ffi_call(w.client.0, op, &args, param(UNIT_MAIN, 2000), false);
            let st = wait_done(&cb, WAIT);
            if op.is_read() {
                let rust = rust_call(&w.rust, op, &args, UNIT_MAIN, 2000);
                line(rc, &st, &rust)
            } else {
                let app = take_log();
                let db = readback(op, &args);
                let rust = rust_call(&w.rust, op, &args, UNIT_MAIN, 2000);
                let rapp = take_log();
                let rdb = readback(op, &args);
                format!("{} app={} db={} rapp={} rdb={}", line(rc, &st, &rust), app, db, rapp, rdb)
            }
        }
        // ---- unit id pass-through: units 1, 2 hold the points, 3 and 4 are empty, others absent
        "unit" => {
            let unit: u8 = match rest.first().and_then(|x| x.parse().ok()) {
                Some(u) => u,
                None => return "bad-case".into(),
            };
            let args = default_args(op);
            *WMODE.lock().unwrap() = WMode::Apply;
            let (rc, cb) = ffi_call(w.client.0, op, &args, param(unit, 150), false);
            let st = wait_done(&cb, WAIT);
            let rust = rust_call(&w.rust, op, &args, unit, 150);
            if !op.is_read() {
                take_log();
                readback(op, &args);
            }
            line(rc, &st, &rust)
        }
        // ---- submissions that fail before anything is queued
        "zero" | "overflow" | "toolarge" | "emptylist" | "nulllist" | "nullchan" => {
            let args = match (scen, op) {
                ("zero", o) if o.is_read() => Args::Range(5, 0),
                ("overflow", o) if o.is_read() => Args::Range(65535, 2),
                ("toolarge", Op::Rc | Op::Rd) => Args::Range(0, 2001),
                ("toolarge", Op::Rh | Op::Ri) => Args::Range(0, 126),
                ("toolarge", Op::WC) => Args::Bits(0, vec![true; 1969]),
                ("toolarge", Op::WR) => Args::Regs(0, vec![1; 124]),
                ("overflow", Op::WC) => Args::Bits(65535, vec![true, false]),
                ("overflow", Op::WR) => Args::Regs(65535, vec![1, 2]),
                ("emptylist", Op::WC) => Args::Bits(3, vec![]),
                ("emptylist", Op::WR) => Args::Regs(3, vec![]),
                ("nulllist", Op::WC | Op::WR) => default_args(op),
                ("nullchan", _) => default_args(op),
                _ => return "n/a".into(),
            };
            *WMODE.lock().unwrap() = WMode::Apply;
            let ch = if scen == "nullchan" { std::ptr::null_mut() } else { w.client.0 };
            let (rc, cb) = ffi_call(ch, op, &args, param(UNIT_MAIN, 2000), scen == "nulllist");
            let st = wait_done(&cb, Duration::from_millis(300));
            let rust = if scen.starts_with("null") {
                "-".to_string()
            } else {
                rust_call(&w.rust, op, &args, UNIT_MAIN, 2000)
            };
            take_log();
            line(rc, &st, &rust)
        }
        // ---- scripted peers
        "peerexc" => {
            let code: u8 = match rest.first().and_then(|x| x.parse().ok()) {
                Some(c) => c,
                None => return "bad-case".into(),
            };
            with_peer(PeerMode::Exception(code), op, 2000)
        }
        "timeout" => with_peer(PeerMode::Silent, op, 150),
        "badresp" => with_peer(PeerMode::BadResponse, op, 2000),
        "badframe" => with_peer(PeerMode::BadFrame, op, 2000),
        "ioerr" => with_peer(PeerMode::Close, op, 2000),
        // ---- no connection
        "disabled" => {
            let args = default_args(op);
            let peer = spawn_peer(PeerMode::Silent);
            let c = TmpClient::new(peer.port, 16, false, false);
            let (rc, cb) = ffi_call(c.ch, op, &args, param(7, 2000), false);
            let st = wait_done(&cb, WAIT);
            drop(c);
            let r = rust_client(peer.port, 16, false, false);
            let rust = rust_call(&r, op, &args, 7, 2000);
            line(rc, &st, &rust)
        }
        "refused" => {
            let args = default_args(op);
            let port = free_port(); // nothing listens there
            let c = TmpClient::new(port, 16, true, false);
            let (rc, cb) = ffi_call(c.ch, op, &args, param(7, 2000), false);
            let st = wait_done(&cb, WAIT);
            drop(c);
            let r = rust_client(port, 16, true, false);
            let rust = rust_call(&r, op, &args, 7, 2000);
            line(rc, &st, &rust)
        }
        // ---- the channel handle is destroyed while the request is in flight: the request still
        //      runs to its own end (here: the response timeout)
        "destroy" => {
            let args = default_args(op);
            let peer = spawn_peer(PeerMode::Silent);
            let mut c = TmpClient::new(peer.port, 16, true, true);
            let (rc, cb) = ffi_call(c.ch, op, &args, param(7, 300), false);
            std::thread::sleep(Duration::from_millis(60));
            unsafe { ffi::rodbus_client_channel_destroy(c.ch) };
            c.ch = std::ptr::null_mut();
            let st = wait_done(&cb, WAIT);
            let _ = &c.states;
            line(rc, &st, "-")
        }
        // ---- the runtime is destroyed while the request is in flight: Shutdown, exactly once
        "rtdrop" => {
            let args = default_args(op);
            let peer = spawn_peer(PeerMode::Silent);
            let rt = create_runtime(1);
            let (ch, states) = create_client(rt, peer.port, 16, retry_ms(100, 100));
            assert_eq!(unsafe { ffi::rodbus_client_channel_enable(ch) }, 0);
            assert!(wait_state(&states, CLIENT_CONNECTED, Duration::from_secs(3)));
            let (rc, cb) = ffi_call(ch, op, &args, param(7, 4000), false);
            std::thread::sleep(Duration::from_millis(60));
            unsafe { ffi::rodbus_runtime_destroy(rt) };
            let st = wait_done(&cb, WAIT);
            unsafe { ffi::rodbus_client_channel_destroy(ch) };
            line(rc, &st, "-")
        }
        // ---- queue of one: first request in flight, second queued, third refused
        "qfull" => {
            let args = default_args(op);
            let peer = spawn_peer(PeerMode::Silent);
            let c = TmpClient::new(peer.port, 1, true, true);
            let (rc1, cb1) = ffi_call(c.ch, op, &args, param(7, 250), false);
            std::thread::sleep(Duration::from_millis(60)); // the task has taken it off the queue
            let (rc2, cb2) = ffi_call(c.ch, op, &args, param(7, 250), false);
            let (rc3, cb3) = ffi_call(c.ch, op, &args, param(7, 250), false);
            let st3 = wait_done(&cb3, Duration::from_millis(100));
            let st1 = wait_done(&cb1, WAIT);
            let st2 = wait_done(&cb2, WAIT);
            // is the task still alive? a further request is accepted and runs to its timeout
            let (rc4, cb4) = ffi_call(c.ch, op, &args, param(7, 100), false);
            let st4 = wait_done(&cb4, WAIT);
            let alive = rc4 == 0 && st4.results == vec!["ResponseTimeout".to_string()];
            format!(
                "r1:{},{};r2:{},{};r3:{},{};alive={}",
                param_error_name(rc1),
                summary(&st1),
                param_error_name(rc2),
                summary(&st2),
                param_error_name(rc3),
                summary(&st3),
                alive as u8
            )
        }
        _ => "bad-case".into(),
    }
}
