import RodbusModel.Model.Ffi
import RodbusModel.Spec.Ffi
import RodbusModel.Model.Retry
import Driver.Misc
import Driver.Points
/-
  `ffi …` suites of the line protocol (see PROTOCOL.md (section "ffi")): the model's and the specification's
  answer for a case line.  `runFfi tok = (model output, spec output)`.
-/
namespace Rodbus.Driver
open Rodbus.Ffi

def ffiNatOf (s : String) : Nat := s.toNat?.getD 0

def splitDot (s : String) : List String := s.splitOn "."

/-! ### the world of the harness: unit 1 and 2 hold 4 × 100 points, units 3 and 4 are empty -/

def ffiBit (table a : Nat) : Nat := if (7 * a + 13 * table + a / 8) % 3 = 0 then 1 else 0
def ffiReg (table a : Nat) : Nat := (31 * a + 977 * table + 5) % 65536

def mainDb : Db :=
  { coils := (List.range 100).map fun a => (a, ffiBit 0 a)
    discrete := (List.range 100).map fun a => (a, ffiBit 1 a)
    holding := (List.range 100).map fun a => (a, ffiReg 2 a)
    input := (List.range 100).map fun a => (a, ffiReg 3 a) }

def unitDb (u : Nat) : Option Db :=
  if u = 1 ∨ u = 2 then some mainDb else if u = 3 ∨ u = 4 then some {} else none

/-- the harness's write handler in `Apply` mode: update the points, success iff all exist -/
def applyAll (db : Db) (t : Table) : List (Nat × Nat) → Bool × Db
  | [] => (true, db)
  | (i, v) :: rest =>
    match db.step (.update t i v) with
    | (db', .flag true) => applyAll db' t rest
    | _ => (false, db)

def applyResult (ok : Bool) : WriteResult :=
  if ok then .successInit else .exceptionInit .illegalDataAddress

def applyApp : WriteApp where
  single_coil := some fun db i v => let (ok, db') := applyAll db .coils [(i, b2n v)]; (applyResult ok, db')
  single_register := some fun db i v => let (ok, db') := applyAll db .holding [(i, v)]; (applyResult ok, db')
  multiple_coils := some fun db _ items =>
    let (ok, db') := applyAll db .coils (items.map fun (i, v) => (i, b2n v)); (applyResult ok, db')
  multiple_registers := some fun db _ items => let (ok, db') := applyAll db .holding items; (applyResult ok, db')

/-- the harness's write handler in `Fixed` mode -/
def fixedApp (w : WriteResult) : WriteApp where
  single_coil := some fun db _ _ => (w, db)
  single_register := some fun db _ _ => (w, db)
  multiple_coils := some fun db _ _ => (w, db)
  multiple_registers := some fun db _ _ => (w, db)

/-! ### operations and their arguments -/

inductive FOp | rc | rd | rh | ri | wc | wr | wC | wR
deriving DecidableEq, Repr

def FOp.parse : String → Option FOp
  | "rc" => some .rc | "rd" => some .rd | "rh" => some .rh | "ri" => some .ri
  | "wc" => some .wc | "wr" => some .wr | "wC" => some .wC | "wR" => some .wR
  | _ => none

def FOp.isRead : FOp → Bool
  | .rc | .rd | .rh | .ri => true
  | _ => false

inductive FArgs
  | range (s c : Nat) | bit (i : Nat) (v : Bool) | reg (i v : Nat)
  | bits (s : Nat) (vs : List Bool) | regs (s : Nat) (vs : List Nat)
deriving Repr

def defaultArgs : FOp → FArgs
  | .rc | .rd => .range 0 8
  | .rh | .ri => .range 0 4
  | .wc => .bit 3 true
  | .wr => .reg 3 777
  | .wC => .bits 2 [true, false, true, true]
  | .wR => .regs 2 [7, 8, 9]

def parseBitsTok (s : String) : List Bool :=
  if s = "-" then []
  else if s.startsWith "n" then (List.range (ffiNatOf (String.ofList s.toList.tail))).map fun i => (7 * i) % 3 = 0
  else s.toList.map (· = '1')

def parseRegsTok (s : String) : List Nat :=
  if s = "-" then []
  else if s.startsWith "n" then (List.range (ffiNatOf (String.ofList s.toList.tail))).map fun i => (31 * i + 5) % 65536
  else (s.splitOn "/").map ffiNatOf

def parseArgs (op : FOp) (a : List String) : Option FArgs :=
  match op, a with
  | .rc, [s, c] | .rd, [s, c] | .rh, [s, c] | .ri, [s, c] => some (.range (ffiNatOf s) (ffiNatOf c))
  | .wc, [i, v] => some (.bit (ffiNatOf i) (v ≠ "0"))
  | .wr, [i, v] => some (.reg (ffiNatOf i) (ffiNatOf v))
  | .wC, [s, b] => some (.bits (ffiNatOf s) (parseBitsTok b))
  | .wR, [s, r] => some (.regs (ffiNatOf s) (parseRegsTok r))
  | _, _ => none

def toClientReq (op : FOp) (a : FArgs) : Option ClientReq :=
  match op, a with
  | .rc, .range s c => some (.readCoils s c)
  | .rd, .range s c => some (.readDiscreteInputs s c)
  | .rh, .range s c => some (.readHoldingRegisters s c)
  | .ri, .range s c => some (.readInputRegisters s c)
  | .wc, .bit i v => some (.writeSingleCoil i v)
  | .wr, .reg i v => some (.writeSingleRegister i v)
  | .wC, .bits s vs => some (.writeMultipleCoils s vs)
  | .wR, .regs s vs => some (.writeMultipleRegisters s vs)
  | _, _ => none

/-! ### canonical texts -/

def bitsText (items : List (Nat × Bool)) : String :=
  match items with
  | [] => "b-"
  | (i, _) :: _ => s!"b{i}:" ++ String.ofList (items.map fun (_, v) => if v then '1' else '0')

def regsText (items : List (Nat × Nat)) : String :=
  match items with
  | [] => "g-"
  | (i, _) :: _ => s!"g{i}:" ++ "/".intercalate (items.map fun (_, v) => toString v)

def respText : RespVal → String
  | .bits items => bitsText items
  | .regs items => regsText items
  | .coil _ _ | .reg _ _ | .range _ => "complete"

/-- what the application's C callback is handed, as the harness logs it -/
def appLogOf : Call → Option String
  | .writeSingleCoil _ i v => some s!"wc.{i}.{b2n v}"
  | .writeSingleRegister _ i v => some s!"wr.{i}.{v}"
  | .writeMultipleCoils _ r items => some s!"wC.{r.start}.{bitsText items}"
  | .writeMultipleRegisters _ r items => some s!"wR.{r.start}.{regsText items}"
  | _ => none

/-! ### one operation, end to end: C-ABI submission, client task, server, and back -/

structure OpOut where
  submit : Submit
  task : TaskEnd
  rust : String            -- what the Rust API reports for the same call
  app : List String := []  -- calls seen by the application's write callbacks
  db : Db                  -- database afterwards

/-- the answer of whatever listens at the other end of the connection -/
inductive Remote
  | server (app : WriteApp) (nullHandlerUnits : List Nat)
  | peerException (b : Nat)
  | peerBadResponse
  | fixed (e : RustErr)      -- outcomes decided by the runtime (timeout, no connection, …)

def rangeErrText : RangeErr → String
  | .countOfZero => "badrange.zero" | .addressOverflow => "badrange.overflow"
  | .countTooLargeForType => "badrange.toolarge"

def readLimit : FOp → Nat
  | .rc | .rd => MAX_READ_COILS_COUNT
  | _ => MAX_READ_REGISTERS_COUNT

def runOp (remote : Remote) (unit : Nat) (db0 : Db) (op : FOp) (args : FArgs) : OpOut :=
  let refused (s : Submit) (rust : String) : OpOut := ⟨s, .dropped, rust, [], db0⟩
  -- 1. validation inside `client_channel_<op>` / `FfiChannel` (and the Rust API's counterpart)
  let pre : Option OpOut :=
    match args with
    | .range s c =>
      match Range.tryFrom s c with
      | .error e => some (refused .invalidRange (rangeErrText e))
      | .ok r => match r.limitedCount (readLimit op) with
        | .error _ => some (refused .invalidRange "badreq")
        | .ok _ => none
    | .bits s vs => match Range.tryFrom s vs.length with
      | .error _ => some (refused .invalidRequest "badreq.ctor")
      | .ok _ => none
    | .regs s vs => match Range.tryFrom s vs.length with
      | .error _ => some (refused .invalidRequest "badreq.ctor")
      | .ok _ => none
    | _ => none
  match pre with
  | some o => o
  | none =>
    match toClientReq op args with
    | none => refused .accepted "bad-case"
    | some creq =>
      let done (t : TaskEnd) (app : List String) (db : Db) : OpOut :=
        let rust := match t with
          | .success v => v | .error e => e.text | .dropped => "shutdown"
        ⟨.accepted, t, rust, app, db⟩
      -- 2. the client task serialises the request
      match encodeRequest creq with
      | .error _ => done (.error .badRequest) [] db0
      | .ok pdu =>
        let fromReply (reply : Bytes) (app : List String) (db : Db) : OpOut :=
          match handleResponse creq reply with
          | .ok v => done (.success (respText v)) app db
          | .error (.exception code) => done (.error (.exception (ExCode.ofByte code))) app db
          | .error .badResponse => done (.error .badResponse) app db
          | .error .badRequest => done (.error .badRequest) app db
        match remote with
        | .fixed e => done (.error e) [] db0
        | .peerException b => fromReply [orErr creq.fc.toByte, b] [] db0
        | .peerBadResponse => fromReply [0x2b, 0] [] db0
        | .server app nullUnits =>
          -- 3. the server: unit lookup, request parsing, the handler built from the database
          match unitDb unit with
          | none => done (.error .responseTimeout) [] db0     -- unknown unit: no answer
          | some _ =>
            match pdu with
            | [] => done (.error .internal) [] db0
            | fcb :: body =>
              match (Fc.ofByte fcb).bind (parseRequest · body) with
              | none => fromReply (exceptionPdu fcb 3) [] db0
              | some req =>
                let app' := if nullUnits.contains unit then noWrites else app
                let (reply, calls, db') := getReply (dbHandler app') unit db0 req
                let log := if nullUnits.contains unit then [] else calls.filterMap appLogOf
                fromReply reply log db'

def OpOut.fired (o : OpOut) : Fired := fire o.submit o.task

def OpOut.line (o : OpOut) : String :=
  s!"rc={o.submit.returnCode} ffi={o.fired.text} rust={o.rust}"

def logText (l : List String) : String := if l.isEmpty then "-" else ";".intercalate l

/-- values now stored at the addresses a write touched -/
def readback (db : Db) (args : FArgs) : String :=
  let show_ (t : Table) (idxs : List Nat) : String :=
    if idxs.isEmpty then "-"
    else "/".intercalate (idxs.map fun i => match db.find t (i % 65536) with
      | some v => toString v | none => "err")
  match args with
  | .bit i _ => show_ .coils [i]
  | .reg i _ => show_ .holding [i]
  | .bits s vs => show_ .coils ((List.range vs.length).map (s + ·))
  | .regs s vs => show_ .holding ((List.range vs.length).map (s + ·))
  | .range _ _ => "-"

/-! ### specification of reads and writes against the world's unit 1 (no PDUs, no database
    object: straight from the point formulas) -/

def specTable : FOp → Nat
  | .rc | .wc | .wC => 0 | .rd => 1 | .rh | .wr | .wR => 2 | .ri => 3

def specFfiName (b : Nat) : String := Spec.exceptionErrorName b

def specRead (op : FOp) (s c : Nat) : String :=
  if c = 0 then "rc=InvalidRange ffi=BadRequest c0 f1 d1 rust=badrange.zero"
  else if s + c > 65536 then "rc=InvalidRange ffi=BadRequest c0 f1 d1 rust=badrange.overflow"
  else if c > (if op = .rc ∨ op = .rd then 2000 else 125) then
    "rc=InvalidRange ffi=BadRequest c0 f1 d1 rust=badreq"
  else if s + c > 100 then s!"rc=Ok ffi={specFfiName 2} c0 f1 d1 rust=exc.2"
  else
    let t := specTable op
    let v := if op = .rc ∨ op = .rd then
        s!"b{s}:" ++ String.ofList ((List.range c).map fun k => if ffiBit t (s + k) = 1 then '1' else '0')
      else s!"g{s}:" ++ "/".intercalate ((List.range c).map fun k => toString (ffiReg t (s + k)))
    s!"rc=Ok ffi={v} c1 f0 d1 rust={v}"

/-- a write of values `vs` (already as numbers) to consecutive addresses from `s` -/
def specWrite (op : FOp) (s : Nat) (vs : List Nat) (appText : String) (multi : Bool) : String :=
  let t := specTable op
  let n := vs.length
  if multi ∧ (n = 0 ∨ s + n > 65536) then
    "rc=InvalidRequest ffi=BadRequest c0 f1 d1 rust=badreq.ctor app=- db=" ++
      (if n = 0 then "-" else "/".intercalate ((List.range n).map fun k =>
        if (s + k) % 65536 < 100 then toString (if t = 0 then ffiBit t ((s + k) % 65536) else ffiReg t ((s + k) % 65536)) else "err"))
      ++ " rapp=- rdb=" ++
      (if n = 0 then "-" else "/".intercalate ((List.range n).map fun k =>
        if (s + k) % 65536 < 100 then toString (if t = 0 then ffiBit t ((s + k) % 65536) else ffiReg t ((s + k) % 65536)) else "err"))
  else
    let okAll := s + n ≤ 100
    -- the handler applies the points in order and stops at the first absent one
    let db := "/".intercalate ((List.range n).map fun k =>
      if s + k < 100 then toString (vs.getD k 0) else "err")
    let res := if okAll then "rc=Ok ffi=complete c1 f0 d1 rust=complete"
      else s!"rc=Ok ffi={specFfiName 2} c0 f1 d1 rust=exc.2"
    s!"{res} app={appText} db={db} rapp={appText} rdb={db}"

/-! ### `ffi tab` -/

def rustErrOfTok (tok : String) : Option (RustErr × String) :=
  match splitDot tok with
  | "io" :: _ => some (.io, "Io")
  | ["exc", b] => some (.exception (ExCode.ofByte (ffiNatOf b)), "Exception")
  | "badreq" :: _ => some (.badRequest, "BadRequest")
  | "badframe" :: _ => some (.badFrame, "BadFrame")
  | "badresp" :: _ => some (.badResponse, "BadResponse")
  | "internal" :: _ => some (.internal, "Internal")
  | ["timeout"] => some (.responseTimeout, "ResponseTimeout")
  | ["noconn"] => some (.noConnection, "NoConnection")
  | ["shutdown"] => some (.shutdown, "Shutdown")
  | _ => none

def paramSource (tok : String) : Option (String × String) :=
  match splitDot tok with
  | "range" :: _ => some ("InvalidRange", "_")
  | "req" :: _ => some ("InvalidRequest", "_")
  | ["addr"] => some ("AddrParseError", "_")
  | ["wild"] => some ("BadIpv4Wildcard", "_")
  | ["utf8"] => some ("Utf8Error", "_")
  | ["shutdown"] => some ("Shutdown", "_")
  | ["tls", n] => (["InvalidDnsName", "InvalidPeerCertificate", "InvalidLocalCertificate",
      "InvalidPrivateKey", "BadConfig"][ffiNatOf n]?).map (("TlsError", ·))
  | ["chan", "full"] => some ("FfiChannelError", "ChannelFull")
  | ["chan", "closed"] => some ("FfiChannelError", "ChannelClosed")
  | "chan" :: "range" :: _ => some ("FfiChannelError", "BadRange")
  | ["rt", n] => (["RuntimeDestroyed", "CannotBlockWithinAsync", "FailedToCreateRuntime"][ffiNatOf n]?).map
      (("RuntimeError", ·))
  | _ => none

def bad : String × String := ("bad-case", "bad-case")

def both (s : String) : String × String := (s, s)

def optBoth (o : Option String) : String × String := both (o.getD "bad-case")

def runTab (tok : List String) : String × String :=
  match tok with
  | ["reqerr", k] =>
    match rustErrOfTok k with
    | some (e, variant) =>
      ((reqErrOf e).name,
       match e with
       | .exception x => Spec.exceptionErrorName x.toByte
       | _ => Spec.requestErrorName variant)
    | none => bad
  | ["exc", b] => ((excErrOf (ExCode.ofByte (ffiNatOf b))).name, Spec.exceptionErrorName (ffiNatOf b))
  | ["param", k] =>
    match paramSource k with
    | some (ty, v) => optBoth ((expectedParamErrors.find? fun r => r.1 = ty ∧ r.2.1 = v).map (·.2.2))
    | none => bad
  | ["decode", a, f, p] =>
    let m := do
      let x ← appDecodeLevels.rustOfInt (ffiNatOf a)
      let y ← frameDecodeLevels.rustOfInt (ffiNatOf f)
      let z ← physDecodeLevels.rustOfInt (ffiNatOf p)
      pure s!"{x}.{y}.{z}"
    let s := do
      let x ← ["Nothing", "FunctionCode", "DataHeaders", "DataValues"][ffiNatOf a]?
      let y ← ["Nothing", "Header", "Payload"][ffiNatOf f]?
      let z ← ["Nothing", "Length", "Data"][ffiNatOf p]?
      pure s!"{x}.{y}.{z}"
    (m.getD "bad-case", s.getD "bad-case")
  | ["cstate", n] => optBoth ((clientState.ffiOfInt (ffiNatOf n)).map fun x => s!"{x}/{x}")
  | ["pstate", n] => optBoth ((portState.ffiOfInt (ffiNatOf n)).map fun x => s!"{x}/{x}")
  | ["serial", d, f, p, s, baud] => optBoth do
      let d ← dataBits.rustOfInt (ffiNatOf d)
      let f ← flowControl.rustOfInt (ffiNatOf f)
      let p ← parity.rustOfInt (ffiNatOf p)
      let s ← stopBits.rustOfInt (ffiNatOf s)
      pure s!"{ffiNatOf baud}.{d}.{f}.{p}.{s}"
  | ["tlsver", n] => optBoth (minTlsVersion.rustOfInt (ffiNatOf n))
  | ["certmode", n] => optBoth (certificateMode.rustOfInt (ffiNatOf n))
  | ["authz", n] => optBoth (authorization.rustOfInt (ffiNatOf n))
  | ["retry", mn, mx, ops] =>
    let mn := ffiNatOf mn * 1000000
    let mx := ffiNatOf mx * 1000000
    let mops := ops.toList.filterMap fun c =>
      if c = 'f' then some Retry.Op.failed else if c = 'd' then some .disconnect
      else if c = 'r' then some .reset else none
    let show_ (l : List Nat) := if l.isEmpty then "-" else ",".intercalate (l.map toString)
    (show_ (Retry.run (Retry.create mn mx) mops), show_ (specRetry mn mx ops.toList))
  | ["range", s, c] => both s!"{ffiNatOf s}+{ffiNatOf c}"
  | ["bit", i, v] => both s!"{ffiNatOf i}:{if ffiNatOf v = 0 then 0 else 1}"
  | ["reg", i, v] => both s!"{ffiNatOf i}:{ffiNatOf v}"
  | ["rparam", u, ms] => both s!"{ffiNatOf u}.{ffiNatOf ms * 1000000}"
  | ["cint", "reqerr", n] =>
    optBoth ((FfiRequestError.ofInt (ffiNatOf n)).map fun e => s!"{e.name}.{e.toInt}")
  | ["cint", "param", n] => optBoth ((paramErrorNames[ffiNatOf n]?).map fun e => s!"{e}.{ffiNatOf n}")
  | ["cint", "mexc", n] => optBoth ((MxCode.ofInt (ffiNatOf n)).map fun e => s!"{e.name}.{e.toInt}")
  | ["cint", "cstate", n] => optBoth ((clientState.ffiOfInt (ffiNatOf n)).map fun e => s!"{e}.{ffiNatOf n}")
  | ["cint", "pstate", n] => optBoth ((portState.ffiOfInt (ffiNatOf n)).map fun e => s!"{e}.{ffiNatOf n}")
  | _ => bad

/-! ### `ffi wres` -/

def writeResultOfTok (tok : String) : Option WriteResult :=
  -- `ok<k>`: success with an uninitialised `exception` field: the field is not looked at
  if tok.startsWith "ok" then some .successInit
  else if tok.startsWith "raw" then some (.rawExceptionInit (ffiNatOf (String.ofList (tok.toList.drop 3))))
  else if tok.startsWith "e" then (MxCode.ofInt (ffiNatOf (String.ofList (tok.toList.drop 1)))).map .exceptionInit
  else none

/-- specification: the result returned by the application is what the client receives -/
def specWres (what : String) : Option (String × String) :=
  if what.startsWith "ok" then some ("complete c1 f0 d1", "complete")
  else if what = "null" then some (s!"{Spec.exceptionErrorName 1} c0 f1 d1", "exc.1")
  else if what.startsWith "raw" then
    let b := ffiNatOf (String.ofList (what.toList.drop 3))
    some (s!"{Spec.exceptionErrorName b} c0 f1 d1", s!"exc.{b}")
  else if what.startsWith "e" then
    let n := ffiNatOf (String.ofList (what.toList.drop 1))
    -- `exception_init(Unknown)` leaves the raw byte 0
    let b := if n = 255 then 0 else n
    some (s!"{Spec.exceptionErrorName b} c0 f1 d1", s!"exc.{b}")
  else none

def runWres (tok : List String) : String × String :=
  match tok with
  | [opTok, what] =>
    match FOp.parse opTok with
    | some op =>
      if op.isRead then bad else
      let args := defaultArgs op
      let appLog := match (toClientReq op args).bind fun c => (encodeRequest c).toOption with
        | some (fcb :: body) =>
          match (Fc.ofByte fcb).bind (parseRequest · body) with
          | some req => ((getReply (dbHandler applyApp) 1 mainDb req).2.1.filterMap appLogOf)
          | none => []
        | _ => []
      let (app, unit) : Option WriteApp × Nat :=
        if what = "null" then (some noWrites, 2) else ((writeResultOfTok what).map fixedApp, 1)
      match app with
      | none => bad
      | some app =>
        let o := runOp (.server app [2]) unit mainDb op args
        let m := s!"rc={o.submit.returnCode} ffi={o.fired.text} app={logText o.app} rust={o.rust} rapp={logText o.app}"
        let s := match specWres what with
          | some (f, r) =>
            let log := if what = "null" then "-" else logText appLog
            s!"rc=Ok ffi={f} app={log} rust={r} rapp={log}"
          | none => "bad-case"
        (m, s)
    | none => bad
  | _ => bad

/-! ### `ffi op` -/

def opArgsForScenario (scen : String) (op : FOp) : Option FArgs :=
  match scen, op with
  | "zero", .rc | "zero", .rd | "zero", .rh | "zero", .ri => some (.range 5 0)
  | "overflow", .rc | "overflow", .rd | "overflow", .rh | "overflow", .ri => some (.range 65535 2)
  | "toolarge", .rc | "toolarge", .rd => some (.range 0 2001)
  | "toolarge", .rh | "toolarge", .ri => some (.range 0 126)
  | "toolarge", .wC => some (.bits 0 (List.replicate 1969 true))
  | "toolarge", .wR => some (.regs 0 (List.replicate 124 1))
  | "overflow", .wC => some (.bits 65535 [true, false])
  | "overflow", .wR => some (.regs 65535 [1, 2])
  | "emptylist", .wC => some (.bits 3 [])
  | "emptylist", .wR => some (.regs 3 [])
  | _, _ => none

def qfullLine (third : String) : String :=
  s!"r1:Ok,ResponseTimeout c0 f1 d1;r2:Ok,ResponseTimeout c0 f1 d1;r3:TooManyRequests,{third} c0 f1 d1;alive=1"

def runOpCase (tok : List String) : String × String :=
  match tok with
  | opTok :: scen :: rest =>
    match FOp.parse opTok with
    | none => bad
    | some op =>
      let world : Remote := .server applyApp [2]
      let fixedLine (e : RustErr) (rust : Bool) (extra : String := "") : String × String :=
        let o := runOp (.fixed e) 7 {} op (defaultArgs op)
        both (s!"rc={o.submit.returnCode} ffi={o.fired.text} rust={if rust then o.rust else "-"}" ++ extra)
      match scen with
      | "read" | "write" =>
        if (scen = "read") ≠ op.isRead then bad else
        match parseArgs op rest with
        | none => bad
        | some args =>
          let o := runOp world 1 mainDb op args
          if op.isRead then
            (o.line, match args with | .range s c => specRead op s c | _ => "bad-case")
          else
            let m := s!"{o.line} app={logText o.app} db={readback o.db args} rapp={logText o.app} rdb={readback o.db args}"
            let s := match args with
              | .bit i v => specWrite op i [b2n v] s!"wc.{i}.{b2n v}" false
              | .reg i v => specWrite op i [v] s!"wr.{i}.{v}" false
              | .bits s vs =>
                specWrite op s (vs.map b2n)
                  ("wC." ++ toString s ++ "." ++ bitsText ((List.range vs.length).zip vs |>.map fun (k, v) => (s + k, v))) true
              | .regs s vs =>
                specWrite op s vs
                  ("wR." ++ toString s ++ "." ++ regsText ((List.range vs.length).zip vs |>.map fun (k, v) => (s + k, v))) true
              | _ => "bad-case"
            (m, s)
      | "unit" =>
        match rest with
        | [u] =>
          let u := ffiNatOf u
          let o := runOp world u ((unitDb u).getD {}) op (defaultArgs op)
          let s := if ¬ op.isRead then o.line
            else if u = 1 ∨ u = 2 then (match defaultArgs op with | .range s c => specRead op s c | _ => "")
            else if u = 3 ∨ u = 4 then s!"rc=Ok ffi={specFfiName 2} c0 f1 d1 rust=exc.2"
            else "rc=Ok ffi=ResponseTimeout c0 f1 d1 rust=timeout"
          (o.line, s)
        | _ => bad
      | "zero" | "overflow" | "toolarge" | "emptylist" =>
        match opArgsForScenario scen op with
        | none => both "n/a"
        | some args =>
          let o := runOp world 1 mainDb op args
          let s := match scen, op.isRead with
            | "zero", _ => "rc=InvalidRange ffi=BadRequest c0 f1 d1 rust=badrange.zero"
            | "overflow", true => "rc=InvalidRange ffi=BadRequest c0 f1 d1 rust=badrange.overflow"
            | "overflow", false => "rc=InvalidRequest ffi=BadRequest c0 f1 d1 rust=badreq.ctor"
            | "emptylist", _ => "rc=InvalidRequest ffi=BadRequest c0 f1 d1 rust=badreq.ctor"
            | "toolarge", true => "rc=InvalidRange ffi=BadRequest c0 f1 d1 rust=badreq"
            | _, _ => "rc=Ok ffi=BadRequest c0 f1 d1 rust=badreq"
          (o.line, s)
      | "nulllist" =>
        if op = .wC ∨ op = .wR then
          both s!"rc={Submit.nullArgument.returnCode} ffi={(fire .nullArgument .dropped).text} rust=-"
        else both "n/a"
      | "nullchan" => both s!"rc={Submit.nullArgument.returnCode} ffi={(fire .nullArgument .dropped).text} rust=-"
      | "peerexc" =>
        match rest with
        | [b] =>
          let o := runOp (.peerException (ffiNatOf b)) 7 {} op (defaultArgs op)
          (o.line, s!"rc=Ok ffi={Spec.exceptionErrorName (ffiNatOf b)} c0 f1 d1 rust=exc.{ffiNatOf b}")
        | _ => bad
      | "badresp" =>
        let o := runOp .peerBadResponse 7 {} op (defaultArgs op)
        (o.line, "rc=Ok ffi=BadResponse c0 f1 d1 rust=badresp")
      | "timeout" => fixedLine .responseTimeout true " t=ok"
      | "badframe" => fixedLine .badFrame true
      | "ioerr" => fixedLine .io true
      | "disabled" | "refused" => fixedLine .noConnection true
      | "destroy" => fixedLine .responseTimeout false
      | "rtdrop" =>
        both s!"rc=Ok ffi={(fire .accepted .dropped).text} rust=-"
      | "qfull" =>
        both (qfullLine ((Submit.queueFull.callbackError).getD "?"))
      | _ => bad
  | _ => bad

/-! ### `ffi db`, `ffi atomic` -/

inductive DbTok
  | op (o : DbOp)
  | read (t : Table) (s c : Nat)
  | commit                       -- `c`: end of the current transaction (no output of its own)

def normVal (t : Table) (v : Nat) : Nat := if t.isBit then (if v = 0 then 0 else 1) else v

def parseDbTok (s : String) : Option DbTok :=
  if s = "c" then some .commit else
  match s.toList with
  | [] => none
  | k :: restChars =>
    let parts := (splitDot (String.ofList restChars)).map ffiNatOf
    match k, parts with
    | 'a', [t, i, v] => if t ≤ 3 then some (.op (.add (.ofIdx t) i (normVal (.ofIdx t) v))) else none
    | 'u', [t, i, v] => if t ≤ 3 then some (.op (.update (.ofIdx t) i (normVal (.ofIdx t) v))) else none
    | 'd', [t, i] => if t ≤ 3 then some (.op (.delete (.ofIdx t) i)) else none
    | 'g', [t, i] => if t ≤ 3 then some (.op (.get (.ofIdx t) i)) else none
    | 'r', [t, s, c] => if t ≤ 3 then some (.read (.ofIdx t) s c) else none
    | _, _ => none

def dbResText : DbRes → String
  | .flag b => if b then "1" else "0"
  | .val v => toString v
  | .err => "err"

def readOpOf : Table → FOp
  | .coils => .rc | .discrete => .rd | .holding => .rh | .input => .ri

def rdOutText (t : Table) (start : Nat) : RdOut → String
  | .error 2 => "exc.2"
  | .error e => Spec.exceptionErrorName e
  | .ok vs =>
    if t.isBit then bitsText ((List.range vs.length).zip vs |>.map fun (k, v) => (start + k, v ≠ 0))
    else regsText ((List.range vs.length).zip vs |>.map fun (k, v) => (start + k, v))

/-- a client read through the C ABI as the `db` suite prints it -/
def dbClientRead (db : Db) (t : Table) (s c : Nat) : String :=
  let o := runOp (.server applyApp []) 3 db (readOpOf t) (.range s c)
  match o.submit with
  | .accepted =>
    match o.fired.result with
    | [one] => if one = FfiRequestError.mxIllegalDataAddress.name then "exc.2" else one
    | [] => "none"
    | many => "+".intercalate many
  | s => s!"rc.{s.returnCode}"

def specClientRead (m : Spec.AMap) (t : Table) (s c : Nat) : String :=
  if c = 0 ∨ s + c > 65536 ∨ c > (if t.isBit then 2000 else 125) then "rc.InvalidRange"
  else rdOutText t s (m.read t s c)

def runDb (tok : List String) : String × String :=
  match tok with
  | [opsTok] =>
    if opsTok = "-" then both "-" else
    match (opsTok.splitOn ",").mapM parseDbTok with
    | none => bad
    | some toks =>
      let (_, outM) := toks.foldl (fun (acc : Db × List String) t =>
        match t with
        | .op o => let (db', r) := acc.1.step o; (db', acc.2 ++ [dbResText r])
        | .read tb s c => (acc.1, acc.2 ++ [dbClientRead acc.1 tb s c])
        | .commit => acc) (({} : Db), [])
      let (_, outS) := toks.foldl (fun (acc : Spec.AMap × List String) t =>
        match t with
        | .op o => let r := acc.1.step o; (r.1, acc.2 ++ [dbResText r.2])
        | .read tb s c => (acc.1, acc.2 ++ [specClientRead acc.1 tb s c])
        | .commit => acc) (Spec.AMap.empty, [])
      if outM.isEmpty then both "-" else
      (";".intercalate outM, ";".intercalate outS)
  | _ => bad

/-! ### `ffi flt`, `ffi fltadd`, `ffi fnet` -/

open Rodbus.Filter in
def addrText : Addr → String
  | .v4 a b c d => s!"{a}.{b}.{c}.{d}"
  | .v6 _ => "v6"

/-- insertion sort of strings (the harness sorts the textual addresses of a set) -/
def insertStr (x : String) : List String → List String
  | [] => [x]
  | y :: ys => if x ≤ y then x :: y :: ys else y :: insertStr x ys

def sortStrs (l : List String) : List String := l.foldl (fun acc x => insertStr x acc) []

open Rodbus.Filter in
def filterText : AddressFilter → String
  | .any => "any"
  | .exact a => s!"exact[{addrText a}]"
  | .anyOf set => "set[" ++ ",".intercalate (sortStrs (set.map addrText)) ++ "]"
  | .wildcard w => "wild{b3:" ++ fieldStr w.b3 ++ ",b2:" ++ fieldStr w.b2 ++ ",b1:" ++ fieldStr w.b1 ++ ",b0:" ++ fieldStr w.b0 ++ "}"

/-- bytes of a case token; `none` = contains a NUL (cannot be a C string) -/
def cStringChars (h : String) : Option (List Char) :=
  match ofHex h with
  | some bs => if bs.contains 0 then none else some (utf8Chars h)
  | none => some []

open Rodbus.Filter in
def makeFilter (tok : String) : Except String AddressFilter :=
  if tok = "any" then .ok .any
  else match cStringChars tok with
    | none => .error "nul"
    | some cs => match parseAddressFilter cs with
      | some f => .ok f
      | none => .error "err"

def runFfiFlt (tok : List String) : String × String :=
  match tok with
  | [h] => both (match makeFilter h with
    | .ok f => s!"ok {filterText f}"
    | .error e => e)
  | _ => bad

def runFltAdd (tok : List String) : String × String :=
  match tok with
  | [h, a] => both (match makeFilter h with
    | .error e => e
    | .ok f =>
      match cStringChars a with
      | none => "nul"
      | some cs =>
        let (ok, f') := addressFilterAdd f cs
        s!"ok {if ok then "ok" else "err"} {filterText f'}")
  | _ => bad

open Rodbus.Filter in
def runFnet (tok : List String) : String × String :=
  match tok with
  | [variant, ftok, peer] =>
    let ctor : Option ServerCtor := match variant with
      | "tcp" => some .tcp | "tls" => some .tls | "tlsauth" => some .tlsWithAuthz | _ => none
    match ctor, makeFilter ftok, parseIp peer.toList with
    | some c, .ok f, some p =>
      -- specification: a peer is served iff the caller's filter admits its address
      (if served c f p then "served" else "closed", if f.matches p then "served" else "closed")
    | some _, .error "err", _ => both "badfilter"
    | some _, .error e, _ => both e
    | _, _, _ => bad
  | _ => bad

/-! ### `ffi reuse`: caller-owned objects handed to several calls -/

/-- the completion of one read through the C ABI as the harness prints it -/
def readText (db : Db) (unit : Nat) (op : FOp) (s c : Nat) : String :=
  let o := runOp (.server applyApp [2]) unit db op (.range s c)
  match o.submit with
  | .accepted => if o.fired.result.isEmpty then "none" else "+".intercalate o.fired.result
  | sub => s!"rc.{sub.returnCode}"

def allDigits (s : String) : Bool := ¬ s.isEmpty ∧ s.toList.all Char.isDigit

def natList? (s : String) (sep : String) : Option (List Nat) :=
  (s.splitOn sep).mapM fun x => if allDigits x then some (ffiNatOf x) else none

def specPoint (table a : Nat) : Option Nat :=
  if a < 100 then some (if table = 0 ∨ table = 1 then ffiBit table a else ffiReg table a) else none

def specValuesText (isBits : Bool) (start : Nat) (vs : List Nat) : String :=
  if isBits then s!"b{start}:" ++ String.ofList (vs.map fun v => if v = 0 then '0' else '1')
  else s!"g{start}:" ++ "/".intercalate (vs.map toString)

def runReuseList (opTok valTok startsTok : String) : String × String :=
  match FOp.parse opTok, natList? startsTok "," with
  | some op, some starts =>
    if op ≠ .wC ∧ op ≠ .wR then bad else
    let isBits := op = .wC
    let okVals := valTok = "-" ∨ (if isBits then valTok.toList.all (fun c => c = '0' ∨ c = '1') ∧ ¬ valTok.isEmpty
      else (natList? valTok "/").isSome)
    if ¬ okVals then bad else
    let bitVals : List Bool := if valTok = "-" then [] else valTok.toList.map (· = '1')
    let regVals : List Nat := if valTok = "-" then [] else (natList? valTok "/").getD []
    let n := if isBits then bitVals.length else regVals.length
    -- MODEL: the one list object is threaded through the submissions
    let reqs : List (Nat × FArgs) :=
      if isBits then ((ListObj.mk bitVals).submitAll starts).1.map fun (s, vs) => (s, FArgs.bits s vs)
      else ((ListObj.mk regVals).submitAll starts).1.map fun (s, vs) => (s, FArgs.regs s vs)
    let (dbEnd, linesM, _) := reqs.foldl (fun (acc : Db × List String × Nat) r =>
      let o := runOp (.server applyApp [2]) 1 acc.1 op r.2
      (o.db, acc.2.1 ++ [s!"w{acc.2.2}:rc={o.submit.returnCode},{o.fired.text},app={logText o.app}"], acc.2.2 + 1))
      (mainDb, [], 1)
    let rop : FOp := if isBits then .rc else .rh
    let rbM := starts.map fun s => if n = 0 then "-" else readText dbEnd 1 rop s n
    let m := (if linesM.isEmpty then "-" else ";".intercalate linesM) ++ " rb=" ++ ";".intercalate rbM
    -- SPECIFICATION: the same values every time, applied to a point memory
    let vals : List Nat := if isBits then bitVals.map b2n else regVals
    let mem0 : Spec.Mem := specPoint (if isBits then 0 else 2)
    let (flags, memEnd) := Spec.Mem.writeSame mem0 vals starts
    let linesS := (List.range starts.length).map fun k =>
      let s := starts.getD k 0
      match flags.getD k (false, false) with
      | (false, _) => s!"w{k + 1}:rc=InvalidRequest,BadRequest c0 f1 d1,app=-"
      | (true, ok) =>
        let app := (if isBits then "wC." else "wR.") ++ toString s ++ "." ++ specValuesText isBits s vals
        if ok then s!"w{k + 1}:rc=Ok,complete c1 f0 d1,app={app}"
        else s!"w{k + 1}:rc=Ok,{specFfiName 2} c0 f1 d1,app={app}"
    let rbS := starts.map fun s =>
      if n = 0 then "-"
      else if s + n > 65536 ∨ n > (if isBits then 2000 else 125) then "rc.InvalidRange"
      else match memEnd.readAll s n with
        | some vs => specValuesText isBits s vs
        | none => specFfiName 2
    let sp := (if linesS.isEmpty then "-" else ";".intercalate linesS) ++ " rb=" ++ ";".intercalate rbS
    (m, sp)
  | _, _ => bad

def variantArgs (v : Char) (op : FOp) : FArgs :=
  match v, op with
  | 'z', .rc | 'z', .rd | 'z', .rh | 'z', .ri => .range 5 0
  | 'z', .wC => .bits 3 []
  | 'z', .wR => .regs 3 []
  | _, _ => defaultArgs op

def runReuseCb (opTok variants : String) : String × String :=
  match FOp.parse opTok with
  | none => bad
  | some op =>
    let vs := variants.toList
    if vs.isEmpty ∨ ¬ vs.all (fun c => c = 'd' ∨ c = 'z' ∨ c = 'n') then bad else
    -- MODEL: every call fires on its own; the one context sees the merged invocations
    let (_, rcsM, firedM) := vs.foldl (fun (acc : Db × List String × Fired) v =>
      if v = 'n' then (acc.1, acc.2.1 ++ [Submit.nullArgument.returnCode], acc.2.2.merge (fire .nullArgument .dropped))
      else
        let o := runOp (.server applyApp [2]) 1 acc.1 op (variantArgs v op)
        (o.db, acc.2.1 ++ [o.submit.returnCode], acc.2.2.merge o.fired)) (mainDb, [], ({} : Fired))
    let m := s!"rc={",".intercalate rcsM} ffi={firedM.text}"
    -- SPECIFICATION: per call (return code, completion, complete?)
    let okText : String := match op, defaultArgs op with
      | .rc, .range s c | .rd, .range s c =>
        specValuesText true s ((List.range c).map fun k => ffiBit (specTable op) (s + k))
      | .rh, .range s c | .ri, .range s c =>
        specValuesText false s ((List.range c).map fun k => ffiReg (specTable op) (s + k))
      | _, _ => "complete"
    let per : List (String × String × Bool) := vs.map fun v =>
      if v = 'n' then ("NullParameter", "BadArgument", false)
      else if v = 'z' ∧ op.isRead then ("InvalidRange", "BadRequest", false)
      else if v = 'z' ∧ (op = .wC ∨ op = .wR) then ("InvalidRequest", "BadRequest", false)
      else ("Ok", okText, true)
    let nc := (per.filter (·.2.2)).length
    let sp := s!"rc={",".intercalate (per.map (·.1))} ffi={"+".intercalate (per.map (·.2.1))} c{nc} f{per.length - nc} d{per.length}"
    (m, sp)

open Rodbus.Filter in
def runReuseFilter (ftok addTok peer : String) : String × String :=
  match makeFilter ftok, parseIp peer.toList with
  | .ok f, some p =>
    let added : Option (Option (Bool × AddressFilter)) :=
      if addTok = "-" then some none
      else match cStringChars addTok with
        | none => none
        | some cs => some (some (addressFilterAdd f cs))
    match added with
    | none => bad
    | some add =>
      -- MODEL: server A keeps the value the object had when its constructor ran
      let (fa, callers) := snapshotFilter .tcp f
      let callers' := match add with | some (_, f') => f' | none => callers
      let (fb, _) := snapshotFilter .tcp callers'
      let addText := match add with | none => "-" | some (ok, _) => if ok then "ok" else "err"
      let sv (b : Bool) := if b then "served" else "closed"
      (s!"a={sv (fa.matches p)} add={addText} b={sv (fb.matches p)}",
       s!"a={sv (f.matches p)} add={addText} b={sv (callers'.matches p)}")
  | .error "err", _ => both "badfilter"
  | .error e, _ => both e
  | _, _ => bad

/-- holding register `a` of a short-lived unit created with tag `tag` -/
def taggedReg (tag a : Nat) : Nat := (ffiReg 2 a + 1000 * tag) % 65536

def taggedDb (tag : Nat) (_ : Db) : Db :=
  { holding := (List.range 10).map fun a => (a, taggedReg tag a) }

/-- a raw peer reading holding registers 0..2 of `unit` from a server holding `units` -/
def probeText (units : DeviceMap) (unit : Nat) : String :=
  match units.lookup unit with
  | none => "silent"
  | some db => match db.find .holding 0 with
    | some v => s!"served.{v}"
    | none => "exc.2"

def runReuseMap (unitsTok unitTok : String) : String × String :=
  let units? : Option (List Nat) := if unitsTok = "-" then some [] else natList? unitsTok ","
  match units?, allDigits unitTok with
  | some units, true =>
    let unit := ffiNatOf unitTok
    if units.any (· > 255) ∨ unit > 255 then bad else
    -- MODEL
    let (map1, flags) := units.foldl (fun (acc : DeviceMap × List String) u =>
      let r := acc.1.addEndpoint u (taggedDb u)
      (r.2.2, acc.2 ++ [if r.1 then "1" else "0"])) (({} : DeviceMap), [])
    let (srvA, map2) := map1.createServer
    let (srvB, map3) := map2.createServer
    let re := map3.addEndpoint unit (taggedDb 50)
    let (srvC, _) := re.2.2.createServer
    let addText := if flags.isEmpty then "-" else ",".intercalate flags
    let m := s!"add={addText} a={probeText srvA unit} b={probeText srvB unit} readd={if re.1 then 1 else 0} c={probeText srvC unit}"
    -- SPECIFICATION
    let firstTime := (List.range units.length).map fun k => if (units.take k).contains (units.getD k 0) then "0" else "1"
    let a := if units.contains unit then s!"served.{(1959 + 1000 * unit) % 65536}" else "silent"
    let sp := s!"add={if firstTime.isEmpty then "-" else ",".intercalate firstTime} a={a} b=silent readd=1 c=served.51959"
    (m, sp)
  | _, _ => bad

def runReuseTx (kTok unitTok : String) : String × String :=
  if ¬ allDigits kTok ∨ ffiNatOf kTok > 50 then bad else
  let k := ffiNatOf kTok
  let join (l : List String) := if l.isEmpty then "-" else ",".intercalate l
  if unitTok = "null" then
    let r := updateDatabase .null true
    both s!"rc={join (List.replicate k r.1)} calls={k * r.2.1} destroyed={k * r.2.2} value=-"
  else if ¬ allDigits unitTok ∨ ffiNatOf unitTok > 255 then bad else
  let unit := ffiNatOf unitTok
  match unitDb unit with
  | none =>
    let r := updateDatabase .live false
    (s!"rc={join (List.replicate k r.1)} calls={k * r.2.1} destroyed={k * r.2.2} value=ResponseTimeout",
     s!"rc={join (List.replicate k (Spec.controlReturn "server_update_database" "nounit"))} calls=0 destroyed={k} value=ResponseTimeout")
  | some db0 =>
    -- MODEL: k transactions, each: get; then update (v + 1) or add 1
    let tx (db : Db) : Db :=
      match (db.step (.get .holding 0)).2 with
      | .val v => (db.step (.update .holding 0 ((v + 1) % 65536))).1
      | _ => (db.step (.add .holding 0 1)).1
    let dbEnd := (List.range k).foldl (fun db _ => tx db) db0
    let r := updateDatabase .live true
    let m := s!"rc={join (List.replicate k r.1)} calls={k * r.2.1} destroyed={k * r.2.2} value={readText dbEnd unit .rh 0 1}"
    -- SPECIFICATION: closed form
    let v0 := if unit = 1 ∨ unit = 2 then some (ffiReg 2 0) else none
    let value := if k = 0 then (match v0 with | some v => s!"g0:{v}" | none => specFfiName 2)
      else s!"g0:{((v0.getD 0) + k) % 65536}"
    let sp := s!"rc={join (List.replicate k (Spec.controlReturn "server_update_database" "live"))} calls={k} destroyed={k} value={value}"
    (m, sp)

def runReuse (tok : List String) : String × String :=
  match tok with
  | ["list", op, vals, starts] => runReuseList op vals starts
  | ["cb", op, variants] => runReuseCb op variants
  | ["filter", f, add, peer] => runReuseFilter f add peer
  | ["map", units, unit] => runReuseMap units unit
  | ["tx", k, unit] => runReuseTx k unit
  | _ => bad

/-! ### `ffi ctl`: control functions and constructors -/

def levelOk (a f p : String) : Bool :=
  allDigits a ∧ allDigits f ∧ allDigits p ∧
  (appDecodeLevels.rustOfInt (ffiNatOf a)).isSome ∧ (frameDecodeLevels.rustOfInt (ffiNatOf f)).isSome ∧
  (physDecodeLevels.rustOfInt (ffiNatOf p)).isSome

/-- the source error of a TLS scenario on the model side: `none` = the constructor succeeds -/
def tlsScenarioSource (server : Bool) (scen : String) : Option (Option (String × String)) :=
  let badConfig := some (some ("TlsError", "BadConfig"))
  match scen with
  | "ok" | "ca" => some none
  | "nopeer" | "nolocal" | "nokey" | "keyiscert" | "peeriskey" | "canopeer" => badConfig
  | "wilddns" => if server then none else some none
  | "baddns" | "stardns" => if server then none else some (some ("TlsError", "InvalidDnsName"))
  | "utf8peer" => if server then badConfig else some (some ("Utf8Error", "_"))
  | "utf8dns" => if server then none else some (some ("Utf8Error", "_"))
  | _ => none

def paramErrorOf (src : Option (String × String)) : String :=
  match src with
  | none => "Ok"
  | some (ty, v) => ((expectedParamErrors.find? fun r => r.1 = ty ∧ r.2.1 = v).map (·.2.2)).getD "?"

def rustTextOf (src : Option (String × String)) : String :=
  match src with
  | none => "ok"
  | some ("TlsError", v) => v
  | some (ty, _) => ty

/-- the structural argument errors of the server constructors, model side: the order in which
    the constructor looks at its arguments does not matter here (one defect per scenario) -/
def structuralSource (scen : String) : Option String :=
  match scen with
  | "nullrt" | "nullfilter" | "nullmap" => some Submit.nullArgument.returnCode
  | "badip" => (expectedParamErrors.find? fun r => r.1 = "AddrParseError").map (·.2.2)
  | "inuse" => some "ServerBindError"
  | "ok" => some "Ok"
  | _ => none

def worldRead (op : FOp) (s c : Nat) : String := readText mainDb 1 op s c

def specWorldRead (op : FOp) (s c : Nat) : String :=
  if op = .rc ∨ op = .rd then specValuesText true s ((List.range c).map fun k => ffiBit (specTable op) (s + k))
  else specValuesText false s ((List.range c).map fun k => ffiReg (specTable op) (s + k))

def runCtl (tok : List String) : String × String :=
  match tok with
  | ["cdecode", a, f, p, target] =>
    if ¬ levelOk a f p then bad else
    let fn := "client_channel_set_decode_level"
    match target with
    | "world" => (s!"rc={CtlTarget.live.returnCode} read={worldRead .rc 0 8}",
                  s!"rc={Spec.controlReturn fn "live"} read={specWorldRead .rc 0 8}")
    | "tmp" =>
      let o := runOp (.fixed .noConnection) 1 {} .rc (.range 0 8)
      (s!"rc={CtlTarget.live.returnCode} read={"+".intercalate o.fired.result}",
       s!"rc={Spec.controlReturn fn "live"} read=NoConnection")
    | "null" => (s!"rc={CtlTarget.null.returnCode} read=-", s!"rc={Spec.controlReturn fn "null"} read=-")
    | "dead" => (s!"rc={CtlTarget.closed.returnCode} read=rc.{Submit.channelClosed.returnCode}",
                 s!"rc={Spec.controlReturn fn "closed"} read=rc.Shutdown")
    | _ => bad
  | ["sdecode", a, f, p, target] =>
    if ¬ levelOk a f p then bad else
    let fn := "server_set_decode_level"
    match target with
    | "world" => (s!"rc={CtlTarget.live.returnCode} read={worldRead .rh 0 4}",
                  s!"rc={Spec.controlReturn fn "live"} read={specWorldRead .rh 0 4}")
    | "null" => (s!"rc={CtlTarget.null.returnCode} read=-", s!"rc={Spec.controlReturn fn "null"} read=-")
    | "async" => (s!"rc={CtlTarget.withinAsync.returnCode} read={worldRead .rh 0 4}",
                  s!"rc={Spec.controlReturn fn "withinAsync"} read={specWorldRead .rh 0 4}")
    | _ => bad
  | ["endis", script] =>
    if script = "null" then
      (s!"e:{CtlTarget.null.returnCode},d:{CtlTarget.null.returnCode}",
       s!"e:{Spec.controlReturn "client_channel_enable" "null"},d:{Spec.controlReturn "client_channel_disable" "null"}")
    else
      let steps := script.toList
      if steps.isEmpty ∨ steps.length > 32 ∨ ¬ steps.all (fun c => c = 'e' ∨ c = 'd' ∨ c = 'r') then bad else
      let (_, outM, outS) := steps.foldl (fun (acc : Bool × List String × List String) c =>
        if c = 'e' then (true, acc.2.1 ++ [s!"e:{CtlTarget.live.returnCode}"],
                         acc.2.2 ++ [s!"e:{Spec.controlReturn "client_channel_enable" "live"}"])
        else if c = 'd' then (false, acc.2.1 ++ [s!"d:{CtlTarget.live.returnCode}"],
                              acc.2.2 ++ [s!"d:{Spec.controlReturn "client_channel_disable" "live"}"])
        else
          let m := if acc.1 then worldRead .rh 0 4
            else "+".intercalate (runOp (.fixed .noConnection) 1 {} .rh (.range 0 4)).fired.result
          let s := if acc.1 then specWorldRead .rh 0 4 else "NoConnection"
          (acc.1, acc.2.1 ++ [s!"r:{m}"], acc.2.2 ++ [s!"r:{s}"])) (false, [], [])
      (",".intercalate outM, ",".intercalate outS)
  | ["rtucli", what] =>
    match what with
    | "missing" =>
      let o := runOp (.fixed .noConnection) 1 {} .rh (.range 0 4)
      let ps (n : Nat) := (portState.ffiOfInt n).getD "?"
      (s!"rc=Ok en={CtlTarget.live.returnCode} port={ps 1} req={o.submit.returnCode},{o.fired.text} dl={CtlTarget.live.returnCode} dis={CtlTarget.live.returnCode} port={ps 0} rust={o.rust}",
       "rc=Ok en=Ok port=Wait req=Ok,NoConnection c0 f1 d1 dl=Ok dis=Ok port=Disabled rust=noconn")
    | "nullrt" => (s!"rc={CtlTarget.null.returnCode}", "rc=NullParameter")
    | _ => bad
  | ["rtusrv", what] =>
    match what with
    | "missing" =>
      let t := updateDatabase .live true
      let b := updateDatabase .live false
      (s!"rc=Ok tx={t.1},{t.2.1} bad={b.1},{b.2.1} dl={CtlTarget.live.returnCode} rust=ok",
       s!"rc=Ok tx={Spec.controlReturn "server_update_database" "live"},1 bad={Spec.controlReturn "server_update_database" "nounit"},0 dl={Spec.controlReturn "server_set_decode_level" "live"} rust=ok")
    | "nullrt" | "nullmap" => (s!"rc={CtlTarget.null.returnCode}", "rc=NullParameter")
    | _ => bad
  | ["tlscli", scen] =>
    if scen = "nullrt" then (s!"rc={CtlTarget.null.returnCode} ch=0 rust=-", "rc=NullParameter ch=0 rust=-") else
    match tlsScenarioSource false scen, Spec.tlsClientScenarios.lookup scen with
    | some src, some (rust, rc) =>
      (s!"rc={paramErrorOf src} ch={if src.isNone then 1 else 0} rust={rustTextOf src}",
       s!"rc={rc} ch={if rc = "Ok" then 1 else 0} rust={rust}")
    | _, _ => bad
  | ["tlssrv", variant, scen] =>
    if variant ≠ "tls" ∧ variant ≠ "tlsauth" then bad else
    if ["nullrt", "nullfilter", "nullmap", "badip"].contains scen then
      match structuralSource scen, Spec.structuralScenarios.lookup scen with
      | some rc, some rcS =>
        let mp := if scen = "nullmap" then "-" else "served"
        (s!"rc={rc} srv=0 map={mp} rust=-", s!"rc={rcS} srv=0 map={mp} rust=-")
      | _, _ => bad
    else
    match tlsScenarioSource true scen, Spec.tlsServerScenarios.lookup scen with
    | some src, some (rust, rc) =>
      -- a constructor that fails on its configuration has not touched the caller's map
      let units : DeviceMap := (({} : DeviceMap).addEndpoint 1 (taggedDb 0)).2.2
      let after := if src.isNone then "-" else
        (if probeText units.createServer.1 1 = s!"served.{taggedReg 0 0}" then "served" else "?")
      (s!"rc={paramErrorOf src} srv={if src.isNone then 1 else 0} map={after} rust={rustTextOf src}",
       s!"rc={rc} srv={if rc = "Ok" then 1 else 0} map={if rc = "Ok" then "-" else "served"} rust={rust}")
    | _, _ => bad
  | ["tcpsrv", scen] =>
    match structuralSource scen, Spec.structuralScenarios.lookup scen with
    | some rc, some rcS =>
      (s!"rc={rc} srv={if rc = "Ok" then 1 else 0} world={worldRead .rh 0 4}",
       s!"rc={rcS} srv={if rcS = "Ok" then 1 else 0} world={specWorldRead .rh 0 4}")
    | _, _ => bad
  | ["mapdup", "null"] => both "add=0 cfg=0"
  | ["mapdup", ua, ub] =>
    if ¬ allDigits ua ∨ ¬ allDigits ub ∨ ffiNatOf ua > 255 ∨ ffiNatOf ub > 255 then bad else
    let (ua, ub) := (ffiNatOf ua, ffiNatOf ub)
    let r1 := ({} : DeviceMap).addEndpoint ua (taggedDb 1)
    let r2 := r1.2.2.addEndpoint ub (taggedDb 2)
    let srv := r2.2.2.createServer.1
    let b2s (b : Bool) := if b then "1" else "0"
    (s!"add={b2s r1.1},{b2s r2.1} cfg={r1.2.1},{r2.2.1} a={probeText srv ua} b={probeText srv ub}",
     if ua = ub then s!"add=1,0 cfg=1,0 a=served.2959 b=served.2959"
     else s!"add=1,1 cfg=1,1 a=served.2959 b=served.3959")
  | ["txunit", u] =>
    if u = "null" then
      let r := updateDatabase .null true
      (s!"rc={r.1} calls={r.2.1} destroyed={r.2.2}", s!"rc={Spec.controlReturn "server_update_database" "null"} calls=0 destroyed=1")
    else if ¬ allDigits u ∨ ffiNatOf u > 255 then bad else
      let ex := (unitDb (ffiNatOf u)).isSome
      let r := updateDatabase .live ex
      (s!"rc={r.1} calls={r.2.1} destroyed={r.2.2}",
       if ex then s!"rc={Spec.controlReturn "server_update_database" "live"} calls=1 destroyed=1"
       else s!"rc={Spec.controlReturn "server_update_database" "nounit"} calls=0 destroyed=1")
  | ["iter", opTok, s, c, take] =>
    match FOp.parse opTok with
    | some op =>
      if ¬ op.isRead ∨ ¬ allDigits s ∨ ¬ allDigits c ∨ ¬ allDigits take ∨ ffiNatOf take > 3000
        ∨ ffiNatOf s > 65535 ∨ ffiNatOf c > 65535 then bad else
      let (s, c, take) := (ffiNatOf s, ffiNatOf c, ffiNatOf take)
      let isBits := op = .rc ∨ op = .rd
      let showItem (x : Option (Nat × Nat)) : String := match x with
        | some (i, v) => s!"{i}:{v}" | none => "null"
      -- MODEL: the values the client decoded, handed out one by one
      let o := runOp (.server applyApp [2]) 1 mainDb op (.range s c)
      let itemsM : String :=
        match o.submit, o.task with
        | .accepted, .success _ =>
          let vals : List (Nat × Nat) := (List.range c).map fun k =>
            (s + k, (mainDb.find (Table.ofIdx (specTable op)) (s + k)).getD 0)
          ",".intercalate ((iterTake vals take).map showItem ++ ["nullit=null"])
        | _, _ => "+".intercalate o.fired.result
      let m := s!"rc={o.submit.returnCode} items={itemsM} next={worldRead op 0 2}"
      -- SPECIFICATION
      let lim := if isBits then 2000 else 125
      let sp :=
        if c = 0 ∨ s + c > 65536 ∨ c > lim then s!"rc=InvalidRange items=BadRequest next={specWorldRead op 0 2}"
        else if s + c > 100 then s!"rc=Ok items={specFfiName 2} next={specWorldRead op 0 2}"
        else
          let one (k : Nat) : String :=
            if k < c then s!"{s + k}:{if isBits then ffiBit (specTable op) (s + k) else ffiReg (specTable op) (s + k)}" else "null"
          s!"rc=Ok items={",".intercalate ((List.range take).map one ++ ["nullit=null"])} next={specWorldRead op 0 2}"
      (m, sp)
    | none => bad
  | ["nullobj"] =>
    let np := CtlTarget.null.returnCode
    (s!"add=0000 upd=0000 del=0000 get={np},{np},{np},{np} fltadd={np}",
     "add=0000 upd=0000 del=0000 get=NullParameter,NullParameter,NullParameter,NullParameter fltadd=NullParameter")
  | _ => bad

/-- `ffi atomic <n regs> <transactions per thread> <reads> <threads> [<flags ⊆ {d,w,a}>]` -/
def runAtomic (rest : List String) : String × String :=
  let okNums (n th : String) : Bool :=
    n.isNat && th.isNat && 1 ≤ n.toNat! && n.toNat! ≤ 125 && 1 ≤ th.toNat! && th.toNat! ≤ 16
  match rest with
  | [n, tx, rd, th] =>
    if okNums n th && tx.isNat && rd.isNat then both (atomicExpected none) else ("bad-case", "bad-case")
  | [n, tx, rd, th, flags] =>
    if okNums n th && tx.isNat && rd.isNat && !flags.isEmpty && flags.toList.all (fun c => c = 'd' || c = 'w' || c = 'a') then
      (atomicExpected (some flags), "uniform torn=0 lost=0 work=ok")
    else ("bad-case", "bad-case")
  | _ => ("bad-case", "bad-case")

/-! ### dispatcher -/

def runFfi (tok : List String) : String × String :=
  match tok with
  | _ :: "tab" :: rest => runTab rest
  | _ :: "wres" :: rest => runWres rest
  | _ :: "op" :: rest => runOpCase rest
  | _ :: "db" :: rest => runDb rest
  | _ :: "atomic" :: rest => runAtomic rest
  | _ :: "flt" :: rest => runFfiFlt rest
  | _ :: "fltadd" :: rest => runFltAdd rest
  | _ :: "fnet" :: rest => runFnet rest
  | _ :: "reuse" :: rest => runReuse rest
  | _ :: "ctl" :: rest => runCtl rest
  | _ => ("unknown-suite ffi", "unknown-suite ffi")

end Rodbus.Driver
