import RodbusModel.Props.C02
import RodbusModel.Props.C01Session
import RodbusModel.Props.C06Span
/-
  C02, session lift.  `C02.calls_justified` and `C02.invalid_no_effect` speak about one frame;
  here the same is proved about everything a SESSION (`runSession`, Model/Session.lean) calls:

  * every handler call of a session is justified by a frame that the reader delivered BEFORE its
    first framing error (`session_calls_justified`);
  * a framing error (`.err e`: bad MBAP header, bad CRC, …) contributes no call, no reply, no state
    change, and ends the session — nothing after it is handled (`framing_error_ends_session`,
    `session_framing_error`);
  * frames that are not requests contribute no handler call at session level either
    (`session_invalid_no_effect`).

  Quantifiers: every configuration (with or without authorization handler), every unit map, every
  transport script (data in any segmentation, decode-level changes, shutdown, read error, eof),
  both framings, and — for the `handleEvents` forms — every event list.
-/
namespace Rodbus.C02
open Rodbus Rodbus.Spec.Server

/-- the conclusion of `calls_justified`, as a predicate: the handler call `c` is justified by the
    frame `f` on a server whose configured unit ids are `units` -/
def Justified {σ : Type} (cfg : ServerCfg σ) (units : List Nat) (f : Frame) (c : Call) : Prop :=
  ∃ req, requestOf f = some req ∧ cfg.allows f.dest req = true ∧
    ((isBroadcast cfg f = false ∧ f.dest ∈ units ∧
        ((isWrite req = true ∧ c ∈ writeCalls req f.dest) ∨
         (∃ fc r a, fc.isRead = true ∧ req = mkRead fc r ∧ c = readCall fc f.dest a
            ∧ r.start ≤ a ∧ a < r.start + r.count)))
     ∨ (isBroadcast cfg f = true ∧ isWrite req = true ∧ ∃ u ∈ units, c ∈ writeCalls req u))

/-- `calls_justified` in terms of `Justified` (same statement) -/
theorem calls_justified' {σ : Type} (cfg : ServerCfg σ) (hs : List (Nat × σ)) (f : Frame) (c : Call)
    (hc : c ∈ (handleFrame cfg hs f).calls) (hna : c.isAuth = false) :
    Justified cfg (hs.map Prod.fst) f c :=
  calls_justified cfg hs f c hc hna

/-- frame-list level: every handler call of `runFrames` is justified by one of the frames -/
theorem runFrames_calls_justified {σ : Type} (cfg : ServerCfg σ) (hs : List (Nat × σ))
    (fs : List Frame) (c : Call) (hc : c ∈ (runFrames cfg hs fs).2.1) (hna : c.isAuth = false) :
    ∃ f ∈ fs, Justified cfg (hs.map Prod.fst) f c := by
  induction fs generalizing hs with
  | nil => simp [runFrames] at hc
  | cons f fs ih =>
    simp only [runFrames, List.mem_append] at hc
    rcases hc with hc | hc
    · exact ⟨f, by simp, calls_justified' cfg hs f c hc hna⟩
    · obtain ⟨g, hg, hj⟩ := ih _ hc
      rw [handleFrame_keys] at hj
      exact ⟨g, by simp [hg], hj⟩

/-- event-list level: every handler call of a session over ANY event list is justified by a
    frame event that is preceded by frame events only (no framing error before it) -/
theorem events_calls_justified {σ : Type} (fr : Framing) (cfg : ServerCfg σ) (k : EndKind)
    (hs : List (Nat × σ)) (evs : List Event) (c : Call)
    (hc : c ∈ (handleEvents fr cfg k hs evs).calls) (hna : c.isAuth = false) :
    ∃ (pre : List Frame) (f : Frame) (post : List Event),
      evs = pre.map Event.frame ++ Event.frame f :: post
        ∧ Justified cfg (hs.map Prod.fst) f c := by
  rw [handleEvents_eq_runFrames] at hc
  obtain ⟨f, hf, hj⟩ := runFrames_calls_justified cfg hs _ c hc hna
  obtain ⟨pre, post, he⟩ := (mem_framesBeforeError_iff evs f).1 hf
  exact ⟨pre, f, post, he, hj⟩

/-- **session_calls_justified**: for every framing, configuration, unit map and transport
    script, every non-authorization call of the session is justified (in the sense of
    `calls_justified`) by a frame that the reader delivered before its first framing error -/
theorem session_calls_justified {σ : Type} (fr : Framing) (cfg : ServerCfg σ) (l : DecodeLevel)
    (hs : List (Nat × σ)) (script : List SessStep) (c : Call)
    (hc : c ∈ (runSession fr cfg l hs script).calls) (hna : c.isAuth = false) :
    ∃ (pre : List Frame) (f : Frame) (post : List Event),
      readerRun fr (cutScript script).1 = pre.map Event.frame ++ Event.frame f :: post
        ∧ Justified cfg (hs.map Prod.fst) f c :=
  events_calls_justified fr cfg _ hs _ c hc hna

/-- the same with the frame located in the byte stream: for a session fed by data segments and
    closed by the peer, the justifying frame is a frame of the whole-stream specification
    (`C01Stream.specEvents`: MBAP header + length / RTU length rule + CRC), whatever the
    segmentation -/
theorem stream_calls_justified {σ : Type} (fr : Framing) (cfg : ServerCfg σ) (l : DecodeLevel)
    (hs : List (Nat × σ)) (chunks : List Bytes) (c : Call)
    (hc : c ∈ (runSession fr cfg l hs (chunks.map SessStep.data ++ [.eof])).calls)
    (hna : c.isAuth = false) :
    ∃ (pre : List Frame) (f : Frame) (post : List Event),
      C01Stream.specEvents fr chunks.flatten = pre.map Event.frame ++ Event.frame f :: post
        ∧ Justified cfg (hs.map Prod.fst) f c := by
  rw [C01Stream.stream_replies] at hc
  exact events_calls_justified fr cfg _ hs _ c hc hna

/-- **framing_error_ends_session**: a framing error after the frames `pre` — whatever follows
    it — contributes nothing: the calls, replies and states are those of `pre` alone, and the
    session ends with `badFrame e` -/
theorem framing_error_ends_session {σ : Type} (fr : Framing) (cfg : ServerCfg σ) (k : EndKind)
    (hs : List (Nat × σ)) (pre : List Frame) (e : FrameErr) (post : List Event) :
    handleEvents fr cfg k hs (pre.map Event.frame ++ Event.err e :: post)
        = handleEvents fr cfg (.badFrame e) hs (pre.map Event.frame)
    ∧ (handleEvents fr cfg k hs (pre.map Event.frame ++ Event.err e :: post)).calls
        = (runFrames cfg hs pre).2.1
    ∧ (handleEvents fr cfg k hs (pre.map Event.frame ++ Event.err e :: post)).states
        = (runFrames cfg hs pre).2.2
    ∧ (handleEvents fr cfg k hs (pre.map Event.frame ++ Event.err e :: post)).tx
        = ((runFrames cfg hs pre).1.map fun p => frameOut fr p.1 p.2).flatten
    ∧ (handleEvents fr cfg k hs (pre.map Event.frame ++ Event.err e :: post)).ended
        = .badFrame e := by
  refine ⟨handleEvents_err fr cfg k hs pre e post, ?_, ?_, ?_, ?_⟩ <;>
    rw [handleEvents_eq_runFrames, framesBeforeError_frames_err] <;>
    simp [endOf, firstError_frames_err]

/-- an error as the very first event: the session does nothing at all -/
theorem framing_error_first {σ : Type} (fr : Framing) (cfg : ServerCfg σ) (k : EndKind)
    (hs : List (Nat × σ)) (e : FrameErr) (post : List Event) :
    handleEvents fr cfg k hs (Event.err e :: post) = ⟨[], [], hs, .badFrame e⟩ := rfl

/-- **session_framing_error**: for every script whose reader reports a framing error: the session
    ends with that error, and its calls are exactly those of the frames delivered before it -/
theorem session_framing_error {σ : Type} (fr : Framing) (cfg : ServerCfg σ) (l : DecodeLevel)
    (hs : List (Nat × σ)) (script : List SessStep) (pre : List Frame) (e : FrameErr)
    (post : List Event)
    (h : readerRun fr (cutScript script).1 = pre.map Event.frame ++ Event.err e :: post) :
    (runSession fr cfg l hs script).ended = .badFrame e
    ∧ (runSession fr cfg l hs script).calls = (runFrames cfg hs pre).2.1
    ∧ (runSession fr cfg l hs script).states = (runFrames cfg hs pre).2.2
    ∧ (runSession fr cfg l hs script).tx
        = ((runFrames cfg hs pre).1.map fun p => frameOut fr p.1 p.2).flatten := by
  rw [C01.runSession_eq, h]
  obtain ⟨_, h2, h3, h4, h5⟩ := framing_error_ends_session fr cfg (cutScript script).2 hs pre e post
  exact ⟨h5, h2, h3, h4⟩

/-- a session ends with `badFrame e` iff `e` is the first framing error of its reader; the errors
    a reader can report are the header errors of `Rodbus.run_errors` (MBAP) and the function-code /
    length / CRC errors of `C06.run_errors` (RTU) -/
theorem session_ends_badFrame_iff {σ : Type} (fr : Framing) (cfg : ServerCfg σ) (l : DecodeLevel)
    (hs : List (Nat × σ)) (script : List SessStep) (e : FrameErr)
    (hk : (cutScript script).2 ≠ .badFrame e) :
    (runSession fr cfg l hs script).ended = .badFrame e
      ↔ firstError (readerRun fr (cutScript script).1) = some e := by
  rw [(C01.session_is_runFrames fr cfg l hs script).2.2]
  unfold endOf
  cases hfe : firstError (readerRun fr (cutScript script).1) with
  | none => simp; exact hk
  | some e' => simp

/-- the end kind read off a script is never `badFrame`: only the reader produces it -/
theorem cutScript_not_badFrame (script : List SessStep) (e : FrameErr) :
    (cutScript script).2 ≠ .badFrame e := by
  induction script with
  | nil => simp [cutScript]
  | cons s rest ih => cases s <;> simp [cutScript] <;> exact ih

/-- **session_invalid_no_effect**: a session whose frames before the first framing error are all
    without effect in the sense of `invalid_no_effect` (not a request / unconfigured unit /
    denied) makes no handler call and leaves every handler state unchanged -/
theorem session_invalid_no_effect {σ : Type} (fr : Framing) (cfg : ServerCfg σ) (l : DecodeLevel)
    (hs : List (Nat × σ)) (script : List SessStep)
    (h : ∀ f ∈ C01.sessionFrames fr script,
      requestOf f = none
        ∨ (isBroadcast cfg f = false ∧ f.dest ∉ hs.map Prod.fst)
        ∨ (∃ req, requestOf f = some req ∧ cfg.allows f.dest req = false)) :
    (∀ c ∈ (runSession fr cfg l hs script).calls, c.isAuth = true)
      ∧ (runSession fr cfg l hs script).states = hs := by
  obtain ⟨hc, hst, _⟩ := C01.session_is_runFrames fr cfg l hs script
  rw [hc, hst]
  generalize C01.sessionFrames fr script = fs at h
  clear hc hst
  induction fs with
  | nil => simp [runFrames]
  | cons f fs ih =>
    have hf : requestOf f = none ∨ (isBroadcast cfg f = false ∧ lookupUnit hs f.dest = none)
        ∨ (∃ req, requestOf f = some req ∧ cfg.allows f.dest req = false) := by
      rcases h f (by simp) with h1 | ⟨h1, h2⟩ | h1
      · exact Or.inl h1
      · refine Or.inr (Or.inl ⟨h1, ?_⟩)
        cases hl : lookupUnit hs f.dest with
        | none => rfl
        | some s => exact absurd ((lookupUnit_isSome_iff hs f.dest).1 (by simp [hl])) h2
      · exact Or.inr (Or.inr h1)
    obtain ⟨h1, h2⟩ := invalid_no_effect cfg hs f hf
    obtain ⟨h3, h4⟩ := ih (fun g hg => h g (by simp [hg]))
    simp only [runFrames, h2]
    refine ⟨?_, h4⟩
    intro c hc
    rcases List.mem_append.1 hc with hc | hc
    · exact h1 c hc
    · exact h3 c hc

/-- C06 composed with the session: an RTU request corrupted by a 1-bit, 2-bit or ≤ 16-bit burst
    error outside the function-code and byte-count bytes (`C06.corruption_rejected_data_bytes`),
    arriving first on a session in any segmentation and followed by anything: no handler call, no
    reply, no state change; the session ends with the CRC error -/
theorem corrupted_request_no_effect {σ : Type} (cfg : ServerCfg σ) (l : DecodeLevel)
    (hs : List (Nat × σ)) (chunks : List Bytes) (dest : Nat) (pdu e rest : Bytes)
    (hd : dest < 256) (hp : Rtu.WellFormedPdu .request pdu) (he : Bytes.WF e)
    (hl : e.length = (Rtu.format dest pdu).length)
    (hpat : Crc.SingleBit e ∨ Crc.Burst16 e ∨ Crc.DoubleBit e)
    (hz : ∀ i ∈ C06.delimitingBytes .request pdu, e.getD i 0 = 0)
    (hc : chunks.flatten = Crc.xorBytes (Rtu.format dest pdu) e ++ rest) :
    ∃ r x, r ≠ x ∧ runSession .rtu cfg l hs (chunks.map SessStep.data ++ [.eof])
      = ⟨[], [], hs, .badFrame (.crcValidationFailure r x)⟩ := by
  obtain ⟨r, x, hrx, h⟩ :=
    C06.corruption_rejected_data_bytes .request dest pdu e rest hd hp he hl hpat hz
  refine ⟨r, x, hrx, ?_⟩
  rw [C01Stream.stream_replies]
  simp only [C01Stream.specEvents]
  rw [hc, h]
  rfl

/-! ## Non-vacuity -/

open Demo

/-- TCP: a valid write, then a header with protocol id 1, then another valid write in the same
    segment: only the first write reaches the handler, the session ends with the header error -/
example :
    let s := runSession .tcp tcp {} units
      [.data ([0, 1, 0, 0, 0, 6, 1] ++ writeCoil ++ [0, 2, 0, 1, 0, 6, 1] ++ writeCoil
              ++ [0, 3, 0, 0, 0, 6, 1] ++ writeCoil), .eof]
    s.calls = [.writeSingleCoil 1 1 true] ∧ s.ended = .badFrame (.unknownProtocolId 1)
      ∧ s.tx = [0, 1, 0, 0, 0, 6, 1] ++ writeCoil := by
  decide +kernel

/-- RTU: a valid write to unit 1, then the same frame with a wrong CRC, then a valid one: one
    call, one reply, the session ends with the CRC error -/
example :
    let s := runSession .rtu rtu {} units
      [.data (Rtu.format 1 writeCoil), .data (1 :: writeCoil ++ [0, 0]),
       .data (Rtu.format 1 writeCoil), .eof]
    s.calls = [.writeSingleCoil 1 1 true]
      ∧ s.ended = .badFrame (.crcValidationFailure 0 (Crc.crc (1 :: writeCoil)))
      ∧ s.tx = Rtu.format 1 writeCoil := by
  decide +kernel

/-- the hypothesis of `session_framing_error` is satisfiable (the reader of the first example) -/
example : readerRun .tcp (cutScript
      [.data ([0, 1, 0, 0, 0, 6, 1] ++ writeCoil ++ [0, 2, 0, 1, 0, 6, 1] ++ writeCoil), .eof]).1
    = [(⟨some 1, 1, writeCoil⟩ : Frame)].map Event.frame
        ++ Event.err (.unknownProtocolId 1) :: [] := by
  decide +kernel

/-- `corrupted_request_no_effect` instantiated: a write whose unit id lost a bit (`01 → 41`),
    followed by the intact frame: nothing is written, nothing called, the session is over -/
example : ∃ r x, r ≠ x ∧ runSession .rtu rtu {} units
    ([Crc.xorBytes (Rtu.format 1 writeCoil) [0x40, 0, 0, 0, 0, 0, 0, 0],
      Rtu.format 1 writeCoil].map SessStep.data ++ [.eof])
      = ⟨[], [], units, .badFrame (.crcValidationFailure r x)⟩ :=
  corrupted_request_no_effect rtu {} units _ 1 writeCoil [0x40, 0, 0, 0, 0, 0, 0, 0]
    (Rtu.format 1 writeCoil) (by decide) (by decide) (by decide) (by decide +kernel)
    (Or.inl ⟨6, by decide⟩) (by decide) (by simp)

end Rodbus.C02
