#!/usr/bin/env python3
"""Case generators for the C-ABI suites (`ffi …` lines; formats: PROTOCOL.md, section "ffi").

Same conventions as tools/gen.py: every random choice derives from the SplitMix64 state `r`
(seeded by VERIF_SEED and the suite name); exhaustive sub-domains come first, then seeded random
cases.  `n` = number of random cases, `tier` = quick | thorough.
"""
import itertools

try:
    from gen import Rng, hx
except ImportError:  # stand-alone use
    import os
    import sys
    sys.path.insert(0, os.path.join(os.path.dirname(os.path.abspath(__file__)), "tools"))
    from gen import Rng, hx

OPS = ["rc", "rd", "rh", "ri", "wc", "wr", "wC", "wR"]
READS = OPS[:4]
WRITES = OPS[4:]
MEXC = [1, 2, 3, 4, 5, 6, 8, 10, 11, 255]


# ---------------------------------------------------------------- ffi tab

def gen_ffi_tab(r, n, tier):
    """every conversion reachable from outside the crate, on every variant (exhaustive)"""
    for k in range(20):
        yield f"ffi tab reqerr io.{k}"
    for b in range(256):
        yield f"ffi tab reqerr exc.{b}"
    for k in range(5):
        yield f"ffi tab reqerr badreq.{k}"
    for k in range(5):
        yield f"ffi tab reqerr badframe.{k}"
    for k in range(6):
        yield f"ffi tab reqerr badresp.{k}"
    for k in range(5):
        yield f"ffi tab reqerr internal.{k}"
    for k in ("timeout", "noconn", "shutdown"):
        yield f"ffi tab reqerr {k}"
    for b in range(256):
        yield f"ffi tab exc {b}"
    for k in (["range.0", "range.1", "range.2"] + [f"req.{i}" for i in range(5)] + ["addr", "wild", "utf8", "shutdown"]
              + [f"tls.{i}" for i in range(5)] + ["chan.full", "chan.closed", "chan.range.0", "chan.range.1", "chan.range.2"]
              + [f"rt.{i}" for i in range(3)]):
        yield f"ffi tab param {k}"
    for a, f, p in itertools.product(range(4), range(3), range(3)):
        yield f"ffi tab decode {a} {f} {p}"
    for k in range(6):
        yield f"ffi tab cstate {k}"
    for k in range(4):
        yield f"ffi tab pstate {k}"
    for d, f, p, s in itertools.product(range(4), range(3), range(3), range(2)):
        yield f"ffi tab serial {d} {f} {p} {s} {[9600, 19200, 115200, 0, 4294967295][(d + f + p + s) % 5]}"
    for k in range(2):
        yield f"ffi tab tlsver {k}"
        yield f"ffi tab certmode {k}"
        yield f"ffi tab authz {k}"
    for k in range(20):
        yield f"ffi tab cint reqerr {k}"
    for k in range(21):
        yield f"ffi tab cint param {k}"
    for k in MEXC:
        yield f"ffi tab cint mexc {k}"
    for k in range(6):
        yield f"ffi tab cint cstate {k}"
    for k in range(4):
        yield f"ffi tab cint pstate {k}"
    # pass-through of values: boundary lattice, then random
    b16 = [0, 1, 2, 255, 256, 65534, 65535]
    for s in b16:
        for c in b16:
            if c >= 1 and s + c <= 65536:
                yield f"ffi tab range {s} {c}"
    for i in b16:
        yield f"ffi tab bit {i} 0"
        yield f"ffi tab bit {i} 1"
        for v in b16:
            yield f"ffi tab reg {i} {v}"
    for u in (0, 1, 127, 247, 254, 255):
        for ms in (0, 1, 999, 1000, 60000, 4294967295, 18446744073709):
            yield f"ffi tab rparam {u} {ms}"
    for mn, mx in itertools.product((0, 1, 1000, 2000, 60000, 18446744073709), repeat=2):
        yield f"ffi tab retry {mn} {mx} ffffffdfrffd"
    for _ in range(n):
        k = r.below(5)
        if k == 0:
            s = r.below(65536)
            c = r.rng(1, 65536 - s)
            yield f"ffi tab range {s} {min(c, 65535)}"
        elif k == 1:
            yield f"ffi tab reg {r.below(65536)} {r.below(65536)}"
        elif k == 2:
            yield f"ffi tab rparam {r.below(256)} {r.pick([r.below(100000), r.below(1 << 40)])}"
        elif k == 3:
            ops = "".join(r.pick("fffdr") for _ in range(r.rng(1, 24)))
            yield f"ffi tab retry {r.pick([r.below(5000), r.below(1 << 34)])} {r.pick([r.below(5000), r.below(1 << 34)])} {ops}"
        else:
            yield f"ffi tab bit {r.below(65536)} {r.below(2)}"


# ---------------------------------------------------------------- ffi wres

def gen_ffi_wres(r, n, tier):
    """all four write callbacks x every WriteResult value (exhaustive; n is ignored)"""
    for op in WRITES:
        yield f"ffi wres {op} ok"
        # success with an `exception` field that is not an enumerator (zero-initialised struct in C)
        for k in (0, 7, 9, 99, 256, -1):
            yield f"ffi wres {op} ok{k}"
        yield f"ffi wres {op} null"
        for e in MEXC:
            yield f"ffi wres {op} e{e}"
        raws = range(256) if tier == "thorough" else [0, 1, 2, 3, 4, 5, 6, 7, 8, 9, 10, 11, 12, 127, 128, 200, 254, 255]
        for b in raws:
            yield f"ffi wres {op} raw{b}"


# ---------------------------------------------------------------- ffi op

def _bits(r, k):
    return "".join(str(r.below(2)) for _ in range(k))


def _regs(r, k):
    return "/".join(str(r.pick([0, 1, 65535, r.below(65536)])) for _ in range(k))


def gen_ffi_op(r, n, tier):
    """eight operations x every outcome the harness can provoke"""
    # submissions that fail at once, runtime-decided outcomes: every operation
    for op in OPS:
        for scen in ("zero", "overflow", "toolarge", "emptylist", "nulllist", "nullchan"):
            if scen in ("zero",) and op not in READS:
                continue
            if scen == "overflow" and op in ("wc", "wr"):
                continue
            if scen == "toolarge" and op in ("wc", "wr"):
                continue
            if scen in ("emptylist", "nulllist") and op not in ("wC", "wR"):
                continue
            yield f"ffi op {op} {scen}"
        for scen in ("timeout", "badresp", "badframe", "ioerr", "disabled", "refused", "destroy", "rtdrop"):
            yield f"ffi op {op} {scen}"
        yield f"ffi op {op} qfull"
    # every exception code through a scripted peer
    for op in OPS:
        codes = range(256) if tier == "thorough" else list(range(0, 13)) + [127, 128, 129, 200, 254, 255]
        for b in codes:
            yield f"ffi op {op} peerexc {b}"
    # unit ids
    for op in READS:
        for u in (1, 2, 3, 4) + ((0, 5, 9, 247, 255) if tier == "thorough" else (9, 255)):
            yield f"ffi op {op} unit {u}"
    # reads and writes against the 4 x 100 points of unit 1: boundaries
    for op in READS:
        lim = 2000 if op in ("rc", "rd") else 125
        for s, c in [(0, 1), (0, 100), (99, 1), (99, 2), (100, 1), (0, 101), (50, 50), (50, 51), (0, lim), (0, lim + 1),
                     (65535, 1), (65535, 2), (65534, 2), (0, 0), (7, 9), (8, 8), (1, 16), (0, 17)]:
            yield f"ffi op {op} read {s} {c}"
    for i in (0, 1, 50, 99, 100, 65535):
        for v in (0, 1):
            yield f"ffi op wc write {i} {v}"
        for v in (0, 1, 65535, 4660):
            yield f"ffi op wr write {i} {v}"
    for s, k in [(0, 1), (0, 8), (0, 9), (92, 8), (95, 8), (99, 1), (99, 2), (100, 1), (3, 17), (0, 100)]:
        yield f"ffi op wC write {s} {_bits(r, k)}"
        yield f"ffi op wR write {s} {_regs(r, k)}"
    yield "ffi op wC write 0 n1968"
    yield "ffi op wR write 0 n123"
    for _ in range(n):
        op = r.pick(OPS)
        if op in READS:
            s = r.pick([r.below(110), r.below(100), r.below(65536)])
            c = r.pick([r.rng(1, 20), r.rng(1, 130), r.rng(0, 2100)])
            yield f"ffi op {op} read {s} {c}"
        elif op == "wc":
            yield f"ffi op wc write {r.pick([r.below(100), r.below(120), r.below(65536)])} {r.below(2)}"
        elif op == "wr":
            yield f"ffi op wr write {r.pick([r.below(100), r.below(120), r.below(65536)])} {r.below(65536)}"
        elif op == "wC":
            yield f"ffi op wC write {r.pick([r.below(100), r.below(110)])} {_bits(r, r.rng(1, 40))}"
        else:
            yield f"ffi op wR write {r.pick([r.below(100), r.below(110)])} {_regs(r, r.rng(1, 20))}"
    # caller-owned objects re-used across calls; control functions and constructors (part of C18)
    extra = 30 if tier != "thorough" else 300
    yield from gen_ffi_reuse(r, extra, tier)
    yield from gen_ffi_ctl(r, extra, tier)


# ---------------------------------------------------------------- ffi db

def _db_op(r, idx):
    t = r.below(4)
    i = r.pick(idx)
    k = r.below(10)
    val = r.below(2) if t < 2 else r.pick([0, 1, 65535, r.below(65536)])
    if k < 3:
        return f"a{t}.{i}.{val}"
    if k < 5:
        return f"u{t}.{i}.{val}"
    if k < 7:
        return f"d{t}.{i}"
    if k < 8:
        return f"g{t}.{i}"
    s = r.pick(idx)
    return f"r{t}.{s}.{r.rng(1, 4)}"


def gen_ffi_db(r, n, tier):
    """add/update/delete/get over four point types and a small index set, interleaved with reads"""
    yield "ffi db -"
    # exhaustive: every sequence of length <= 3 over one index of one table (+ get after each)
    base = ["a2.1.7", "u2.1.9", "d2.1", "g2.1", "r2.1.1"]
    for k in (1, 2, 3):
        for seq in itertools.product(base, repeat=k):
            yield "ffi db " + ",".join(seq)
    # exhaustive: every sequence of length <= 4 over add (two different values), update and delete of
    # one index, then what a get and a client read see (an add on a present point must not change it)
    ops4 = ["a2.1.7", "a2.1.8", "u2.1.9", "d2.1"]
    for k in (1, 2, 3, 4):
        for seq in itertools.product(ops4, repeat=k):
            yield "ffi db " + ",".join(seq) + ",g2.1,r2.1.1"
    for t in (0, 1, 3):
        v1, v2 = (1, 0) if t < 2 else (7, 8)
        yield f"ffi db a{t}.65535.{v1},a{t}.65535.{v2},g{t}.65535,u{t}.65535.{v2},a{t}.65535.{v1},g{t}.65535,r{t}.65535.1"
    # the same op on every table: independence of the four maps
    for t in range(4):
        others = [x for x in range(4) if x != t]
        v = 1 if t < 2 else 4242
        yield f"ffi db a{t}.3.{v}," + ",".join(f"g{o}.3" for o in others) + f",g{t}.3," + ",".join(f"r{o}.3.1" for o in others) + f",r{t}.3.1"
        yield f"ffi db " + ",".join(f"a{o}.3.1" for o in range(4)) + f",d{t}.3," + ",".join(f"g{o}.3" for o in range(4))
    # reads crossing absent points / boundaries
    yield "ffi db a2.0.1,a2.1.2,a2.3.4,r2.0.2,r2.0.3,r2.0.4,r2.1.1,r2.2.1,r2.3.1,r2.2.2"
    yield "ffi db a0.65535.1,r0.65535.1,g0.65535,r0.65534.2,d0.65535,r0.65535.1"
    yield "ffi db a3.5.9,r3.5.0,r3.65535.2,r3.5.126,r1.5.2001"
    idx_small = [0, 1, 2, 3]
    idx_wide = [0, 1, 2, 3, 7, 8, 255, 256, 65534, 65535]
    for _ in range(n):
        idx = idx_small if r.chance(3, 4) else idx_wide
        k = r.rng(1, 30 if tier == "thorough" else 16)
        yield "ffi db " + ",".join(_db_op(r, idx) for _ in range(k))
    # successive transactions on one database, one callback value for several transactions (C19)
    yield from gen_ffi_reuse_db(r, 30 if tier != "thorough" else 600, tier)


def gen_ffi_atomic(r, n, tier):
    """thread stress (thorough tier): n is ignored"""
    if tier == "thorough":
        for regs, ntx, reads, threads in [(125, 3000, 1500, 4), (64, 3000, 1500, 2), (2, 5000, 2000, 8), (125, 1500, 1500, 1)]:
            yield f"ffi atomic {regs} {ntx} {reads} {threads}"
    else:
        yield "ffi atomic 100 300 150 3"
    # flagged cases (both tiers, ~0.5 s each; the transactions run until the reads are done):
    # d = server decodes app + frame meanwhile, w = disjoint writers (one counter per thread
    # incremented inside the transactions + a client writing another register)
    yield "ffi atomic 100 1000000 250 3 dw"
    yield "ffi atomic 125 1000000 200 2 d"
    yield "ffi atomic 16 1000000 200 4 w"
    yield "ffi atomic 100 1000000 200 1 w"
    # a = all four point types: transactions set coils, discrete inputs, holding and input registers to
    # one common value, the reads rotate over the four read functions
    yield "ffi atomic 100 1000000 240 3 a"
    yield "ffi atomic 125 1000000 200 2 da"
    if tier == "thorough":
        yield "ffi atomic 64 1000000 600 4 dw"
        yield "ffi atomic 2 1000000 600 8 dw"


# ---------------------------------------------------------------- ffi reuse / ffi ctl

def _hx(s):
    return hx(s.encode("utf-8"))


def gen_ffi_reuse(r, n, tier):
    """caller-owned objects handed to several calls (C18): one list object written two or three
    times, one callback struct / RequestParam for several calls, one filter object for two servers,
    one device map for three servers.  `n` = number of random cases."""
    # one BitList / RegisterList, several writes: every length 1..3 x start patterns (disjoint,
    # repeated, overlapping, failing first / in the middle / last, address overflow in between)
    starts = ["2,6", "2,6,10", "5,5", "5,6", "6,5", "97,2", "2,99,2", "65535,3", "3,65535,3", "0,50,96", "10,2", "98,99,100"]
    for vals in ("51966/48879", "7", "1/2/3/4", "0/65535/0"):
        for st in starts:
            yield f"ffi reuse list wR {vals} {st}"
    for vals in ("101", "1", "0110", "00"):
        for st in starts:
            yield f"ffi reuse list wC {vals} {st}"
    yield "ffi reuse list wR - 3,4"
    yield "ffi reuse list wC - 3,4"
    yield "ffi reuse list wR n 3"          # malformed: both sides answer bad-case
    # one callback struct value + one RequestParam value for several calls
    for op in OPS:
        for variants in ("dd", "ddd", "dzd", "dnd", "zdn", "nnd"):
            yield f"ffi reuse cb {op} {variants}"
    # one filter object, two servers, an address added in between
    for f in ("any", _hx("127.0.0.1"), _hx("127.0.0.*"), _hx("127.0.0.9")):
        for add in ("-", _hx("127.0.0.2"), _hx("127.0.0.1"), _hx("x")):
            for peer in ("127.0.0.1", "127.0.0.2"):
                yield f"ffi reuse filter {f} {add} {peer}"
    yield f"ffi reuse filter {_hx('bad')} - 127.0.0.1"
    # one device map, three servers
    for units, unit in (("1,2", 1), ("1,2", 2), ("1,2", 3), ("1,2,1", 1), ("-", 1), ("7", 7), ("255,0", 0)):
        yield f"ffi reuse map {units} {unit}"
    for _ in range(n):
        k = r.below(4)
        if k == 0:
            cnt = r.rng(1, 8)
            st = ",".join(str(r.pick([r.below(90), r.below(90), r.rng(88, 104)])) for _ in range(r.rng(2, 4)))
            yield f"ffi reuse list wR {_regs(r, cnt)} {st}"
        elif k == 1:
            cnt = r.rng(1, 12)
            st = ",".join(str(r.pick([r.below(90), r.below(90), r.rng(88, 104)])) for _ in range(r.rng(2, 4)))
            yield f"ffi reuse list wC {_bits(r, cnt)} {st}"
        elif k == 2:
            yield f"ffi reuse cb {r.pick(OPS)} " + "".join(r.pick("dddzn") for _ in range(r.rng(2, 6)))
        else:
            peer = r.pick(["127.0.0.1", "127.0.0.2", "127.1.2.3"])
            f = ".".join(x if r.chance(1, 2) else "*" for x in peer.split("."))
            add = r.pick(["-", _hx("127.0.0.1"), _hx("127.1.2.3"), _hx("::1")])
            yield f"ffi reuse filter {_hx(r.pick([f, '127.0.0.1', '127.0.0.2']))} {add} {peer}"


def gen_ffi_reuse_db(r, n, tier):
    """C19: one database, successive transactions (`c` = transaction boundary); one
    DatabaseCallback value for several transactions"""
    ops4 = ["a2.1.7", "a2.1.8", "u2.1.9", "d2.1"]
    for k in (2, 3):
        for seq in itertools.product(ops4, repeat=k):
            yield "ffi db " + ",c,".join(seq) + ",c,g2.1,r2.1.1"
    yield "ffi db c"
    yield "ffi db c,c,a0.1.1,c,c,g0.1,c"
    yield "ffi db a3.2.5,c,r3.2.1,c,u3.2.6,c,r3.2.1,d3.2,c,r3.2.1"
    for k in (0, 1, 2, 3, 10, 50):
        for unit in (3, 4):
            yield f"ffi reuse tx {k} {unit}"
    yield "ffi reuse tx 2 1"
    yield "ffi reuse tx 1 2"
    yield "ffi reuse tx 3 9"
    yield "ffi reuse tx 2 null"
    yield "ffi reuse tx 0 null"
    for _ in range(n):
        idx = [0, 1, 2, 3]
        k = r.rng(2, 12)
        toks = []
        for _ in range(k):
            toks.append(_db_op(r, idx))
            if r.chance(1, 2):
                toks.append("c")
        yield "ffi db " + ",".join(toks)


def gen_ffi_ctl(r, n, tier):
    """control functions and constructors that no other suite reaches (C18 / C19): decode levels,
    enable / disable, serial and TLS constructors (error paths), device map, transactions on unknown
    units, iterators, null objects.  `n` = number of random cases."""
    for a, f, p in itertools.product(range(4), range(3), range(3)):
        yield f"ffi ctl cdecode {a} {f} {p} world"
        yield f"ffi ctl sdecode {a} {f} {p} world"
    for a, f, p in ((0, 0, 0), (3, 2, 2)):
        for t in ("tmp", "null", "dead"):
            yield f"ffi ctl cdecode {a} {f} {p} {t}"
        for t in ("null", "async"):
            yield f"ffi ctl sdecode {a} {f} {p} {t}"
    yield "ffi ctl cdecode 4 0 0 world"    # not a level: bad-case on both sides
    for script in ("r", "er", "edr", "eder", "rerdrer", "dr", "ddr", "eer", "ededer", "null"):
        yield f"ffi ctl endis {script}"
    for what in ("missing", "nullrt"):
        yield f"ffi ctl rtucli {what}"
    for what in ("missing", "nullrt", "nullmap"):
        yield f"ffi ctl rtusrv {what}"
    cli = ["ok", "ca", "wilddns", "nopeer", "nolocal", "nokey", "keyiscert", "peeriskey", "canopeer", "baddns", "stardns",
           "utf8peer", "utf8dns", "nullrt"]
    for scen in cli:
        yield f"ffi ctl tlscli {scen}"
    srv = ["ok", "ca", "nopeer", "nolocal", "nokey", "keyiscert", "peeriskey", "canopeer", "utf8peer", "nullrt", "nullfilter",
           "nullmap", "badip"]
    for variant in ("tls", "tlsauth"):
        for scen in srv:
            yield f"ffi ctl tlssrv {variant} {scen}"
    for scen in ("ok", "nullrt", "nullfilter", "nullmap", "badip", "inuse"):
        yield f"ffi ctl tcpsrv {scen}"
    for a, b in ((1, 1), (1, 2), (0, 0), (255, 255), (0, 255)):
        yield f"ffi ctl mapdup {a} {b}"
    yield "ffi ctl mapdup null"
    for u in (1, 2, 3, 4, 0, 5, 9, 255, "null"):
        yield f"ffi ctl txunit {u}"
    for op in READS:
        for s, c, take in ((0, 5, 3), (2, 3, 6), (2, 3, 0), (0, 1, 1), (99, 2, 3), (5, 0, 2), (0, 8, 8), (0, 8, 9), (99, 1, 2)):
            yield f"ffi ctl iter {op} {s} {c} {take}"
    yield "ffi ctl nullobj"
    for _ in range(n):
        k = r.below(3)
        if k == 0:
            yield "ffi ctl endis " + "".join(r.pick("eddrr") for _ in range(r.rng(1, 8)))
        elif k == 1:
            s = r.below(100)
            c = r.rng(1, min(20, 100 - s))
            yield f"ffi ctl iter {r.pick(READS)} {s} {c} {r.rng(0, c + 3)}"
        else:
            yield f"ffi ctl mapdup {r.below(256)} {r.below(256)}"


# ---------------------------------------------------------------- ffi flt / fltadd / fnet

def _filter_string(r):
    """grammar-aware strings around IPv4 literals and wildcards"""
    def field():
        k = r.below(12)
        if k < 4:
            return str(r.below(256))
        if k < 6:
            return "*"
        return r.pick(["0", "255", "256", "00", "01", "001", "+1", "-1", "", "1000", "2 5", "**", "x", "1e1", "0x1", " 1", "1 "])
    nf = r.pick([4, 4, 4, 4, 3, 5])
    s = ".".join(field() for _ in range(nf))
    if r.chance(1, 12):
        s = s.replace(".", r.pick([":", "..", ",", "/"]), 1)
    return s.encode("utf-8")


V6 = ["::", "::1", "1::", "fe80::1", "::ffff:127.0.0.1", "1:2:3:4:5:6:7:8", "1:2:3:4:5:6:7::", "::2:3:4:5:6:7:8",
      "1:2:3:4:5:6:7:8:9", "1::2::3", "12345::", "::1.2.3.4", "1:2:3:4:5:6:1.2.3.4", "1:2:3:4:5:6:7:1.2.3.4", ":::", "::g",
      "1:2:3:4:5:6:7", "fe80::1%eth0", "[::1]", "::01.2.3.4", "0:0:0:0:0:0:0:1", "::0001", "::00001", "A:b:C:d::"]


def gen_ffi_flt(r, n, tier):
    fixed = ["127.0.0.1", "127.0.0.*", "*.*.*.*", "0.0.0.0", "255.255.255.255", "256.1.1.1", "01.2.3.4", "1.2.3.04", "1.2.3",
             "1.2.3.4.5", "", " ", "1.2.3.4 ", "+1.2.3.4", "1.+2.3.4", "localhost", "1.2.3.*", "*", "1.2.3.4*", "00.0.0.0",
             "000.0.0.0", "0000.0.0.0", "1..2.3", "...", "٣.1.1.1", "127.0.0.1é"] + V6
    for f in fixed:
        yield f"ffi flt {hx(f.encode('utf-8'))}"
    yield "ffi flt 3132372e302e302eff"  # invalid UTF-8
    yield "ffi flt 3132372e302e302e3100"  # embedded NUL
    for _ in range(n):
        yield f"ffi flt {hx(_filter_string(r))}"
    # fltadd: every kind of base filter x addresses
    bases = ["any", hx(b"127.0.0.1"), hx(b"127.0.0.*"), hx(b"::1"), hx(b"bad")]
    adds = ["127.0.0.1", "127.0.0.2", "127.0.0.*", "::1", "::2", "01.2.3.4", "x", "", "0:0:0:0:0:0:0:1"]
    for b in bases:
        for a in adds:
            yield f"ffi fltadd {b} {hx(a.encode())}"


def gen_ffi_fnet(r, n, tier):
    """which peers each server variant created through the C ABI serves (real loopback)"""
    peers = ["127.0.0.1", "127.0.0.2", "127.1.2.3"]
    filters = ["any", "127.0.0.1", "127.0.0.2", "127.0.0.9", "127.*.*.*", "127.0.0.*", "127.1.*.3", "*.*.*.1", "128.*.*.*", "::1"]
    variants = ["tcp", "tls", "tlsauth"]
    for v in variants:
        for f in filters:
            for p in peers:
                if tier != "thorough" and v != "tcp" and f in ("127.*.*.*", "*.*.*.1", "128.*.*.*") and p != "127.0.0.1":
                    continue
                ftok = f if f == "any" else hx(f.encode())
                yield f"ffi fnet {v} {ftok} {p}"
    yield f"ffi fnet tcp {hx(b'not-a-filter')} 127.0.0.1"
    for _ in range(min(n, 40 if tier != "thorough" else 400)):
        p = r.pick(peers)
        parts = p.split(".")
        w = ".".join(x if r.chance(1, 2) else r.pick(["*", str(r.below(256))]) for x in parts)
        yield f"ffi fnet {r.pick(variants)} {hx(w.encode())} {p}"


FFI_SUITES = {
    "ffi_tab": gen_ffi_tab,
    "ffi_wres": gen_ffi_wres,
    "ffi_op": gen_ffi_op,
    "ffi_db": gen_ffi_db,
    "ffi_atomic": gen_ffi_atomic,
    "ffi_reuse": gen_ffi_reuse,
    "ffi_reuse_db": gen_ffi_reuse_db,
    "ffi_ctl": gen_ffi_ctl,
    "ffi_flt": gen_ffi_flt,
    "ffi_fnet": gen_ffi_fnet,
}


def generate(suite, seed, n, tier):
    r = Rng(seed, suite)
    return list(FFI_SUITES[suite](r, n, tier))


if __name__ == "__main__":
    import sys
    suite, seed, n = sys.argv[1], int(sys.argv[2]), int(sys.argv[3])
    tier = sys.argv[4] if len(sys.argv) > 4 else "quick"
    for line in generate(suite, seed, n, tier):
        print(line)
