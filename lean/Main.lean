import Driver
def main : IO Unit := do
  Rodbus.Driver.loop (← IO.getStdin) (← IO.getStdout)
