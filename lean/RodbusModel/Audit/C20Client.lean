import RodbusModel.Props.C20Client
/-! axiom audit of every property theorem of Props/C20Client -/
#print axioms Rodbus.Client.decode_noninterference_client
#print axioms Rodbus.Client.decode_noninterference_states
#print axioms Rodbus.Client.level_change_content_irrelevant
#print axioms Rodbus.Client.erase_keeps
#print axioms Rodbus.Client.level_change_is_a_queued_command
#print axioms Rodbus.Client.level_change_transparent_client_partial
#print axioms Rodbus.Client.level_change_refused_when_full
#print axioms Rodbus.Client.run_congr
#print axioms Rodbus.Client.step_setDecode_quiescent
