import RodbusModel.Lemmas.Client
/-
  Invariants of the client task model, proved on the abstract transition system of
  Lemmas/Client.lean (`Reach`, `TEff`, `UEff`).
-/
namespace Rodbus.Client

theorem Reach.induct {P : Core → Prop} (h0 : ∀ m, P (Core.init m))
    (ht : ∀ c c', P c → TEff c c' → P c') (hu : ∀ c c', P c → UEff c c' → P c') :
    ∀ c, Reach c → P c := by
  intro c ⟨m, hs⟩
  induction hs with
  | refl => exact h0 m
  | tail _ e ih =>
    cases e with
    | inl e => exact ht _ _ ih e
    | inr e => exact hu _ _ ih e

/-! ### log and queue bookkeeping -/

@[simp] theorem doneIds_doneEntry (c : Core) (r : Req) (res : Res) (l : List LogEntry) :
    doneIds (doneEntry c r res :: l) = r.rid :: doneIds l := rfl

theorem doneIds_cons_of_not_done (e : LogEntry) (l : List LogEntry) (h : e.isDone = false) :
    doneIds (e :: l) = doneIds l := by
  cases e <;> simp_all [doneIds, LogEntry.isDone]

@[simp] theorem doneIds_fin (k : EndKind) (t : Nat) (l : List LogEntry) :
    doneIds (.fin k t :: l) = doneIds l := rfl

@[simp] theorem doneIds_tx (b : Bytes) (l : List LogEntry) : doneIds (.tx b :: l) = doneIds l := rfl

theorem doneIds_append (a b : List LogEntry) : doneIds (a ++ b) = doneIds a ++ doneIds b := by
  induction a with
  | nil => rfl
  | cons e a ih => cases e <;> simp [doneIds, ih]

theorem doneIds_of_not_done (a : List LogEntry) (h : ∀ e ∈ a, e.isDone = false) :
    doneIds a = [] := by
  induction a with
  | nil => rfl
  | cons e a ih =>
    rw [doneIds_cons_of_not_done e a (h e (by simp))]
    exact ih (fun x hx => h x (by simp [hx]))

theorem doneIds_shutdownEntries (c : Core) (rs : List Req) :
    doneIds (shutdownEntries c rs) = (rs.map (·.rid)).reverse := by
  unfold shutdownEntries
  induction rs with
  | nil => rfl
  | cons r rs ih =>
    simp only [List.map_cons, List.reverse_cons, doneIds_append, ih]
    rfl

theorem queueIds_cons_req (r : Req) (q : List Cmd) : queueIds (.req r :: q) = r.rid :: queueIds q :=
  rfl

theorem queueIds_cons_other (x : Cmd) (q : List Cmd) (h : x.isReq = false) :
    queueIds (x :: q) = queueIds q := by
  cases x <;> simp_all [queueIds, reqsOf, Cmd.isReq]

theorem reqsOf_append (a b : List Cmd) : reqsOf (a ++ b) = reqsOf a ++ reqsOf b := by
  induction a with
  | nil => rfl
  | cons c cs ih => cases c <;> simp [reqsOf, ih]

theorem queueIds_append (a b : List Cmd) : queueIds (a ++ b) = queueIds a ++ queueIds b := by
  simp [queueIds, reqsOf_append]

theorem queueIds_snoc_req (q : List Cmd) (r : Req) : queueIds (q ++ [.req r]) = queueIds q ++ [r.rid] := by
  rw [queueIds_append]; rfl

theorem queueIds_snoc_other (q : List Cmd) (x : Cmd) (h : x.isReq = false) :
    queueIds (q ++ [x]) = queueIds q := by
  rw [queueIds_append, queueIds_cons_other x [] h]; simp [queueIds, reqsOf]

theorem inflightIds_eq_map (p : Pos) : inflightIds p = (inflightReqsOf p).map (·.rid) := by
  cases p <;> rfl

/-- what `afterCore` leaves alone -/
theorem afterCore_parts (c : Core) (m : Nat) (res : Res) :
    doneIds (afterCore c m res).log = doneIds c.log ∧ (afterCore c m res).queue = c.queue
      ∧ inflightIds (afterCore c m res).pos = [] ∧ (afterCore c m res).accepted = c.accepted
      ∧ (afterCore c m res).tx = c.tx ∧ (afterCore c m res).dequeued = c.dequeued
      ∧ (afterCore c m res).sent = c.sent ∧ (afterCore c m res).alive = c.alive
      ∧ (afterCore c m res).now = c.now ∧ (afterCore c m res).maxTo = c.maxTo := by
  unfold afterCore
  split
  · simp [inflightIds]
  · split
    · split
      · simp [inflightIds]
      · split <;> simp [inflightIds]
    · simp [inflightIds]

/-! ### C10: every accepted request is accounted for exactly once -/

/-- per request id: completions + queued + in flight = accepted submissions -/
def Bal (c : Core) : Prop :=
  ∀ rid, (doneIds c.log).count rid + (queueIds c.queue).count rid + (inflightIds c.pos).count rid
    = c.accepted.count rid

theorem bal_init (m : Nat) : Bal (Core.init m) := by
  intro rid; simp [Core.init, doneIds, queueIds, reqsOf, inflightIds]

theorem bal_teff (c c' : Core) (hb : Bal c) (e : TEff c c') : Bal c' := by
  intro rid
  have := hb rid
  cases e with
  | quiet => exact this
  | commit dl ha hp => simpa [inflightIds, hp] using this
  | startSession m ha hp => simpa [inflightIds, hp] using this
  | startWait ha hp => simpa [inflightIds, hp] using this
  | startFail ms ha hp => simpa [inflightIds, hp] using this
  | phaseEnd k ha hi hn => rw [hi] at this; simpa [inflightIds] using this
  | phaseEndCmd k x q ha hi hn hq hx =>
    rw [hq, queueIds_cons_other x q hx, hi] at this
    simpa [inflightIds] using this
  | setting x q ha hi hn hq hx =>
    rw [hq, queueIds_cons_other x q hx] at this
    simpa using this
  | noConn r q ha hp hq =>
    rw [hq, queueIds_cons_req] at this
    simp [List.count_cons] at this ⊢
    omega
  | send m r q bytes logged ha hp hq =>
    rw [hq, queueIds_cons_req, hp] at this
    cases logged <;> simp [List.count_cons, inflightIds] at this ⊢ <;> omega
  | dequeueFail m r q res ha hp hq hres =>
    obtain ⟨p1, p2, p3, p4, _⟩ := afterCore_parts
      { c with queue := q, tx := nextTx c.tx, dequeued := (r.rid, c.tx) :: c.dequeued,
               log := doneEntry c r res :: c.log } m res
    rw [p1, p2, p3, p4]
    rw [hq, queueIds_cons_req, hp] at this
    simp [List.count_cons, inflightIds] at this ⊢
    omega
  | finish m r tx dl res ha hp ht h1 h2 =>
    obtain ⟨p1, p2, p3, p4, _⟩ := afterCore_parts { c with log := doneEntry c r res :: c.log } m res
    rw [p1, p2, p3, p4]
    rw [hp] at this
    simp [List.count_cons, inflightIds] at this ⊢
    omega
  | time t h1 h2 => exact this

theorem bal_ueff (c c' : Core) (hb : Bal c) (e : UEff c c') : Bal c' := by
  intro rid
  have := hb rid
  cases e with
  | quiet => exact this
  | note e he => simpa [doneIds_cons_of_not_done e c.log he] using this
  | acceptDone r res extra hex hres =>
    simp [doneIds_append, doneIds_of_not_done extra hex, List.count_cons] at this ⊢
    omega
  | acceptQueue r ha =>
    simp [queueIds_snoc_req, List.count_cons, List.count_append] at this ⊢
    omega
  | enqueueCmd x ha hx => simpa [queueIds_snoc_other c.queue x hx] using this
  | abort ha =>
    rw [inflightIds_eq_map] at this
    simp [doneIds_append, doneIds_shutdownEntries, List.count_append, inflightIds, queueIds, reqsOf]
      at this ⊢
    omega

theorem bal_reach (c : Core) (h : Reach c) : Bal c :=
  Reach.induct bal_init bal_teff bal_ueff c h


/-! ### the task is gone ⇒ nothing is pending; the clock never passes a live deadline -/

def Tidy (c : Core) : Prop :=
  (c.alive = false → c.queue = [] ∧ c.pos = .noPhase)
    ∧ ∀ m r tx dl, c.pos = .inflight m r tx dl → c.now ≤ dl

theorem afterCore_pos (c : Core) (m : Nat) (res : Res) :
    (afterCore c m res).pos = .noPhase ∨ (afterCore c m res).pos = .idle m := by
  unfold afterCore
  split
  · simp
  · split
    · split
      · simp
      · split <;> simp
    · simp

theorem afterCore_not_inflight (c : Core) (m : Nat) (res : Res) (m' : Nat) (r' : Req)
    (tx' dl' : Nat) : (afterCore c m res).pos ≠ .inflight m' r' tx' dl' := by
  rcases afterCore_pos c m res with h | h <;> rw [h] <;> simp

theorem tidy_init (m : Nat) : Tidy (Core.init m) := by
  simp [Tidy, Core.init]

theorem tidy_teff (c c' : Core) (hb : Tidy c) (e : TEff c c') : Tidy c' := by
  obtain ⟨h1, h2⟩ := hb
  cases e with
  | quiet => exact ⟨h1, h2⟩
  | commit dl ha hp => simp [Tidy, ha]
  | startSession m ha hp => simp [Tidy, ha]
  | startWait ha hp => simp [Tidy, ha]
  | startFail ms ha hp => simp [Tidy, ha]
  | phaseEnd k ha hi hn => simp [Tidy, ha]
  | phaseEndCmd k x q ha hi hn hq hx => simp [Tidy, ha]
  | setting x q ha hi hn hq hx => exact ⟨by simp [ha], h2⟩
  | noConn r q ha hp hq => exact ⟨by simp [ha], h2⟩
  | send m r q bytes logged ha hp hq =>
    refine ⟨by simp [ha], ?_⟩
    intro m' r' tx' dl' h
    simp at h
    obtain ⟨_, _, _, h4⟩ := h
    simp; omega
  | dequeueFail m r q res ha hp hq hres =>
    obtain ⟨_, _, _, _, _, _, _, p8, p9, _⟩ := afterCore_parts
      { c with queue := q, tx := nextTx c.tx, dequeued := (r.rid, c.tx) :: c.dequeued,
               log := doneEntry c r res :: c.log } m res
    refine ⟨by rw [p8]; simp [ha], ?_⟩
    intro m' r' tx' dl' h
    exact absurd h (afterCore_not_inflight _ _ _ _ _ _ _)
  | finish m r tx dl res ha hp ht h3 h4 =>
    obtain ⟨_, _, _, _, _, _, _, p8, p9, _⟩ :=
      afterCore_parts { c with log := doneEntry c r res :: c.log } m res
    refine ⟨by rw [p8]; simp [ha], ?_⟩
    intro m' r' tx' dl' h
    exact absurd h (afterCore_not_inflight _ _ _ _ _ _ _)
  | time t ht1 ht2 =>
    refine ⟨h1, ?_⟩
    intro m r tx dl hp
    have hp' : c.pos = .inflight m r tx dl := hp
    have hal : c.alive = true := by
      cases hc : c.alive
      · have := (h1 hc).2; rw [this] at hp'; cases hp'
      · rfl
    have := ht2 dl (by simp [Core.timer, hal, hp']) (h2 m r tx dl hp')
    exact this

theorem tidy_ueff (c c' : Core) (hb : Tidy c) (e : UEff c c') : Tidy c' := by
  obtain ⟨h1, h2⟩ := hb
  cases e with
  | quiet => exact ⟨h1, h2⟩
  | note e he => exact ⟨h1, h2⟩
  | acceptDone r res extra hex hres => exact ⟨h1, h2⟩
  | acceptQueue r ha => exact ⟨by simp [ha], h2⟩
  | enqueueCmd x ha hx => exact ⟨by simp [ha], h2⟩
  | abort ha => simp [Tidy]

theorem tidy_reach (c : Core) (h : Reach c) : Tidy c :=
  Reach.induct tidy_init tidy_teff tidy_ueff c h

/-! ### C11: order of transmission and transaction ids -/

/-- requests are taken from the queue in submission order, and what is written is a subsequence of
    what was taken (all lists newest first) -/
def Fifo (c : Core) : Prop :=
  List.Sublist (c.sent.map fun x => (x.1, x.2.1)) c.dequeued
    ∧ List.Sublist ((queueIds c.queue).reverse ++ c.dequeued.map (·.1)) c.accepted

theorem fifo_init (m : Nat) : Fifo (Core.init m) := by
  simp [Fifo, Core.init, queueIds, reqsOf]

theorem fifo_teff (c c' : Core) (hb : Fifo c) (e : TEff c c') : Fifo c' := by
  obtain ⟨h1, h2⟩ := hb
  cases e with
  | quiet => exact ⟨h1, h2⟩
  | commit dl ha hp => exact ⟨h1, h2⟩
  | startSession m ha hp => exact ⟨h1, h2⟩
  | startWait ha hp => exact ⟨h1, h2⟩
  | startFail ms ha hp => exact ⟨h1, h2⟩
  | phaseEnd k ha hi hn => exact ⟨h1, h2⟩
  | phaseEndCmd k x q ha hi hn hq hx =>
    rw [hq, queueIds_cons_other x q hx] at h2; exact ⟨h1, h2⟩
  | setting x q ha hi hn hq hx =>
    rw [hq, queueIds_cons_other x q hx] at h2; exact ⟨h1, h2⟩
  | noConn r q ha hp hq =>
    rw [hq, queueIds_cons_req] at h2
    refine ⟨h1, List.Sublist.trans ?_ h2⟩
    simp only [List.reverse_cons, List.append_assoc]
    exact List.Sublist.append (List.Sublist.refl _) (by simp)
  | send m r q bytes logged ha hp hq =>
    rw [hq, queueIds_cons_req] at h2
    refine ⟨by simpa using h1, ?_⟩
    simpa [List.reverse_cons, List.append_assoc] using h2
  | dequeueFail m r q res ha hp hq hres =>
    obtain ⟨_, p2, _, p4, _, p6, p7, _⟩ := afterCore_parts
      { c with queue := q, tx := nextTx c.tx, dequeued := (r.rid, c.tx) :: c.dequeued,
               log := doneEntry c r res :: c.log } m res
    rw [hq, queueIds_cons_req] at h2
    unfold Fifo
    rw [p2, p4, p6, p7]
    refine ⟨List.Sublist.cons _ h1, ?_⟩
    simpa [List.reverse_cons, List.append_assoc] using h2
  | finish m r tx dl res ha hp ht h3 h4 =>
    obtain ⟨_, p2, _, p4, _, p6, p7, _⟩ :=
      afterCore_parts { c with log := doneEntry c r res :: c.log } m res
    unfold Fifo
    rw [p2, p4, p6, p7]
    exact ⟨h1, h2⟩
  | time t ht1 ht2 => exact ⟨h1, h2⟩

theorem fifo_ueff (c c' : Core) (hb : Fifo c) (e : UEff c c') : Fifo c' := by
  obtain ⟨h1, h2⟩ := hb
  cases e with
  | quiet => exact ⟨h1, h2⟩
  | note e he => exact ⟨h1, h2⟩
  | acceptDone r res extra hex hres => exact ⟨h1, List.Sublist.cons _ h2⟩
  | acceptQueue r ha =>
    refine ⟨h1, ?_⟩
    simp only [queueIds_snoc_req, List.reverse_append, List.reverse_cons, List.reverse_nil,
      List.nil_append, List.cons_append]
    exact List.Sublist.cons_cons _ h2
  | enqueueCmd x ha hx =>
    refine ⟨h1, ?_⟩
    simp only [queueIds_snoc_other c.queue x hx]; exact h2
  | abort ha =>
    refine ⟨h1, List.Sublist.trans ?_ h2⟩
    simp [queueIds, reqsOf]

theorem fifo_reach (c : Core) (h : Reach c) : Fifo c :=
  Reach.induct fifo_init fifo_teff fifo_ueff c h

/-- the tx ids drawn so far, oldest first, are 0, 1, 2, … modulo 65536, and the counter holds the
    next one -/
def TxSeq (c : Core) : Prop :=
  c.tx = c.dequeued.length % 65536
    ∧ c.dequeued.reverse.map (·.2) = (List.range c.dequeued.length).map (· % 65536)

theorem nextTx_mod (n : Nat) : nextTx (n % 65536) = (n + 1) % 65536 := by
  unfold nextTx; split <;> omega

theorem txSeq_push (c : Core) (rid : Rid) (h : TxSeq c) :
    nextTx c.tx = ((rid, c.tx) :: c.dequeued).length % 65536
      ∧ ((rid, c.tx) :: c.dequeued).reverse.map (·.2)
          = (List.range ((rid, c.tx) :: c.dequeued).length).map (· % 65536) := by
  obtain ⟨h1, h2⟩ := h
  refine ⟨by rw [h1, nextTx_mod]; simp, ?_⟩
  simp only [List.reverse_cons, List.map_append, h2, List.length_cons, List.range_succ,
    List.map_cons, List.map_nil, h1]

theorem txSeq_init (m : Nat) : TxSeq (Core.init m) := by
  simp [TxSeq, Core.init]

theorem txSeq_teff (c c' : Core) (hb : TxSeq c) (e : TEff c c') : TxSeq c' := by
  cases e with
  | quiet => exact hb
  | commit dl ha hp => exact hb
  | startSession m ha hp => exact hb
  | startWait ha hp => exact hb
  | startFail ms ha hp => exact hb
  | phaseEnd k ha hi hn => exact hb
  | phaseEndCmd k x q ha hi hn hq hx => exact hb
  | setting x q ha hi hn hq hx => exact hb
  | noConn r q ha hp hq => exact hb
  | send m r q bytes logged ha hp hq => exact txSeq_push c r.rid hb
  | dequeueFail m r q res ha hp hq hres =>
    obtain ⟨_, _, _, _, p5, p6, _⟩ := afterCore_parts
      { c with queue := q, tx := nextTx c.tx, dequeued := (r.rid, c.tx) :: c.dequeued,
               log := doneEntry c r res :: c.log } m res
    unfold TxSeq
    rw [p5, p6]
    exact txSeq_push c r.rid hb
  | finish m r tx dl res ha hp ht h3 h4 =>
    obtain ⟨_, _, _, _, p5, p6, _⟩ :=
      afterCore_parts { c with log := doneEntry c r res :: c.log } m res
    unfold TxSeq
    rw [p5, p6]
    exact hb
  | time t ht1 ht2 => exact hb

theorem txSeq_ueff (c c' : Core) (hb : TxSeq c) (e : UEff c c') : TxSeq c' := by
  cases e <;> exact hb

theorem txSeq_reach (c : Core) (h : Reach c) : TxSeq c :=
  Reach.induct txSeq_init txSeq_teff txSeq_ueff c h


/-! ### at most one request outstanding -/

/-- everything that was ever written has completed, except the request in flight -/
def Outstanding (c : Core) : Prop :=
  ∀ x ∈ c.sent, x.1 ∈ doneIds c.log ∨ x.1 ∈ inflightIds c.pos

theorem out_init (m : Nat) : Outstanding (Core.init m) := by
  simp [Outstanding, Core.init]

theorem out_teff (c c' : Core) (hb : Outstanding c) (e : TEff c c') : Outstanding c' := by
  cases e with
  | quiet => exact hb
  | commit dl ha hp => intro x hx; have := hb x hx; simpa [hp, inflightIds] using this
  | startSession m ha hp => intro x hx; have := hb x hx; simpa [hp, inflightIds] using this
  | startWait ha hp => intro x hx; have := hb x hx; simpa [hp, inflightIds] using this
  | startFail ms ha hp => intro x hx; have := hb x hx; simpa [hp, inflightIds] using this
  | phaseEnd k ha hi hn =>
    intro x hx; have := hb x hx; rw [hi] at this; simpa [inflightIds] using this
  | phaseEndCmd k x q ha hi hn hq hx =>
    intro y hy; have := hb y hy; rw [hi] at this; simpa [inflightIds] using this
  | setting x q ha hi hn hq hx => exact hb
  | noConn r q ha hp hq =>
    intro x hx; have := hb x hx
    rcases this with h | h
    · exact Or.inl (by simp [h])
    · exact Or.inr h
  | send m r q bytes logged ha hp hq =>
    intro x hx
    simp only [List.mem_cons] at hx
    rcases hx with rfl | hx
    · exact Or.inr (by simp [inflightIds])
    · have := hb x hx
      rw [hp] at this
      simp only [inflightIds, List.not_mem_nil, or_false] at this
      left
      cases logged <;> simp [this]
  | dequeueFail m r q res ha hp hq hres =>
    obtain ⟨p1, _, _, _, _, _, p7, _⟩ := afterCore_parts
      { c with queue := q, tx := nextTx c.tx, dequeued := (r.rid, c.tx) :: c.dequeued,
               log := doneEntry c r res :: c.log } m res
    intro x hx
    rw [p7] at hx
    have := hb x hx
    rw [hp] at this
    simp only [inflightIds, List.not_mem_nil, or_false] at this
    left; rw [p1]; simp [this]
  | finish m r tx dl res ha hp ht h3 h4 =>
    obtain ⟨p1, _, _, _, _, _, p7, _⟩ :=
      afterCore_parts { c with log := doneEntry c r res :: c.log } m res
    intro x hx
    rw [p7] at hx
    have := hb x hx
    rw [hp] at this
    left; rw [p1]
    simp only [inflightIds, List.mem_singleton] at this
    rcases this with h | h
    · simp [h]
    · simp [h]
  | time t ht1 ht2 => exact hb

theorem out_ueff (c c' : Core) (hb : Outstanding c) (e : UEff c c') : Outstanding c' := by
  cases e with
  | quiet => exact hb
  | note e he =>
    intro x hx; have := hb x hx
    simpa [doneIds_cons_of_not_done e c.log he] using this
  | acceptDone r res extra hex hres =>
    intro x hx; have := hb x hx
    rcases this with h | h
    · left; simp [doneIds_append, doneIds_of_not_done extra hex, h]
    · exact Or.inr h
  | acceptQueue r ha => exact hb
  | enqueueCmd x ha hx => exact hb
  | abort ha =>
    intro x hx; have := hb x hx
    left
    simp only [doneIds_append, doneIds_shutdownEntries, List.mem_append, List.mem_reverse,
      List.map_append]
    rcases this with h | h
    · exact Or.inr h
    · rw [inflightIds_eq_map] at h; exact Or.inl (Or.inl h)

theorem out_reach (c : Core) (h : Reach c) : Outstanding c :=
  Reach.induct out_init out_teff out_ueff c h

/-! ### who accepts -/

theorem teff_accepted (c c' : Core) (e : TEff c c') : c'.accepted = c.accepted := by
  cases e with
  | dequeueFail m r q res ha hp hq hres => exact (afterCore_parts _ m res).2.2.2.1
  | finish m r tx dl res ha hp ht h3 h4 => exact (afterCore_parts _ m res).2.2.2.1
  | _ => rfl

theorem tsteps_accepted {c c' : Core} (h : TSteps c c') : c'.accepted = c.accepted := by
  induction h with
  | refl => rfl
  | tail _ e ih => rw [teff_accepted _ _ e, ih]

/-- the request ids a script submits, in order -/
def scriptRids : List Step → List Rid
  | [] => []
  | .submit _ _ r :: rest => r.rid :: scriptRids rest
  | _ :: rest => scriptRids rest

section
variable {σ : Type}

theorem submit_accepted (s : State σ) (op : SubmitOp) (r : Req) :
    (submit s op r).accepted = s.accepted ∨ (submit s op r).accepted = r.rid :: s.accepted := by
  unfold submit
  split
  · left; rfl
  · split
    · right; rfl
    · right; rfl
  · simp only []
    split
    · split
      · right; rfl
      · split <;> (right; rfl)
    · split <;> (right; rfl)

theorem trySetting_accepted (s : State σ) (op : CmdOp) (c : Cmd) :
    (trySetting s op c).accepted = s.accepted := by
  unfold trySetting; split <;> rfl

theorem abort_accepted (s : State σ) : (abort s).accepted = s.accepted := by
  have : ∀ (rs : List Req) (t : State σ), (completeAll t .shutdown rs).accepted = t.accepted := by
    intro rs
    induction rs with
    | nil => intro t; rfl
    | cons r rs ih => intro t; unfold completeAll; rw [ih]; rfl
  unfold abort; split
  · rfl
  · exact this _ s

theorem applyStep_accepted (s : State σ) (st : Step) (rid : Rid) :
    (applyStep s st).accepted.count rid ≤ s.accepted.count rid + (scriptRids [st]).count rid := by
  cases st with
  | submit op h r =>
    simp only [applyStep, scriptRids]
    split
    · rcases submit_accepted s op r with h | h <;> rw [h] <;> simp [List.count_cons]
    · simp [emit]
  | enable h => simp only [applyStep]; split <;> simp [trySetting_accepted, scriptRids]
  | disable h => simp only [applyStep]; split <;> simp [trySetting_accepted, scriptRids]
  | setDecode d => simp only [applyStep]; split <;> simp [trySetting_accepted, scriptRids]
  | shutdown h => simp only [applyStep]; split <;> simp [enqueue, scriptRids]
  | abort => simp [applyStep, abort_accepted, scriptRids]
  | newSession => simp only [applyStep, addPhase]; split <;> simp [scriptRids]
  | waitEnabled => simp only [applyStep, addPhase]; split <;> simp [scriptRids]
  | failFor ms => simp only [applyStep, addPhase]; split <;> simp [scriptRids]
  | rx x => simp only [applyStep, pushRx]; split <;> simp [scriptRids, setMock]
  | failWrite => simp only [applyStep]; split <;> simp [scriptRids, setMock]
  | cloneHandle => simp [applyStep, scriptRids]
  | dropHandle i => simp [applyStep, scriptRids]
  | advance ms => simp [applyStep, scriptRids]

theorem stepState_accepted (F : Framing σ) (s : State σ) (st : Step) (rid : Rid) :
    (stepState F s st).accepted.count rid ≤ s.accepted.count rid + (scriptRids [st]).count rid := by
  rcases stepState_cases F s st with ⟨_, h⟩ | ⟨_, _, h⟩
  · have := tsteps_accepted h
    simp only [core] at this
    rw [this]; omega
  · have := tsteps_accepted h
    simp only [core] at this
    rw [this]; exact applyStep_accepted s st rid

theorem scriptRids_cons (st : Step) (rest : List Step) :
    scriptRids (st :: rest) = scriptRids [st] ++ scriptRids rest := by
  cases st <;> simp [scriptRids]

theorem runState_accepted (F : Framing σ) (s : State σ) (steps : List Step) (rid : Rid) :
    (runState F s steps).accepted.count rid ≤ s.accepted.count rid + (scriptRids steps).count rid := by
  induction steps generalizing s with
  | nil => simp [runState, scriptRids]
  | cons st rest ih =>
    have h1 := stepState_accepted F s st rid
    have h2 := ih (stepState F s st)
    rw [scriptRids_cons, List.count_append]
    simp only [runState, List.foldl_cons] at h2 ⊢
    omega

/-- a script with distinct request ids accepts each id at most once -/
theorem accepted_nodup (F : Framing σ) (cap maxTo : Nat) (d : Decode) (coins : List Bool)
    (steps : List Step) (h : (scriptRids steps).Nodup) :
    (runState F (State.init F cap maxTo d coins) steps).accepted.Nodup := by
  rw [List.nodup_iff_count]
  intro rid
  have := runState_accepted F (State.init F cap maxTo d coins) steps rid
  have h2 := List.nodup_iff_count.mp h rid
  have h3 : (State.init F cap maxTo d coins).accepted = [] := rfl
  rw [h3] at this
  simp at this
  omega

end

end Rodbus.Client
