import RodbusModel.Model.Buffer
/-
  M6: MBAP (Modbus TCP / TLS) framing, `tcp/frame.rs`.

  * `parseHeader`  = `MbapParser::parse_header` (on the 7 header bytes)
  * `parseBody`    = the `ParseState::Header` arm of `MbapParser::parse` + `parse_body`
  * `parse`        = `MbapParser::parse` (the two-state loop, at most two hops)
  * `format`       = `format_mbap` (function code and body already concatenated into `pdu`)

  Constants of `tcp::frame::constants`: HEADER_LENGTH = 7, MAX_LENGTH_FIELD = 253 + 1 = 254,
  MAX_FRAME_LENGTH = 7 + 253 = 260 (= `CAP`).  They are used as literals below so that `omega`
  sees them; `Mbap.constants_ok` ties the names to the literals.
-/
namespace Rodbus.Mbap

def HEADER_LENGTH : Nat := 7
def MAX_ADU_LENGTH : Nat := 253
def MAX_LENGTH_FIELD : Nat := MAX_ADU_LENGTH + 1
def MAX_FRAME_LENGTH : Nat := HEADER_LENGTH + MAX_ADU_LENGTH

theorem constants_ok :
    HEADER_LENGTH = 7 ∧ MAX_LENGTH_FIELD = 254 ∧ MAX_FRAME_LENGTH = 260 ∧ MAX_FRAME_LENGTH = CAP :=
  ⟨rfl, rfl, rfl, rfl⟩

/-- `MbapHeader` -/
structure Header where
  tx : Nat
  len : Nat
  unit : Nat
deriving DecidableEq, Repr

/-- `ParseState` -/
inductive PState
  | begin
  /-- header and the ADU length -/
  | header (h : Header) (adu : Nat)
deriving DecidableEq, Repr

/-- `MbapParser::parse_header` on exactly the 7 header bytes
    (tx id, protocol id, length: big-endian u16; unit id: u8).
    Order of the checks as in the Rust code: protocol id, length too big, length zero.
    Any other number of bytes is the `InsufficientBytesForRead` internal error of the cursor
    (never reached from `parse`, which checks `cursor.len() < HEADER_LENGTH` first). -/
def parseHeader : Bytes → Except FrameErr (Header × Nat)
  | [t1, t0, p1, p0, l1, l0, u] =>
    let proto := be16 p1 p0
    let len := be16 l1 l0
    if proto ≠ 0 then .error (.unknownProtocolId proto)
    else if len > 254 then .error (.frameLengthTooBig len 254)
    else if len = 0 then .error .mbapLengthZero
    else .ok (⟨be16 t1 t0, len, u⟩, len - 1)
  | _ => .error .internalShortRead

/-- the `ParseState::Header` arm: wait for `adu` bytes, then `parse_body` -/
def parseBody (h : Header) (adu : Nat) (rb : RB) : PResult × PState × RB :=
  if rb.data.length < adu then (.none, .header h adu, rb)
  else (.frame ⟨some h.tx, h.unit, rb.data.take adu⟩, .begin, rb.consume adu)

/-- `MbapParser::parse`.  On a header error the 7 header bytes have been consumed and the state
    is `Begin` (the assignment to `self.state` is skipped by `?`, and `FramedReader::next_frame`
    calls `reset`). -/
def parse : ParseFn PState := fun st rb =>
  match st with
  | .header h adu => parseBody h adu rb
  | .begin =>
    if rb.data.length < 7 then (.none, .begin, rb)
    else match parseHeader (rb.data.take 7) with
      | .error e => (.err e, .begin, rb.consume 7)
      | .ok (h, adu) => parseBody h adu (rb.consume 7)

/-- `format_mbap`: tx id, protocol id 0, length field = |pdu| + 1 (the unit id counts), unit id,
    then the PDU (function code + body) -/
def format (tx unit : Nat) (pdu : Bytes) : Bytes :=
  u16be tx ++ [0, 0] ++ u16be (pdu.length + 1) ++ [unit] ++ pdu

/-- the TCP/TLS reader (`FramedReader::tcp()`, the same in the client and the server role)
    over a list of network reads -/
def run (chunks : List Bytes) : List Event := runChunks parse .begin RB.empty chunks

end Rodbus.Mbap
