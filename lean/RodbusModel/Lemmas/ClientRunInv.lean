import RodbusModel.Lemmas.Client
/-
  A generic induction principle over the runs of the client task model, on the concrete state
  (Model/Client.lean), for invariants that the abstraction `core` / `TEff` cannot carry (they talk
  about the bytes written, the results completed, the reader's buffer …).

  `TaskInv F P`: `P` is kept by one tick of the outer task, by the release of the clones held by
  completed futures, and by a clock movement.  Then `P` is kept by `settle`, `settled`, `advance`,
  and — when the direct effect of every script step of the run keeps it — by `runState`.
-/
namespace Rodbus.Client

section
variable {σ : Type}

/-- `P` is kept by everything the tasks and the clock do -/
structure TaskInv (F : Framing σ) (P : State σ → Prop) : Prop where
  tick : ∀ s t, P s → tick F s = some t → P t
  release : ∀ s, P s → P { s with held := 0 }
  clock : ∀ s target, P s → P (moveClock s target)

variable {F : Framing σ} {P : State σ → Prop}

theorem settle_taskInv (hP : TaskInv F P) (fuel : Nat) (s : State σ) (h : P s) :
    P (settle F fuel s) := by
  induction fuel generalizing s with
  | zero => exact h
  | succ n ih =>
    unfold settle
    split
    · split
      · exact h
      · exact ih _ (hP.release s h)
    · rename_i t ht
      exact ih t (hP.tick s t h ht)

theorem settled_inv (hP : TaskInv F P) (s : State σ) (h : P s) : P (settled F s) :=
  settle_taskInv hP _ s h

theorem advance_taskInv (hP : TaskInv F P) (fuel target : Nat) (s : State σ) (h : P s) :
    P (advance F fuel target s) := by
  induction fuel generalizing s with
  | zero => exact hP.clock s target h
  | succ n ih =>
    unfold advance
    split
    · split
      · exact ih _ (settled_inv hP _ (hP.clock s _ h))
      · exact hP.clock s target h
    · exact hP.clock s target h

/-- one script step, given that its direct effect keeps `P` -/
theorem stepState_taskInv (hP : TaskInv F P) (s : State σ) (st : Step) (h : P s)
    (ha : P (applyStep s st)) : P (stepState F s st) := by
  unfold stepState
  split
  · exact advance_taskInv hP _ _ s h
  · exact settled_inv hP _ ha

/-- a whole script all of whose steps satisfy `S`, when the direct effect of such a step keeps `P` -/
theorem runState_inv (hP : TaskInv F P) (S : Step → Prop)
    (happly : ∀ s st, S st → P s → P (applyStep s st)) (s : State σ) (steps : List Step)
    (hS : ∀ st ∈ steps, S st) (h : P s) : P (runState F s steps) := by
  induction steps generalizing s with
  | nil => exact h
  | cons st rest ih =>
    have hst : S st := hS st (by simp)
    exact ih (stepState F s st) (fun x hx => hS x (by simp [hx]))
      (stepState_taskInv hP s st h (happly s st hst h))

end

end Rodbus.Client
