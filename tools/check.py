#!/usr/bin/env python3
"""Orchestrator: `check.py <property id> --tier quick|thorough` (see DESIGN.md section 2.5/7).

Per property, always in this order:
  1. proof obligations: regenerate the tables from /repo (tools/translate.py), `lake build` the
     property's theorem + audit modules, audit `#print axioms`, grep for forbidden tokens;
  2. correspondence: implementation (Rust harness on /repo's working tree) vs. model;
  3. property oracle: implementation vs. specification  -> concrete failing inputs.
Exit 0 if the property held on everything explored, otherwise print
`VIOLATION property=<id> replay=<path>` (ending with no-failing-input-found when an obligation or
the correspondence broke but no input contradicting the specification was found) and exit 1.
"""
import argparse
import collections
import fcntl
import json
import os
import re
import subprocess
import sys
import time

HERE = os.path.dirname(os.path.abspath(__file__))
VERIF = os.path.normpath(os.path.join(HERE, ".."))
sys.path.insert(0, HERE)
import gen  # noqa: E402
import pty_xlate  # noqa: E402
import props  # noqa: E402

CACHE = os.path.join(VERIF, ".cache")
LEAN = os.path.join(VERIF, "lean")
HARNESS = os.path.join(VERIF, "harness")
# coverage mode (tools/coverage.py): an instrumented build in its own target directory; no evidence is written
COV = bool(os.environ.get("VERIF_COVERAGE"))
TSUF = "-cov" if COV else ""
HARNESS_BIN = os.path.join(CACHE, "target" + TSUF, "debug", "verif-harness")
FFI_HARNESS = os.path.join(VERIF, "harness-ffi")
FFI_BIN = os.path.join(CACHE, "target-ffi" + TSUF, "debug", "verif-harness-ffi")
DRIVER_BIN = os.path.join(LEAN, ".lake", "build", "bin", "rodbus_model")
ALLOWED_AXIOMS = {"propext", "Classical.choice", "Quot.sound"}
FORBIDDEN = re.compile(r"\b(sorry|admit|native_decide|bv_decide|implemented_by|unsafe)\b|^\s*axiom\s|maxHeartbeats\s+0")
ENV = dict(os.environ, CARGO_NET_OFFLINE="true")
if COV:
    ENV["LLVM_PROFILE_FILE"] = os.path.join(CACHE, "cov", "%p-%m.profraw")


def log(msg):
    print(f"[check] {msg}", flush=True)


class Lock:
    def __init__(self, name):
        os.makedirs(CACHE, exist_ok=True)
        self.path = os.path.join(CACHE, name)

    def __enter__(self):
        self.f = open(self.path, "w")
        fcntl.flock(self.f, fcntl.LOCK_EX)

    def __exit__(self, *a):
        fcntl.flock(self.f, fcntl.LOCK_UN)
        self.f.close()


def run(cmd, cwd=None, inp=None, timeout=None):
    p = subprocess.run(cmd, cwd=cwd, input=inp, stdout=subprocess.PIPE, stderr=subprocess.STDOUT,
                       text=True, env=ENV, timeout=timeout)
    return p.returncode, p.stdout


# ------------------------------------------------------------------ step 1: proof obligations

def strip_lean_comments(text):
    text = re.sub(r"/-.*?-/", "", text, flags=re.S)
    return re.sub(r"--[^\n]*", "", text)


def forbidden_tokens():
    hits = []
    for root, _, files in os.walk(os.path.join(LEAN, "RodbusModel")):
        for fn in files:
            if fn.endswith(".lean"):
                p = os.path.join(root, fn)
                body = strip_lean_comments(open(p).read())
                for i, line in enumerate(body.splitlines(), 1):
                    if FORBIDDEN.search(line):
                        hits.append(f"{os.path.relpath(p, LEAN)}: {line.strip()[:100]}")
    return hits


def gen_refs(cfg):
    """names of generated definitions (`Gen.x`, `Gen.Ffi.x`) mentioned by the modules that the audit
    modules of a property import, transitively"""
    seen, todo, refs = set(), list(cfg["audit_modules"]), set()
    while todo:
        mod = todo.pop()
        if mod in seen or not mod.startswith("RodbusModel") or mod.startswith("RodbusModel.Gen."):
            continue
        seen.add(mod)
        path = os.path.join(LEAN, mod.replace(".", "/") + ".lean")
        if not os.path.exists(path):
            continue
        text = open(path).read()
        todo.extend(re.findall(r"^import (\S+)", text, flags=re.M))
        refs.update(re.findall(r"Gen\.((?:Ffi\.)?\w+)", strip_lean_comments(text)))
    return refs


def translator_problems(cfg, out):
    """(section, message) for every generated section that could not be regenerated from the source
    and that this property relies on (`tables` in props.py; otherwise every section mentioned in the
    import closure of its audit modules)"""
    try:
        st = json.load(open(os.path.join(CACHE, "translate_status.json")))
    except Exception:
        return [("*", out.strip().splitlines()[-1] if out.strip() else "translator failed")]
    failed = st.get("failed", {})
    if "*" in failed:
        return [("*", failed["*"])]
    refs = gen_refs(cfg)
    secs = {st["defs"].get(r) for r in refs} - {None}
    if "tables" in cfg:
        secs &= set(cfg["tables"]) | {"ffi"}
    unknown = [r for r in refs if r not in st["defs"] and r not in ("Tables", "FfiTables", "Ffi")]
    msgs = [(sec, failed[sec]) for sec in sorted(secs) if sec in failed]
    if unknown and failed:
        # a referenced definition that no section produced: it belonged to a section that failed
        # without a previous text to fall back on
        msgs.append(("*", f"generated definitions missing: {sorted(unknown)[:5]} (failed sections: {sorted(failed)})"))
    return msgs


def disputed_sections(out):
    """sections of the generated tables that a failing `lake build` disputes: every error must lie
    inside a theorem that mentions generated definitions (a table theorem); the result is the set of
    sections those definitions belong to, or None if some error is not of that kind"""
    try:
        st = json.load(open(os.path.join(CACHE, "translate_status.json")))
    except Exception:
        return None
    secs = set()
    errs = re.findall(r"error: (RodbusModel/[\w/]+\.lean):(\d+):\d+:", out)
    if not errs:
        return None
    for rel, line in errs:
        path = os.path.join(LEAN, rel)
        if not os.path.exists(path):
            return None
        lines = open(path).read().split("\n")
        k = int(line) - 1
        a = k
        while a >= 0 and not re.match(r"(theorem|lemma|example|def|instance)\b", lines[a]):
            a -= 1
        b = k + 1
        while b < len(lines) and not re.match(r"(theorem|lemma|example|def|instance|/--|end |namespace )", lines[b]):
            b += 1
        if a < 0 or not lines[a].startswith(("theorem", "lemma", "example")):
            return None
        refs = re.findall(r"Gen\.((?:Ffi\.)?\w+)", "\n".join(lines[a:b]))
        here = {st["defs"].get(r) for r in refs} - {None}
        if not here:
            return None      # an error outside the table theorems: a genuine proof failure
        secs |= here
    return secs


def build_audit(cfg):
    """(theorems with their axioms, problems, raw output of failed builds)"""
    problems, theorems, failed_out = [], {}, ""
    for mod in cfg["audit_modules"]:
        rc, out = run(["lake", "build", mod], cwd=LEAN)
        for m in re.finditer(r"'(\S+?)' depends on axioms: \[([^\]]*)\]", out):
            theorems[m.group(1)] = {a.strip() for a in m.group(2).split(",") if a.strip()}
        for m in re.finditer(r"'(\S+?)' does not depend on any axioms", out):
            theorems[m.group(1)] = set()
        if rc != 0:
            errs = [l.strip() for l in out.splitlines() if re.search(r"\berror\b", l)]
            problems.append(f"lake build {mod} failed: " + (errs[0] if errs else out.strip()[-300:]))
            failed_out += out
        # a replayed (cached) build does not re-print infos of dependencies: ask again
        if rc == 0 and not theorems:
            src = os.path.join(LEAN, mod.replace(".", "/") + ".lean")
            rc2, out2 = run(["lake", "env", "lean", src], cwd=LEAN)
            for m in re.finditer(r"'(\S+?)' depends on axioms: \[([^\]]*)\]", out2):
                theorems[m.group(1)] = {a.strip() for a in m.group(2).split(",") if a.strip()}
            for m in re.finditer(r"'(\S+?)' does not depend on any axioms", out2):
                theorems[m.group(1)] = set()
    return theorems, problems, failed_out


def proof_obligations(pid, cfg, tier):
    """returns dict(obligations, discharged, theorems, problems[], translator[(section, msg)])"""
    problems = []
    translator = []
    with Lock("build.lock"):
        rc, out = run([sys.executable, os.path.join(HERE, "translate.py")])
        if rc != 0:
            # a section of the generated tables could not be regenerated: that breaks the tie for the
            # properties whose theorems mention a definition of that section, and only for those
            translator = translator_problems(cfg, out)
        theorems, aproblems, failed_out = build_audit(cfg)
        if aproblems:
            # Does the failure consist of table theorems only (regenerated table != model)?  Then the
            # table is disputed: either the code changed (behaviour will differ from the model on the
            # table's domain, which the suites of this run explore exhaustively) or the translator
            # misread a rewritten source.  Second pass: the disputed sections fall back to their
            # committed text, everything else is rebuilt, and the suites decide.
            secs = disputed_sections(failed_out)
            if secs:
                first_err = aproblems[0]
                env2 = dict(ENV, VERIF_DISPUTED=",".join(sorted(secs)))
                p2 = subprocess.run([sys.executable, os.path.join(HERE, "translate.py")], stdout=subprocess.PIPE,
                                    stderr=subprocess.STDOUT, text=True, env=env2)
                translator = translator_problems(cfg, p2.stdout)
                translator = [(sec, (msg + " [" + first_err[:300] + "]") if sec in secs else msg) for sec, msg in translator]
                theorems, aproblems, failed_out = build_audit(cfg)
        problems += aproblems
        # the driver (model + spec) must build in any case: it is the other side of the diff
        rc, out = run(["lake", "build", "rodbus_model"], cwd=LEAN)
        if rc != 0:
            first = next((l for l in out.splitlines() if "error" in l), out.strip()[-300:])
            problems.append("driver build failed: " + first.strip())
        if tier == "thorough":
            # independent re-check (leanchecker) of every Props module the audit modules import
            pms = []
            for mod in cfg["audit_modules"]:
                src = os.path.join(LEAN, mod.replace(".", "/") + ".lean")
                if os.path.exists(src):
                    for pm in re.findall(r"^import (RodbusModel\.Props\.\S+)", open(src).read(), flags=re.M):
                        if pm not in pms:
                            pms.append(pm)
            for pm in pms:
                rc, out = run(["lake", "env", "leanchecker", pm], cwd=LEAN, timeout=1800)
                if rc != 0:
                    problems.append(f"leanchecker {pm}: " + out.strip()[-200:])
    bad = {t: sorted(a - ALLOWED_AXIOMS) for t, a in theorems.items() if a - ALLOWED_AXIOMS}
    for t, a in bad.items():
        problems.append(f"theorem {t} depends on unexpected axioms {a}")
    hits = forbidden_tokens()
    for h in hits:
        problems.append("forbidden token: " + h)
    # every theorem the property promises must be present
    missing = [t for t in cfg.get("required_theorems", []) if t not in theorems]
    for t in missing:
        problems.append(f"required theorem {t} missing from the audit")
    obligations = max(len(theorems) + len(missing), 1)
    discharged = len([t for t in theorems if t not in bad])
    if problems and discharged == obligations:
        discharged = obligations - 1
    return dict(obligations=obligations, discharged=discharged, problems=problems, translator=translator,
                theorems={t: sorted(a) for t, a in theorems.items()})


# ------------------------------------------------------------------ steps 2, 3: runs

def cargo_build(which):
    """the target directory is given explicitly so that a copy of /verif builds into its own cache"""
    env = dict(ENV, CARGO_TARGET_DIR=os.path.join(CACHE, ("target-ffi" if which == "ffi" else "target") + TSUF))
    cmd = ["cargo", "build", "--offline"]
    if COV:
        cmd = ["cargo", "+nightly", "build", "--offline"]
        env["RUSTFLAGS"] = "-C instrument-coverage"
        env["LLVM_PROFILE_FILE"] = os.path.join(CACHE, "cov", "build", "%p-%m.profraw")   # build scripts, proc macros
    p = subprocess.run(cmd, cwd=FFI_HARNESS if which == "ffi" else HARNESS,
                       stdout=subprocess.PIPE, stderr=subprocess.STDOUT, text=True, env=env)
    return p.returncode, p.stdout


def build_harness(which):
    with Lock("build.lock"):
        rc, out = cargo_build(which)
        if rc != 0 and "linking with" in out:
            # a linker failure is an artefact of an interrupted earlier build, not of the sources
            rc, out = cargo_build(which)
    if rc != 0:
        errs = [l for l in out.splitlines() if l.startswith("error")]
        return "harness build failed: " + (errs[0] if errs else out.strip()[-300:])
    return None


def marked(text):
    """result lines of the harness carry the marker `@@` (libraries may print to stdout)"""
    return [l[2:] for l in text.splitlines() if l.startswith("@@")]


REAL_TIME_SUITES = ("life ", "slife ", "net ", "tls ", "pty ", "ffi ")


def case_budget(cases):
    """seconds of wall time the harness watchdog grants one case: virtual-time cases take
    milliseconds (the transaction-id wrap scripts a few seconds), real-time cases up to ~20 s"""
    if any(c.startswith(REAL_TIME_SUITES) for c in cases[:50]):
        return 60
    return 30 if any(len(c) > 200000 for c in cases[:200]) else 8


def run_harness(binp, cases, timeout=7200):
    """One harness process over `cases`, restarted on what is left whenever it ends early: the
    watchdog of the harness ends the process with exit code 3 after printing `hung` for the case
    that did not return; any other early end (abort, allocation failure) is recorded as
    `harness-died` for the case it was running.  Lines already printed stay valid."""
    out, rest, restarts, hangs = [], list(cases), 0, 0
    env = dict(ENV, VERIF_CASE_TIMEOUT=str(case_budget(cases)))
    while rest:
        try:
            p = subprocess.run([binp], input="\n".join(rest) + "\n", stdout=subprocess.PIPE, stderr=subprocess.STDOUT,
                               text=True, env=env, timeout=timeout)
            rc, o = p.returncode, p.stdout
        except subprocess.TimeoutExpired:
            out += ["harness-died"] * len(rest)
            break
        lines = marked(o)[:len(rest)]
        if rc == 0 and len(lines) == len(rest):
            out += lines
            break
        restarts += 1
        out += lines
        k = len(lines)
        if not (rc == 3 and lines and lines[-1] == "hung") and k < len(rest):
            out.append("harness-died")
            k += 1
        rest = rest[k:]
        if rc == 3:
            hangs += 1
        if restarts > 200 or hangs >= 6:
            # enough evidence: do not spend a watchdog period on every further case
            out += ["not-run-after-hangs" if hangs >= 6 else "harness-died"] * len(rest)
            break
    return out


def run_blocks(binp, cases, blocks):
    """contiguous (order-preserving) blocks of cases in parallel harness processes"""
    import concurrent.futures
    res = []
    with concurrent.futures.ThreadPoolExecutor(max_workers=max(1, len(blocks))) as ex:
        for r in ex.map(lambda b: run_harness(binp, b) if b else [], blocks):
            res.append(r)
    return res


def run_parallel(binp, cases, jobs):
    """real-time suites: split the case list over several harness processes"""
    chunks = [cases[i::jobs] for i in range(jobs)]
    outs = run_blocks(binp, cases, chunks)
    merged = [None] * len(cases)
    for k in range(jobs):
        for j, line in enumerate(outs[k]):
            merged[k + j * jobs] = line
    return merged


def run_driver(cases):
    """the Lean driver is a pure line-by-line function: large suites are cut into contiguous blocks
    that run in parallel; the output order is the input order"""
    import concurrent.futures
    nblk = 1 if len(cases) < 4000 else min(12, (len(cases) + 3999) // 4000)
    size = (len(cases) + nblk - 1) // nblk
    blocks = [cases[i:i + size] for i in range(0, len(cases), size)] or [[]]

    def work(blk):
        if not blk:
            return []
        rc, mod = run([DRIVER_BIN], inp="\n".join(blk) + "\n", timeout=7200)
        ml = mod.splitlines()
        if rc != 0 or len(ml) != len(blk):
            ml = []
            for c in blk:      # one bad line must not take the rest of the block with it
                rc1, o1 = run([DRIVER_BIN], inp=c + "\n", timeout=600)
                l1 = o1.splitlines()
                ml.append(l1[0] if rc1 == 0 and len(l1) == 1 else "driver-died ## driver-died")
        return ml
    out = []
    with concurrent.futures.ThreadPoolExecutor(max_workers=nblk) as ex:
        for res in ex.map(work, blocks):
            out.extend(res)
    return out


def run_cases(cases, which="core", jobs=1):
    """returns (impl lines, model lines, spec lines)"""
    binp = FFI_BIN if which == "ffi" else HARNESS_BIN
    if jobs > 1 and len(cases) > 1:
        impl_lines = run_parallel(binp, cases, jobs)
    elif len(cases) >= 8000:
        # virtual-time suites: every case runs in a fresh runtime, so contiguous blocks can run in
        # parallel processes without changing any result
        nblk = min(12, (len(cases) + 3999) // 4000)
        size = (len(cases) + nblk - 1) // nblk
        blocks = [cases[i:i + size] for i in range(0, len(cases), size)]
        impl_lines = [l for blk in run_blocks(binp, cases, blocks) for l in blk]
    else:
        impl_lines = run_harness(binp, cases)
    # `pty` cases: the expected value comes from the model of the corresponding in-memory session
    # (tools/pty_xlate.py); every alternative the model admits is translated
    xl = [c.startswith("pty ") for c in cases]
    mlines = run_driver([pty_xlate.mem_case(c) if x else c for c, x in zip(cases, xl)])
    model, spec = [], []
    for c, x, l in zip(cases, xl, mlines):
        a, _, b = l.partition(" ## ")
        if x:
            a = " || ".join(sorted({pty_xlate.expected(c, alt) for alt in a.split(" || ")}))
            b = " || ".join(sorted({pty_xlate.expected(c, alt) for alt in b.split(" || ")}))
        model.append(a)
        spec.append(b)
    return impl_lines, model, spec


def corpus_cases(suite):
    d = os.path.join(VERIF, "corpus", suite)
    out = []
    if os.path.isdir(d):
        for fn in sorted(os.listdir(d)):
            if fn.endswith(".case"):
                for line in open(os.path.join(d, fn)):
                    line = line.strip()
                    if line and not line.startswith("#"):
                        out.append(line)
    return out


def shrink(case, still_fails):
    """delta-debug the comma separated script (last token) of a case line"""
    tok = case.split(" ")
    steps = tok[-1].split(",")
    if len(steps) <= 1:
        return case
    n = 2
    t_end = time.time() + 180      # shrinking is a convenience: bounded, a hung case costs a watchdog period per try
    while len(steps) >= 2 and time.time() < t_end:
        size = max(1, len(steps) // n)
        reduced = False
        for i in range(0, len(steps), size):
            cand = steps[:i] + steps[i + size:]
            if not cand:
                continue
            c = " ".join(tok[:-1] + [",".join(cand)])
            if still_fails(c):
                steps = cand
                n = max(n - 1, 2)
                reduced = True
                break
        if not reduced:
            if size == 1:
                break
            n = min(n * 2, len(steps))
    return " ".join(tok[:-1] + [",".join(steps)])


def known_findings():
    out = {}
    p = os.path.join(VERIF, "KNOWN_FINDINGS.txt")
    if os.path.exists(p):
        for line in open(p):
            m = re.match(r"finding:\s+property=(\S+)\s+key=(\S+)\s+(.*)", line.strip())
            if m:
                out[(m.group(1), m.group(2))] = m.group(3)
    return out


def main():
    ap = argparse.ArgumentParser()
    ap.add_argument("pid", nargs="?")
    ap.add_argument("--tier", default=os.environ.get("VERIF_TIER", "quick"))
    ap.add_argument("--replay")
    ap.add_argument("--setup", action="store_true")
    args = ap.parse_args()
    if args.setup:
        return setup()
    pid = args.pid
    cfg = props.PROPS[pid]
    tier = "thorough" if args.tier == "thorough" else "quick"
    seed = int(os.environ.get("VERIF_SEED", "20260925"))
    t0 = time.time()
    os.makedirs(os.path.join(VERIF, "evidence"), exist_ok=True)
    os.makedirs(os.path.join(VERIF, "replays"), exist_ok=True)

    ob = proof_obligations(pid, cfg, tier)
    # A table section that cannot be regenerated from the source (its shape changed) breaks the
    # translator tie.  The same table is also determined by behaviour: the suites named in
    # props.TABLE_FALLBACK run the production code over the table's whole domain (exhaustive
    # sub-domains of the generators) against the model.  If this property runs such a suite, the tie
    # for that table rests on the correspondence in this run (a note, decided after the suites have
    # run: any disagreement turns it back into a broken obligation); otherwise it is broken.
    tie_notes = []
    own_gens = {x.get("gen") for x in cfg["suites"]}
    pending_tables = []
    for sec, msg in ob["translator"]:
        fb = props.TABLE_FALLBACK.get(sec, set()) & own_gens
        if fb and not args.replay:
            pending_tables.append((sec, msg, sorted(fb)))
        else:
            ob["problems"].append(f"translator: section {sec}: {msg}")
    if ob["problems"] and ob["discharged"] == ob["obligations"]:
        ob["discharged"] = ob["obligations"] - 1
    for p in ob["problems"]:
        log(f"obligation problem: {p}")
    which = cfg.get("harness", "core")
    herr = build_harness(which)
    if herr:
        log(herr)
    # individual suites may use the other harness (e.g. the C-ABI parts of C16)
    for s_ in cfg["suites"]:
        w = s_.get("harness")
        if w and w != which and not herr:
            herr = build_harness(w)
            if herr:
                log(herr)

    known = known_findings()
    seen_known = {}
    oracle_failures = []      # (suite, case, impl, model, spec)
    disagreements = []        # implementation vs model
    evaluations = 0
    nontrivial = set()
    dist = collections.Counter()
    samples = []
    exhaustive_note = []
    suites = cfg["suites"] if not args.replay else []
    if args.replay:
        rp = json.load(open(args.replay))
        suites = [dict(name="replay", cases=rp.get("cases", []))]
    if not herr:
        for s in suites:
            if "cases" in s:
                cases = s["cases"]
            else:
                n = s["n"][0] if tier == "quick" else s["n"][1]
                if ob["problems"] and tier == "quick":
                    n *= 4  # an obligation broke: search harder for a concrete failing input
                cases = corpus_cases(s["gen"]) + gen.generate(s["gen"], seed, n, tier)
                for extra in s.get("corpus", []):
                    cases = corpus_cases(extra) + cases
            if not cases:
                continue
            jobs = s.get("jobs", 1)
            impl, model, spec = run_cases(cases, s.get("harness", which), jobs)
            if jobs > 1:
                # suites with jobs > 1 use real sockets and real time: an outlier under load is
                # re-run alone, and counts only if it fails again (2 of 3)
                retried = 0
                for k, (c, i, m) in enumerate(zip(cases, impl, model)):
                    if i not in m.split(" || ") and retried < 40:
                        retried += 1
                        log(f"outlier: {c[:160]} -> {i[:200]}")
                        again = [run_cases([c], s.get("harness", which))[0][0] for _ in range(2)]
                        good = [a for a in again if a in m.split(" || ")]
                        if len(good) == 2:
                            impl[k] = good[0]
                if retried:
                    log(f"real-time suite {s.get('gen')}: {retried} outlier(s) re-run alone")
            evaluations += len(cases)
            for c, i, m, sp in zip(cases, impl, model, spec):
                if i == "not-run-after-hangs":
                    dist["not run (harness stopped after repeated hangs)"] += 1
                    continue
                mw = re.search(r" waited=\d+$", i)
                if mw:
                    # an async sender had to wait for queue capacity: when the task sees its entry
                    # depends on when the waiting sender is polled again; the model makes the entry
                    # visible at once.  Only the scripts written for this situation (cl_block, whose
                    # order of events is forced) are compared; elsewhere the case is set aside.
                    i = i[:mw.start()]
                    if s.get("gen") != "cl_block":
                        dist["set aside: a sender waited for queue capacity"] += 1
                        continue
                for k in cfg["classify"](c, i):
                    dist[k] += 1
                if cfg["nontrivial"](c, i):
                    nontrivial.add(c)
                    if len(samples) < 4 and len(c) < 400:
                        samples.append({"case": c, "impl": i[:400], "model": m[:400]})
                # the model / specification may admit several outputs (scheduler choices), joined by " || "
                bad_spec = i not in sp.split(" || ") and not cfg.get("spec_na", lambda c: False)(c)
                # independent oracle on the implementation's own output (python re-statement)
                extra = cfg.get("extra_oracle")
                if extra is not None and not bad_spec:
                    why = extra(c, i)
                    if why:
                        bad_spec = True
                        sp = sp + "  [oracle: " + why + "]"
                        if why.startswith("KNOWN:"):
                            key = why[len("KNOWN:"):]
                            if (pid, key) in known:
                                seen_known.setdefault(key, (c, i, sp))
                                continue
                bad_model = i not in m.split(" || ")
                if bad_spec:
                    key = cfg["finding_key"](c, i, sp)
                    if key and (pid, key) in known:
                        seen_known.setdefault(key, (c, i, sp))
                        continue
                    oracle_failures.append((s.get("gen", "replay"), c, i, m, sp))
                elif bad_model:
                    disagreements.append((s.get("gen", "replay"), c, i, m, sp))
            if s.get("exhaustive"):
                exhaustive_note.append(s["exhaustive"])

    for key, (c, i, sp) in sorted(seen_known.items()):
        print(f"KNOWN-FINDING: property={pid} {key}: {known[(pid, key)]}")
    # a listed finding whose witness no longer fails is worth telling, but is not an alarm
    for (p, key), text in known.items():
        if p == pid and key not in seen_known and not herr and not args.replay:
            log(f"note: known finding {key} did not reproduce in this run")

    for sec, msg, fb in pending_tables:
        if disagreements or oracle_failures or herr:
            ob["problems"].append(f"translator: section {sec}: {msg}")
            log(f"obligation problem: translator: section {sec}: {msg}")
        else:
            note = (f"table section '{sec}' could not be regenerated from the source ({msg}); in this run its content is "
                    f"tied by behaviour: exhaustive sub-domains of {', '.join(fb)} agree with the model")
            tie_notes.append(note)
            log("note: " + note)
    violations = 0
    replay_path = None
    verdict_tail = ""
    if oracle_failures:
        violations = len(oracle_failures)
        suite, c, i, m, sp = min(oracle_failures, key=lambda x: len(x[1]))

        fail_which = next((x.get("harness", which) for x in cfg["suites"] if x.get("gen") == suite), which)

        def still_fails(case):
            a, _, b = run_cases([case], fail_which)
            if re.search(r" waited=\d+$", a[0]) and suite != "cl_block":
                return False
            return re.sub(r" waited=\d+$", "", a[0]) not in b[0].split(" || ")
        small = shrink(c, still_fails)
        a, mo, b = run_cases([small], fail_which)
        replay_path = os.path.join(VERIF, "replays", f"{pid}-{int(time.time())}.json")
        json.dump({"property": pid, "kind": "implementation contradicts specification",
                   "suite": suite, "cases": [small], "implementation": a[0], "model": mo[0],
                   "specification": b[0], "original_case": c, "failures_in_run": len(oracle_failures),
                   "replay_cmd": f"python3 tools/check.py {pid} --replay {replay_path}"},
                  open(replay_path, "w"), indent=1)
    elif ob["problems"] or disagreements or herr:
        violations = 1
        verdict_tail = " no-failing-input-found"
        replay_path = os.path.join(VERIF, "replays", f"{pid}-{int(time.time())}.json")
        first = None
        if disagreements:
            suite, c, i, m, sp = min(disagreements, key=lambda x: len(x[1]))
            first = {"suite": suite, "case": c, "implementation": i, "model": m, "specification": sp}
        json.dump({"property": pid,
                   "kind": "property no longer shown to hold; no input contradicting the specification found",
                   "broken_obligations": ob["problems"], "harness": herr,
                   "correspondence_disagreements": len(disagreements), "first_disagreement": first,
                   "cases": [first["case"]] if first else []},
                  open(replay_path, "w"), indent=1)

    wall = time.time() - t0
    ev = {
        "property_id": pid, "tier": tier, "seed": seed, "level": cfg.get("level", "proof"),
        "coverage": {
            "obligations": ob["obligations"], "discharged": ob["discharged"],
            "checker_cmd": "lake build " + " ".join(cfg["audit_modules"]) + " (Lean 4 kernel; #print axioms audited"
                           + ("; lake env leanchecker on the Props modules" if tier == "thorough" else "") + ")",
            "trusted_base": cfg.get("trusted_base", props.TRUSTED_BASE),
            "theorems": ob["theorems"],
            "evaluations": evaluations, "distinct_nontrivial": len(nontrivial),
            "rule": cfg.get("rule", ""),
            "samples": samples or [{"note": "no correspondence cases ran"}],
            "traces_validated_against_impl": evaluations - len(disagreements) - len(oracle_failures),
            "correspondence_disagreements": len(disagreements),
            "oracle_failures": len(oracle_failures),
            "known_findings_reproduced": sorted(seen_known),
            "distribution": dict(dist.most_common(40)),
            "exhaustive_subdomains": exhaustive_note,
            "obligation_problems": ob["problems"],
            "tie_notes": tie_notes,
        },
        "assumptions": cfg.get("assumptions", []),
        "wall_s": round(wall, 1), "violations": violations,
    }
    if not args.replay and not COV:
        json.dump(ev, open(os.path.join(VERIF, "evidence", f"{pid}.json"), "w"), indent=1)
    log(f"{pid} {tier}: obligations {ob['discharged']}/{ob['obligations']}, cases {evaluations}, "
        f"nontrivial {len(nontrivial)}, disagreements {len(disagreements)}, oracle failures "
        f"{len(oracle_failures)}, known {len(seen_known)}, {wall:.1f}s")
    if violations:
        print(f"VIOLATION property={pid} replay={replay_path}{verdict_tail}")
        return 1
    return 0


def setup():
    rc, out = run([sys.executable, os.path.join(HERE, "translate.py")])
    print(out.strip())
    rc, out = run(["lake", "build"], cwd=LEAN)
    print(out.strip()[-2000:])
    if rc != 0:
        return 1
    rc, out = run(["lake", "build", "rodbus_model"], cwd=LEAN)
    print(out.strip()[-500:])
    if rc != 0:
        return 1
    rc, out = cargo_build("core")
    print(out.strip()[-500:])
    if rc != 0:
        return 1
    if os.path.isdir(FFI_HARNESS):
        rc, out = cargo_build("ffi")
        print(out.strip()[-500:])
        if rc != 0:
            return 1
    return 0


if __name__ == "__main__":
    sys.exit(main())
