#!/usr/bin/env python3
"""False-alarm test: applies every behaviour-preserving change under /verif/benign/<name>/patch.diff
to /repo, runs the quick check of every property (or of the ids given after the name prefix),
reverts, and writes benign/RESULTS.json.  A VIOLATION line here is an alarm on code where the
property holds.  usage: tools/run_benign.py [name-prefix] [C01 C02 ...]"""
import json, os, subprocess, sys, glob, re
VERIF = os.path.normpath(os.path.join(os.path.dirname(os.path.abspath(__file__)), ".."))
sys.path.insert(0, os.path.join(VERIF, "tools"))
import props
prefix = sys.argv[1] if len(sys.argv) > 1 else ""
ids_arg = sys.argv[2:]
# properties anchored in a file (properties.jsonl) are the ones a change to that file can affect;
# C01 always runs as a canary for build problems of the harness
anch = {}
for line in open(os.path.join(VERIF, "properties.jsonl")):
    pr = json.loads(line)
    for f in pr["anchors"]["files"]:
        anch.setdefault(f, set()).add(pr["id"])


def ids_for(patch):
    if ids_arg:
        return ids_arg
    out = {"C01"}
    for m in re.finditer(r"^\+\+\+ b/(\S+)", open(patch).read(), flags=re.M):
        f = m.group(1)
        out |= anch.get(f, set())
        if f.startswith("ffi/"):
            out |= {"C16", "C18", "C19"}
        if f not in anch and not f.startswith("ffi/"):
            out |= set(props.PROPS)    # unknown file: run everything
    return sorted(out)
results_path = os.path.join(VERIF, "benign", "RESULTS.json")
results = json.load(open(results_path)) if os.path.exists(results_path) else {}
if subprocess.run(["git", "-C", "/repo", "diff", "--quiet"]).returncode != 0:
    sys.exit("refusing: /repo has uncommitted changes")
for d in sorted(glob.glob(os.path.join(VERIF, "benign", prefix + "*"))):
    if not os.path.isdir(d):
        continue
    name = os.path.basename(d)
    if subprocess.run(["git", "-C", "/repo", "apply", os.path.join(d, "patch.diff")]).returncode != 0:
        results[name] = {"error": "patch does not apply"}
        continue
    res = results.get(name, {}) if isinstance(results.get(name), dict) else {}
    try:
        for p in ids_for(os.path.join(d, "patch.diff")):
            out = subprocess.run([sys.executable, os.path.join(VERIF, "tools", "check.py"), p, "--tier", "quick"],
                                 capture_output=True, text=True, cwd=VERIF).stdout
            v = [l for l in out.splitlines() if l.startswith("VIOLATION")]
            res[p] = {"alarm": bool(v), "line": v[0] if v else ""}
            if v:
                m = re.search(r"replay=(\S+)", v[0])
                if m and os.path.exists(m.group(1)):
                    res[p]["replay"] = json.load(open(m.group(1)))
    finally:
        subprocess.run(["git", "-C", "/repo", "checkout", "--", "."])
    results[name] = res
    print(name, "alarms:", [p for p, r in res.items() if r.get("alarm")], flush=True)
    for f in glob.glob(os.path.join(VERIF, "replays", "*.json")):
        os.remove(f)
    json.dump(results, open(results_path, "w"), indent=1, sort_keys=True)
for hd, td in (("harness", "target"), ("harness-ffi", "target-ffi")):
    subprocess.run(["cargo", "build", "--offline"], cwd=os.path.join(VERIF, hd), capture_output=True,
                   env=dict(os.environ, CARGO_TARGET_DIR=os.path.join(VERIF, ".cache", td)))
