#!/usr/bin/env python3
"""Applies every seeded change under /verif/seeded/<name>/patch.diff to /repo, runs the quick
checks of the property it breaks (meta.json: "property", optional "also": [...]), reverts, and
writes seeded/RESULTS.json.  usage: tools/run_seeds.py [name-prefix]"""
import json, os, subprocess, sys, glob, re
VERIF = os.path.normpath(os.path.join(os.path.dirname(os.path.abspath(__file__)), ".."))
prefix = sys.argv[1] if len(sys.argv) > 1 else ""
results_path = os.path.join(VERIF, "seeded", "RESULTS.json")
results = json.load(open(results_path)) if os.path.exists(results_path) else {}
if subprocess.run(["git", "-C", "/repo", "diff", "--quiet"]).returncode != 0:
    sys.exit("refusing: /repo has uncommitted changes")
for d in sorted(glob.glob(os.path.join(VERIF, "seeded", prefix + "*"))):
    if not os.path.isdir(d):
        continue
    name = os.path.basename(d)
    meta = json.load(open(os.path.join(d, "meta.json")))
    props = [meta["property"]] + meta.get("also", [])
    if subprocess.run(["git", "-C", "/repo", "apply", os.path.join(d, "patch.diff")]).returncode != 0:
        results[name] = {"error": "patch does not apply"}
        continue
    res = {}
    try:
        for p in props:
            out = subprocess.run([sys.executable, os.path.join(VERIF, "tools", "check.py"), p, "--tier", "quick"],
                                 capture_output=True, text=True, cwd=VERIF).stdout
            v = [l for l in out.splitlines() if l.startswith("VIOLATION")]
            m = re.search(r"oracle failures (\d+)", out)
            res[p] = {"caught": bool(v), "line": v[0] if v else "", "oracle_failures": int(m.group(1)) if m else None}
    finally:
        subprocess.run(["git", "-C", "/repo", "checkout", "--", "."])
    results[name] = res
    print(name, {p: r["caught"] for p, r in res.items()}, flush=True)
    for f in glob.glob(os.path.join(VERIF, "replays", "*.json")):
        os.remove(f)
subprocess.run(["cargo", "build", "--offline"], cwd=os.path.join(VERIF, "harness"), capture_output=True,
               env=dict(os.environ, CARGO_TARGET_DIR=os.path.join(VERIF, ".cache", "target")))
subprocess.run(["cargo", "build", "--offline"], cwd=os.path.join(VERIF, "harness-ffi"), capture_output=True,
               env=dict(os.environ, CARGO_TARGET_DIR=os.path.join(VERIF, ".cache", "target-ffi")))
json.dump(results, open(results_path, "w"), indent=1, sort_keys=True)
