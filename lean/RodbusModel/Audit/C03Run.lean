import RodbusModel.Props.C03Run
/-! axiom audit of every property theorem of Props/C03Run and of the invariant lemmas it uses -/
#print axioms Rodbus.Client.sent_is_encoding
#print axioms Rodbus.Client.sent_is_valid_encoding
#print axioms Rodbus.Client.mbap_sent_frames
#print axioms Rodbus.Client.rtu_sent_frames
#print axioms Rodbus.Client.tx_log_is_sent
#print axioms Rodbus.Client.mbap_tx_log_frames
#print axioms Rodbus.Client.rtu_tx_log_frames
#print axioms Rodbus.Client.startRequest_emission
#print axioms Rodbus.Client.invalid_completes_badReq
#print axioms Rodbus.Client.invalid_never_sent
#print axioms Rodbus.Client.encode_len_le
#print axioms Rodbus.Client.pdu_length_le_of_accepted
#print axioms Rodbus.Client.reachable_logOk
#print axioms Rodbus.Client.runState_logOk
#print axioms Rodbus.Client.logOk_taskInv
#print axioms Rodbus.Client.logOk_applyStep
#print axioms Rodbus.Client.runState_inv
