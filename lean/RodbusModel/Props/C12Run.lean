import RodbusModel.Props.C12
import RodbusModel.Lemmas.ClientQuiet
/-
  C12 at the level of whole RUNS.

  Props/C12 states the timing of a request for one tick of the task (`at_deadline_timeout`,
  `before_deadline`, …) and the timeout counter for an abstract outcome sequence (`counter_exact`
  over `feed`).  Here:

  (a) `timeout_at_deadline_run`: in every state a script can reach in which a request is in
      flight, `Step.advance ms` only moves the clock as long as the deadline is not reached, and
      logs the completion with `timeout`, stamped with exactly the deadline, as soon as it is;
      `timeout_completion_at_deadline_run`: conversely every `timeout` completion of a run was
      logged in a state of the run in which that request was in flight and the clock showed
      exactly its deadline.
  (b) `max_timeouts_exact_run`: in the log the TASK writes during a run, a phase ends with
      `.fin (.maxTo n)` iff a limit `N ≥ 1` is configured, `n = N`, and the last `N` completions
      of that phase are timeouts — and at no earlier point of the phase were the last `N`
      completions timeouts; with `maxTo = 0` never (`no_limit_never_max_timeouts`).

  Vocabulary (Lemmas/ClientSessions.lean, Lemmas/ClientQuiet.lean):
    `taskLog F s steps`   what the task logged while the script ran (the log of the run without
                          the entries the script steps log themselves: refused submissions,
                          completions by the API call, the completions of `abort`);
                          `task_log_is_the_log_of_the_task`: a sublist of the log with all its
                          `.fin` entries
    `curOutcomes L`       the results of the completions in `L` since the last `.fin`, oldest first
    `trailing rs`, `Hit`  number of timeouts at the end of `rs`; "after some prefix of `rs` the
                          last `N` outcomes were timeouts"                 (Lemmas/ClientMeaning)

  Why the task log and not the whole log: see `as_worded_is_false` below.
-/
namespace Rodbus.Client

/-! ## (a) the deadline -/

/-- `timeout_at_deadline_run`, for a framing whose reader is known to have nothing to deliver in
    `s` (hypothesis `hq`; discharged for MBAP and RTU below).  `s` is any state a script reaches
    with request `r` in flight and deadline `dl`.  Then `s.now ≤ dl`, and for the step
    `Step.advance ms` (nothing is delivered):
    * `s.now + ms < dl`: only the clock moves — the request stays in flight with the same
      deadline, nothing is logged (not a timeout in particular);
    * `dl ≤ s.now + ms`: the log afterwards contains the completion of `r` with `timeout`,
      stamped with exactly `dl`. -/
theorem timeout_at_deadline_of_quiet {σ : Type} (F : Framing σ) (cap maxTo : Nat) (d : Decode)
    (coins : List Bool) (steps : List Step) (s : State σ)
    (hs : s = runState F (State.init F cap maxTo d coins) steps) (m : Nat) (r : Req) (tx dl : Nat)
    (hp : s.pos = .inflight m r tx dl) (hq : (pollReader F s m).1 = .blocked) (ms : Nat) :
    s.now ≤ dl
      ∧ (s.now + ms < dl → stepState F s (.advance ms) = { s with now := s.now + ms })
      ∧ (dl ≤ s.now + ms →
          LogEntry.done r.rid r.style .timeout dl ∈ (stepState F s (.advance ms)).log) := by
  have hreach : Reach (core s) := by rw [hs]; exact runState_reach F cap maxTo d coins steps
  obtain ⟨t1, t2⟩ := tidy_reach _ hreach
  have hnow : s.now ≤ dl := t2 m r tx dl hp
  have ha : s.alive = true := by
    cases hal : s.alive
    · have := (t1 hal).2
      rw [show (core s).pos = s.pos from rfl, hp] at this; cases this
    · rfl
  exact ⟨hnow, advance_before_deadline F s m r tx dl ms ha hp,
    advance_reaches_deadline F s m r tx dl ms ha hp hq hnow⟩

/-- `timeout_at_deadline_run`.  For a framing whose parser consumes or blocks with a parser-state
    weight of at most 1, no hypothesis on the reader is needed: in every state a script reaches,
    the reader of the request in flight has nothing to deliver (`reachable_quiet`: the tasks ran
    until they blocked, so every byte that was pending on the transport has been read and every
    complete frame in the buffer has been handled). -/
theorem timeout_at_deadline_run {σ : Type} (F : Framing σ) (w : σ → Nat) (hw : ParseMeasure F w)
    (hb : ∀ st, w st ≤ 1) (cap maxTo : Nat) (d : Decode) (coins : List Bool) (steps : List Step)
    (s : State σ) (hs : s = runState F (State.init F cap maxTo d coins) steps) (m : Nat)
    (r : Req) (tx dl : Nat) (hp : s.pos = .inflight m r tx dl) (ms : Nat) :
    (pollReader F s m).1 = .blocked
      ∧ s.now ≤ dl
      ∧ (s.now + ms < dl → stepState F s (.advance ms) = { s with now := s.now + ms })
      ∧ (dl ≤ s.now + ms →
          LogEntry.done r.rid r.style .timeout dl ∈ (stepState F s (.advance ms)).log) := by
  have hreach : Reach (core s) := by rw [hs]; exact runState_reach F cap maxTo d coins steps
  have ha : s.alive = true := by
    cases hal : s.alive
    · have := ((tidy_reach _ hreach).1 hal).2
      rw [show (core s).pos = s.pos from rfl, hp] at this; cases this
    · rfl
  have hq : (pollReader F s m).1 = .blocked := by
    have := reachable_quiet F w hw hb cap maxTo d coins steps
    rw [← hs] at this
    exact this ha m r tx dl hp
  exact ⟨hq, timeout_at_deadline_of_quiet F cap maxTo d coins steps s hs m r tx dl hp hq ms⟩

theorem timeout_at_deadline_run_mbap (cap maxTo : Nat) (d : Decode) (coins : List Bool)
    (steps : List Step) (s : State Mbap.PState)
    (hs : s = runState mbap (State.init mbap cap maxTo d coins) steps) (m : Nat) (r : Req)
    (tx dl : Nat) (hp : s.pos = .inflight m r tx dl) (ms : Nat) :
    (pollReader mbap s m).1 = .blocked
      ∧ s.now ≤ dl
      ∧ (s.now + ms < dl → stepState mbap s (.advance ms) = { s with now := s.now + ms })
      ∧ (dl ≤ s.now + ms →
          LogEntry.done r.rid r.style .timeout dl ∈ (stepState mbap s (.advance ms)).log) :=
  timeout_at_deadline_run mbap mbapW mbap_measure mbapW_le cap maxTo d coins steps s hs m r tx dl
    hp ms

theorem timeout_at_deadline_run_rtu (cap maxTo : Nat) (d : Decode) (coins : List Bool)
    (steps : List Step) (s : State Rtu.PState)
    (hs : s = runState rtu (State.init rtu cap maxTo d coins) steps) (m : Nat) (r : Req)
    (tx dl : Nat) (hp : s.pos = .inflight m r tx dl) (ms : Nat) :
    (pollReader rtu s m).1 = .blocked
      ∧ s.now ≤ dl
      ∧ (s.now + ms < dl → stepState rtu s (.advance ms) = { s with now := s.now + ms })
      ∧ (dl ≤ s.now + ms →
          LogEntry.done r.rid r.style .timeout dl ∈ (stepState rtu s (.advance ms)).log) :=
  timeout_at_deadline_run rtu (fun _ => 0) rtu_measure (fun _ => Nat.zero_le _) cap maxTo d coins
    steps s hs m r tx dl hp ms

/-- `timeout_only_at_deadline` for whole runs.  Every `timeout` completion in the log of a run was
    logged by the tick taken in a state `s0` of the run in which that request was in flight with
    deadline `dl` (written with transaction id `tx`), at the instant `s0.now = dl`, and the stamp
    of the completion is `dl`. -/
theorem timeout_completion_at_deadline_run {σ : Type} (F : Framing σ) (cap maxTo : Nat)
    (d : Decode) (coins : List Bool) (steps : List Step) (rid : Rid) (style : Style) (time : Nat)
    (h : LogEntry.done rid style .timeout time
          ∈ (runState F (State.init F cap maxTo d coins) steps).log) :
    ∃ s0 ∈ runTrace F (State.init F cap maxTo d coins) steps,
    ∃ m req tx dl bytes,
      s0.pos = .inflight m req tx dl ∧ req.rid = rid ∧ req.style = style
        ∧ s0.now = dl ∧ time = dl
        ∧ (rid, tx, bytes) ∈ (runState F (State.init F cap maxTo d coins) steps).sent := by
  rcases runState_done_cause F _ steps _ rfl h with h1 | h1 | ⟨s0, hs0, hc⟩
  · simp [State.init] at h1
  · obtain ⟨_, _, res', _, he, hr⟩ := h1
    simp only [LogEntry.done.injEq] at he
    obtain ⟨_, _, rfl, _⟩ := he
    rcases hr with hr | ⟨x, hr⟩ <;> cases hr
  · generalize he : LogEntry.done rid style Res.timeout time = e at hc
    cases hc with
    | noConn r q ha hp hq => simp at he
    | dequeue m r q res' ha hp hq hr =>
      simp only [LogEntry.done.injEq] at he
      obtain ⟨_, _, rfl, _⟩ := he
      exact absurd rfl (dequeueRes_ne hr).2.2
    | frame m r tx dl f s' ha hp hpr hmt =>
      simp only [LogEntry.done.injEq] at he
      exact absurd he.2.2.1.symm (respResult_ne r.req f.pdu).2.2
    | readErr m r tx dl res' s' ha hp hpr =>
      simp only [LogEntry.done.injEq] at he
      obtain ⟨_, _, rfl, _⟩ := he
      exact absurd rfl (pollReader_fail F s0 s' m _ hpr).2.2
    | timeout m r tx dl ha hp hdl =>
      simp only [LogEntry.done.injEq] at he
      obtain ⟨rfl, rfl, _, rfl⟩ := he
      obtain ⟨hpath, t, ht, hrest⟩ := runTrace_mem F _ s0 steps hs0
      have hreach : Reach (core s0) :=
        reach_steps ⟨maxTo, by rw [← core_init F cap maxTo d coins]; exact .refl _⟩ hpath
      obtain ⟨bytes, hb⟩ := inflightSent_reach _ hreach m r tx dl hp
      have hb' : (r.rid, tx, bytes) ∈ (core t).sent := teff_sent_mono (tick_eff F s0 t ht) _ hb
      have hle : s0.now ≤ dl := (tidy_reach _ hreach).2 m r tx dl hp
      have : s0.now = dl := by omega
      exact ⟨s0, hs0, m, r, tx, dl, bytes, hp, rfl, rfl, this, this,
        steps_sent_mono hrest _ hb'⟩

/-! ## (b) the timeout counter -/

/-- The task log of a run is the log of the run without what the script steps logged themselves:
    a sublist of the log that has all its `.fin` entries, in the same order, and every completion
    of the log that is not in it was produced by a script step itself (the API call completed the
    promise: `shutdown` or `bad request`). -/
theorem task_log_is_the_log_of_the_task {σ : Type} (F : Framing σ) (cap maxTo : Nat) (d : Decode)
    (coins : List Bool) (steps : List Step) :
    List.Sublist (taskLog F (State.init F cap maxTo d coins) steps)
        (runState F (State.init F cap maxTo d coins) steps).log
      ∧ (runState F (State.init F cap maxTo d coins) steps).log.filter (·.isFin)
          = (taskLog F (State.init F cap maxTo d coins) steps).filter (·.isFin)
      ∧ ∀ e ∈ (runState F (State.init F cap maxTo d coins) steps).log, e.isDone = true →
          e ∈ taskLog F (State.init F cap maxTo d coins) steps ∨ UserDone e := by
  have := taskLog_fins F (State.init F cap maxTo d coins) steps
  refine ⟨by simpa [State.init] using this.1, by simpa [State.init] using this.2, ?_⟩
  intro e he hd
  rcases taskLog_done F _ steps e hd he with h | h | h
  · exact Or.inl h
  · simp [State.init] at h
  · exact Or.inr h

/-- `max_timeouts_exact_run` (`counter_exact` for the sessions of every run).  Let `L` be the task
    log of a run with limit `maxTo`.  For every `.fin k t` in `L` (the end of a phase), with
    `older` the log before it and `curOutcomes older` the results of the completions logged since
    the previous `.fin` (the completions of that phase, oldest first):
    * `k` is `MaxTimeouts` iff `maxTo ≥ 1` and the last `maxTo` of these completions are timeouts;
    * the number it reports is `maxTo`;
    * at no earlier point of the phase were the last `maxTo` completions timeouts
      (so the phase ends exactly at the first such point, any other outcome restarts the count).
    And in the phase still running at the end of `L` that point has not been reached. -/
theorem max_timeouts_exact_run {σ : Type} (F : Framing σ) (cap maxTo : Nat) (d : Decode)
    (coins : List Bool) (steps : List Step) :
    (∀ post k t older, taskLog F (State.init F cap maxTo d coins) steps = post ++ .fin k t :: older →
        ((∃ n, k = .maxTo n) ↔ (1 ≤ maxTo ∧ maxTo ≤ trailing (curOutcomes older)))
          ∧ (∀ n, k = .maxTo n → n = maxTo)
          ∧ (1 ≤ maxTo → ∀ j, j < (curOutcomes older).length →
              trailing ((curOutcomes older).take j) < maxTo))
      ∧ (1 ≤ maxTo → ¬ Hit maxTo (curOutcomes (taskLog F (State.init F cap maxTo d coins) steps))) := by
  have inv := runState_sessInv F maxTo (State.init F cap maxTo d coins) steps []
    (by rw [core_init]; exact sessInv_init maxTo)
  rw [List.append_nil] at inv
  refine ⟨?_, fun h => by rw [← phasesOf_fst]; exact inv.noHit h⟩
  intro post k t older hL
  have hmem := phasesOf_split post older k t
  rw [← hL] at hmem
  have := inv.closed _ hmem
  rw [← phasesOf_fst]
  exact this

/-- `counter_no_limit` for every run: with `maxTo = 0` no phase of any run ever ends with
    `MaxTimeouts` (in the whole log, not only the task log). -/
theorem no_limit_never_max_timeouts {σ : Type} (F : Framing σ) (cap : Nat) (d : Decode)
    (coins : List Bool) (steps : List Step) (n t : Nat) :
    LogEntry.fin (.maxTo n) t ∉ (runState F (State.init F cap 0 d coins) steps).log := by
  intro h
  have h1 : LogEntry.fin (.maxTo n) t
      ∈ (runState F (State.init F cap 0 d coins) steps).log.filter (·.isFin) := by
    simp [List.mem_filter, h, LogEntry.isFin]
  rw [(task_log_is_the_log_of_the_task F cap 0 d coins steps).2.1] at h1
  have h2 := (List.mem_filter.mp h1).1
  obtain ⟨post, older, hL⟩ := List.append_of_mem h2
  have := ((max_timeouts_exact_run F cap 0 d coins steps).1 post _ t older hL).1.mp ⟨n, rfl⟩
  omega

/-- every `MaxTimeouts` in the log of a run reports the configured limit, which is at least 1 -/
theorem max_timeouts_reports_limit {σ : Type} (F : Framing σ) (cap maxTo : Nat) (d : Decode)
    (coins : List Bool) (steps : List Step) (n t : Nat)
    (h : LogEntry.fin (.maxTo n) t ∈ (runState F (State.init F cap maxTo d coins) steps).log) :
    n = maxTo ∧ 1 ≤ maxTo := by
  have h1 : LogEntry.fin (.maxTo n) t
      ∈ (runState F (State.init F cap maxTo d coins) steps).log.filter (·.isFin) := by
    simp [List.mem_filter, h, LogEntry.isFin]
  rw [(task_log_is_the_log_of_the_task F cap maxTo d coins steps).2.1] at h1
  have h2 := (List.mem_filter.mp h1).1
  obtain ⟨post, older, hL⟩ := List.append_of_mem h2
  obtain ⟨a, b, _⟩ := (max_timeouts_exact_run F cap maxTo d coins steps).1 post _ t older hL
  exact ⟨b n rfl, (a.mp ⟨n, rfl⟩).1⟩

/-- the link to `counter_exact`: for a phase of a run whose completions are not themselves
    session-ending errors, "the phase ended with `MaxTimeouts`" is what the abstract bookkeeping
    `feed` computes from the outcomes of that phase, started in an idle session with the counter
    at zero -/
theorem max_timeouts_iff_feed {σ : Type} (F : Framing σ) (cap maxTo : Nat) (d : Decode)
    (coins : List Bool) (steps : List Step) (post older : List LogEntry) (k : EndKind) (t : Nat)
    (hL : taskLog F (State.init F cap maxTo d coins) steps = post ++ .fin k t :: older)
    (hN : 1 ≤ maxTo) (m : Nat) (c : Core) (hp : c.pos = .idle m) (hn : c.nto = 0)
    (hm : c.maxTo = maxTo) (hrs : ∀ r ∈ curOutcomes older, r.sessionEnd = none) :
    (∃ n, k = .maxTo n) ↔ (feed m c (curOutcomes older)).pos = .noPhase := by
  obtain ⟨a, _, e⟩ := (max_timeouts_exact_run F cap maxTo d coins steps).1 post k t older hL
  rw [counter_exact m maxTo hN c hp hn hm _ hrs, a]
  constructor
  · rintro ⟨_, h⟩; exact ⟨_, Nat.le_refl _, by rwa [List.take_length]⟩
  · rintro ⟨j, hj, h⟩
    refine ⟨hN, ?_⟩
    by_cases hlt : j < (curOutcomes older).length
    · have := e hN j hlt; omega
    · have : j = (curOutcomes older).length := by omega
      rw [this, List.take_length] at h; exact h

/-! ## non-vacuity -/

namespace Example

/-- (a) the hypothesis of `timeout_at_deadline_run_mbap` holds after `[N, submit a]`: `a` is in
    flight with deadline 10; `advance 9` only moves the clock, `advance 10` logs the timeout at
    10, and so does `advance 9` followed by `advance 1` -/
example :
    let s := runState mbap s16 [.newSession, .submit .R 0 (rc "a" .future 10)]
    s.pos = .inflight 0 (rc "a" .future 10) 0 10
      ∧ (pollReader mbap s 0).1 = .blocked
      ∧ (stepState mbap s (.advance 9)).log = s.log
      ∧ (stepState mbap s (.advance 9)).pos = s.pos
      ∧ (stepState mbap s (.advance 9)).now = 9
      ∧ (stepState mbap s (.advance 10)).log.head? = some (.done "a" .future .timeout 10)
      ∧ (stepState mbap s (.advance 25)).log.head? = some (.done "a" .future .timeout 10)
      ∧ (runState mbap s [.advance 9, .advance 1]).log.head? = some (.done "a" .future .timeout 10) := by
  decide +kernel

/-- the same with bytes of an incomplete reply in the read buffer (the reader is quiet: it has
    read them, they do not form a frame) -/
example :
    let s := runState mbap s16
      [.newSession, .submit .R 0 (rc "a" .future 10), .rx (.data [0, 0, 0, 0, 0, 4, 1, 1])]
    s.pos = .inflight 0 (rc "a" .future 10) 0 10
      ∧ (pollReader mbap s 0).1 = .blocked
      ∧ (stepState mbap s (.advance 10)).log.head? = some (.done "a" .future .timeout 10) := by
  decide +kernel

/-- RTU -/
example :
    let s := runState rtu (State.init rtu 16 0 ⟨0, 0, 0⟩ [])
      [.newSession, .submit .R 0 (rc "a" .future 10), .advance 4]
    s.pos = .inflight 0 (rc "a" .future 10) 0 10 ∧ s.now = 4
      ∧ (stepState rtu s (.advance 5)).log = s.log
      ∧ (stepState rtu s (.advance 6)).log.head? = some (.done "a" .future .timeout 10) := by
  decide +kernel

/-- (b) limit 2.  `a` times out; `x` is refused by the API call itself (`Channel` literal range
    65535+10: the promise completes with the range error at once, the task never sees it);
    `b` times out: the session ends with `MaxTimeouts(2)`. -/
def limit2 : List Step :=
  [.newSession, .submit .R 0 (rc "a" .future 10), .advance 10,
   .submit .Q 0 ⟨"x", .future, 1, 10, .readCoils 65535 10⟩,
   .submit .R 0 (rc "b" .future 10), .advance 10]

def init2 : State Mbap.PState := State.init mbap 16 2 ⟨0, 0, 0⟩ []

/-- `as_worded_is_false`.  The statement "a session ends with `.maxTo N` iff the last `N`
    completions in the log segment of that session were timeouts" is FALSE for the whole log:
    here the segment ends with `MaxTimeouts(2)` although its last two completions are
    `x: bad request`, `b: timeout` — a completion by the API call does not restart the count,
    while the same result produced by the task (a request that cannot be encoded, or an echoed
    range that is invalid: `respResult`) does, so the whole log does not determine the counter.
    In the task log the completion of `x` does not occur, and `max_timeouts_exact_run` holds. -/
theorem as_worded_is_false :
    (runState mbap init2 limit2).log
        = [.fin (.maxTo 2) 20, .done "b" .future .timeout 20,
           .tx [0, 1, 0, 0, 0, 6, 1, 1, 0, 0, 0, 8],
           .done "x" .future (.badReq (.badRange .addressOverflow)) 10,
           .done "a" .future .timeout 10, .tx [0, 0, 0, 0, 0, 6, 1, 1, 0, 0, 0, 8]]
      ∧ curOutcomes ((runState mbap init2 limit2).log.drop 1)
        = [.timeout, .badReq (.badRange .addressOverflow), .timeout]
      ∧ trailing (curOutcomes ((runState mbap init2 limit2).log.drop 1)) = 1
      ∧ taskLog mbap init2 limit2
        = [.fin (.maxTo 2) 20, .done "b" .future .timeout 20,
           .tx [0, 1, 0, 0, 0, 6, 1, 1, 0, 0, 0, 8],
           .done "a" .future .timeout 10, .tx [0, 0, 0, 0, 0, 6, 1, 1, 0, 0, 0, 8]]
      ∧ curOutcomes ((taskLog mbap init2 limit2).drop 1) = [.timeout, .timeout]
      ∧ trailing (curOutcomes ((taskLog mbap init2 limit2).drop 1)) = 2 := by
  decide +kernel

/-- limit 2: timeout, exception (restarts the count), timeout, timeout: `MaxTimeouts(2)` at the
    fourth outcome, not at the second or third; then a second session with one timeout that is
    still running -/
example :
    let script := [Step.newSession, .submit .R 0 (rc "a" .future 10),
      .submit .R 0 (rc "b" .future 10), .submit .R 0 (rc "c" .future 10),
      .submit .R 0 (rc "d" .future 10), .submit .R 0 (rc "e" .future 10),
      .advance 10, .rx (.data [0, 1, 0, 0, 0, 3, 1, 0x81, 2]), .advance 20,
      .newSession, .advance 10]
    phasesOf (taskLog mbap init2 script)
      = ([.timeout], [(.maxTo 2, 30, [.timeout, .exc 2, .timeout, .timeout])]) := by
  decide +kernel

/-- without a limit five timeouts in a row leave the session running -/
example :
    let script := [Step.newSession, .submit .R 0 (rc "a" .future 10),
      .submit .R 0 (rc "b" .future 10), .submit .R 0 (rc "c" .future 10),
      .submit .R 0 (rc "d" .future 10), .submit .R 0 (rc "e" .future 10), .advance 50]
    phasesOf (taskLog mbap s16 script)
        = ([.timeout, .timeout, .timeout, .timeout, .timeout], [])
      ∧ (runState mbap s16 script).pos = .idle 0 := by
  decide +kernel

/-- a session that ends for another reason: the peer closes the connection while `a` is in
    flight -/
example :
    phasesOf (taskLog mbap init2 [.newSession, .submit .R 0 (rc "a" .future 10), .rx .eof])
      = ([], [(.io .eof, 0, [.io .eof])]) := by
  decide +kernel

end Example

end Rodbus.Client
