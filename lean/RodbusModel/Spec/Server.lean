import RodbusModel.Model.Server
/-
  Reference Modbus server (the specification side of C01/C02/C08/C17), written declaratively:
  validity is a predicate over the byte positions of the PDU (no cursor), decoding is by index,
  replies are given by closed formulas over the requested address range.  The model
  (`handleFrame`, which mirrors the cursor-based Rust code) is *proved* equal to it in Props/C01.
-/
namespace Rodbus.Spec.Server

/-- big-endian u16 at byte offset `i` -/
def u16At (bs : Bytes) (i : Nat) : Nat := bs.getD i 0 * 256 + bs.getD (i + 1) 0

/-- the request body (PDU without function code) is a valid request of function `fc`:
    exact length for its quantity, quantity ≥ 1 and within the protocol limit, no address overflow,
    defined coil value.  The redundant byte-count field (offset 4) is not constrained. -/
def validBody (fc : Fc) (body : Bytes) : Bool :=
  let start := u16At body 0
  let qty := u16At body 2
  match fc with
  | .readCoils | .readDiscreteInputs =>
    body.length == 4 && 1 ≤ qty && qty ≤ 2000 && start + qty ≤ 65536
  | .readHoldingRegisters | .readInputRegisters =>
    body.length == 4 && 1 ≤ qty && qty ≤ 125 && start + qty ≤ 65536
  | .writeSingleCoil => body.length == 4 && (qty == 0xFF00 || qty == 0)
  | .writeSingleRegister => body.length == 4
  | .writeMultipleCoils =>
    1 ≤ qty && qty ≤ 1968 && start + qty ≤ 65536 && body.length == 5 + (qty + 7) / 8
  | .writeMultipleRegisters =>
    1 ≤ qty && qty ≤ 123 && start + qty ≤ 65536 && body.length == 5 + 2 * qty

/-- bit `i` of a packed payload: bit `i % 8` of byte `i / 8` -/
def bitOf (payload : Bytes) (i : Nat) : Bool := (payload.getD (i / 8) 0 / 2 ^ (i % 8)) % 2 == 1

/-- the request denoted by a valid body -/
def decode (fc : Fc) (body : Bytes) : Request :=
  let start := u16At body 0
  let qty := u16At body 2
  match fc with
  | .readCoils => .readCoils ⟨start, qty⟩
  | .readDiscreteInputs => .readDiscreteInputs ⟨start, qty⟩
  | .readHoldingRegisters => .readHoldingRegisters ⟨start, qty⟩
  | .readInputRegisters => .readInputRegisters ⟨start, qty⟩
  | .writeSingleCoil => .writeSingleCoil start (qty == 0xFF00)
  | .writeSingleRegister => .writeSingleRegister start qty
  | .writeMultipleCoils =>
    .writeMultipleCoils ⟨start, qty⟩ ((List.range qty).map fun i => bitOf (body.drop 5) i)
  | .writeMultipleRegisters =>
    .writeMultipleRegisters ⟨start, qty⟩ ((List.range qty).map fun i => u16At body (5 + 2 * i))

/-- index of the first address of the range whose read raises an exception -/
def firstFailure {α : Type} (get : Nat → Except Nat α) (start qty : Nat) : Option (Nat × Nat) :=
  (List.range qty).findSome? fun i =>
    match get (start + i) with
    | .error e => some (i, e)
    | .ok _ => none

/-- the addresses a read queries: the whole range, or up to and including the first failure -/
def queried {α : Type} (get : Nat → Except Nat α) (start qty : Nat) : List Nat :=
  match firstFailure get start qty with
  | none => (List.range qty).map (start + ·)
  | some (k, _) => (List.range (k + 1)).map (start + ·)

/-- byte `j` of a packed-bit reply: bit `k` is the value at offset `8j + k`, padding bits 0 -/
def packedByte (val : Nat → Bool) (qty j : Nat) : Nat :=
  (List.range 8).foldl (fun acc k => acc + (if 8 * j + k < qty ∧ val (8 * j + k) then 2 ^ k else 0)) 0

def valOr {α : Type} (d : α) : Except Nat α → α
  | .ok v => v
  | .error _ => d

/-- reply PDU of a bit read -/
def bitsReply (fcb : Nat) (get : Nat → Except Nat Bool) (start qty : Nat) : Bytes :=
  match firstFailure get start qty with
  | some (_, e) => [orErr fcb, e]
  | none =>
    fcb :: (qty + 7) / 8 ::
      (List.range ((qty + 7) / 8)).map (packedByte (fun i => valOr false (get (start + i))) qty)

/-- reply PDU of a register read -/
def regsReply (fcb : Nat) (get : Nat → Except Nat Nat) (start qty : Nat) : Bytes :=
  match firstFailure get start qty with
  | some (_, e) => [orErr fcb, e]
  | none =>
    fcb :: 2 * qty ::
      ((List.range qty).map fun i =>
        let v := valOr 0 (get (start + i))
        [v / 256 % 256, v % 256]).flatten

/-- echo / exception reply of a write -/
def writeReply (fcb : Nat) (res : Except Nat Unit) (echo : Bytes) : Bytes :=
  match res with
  | .ok () => fcb :: echo
  | .error e => [orErr fcb, e]

def be (n : Nat) : Bytes := [n / 256 % 256, n % 256]

/-- what the reference server does with a valid, permitted request addressed to unit `u`
    whose application state is `s` -/
def serve {σ : Type} (H : Handler σ) (u : Nat) (s : σ) (req : Request) : Bytes × List Call × σ :=
  match req with
  | .readCoils r =>
    (bitsReply 1 (H.readCoil s) r.start r.count,
     (queried (H.readCoil s) r.start r.count).map (Call.readCoil u), s)
  | .readDiscreteInputs r =>
    (bitsReply 2 (H.readDiscreteInput s) r.start r.count,
     (queried (H.readDiscreteInput s) r.start r.count).map (Call.readDiscreteInput u), s)
  | .readHoldingRegisters r =>
    (regsReply 3 (H.readHoldingRegister s) r.start r.count,
     (queried (H.readHoldingRegister s) r.start r.count).map (Call.readHoldingRegister u), s)
  | .readInputRegisters r =>
    (regsReply 4 (H.readInputRegister s) r.start r.count,
     (queried (H.readInputRegister s) r.start r.count).map (Call.readInputRegister u), s)
  | .writeSingleCoil i v =>
    let (res, s') := H.writeSingleCoil s i v
    (writeReply 5 res (be i ++ (if v then [0xFF, 0] else [0, 0])), [Call.writeSingleCoil u i v], s')
  | .writeSingleRegister i v =>
    let (res, s') := H.writeSingleRegister s i v
    (writeReply 6 res (be i ++ be v), [Call.writeSingleRegister u i v], s')
  | .writeMultipleCoils r vals =>
    let items := (List.range vals.length).zip vals |>.map fun (i, v) => (r.start + i, v)
    let (res, s') := H.writeMultipleCoils s r items
    (writeReply 15 res (be r.start ++ be r.count), [Call.writeMultipleCoils u r items], s')
  | .writeMultipleRegisters r vals =>
    let items := (List.range vals.length).zip vals |>.map fun (i, v) => (r.start + i, v)
    let (res, s') := H.writeMultipleRegisters s r items
    (writeReply 16 res (be r.start ++ be r.count), [Call.writeMultipleRegisters u r items], s')

def isWrite : Request → Bool
  | .writeSingleCoil _ _ | .writeSingleRegister _ _
  | .writeMultipleCoils _ _ | .writeMultipleRegisters _ _ => true
  | _ => false

/-- a broadcast write is applied to every configured unit, ascending, results ignored -/
def applyToAll {σ : Type} (H : Handler σ) (req : Request) :
    List (Nat × σ) → List Call × List (Nat × σ)
  | [] => ([], [])
  | (u, s) :: rest =>
    let (_, c, s') := serve H u s req
    let (cs, rest') := applyToAll H req rest
    (c ++ cs, (u, s') :: rest')

/-- the authorization question asked for a request -/
def authQuestion (req : Request) (unit : Nat) (role : String) : Call :=
  match req with
  | .readCoils r => .authRange .readCoils unit r role
  | .readDiscreteInputs r => .authRange .readDiscreteInputs unit r role
  | .readHoldingRegisters r => .authRange .readHoldingRegisters unit r role
  | .readInputRegisters r => .authRange .readInputRegisters unit r role
  | .writeSingleCoil i _ => .authIndex .writeSingleCoil unit i role
  | .writeSingleRegister i _ => .authIndex .writeSingleRegister unit i role
  | .writeMultipleCoils r _ => .authRange .writeMultipleCoils unit r role
  | .writeMultipleRegisters r _ => .authRange .writeMultipleRegisters unit r role

/-- The reference server.  In words:
    1. an empty PDU is ignored;
    2. a frame for nobody (unit id not configured; on RTU, destination 0 = everybody) that is not
       a well-formed request is ignored; for a configured unit an unknown function code is
       answered with exception 01 and an invalid request with exception 03; broadcasts are never
       answered;
    3. a well-formed request is first put to the authorization handler, if any: deny ⇒ exception
       01 (nothing on broadcast), no effect;
    4. a broadcast write is applied to every unit and not answered, a broadcast read is ignored;
    5. a request for an unconfigured unit is ignored; otherwise the unit is served. -/
def respond {σ : Type} (cfg : ServerCfg σ) (hs : List (Nat × σ)) (f : Frame) : FrameOut σ :=
  let silent : FrameOut σ := ⟨none, [], hs⟩
  if f.pdu.isEmpty then silent else
  let fcByte := f.pdu.headD 0
  let body := f.pdu.drop 1
  let broadcast : Bool := cfg.rtu && f.dest == 0
  let target : Option σ := if broadcast then none else lookupUnit hs f.dest
  match Fc.ofByte fcByte with
  | none =>
    if target.isSome then ⟨some [orErr fcByte, 1], [], hs⟩ else silent
  | some fc =>
    if !validBody fc body then
      if target.isSome then ⟨some [orErr fc.toByte, 3], [], hs⟩ else silent
    else
      let req := decode fc body
      let question : List Call := match cfg.auth with
        | none => []
        | some (_, role) => [authQuestion req f.dest role]
      let denied : Bool := match cfg.auth with
        | none => false
        | some (P, role) => !P req.fc f.dest req.authArg role
      if denied then
        ⟨if broadcast then none else some [orErr fc.toByte, 1], question, hs⟩
      else if broadcast then
        if isWrite req then
          let (cs, hs') := applyToAll cfg.H req hs
          ⟨none, question ++ cs, hs'⟩
        else ⟨none, question, hs⟩
      else
        match target with
        | none => ⟨none, question, hs⟩
        | some s =>
          let (pdu, cs, s') := serve cfg.H f.dest s req
          ⟨some pdu, question ++ cs, setUnit hs f.dest s'⟩

end Rodbus.Spec.Server
