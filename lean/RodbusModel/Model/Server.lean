import RodbusModel.Model.Pdu
import RodbusModel.Model.Buffer
/-
  M6: the server session at frame level: `SessionTask::handle_frame` (server/task.rs),
  `AuthorizationType::is_authorized`, `ServerHandlerMap` (a `BTreeMap<UnitId, _>`, i.e. an
  association list in ascending unit order).
-/
namespace Rodbus

/-- argument handed to the authorization callback: the range (reads, multiple writes) or the
    index (single writes) -/
inductive AuthArg
  | range (r : Range)
  | index (i : Nat)
deriving DecidableEq, Repr

/-- an `AuthorizationHandler`: function code (= which callback), unit id, argument, role ↦ allow? -/
abbrev AuthFn := Fc → Nat → AuthArg → String → Bool

/-- `AuthorizationType::check_authorization`: which callback, with which argument -/
def Request.authArg : Request → AuthArg
  | .readCoils r | .readDiscreteInputs r | .readHoldingRegisters r | .readInputRegisters r => .range r
  | .writeSingleCoil i _ | .writeSingleRegister i _ => .index i
  | .writeMultipleCoils r _ | .writeMultipleRegisters r _ => .range r

def authCall (fc : Fc) (unit : Nat) (a : AuthArg) (role : String) : Call :=
  match a with
  | .range r => .authRange fc unit r role
  | .index i => .authIndex fc unit i role

structure ServerCfg (σ : Type) where
  /-- RTU framing: destination 0 is `FrameDestination::Broadcast` -/
  rtu : Bool
  H : Handler σ
  /-- `AuthorizationType::Handler(handler, role)` -/
  auth : Option (AuthFn × String)

/-- result of handling one frame: reply PDU (framed with the request's header), application
    calls in order, new handler states -/
structure FrameOut (σ : Type) where
  reply : Option Bytes
  calls : List Call
  states : List (Nat × σ)

/-- `ServerHandlerMap::get` -/
def lookupUnit {σ : Type} (hs : List (Nat × σ)) (u : Nat) : Option σ :=
  match hs with
  | [] => none
  | (k, s) :: rest => if k = u then some s else lookupUnit rest u

/-- replace the state of unit `u` -/
def setUnit {σ : Type} (hs : List (Nat × σ)) (u : Nat) (s' : σ) : List (Nat × σ) :=
  hs.map (fun (k, s) => if k = u then (k, s') else (k, s))

/-- `for handler in self.handlers.iter_mut() { request.execute(handler) }` -/
def broadcastAll {σ : Type} (H : Handler σ) (req : Request) :
    List (Nat × σ) → List Call × List (Nat × σ)
  | [] => ([], [])
  | (u, s) :: rest =>
    match executeBroadcast H u s req with
    | none => ([], (u, s) :: rest)
    | some (c, s') =>
      let (cs, rest') := broadcastAll H req rest
      (c ++ cs, (u, s') :: rest')

/-- `SessionTask::handle_frame` -/
def handleFrame {σ : Type} (cfg : ServerCfg σ) (hs : List (Nat × σ)) (f : Frame) : FrameOut σ :=
  let silent : FrameOut σ := ⟨none, [], hs⟩
  match f.pdu with
  | [] => silent                                         -- "received an empty frame"
  | b :: body =>
    let bcast := cfg.rtu && f.dest == 0
    -- is there anybody to answer for this destination?
    let configured := bcast || (lookupUnit hs f.dest).isSome
    match Fc.ofByte b with
    | none =>
      if bcast || !configured then silent
      else ⟨some (exceptionPdu b 1), [], hs⟩              -- unknown function: exception 01
    | some fc =>
      match parseRequest fc body with
      | none =>
        if bcast || !configured then silent
        else ⟨some (exceptionPdu fc.toByte 3), [], hs⟩    -- invalid request: exception 03
      | some req =>
        let authCalls : List Call := match cfg.auth with
          | none => []
          | some (_, role) => [authCall req.fc f.dest req.authArg role]
        let allowed : Bool := match cfg.auth with
          | none => true
          | some (P, role) => P req.fc f.dest req.authArg role
        if !allowed then
          if bcast then ⟨none, authCalls, hs⟩
          else ⟨some (exceptionPdu req.fc.toByte 1), authCalls, hs⟩
        else if bcast then
          let (cs, hs') := broadcastAll cfg.H req hs
          ⟨none, authCalls ++ cs, hs'⟩
        else
          match lookupUnit hs f.dest with
          | none => ⟨none, authCalls, hs⟩                 -- unmapped unit id: no response
          | some s =>
            let (pdu, cs, s') := getReply cfg.H f.dest s req
            ⟨some pdu, authCalls ++ cs, setUnit hs f.dest s'⟩

/-- a session at frame level: fold `handleFrame` over the frames delivered by the reader;
    output = replies (with the frame they answer), calls, final states -/
def runFrames {σ : Type} (cfg : ServerCfg σ) :
    List (Nat × σ) → List Frame → List (Frame × Bytes) × List Call × List (Nat × σ)
  | hs, [] => ([], [], hs)
  | hs, f :: fs =>
    let o := handleFrame cfg hs f
    let (rs, cs, hs') := runFrames cfg o.states fs
    ((match o.reply with | some p => [(f, p)] | none => []) ++ rs, o.calls ++ cs, hs')

end Rodbus
