import RodbusModel.Model.Retry
/-
  M8r: the open / retry life cycle of the RTU server task, `RtuServerTask::run` (serial/server.rs):

      loop {
        match serial::open(port, settings) {
          Ok(serial) => { retry.reset(); info!("opened port");
                          if session.run(&mut phys) == Shutdown { return }
                          d = retry.after_disconnect(); warn!("waiting {d:?} to reopen port");
                          if session.sleep_for(d) == Err(Shutdown) { return } }
          Err(err)   => { d = retry.after_failed_connect();
                          warn!("unable to open serial port, retrying in {d:?} - error: {err}");
                          if session.sleep_for(d) == Err(Shutdown) { return } }
        }
      }

  `session.run` (server/task.rs) serves requests until a command ends it (`ServerCommand::Shutdown`
  or every `ServerHandle` dropped: `RequestError::Shutdown`) or an error does (a frame the RTU
  parser rejects, e.g. a bad CRC; an I/O error, e.g. the device is gone).  `session.sleep_for(d)`
  waits `d` unless a shutdown command arrives / every handle is dropped first.

  The task has no listener.  What can be observed of its life cycle: the three announcements above
  (`tracing` events, each carrying the delay that is then slept), the replies written to the port,
  and the end of the task (it drops what it owns: the strategy object, the port).

  The task is driven by events of its environment, like `Model/SerialLife.lean`: the device path
  appears / disappears (which decides the outcome of the next `serial::open`; `absent` / `present`
  while the task sleeps also mean "the delay elapses now"), an open port is lost, a frame arrives
  (one that is served, or one that ends the session), the user shuts the task down or drops every
  handle.  Frame contents are not modelled here (that is `Model/Server.lean`): a served request
  is answered (`Obs.reply`) exactly while the port is open, and never changes where the task is.
-/
namespace Rodbus.SerialServer

/-- what the environment can observe -/
inductive Obs
  /-- "unable to open serial port, retrying in d": a failed open, then `sleep_for(d)` -/
  | failed (d : Nat)
  /-- "opened port": a successful open; the session runs -/
  | opened
  /-- "waiting d to reopen port": the session ended with an error, then `sleep_for(d)` -/
  | reopen (d : Nat)
  /-- the reply to a served request was written to the port -/
  | reply
  /-- `run` has returned: the task is over -/
  | ended
deriving DecidableEq, Repr

/-- events of the environment -/
inductive Ev
  /-- `f`: the device path does not exist (from now on); a pending wait elapses (or the task
      makes its first attempt): the open attempt happens now and fails -/
  | absent
  /-- `o`: the device path exists (from now on); a pending wait elapses (or the task makes its
      first attempt): the open attempt happens now and succeeds -/
  | present
  /-- `x`: the device disappears: the path is removed and an open port fails (EOF / I/O error) -/
  | lost
  /-- `q…`: a request frame that the session serves arrives -/
  | frame
  /-- `b…`: a frame that ends the session arrives (bad CRC) -/
  | badFrame
  /-- `S`: `ServerHandle::shutdown()` -/
  | shutdown
  /-- `X`: every `ServerHandle` is dropped -/
  | dropAll
  /-- `~<ms>`: time passes, nothing else -/
  | pause
deriving DecidableEq, Repr

/-- where the task is between two events -/
inductive Phase
  /-- spawned, `run` has not been polled yet: the first `serial::open` is still to come -/
  | starting
  /-- `session.sleep_for(delay)` after a failed open or an ended session -/
  | waiting
  /-- `session.run(&mut phys)`: the port is open -/
  | session
  /-- `run` has returned -/
  | finished
deriving DecidableEq, Repr

structure S where
  /-- `RtuServerTask::retry` -/
  retry : Retry.Doubling
  /-- the device path exists: `serial::open` would succeed -/
  present : Bool := false
  phase : Phase := .starting
deriving DecidableEq, Repr

/-- one round of the loop up to the point where the task blocks -/
def attempt (s : S) : S × List Obs :=
  if s.present then
    -- Ok(serial): `retry.reset()`, "opened port", `session.run`
    ({ s with retry := Retry.reset s.retry, phase := .session }, [.opened])
  else
    -- Err(_): `retry.after_failed_connect()`, "unable to open …, retrying in d", `sleep_for(d)`
    ({ s with retry := (Retry.afterFailedConnect s.retry).2, phase := .waiting },
     [.failed (Retry.afterFailedConnect s.retry).1])

/-- `run` returns `Shutdown` -/
def finish (s : S) : S × List Obs := ({ s with phase := .finished }, [.ended])

/-- the session ended with an error: `retry.after_disconnect()`, "waiting d to reopen port",
    `sleep_for(d)` -/
def sessionError (s : S) : S × List Obs :=
  ({ s with phase := .waiting }, [.reopen (Retry.afterDisconnect s.retry)])

/-- one event: the new state and what is observed -/
def step (s : S) (e : Ev) : S × List Obs :=
  match s.phase with
  | .finished => (s, [])
  | .starting =>
    match e with
    | .absent => attempt { s with present := false }
    | .present => attempt { s with present := true }
    | .lost => ({ s with present := false }, [])
    -- the command is queued, the task is polled for the first time: it opens (or fails to open)
    -- the port with the path as it is, and only then, in `session.run` / `sleep_for`, finds the
    -- command (or the closed command channel)
    | .shutdown | .dropAll => ((finish (attempt s).1).1, (attempt s).2 ++ [.ended])
    | .frame | .badFrame | .pause => (s, [])
  | .waiting =>
    match e with
    -- the delay elapses: `sleep_for` returns Ok(()), next round of the loop
    | .absent => attempt { s with present := false }
    | .present => attempt { s with present := true }
    | .lost => ({ s with present := false }, [])
    -- `sleep_for` returns Err(Shutdown)
    | .shutdown | .dropAll => finish s
    -- nobody reads the port
    | .frame | .badFrame | .pause => (s, [])
  | .session =>
    match e with
    -- I/O error of the open port
    | .lost => sessionError { s with present := false }
    -- `RequestError::BadFrame`
    | .badFrame => sessionError s
    -- the open descriptor is not affected by what happens to the path
    | .absent => ({ s with present := false }, [])
    | .present => ({ s with present := true }, [])
    -- `session.run` returns `RequestError::Shutdown`
    | .shutdown | .dropAll => finish s
    | .frame => (s, [.reply])
    | .pause => (s, [])

/-- the state after a script -/
def after (s : S) (es : List Ev) : S := es.foldl (fun s e => (step s e).1) s

/-- everything observed during a script -/
def outputs : S → List Ev → List Obs
  | _, [] => []
  | s, e :: es => (step s e).2 ++ outputs (step s e).1 es

def init (mn mx : Nat) : S := { retry := Retry.create mn mx }

/-- `RtuServerTask::run` under a script; the environment ends every script with a shutdown
    command (which does nothing if the task is over) -/
def run (mn mx : Nat) (script : List Ev) : List Obs :=
  outputs (init mn mx) (script ++ [.shutdown])

end Rodbus.SerialServer
