#!/usr/bin/env python3
"""Blind-spot map: which lines of /repo's rodbus sources do the correspondence suites execute?
Builds the harnesses with `-C instrument-coverage` (nightly toolchain, own target directories), runs
the quick (or thorough) checks of the given properties in coverage mode (no evidence is written),
merges the profiles and writes .cache/cov/report.txt (per file) and .cache/cov/uncovered.txt (per
function / line).  Development tool; not registered in MANIFEST.json.
usage: tools/coverage.py [--tier quick|thorough] [C01 C02 ...]"""
import glob, json, os, subprocess, sys
VERIF = os.path.normpath(os.path.join(os.path.dirname(os.path.abspath(__file__)), ".."))
sys.path.insert(0, os.path.join(VERIF, "tools"))
import props
CACHE = os.path.join(VERIF, ".cache")
COVD = os.path.join(CACHE, "cov")
args = sys.argv[1:]
tier = "quick"
if args[:1] == ["--tier"]:
    tier = args[1]
    args = args[2:]
ids = args or sorted(props.PROPS)
os.makedirs(COVD, exist_ok=True)
for f in glob.glob(os.path.join(COVD, "*.profraw")):
    os.remove(f)
env = dict(os.environ, VERIF_COVERAGE="1")
for p in ids:
    out = subprocess.run([sys.executable, os.path.join(VERIF, "tools", "check.py"), p, "--tier", tier],
                         capture_output=True, text=True, cwd=VERIF, env=env).stdout
    print(out.strip().splitlines()[-1] if out.strip() else f"{p}: no output", flush=True)
tc = subprocess.run(["rustc", "+nightly", "--print", "sysroot"], capture_output=True, text=True).stdout.strip()
bind = os.path.join(tc, "lib", "rustlib", "x86_64-unknown-linux-gnu", "bin")
prof = os.path.join(COVD, "merged.profdata")
raws = glob.glob(os.path.join(COVD, "*.profraw"))
lst = os.path.join(COVD, "raw.list")
open(lst, "w").write("\n".join(raws) + "\n")
subprocess.run([os.path.join(bind, "llvm-profdata"), "merge", "-sparse", "-f", lst, "-o", prof], check=True)
bins = [b for b in (os.path.join(CACHE, "target-cov", "debug", "verif-harness"),
                    os.path.join(CACHE, "target-ffi-cov", "debug", "verif-harness-ffi")) if os.path.exists(b)]
objs = [bins[0]] + [x for b in bins[1:] for x in ("-object", b)]
common = ["-instr-profile", prof, "-ignore-filename-regex", r"(\.cargo|rustc|/verif/|verif\.rs)"]
rep = subprocess.run([os.path.join(bind, "llvm-cov"), "report"] + objs + common, capture_output=True, text=True).stdout
open(os.path.join(COVD, "report.txt"), "w").write(rep)
exp = subprocess.run([os.path.join(bind, "llvm-cov"), "export", "-format=lcov"] + objs + common,
                     capture_output=True, text=True).stdout
# uncovered lines per file from the lcov stream
unc, cur = {}, None
for line in exp.splitlines():
    if line.startswith("SF:"):
        cur = line[3:]
    elif line.startswith("DA:") and cur:
        n, c = line[3:].split(",")[:2]
        if c == "0":
            unc.setdefault(cur, []).append(int(n))
with open(os.path.join(COVD, "uncovered.txt"), "w") as f:
    for fn in sorted(unc):
        src = open(fn).read().splitlines() if os.path.exists(fn) else []
        f.write(f"== {fn} ({len(unc[fn])} lines never executed)\n")
        for n in unc[fn]:
            f.write(f"{n:5d}  {src[n - 1] if n <= len(src) else ''}\n")
for l in rep.splitlines():
    if "/repo/" in l or l.startswith("TOTAL") or l.startswith("Filename"):
        print(l[:200])
for r in raws:
    os.remove(r)
