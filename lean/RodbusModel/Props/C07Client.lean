import RodbusModel.Props.C07
import RodbusModel.Props.C10
import RodbusModel.Lemmas.ClientReaderSafe
import RodbusModel.Lemmas.ClientLogRun
/-
  C07, client side — no peer input can wedge or silently kill the client task, at the level of a
  RUN of the task (Model/Client.lean), for MBAP (TCP / TLS) and RTU (serial).

  (1) `client_phase_outcome`: in every reachable state
      * no completion in the log carries the internal-error result (`Res.internal`, which the model
        produces only for `InternalError::InsufficientBytesForRead`);
      * the reader is inside its invariant (indices within the 260-byte `ReadBuffer`, parser in a
        state it can be in between calls), and from there — whatever the transport delivers next —
        it never takes the branch in which `read_some` is handed an empty slice and reports a
        spurious `UnexpectedEof` (`spuriousIn … = false`), and every failure it reports is a
        framing error of the protocol (`.bf k`), a transport error that was delivered, or an end of
        file that was delivered (`ReaderFailure`); the discard loop reports only `.bf k`;
      * a phase ends with one of the kinds of `EndKind`: an I/O error, a bad frame, `disabled`,
        the timeout limit, shutdown, `enabled`, `elapsed`.  `EndKind` has no internal-error
        constructor (`SessionError::from_request_err` ends a session for `Io` and `BadFrame` only,
        see `session_ending_table_correct`), so this clause is carried by the type; it is stated
        as `fin_kinds` for completeness.
  (2) `client_no_spin`: the termination measure — every tick of the task and every release of
      held clones strictly lowers a natural number, so the task cannot spin: `settle` with more
      fuel than the measure reaches a blocked state, and the fuel `settleFuel` of the model always
      suffices (`mbap_settled_blocked`, `rtu_settled_blocked`).
  (3) `client_shutdown_honoured`: dropping the task (`abort`) from every reachable state ends it
      and completes everything exactly as often as it was accepted; a `Shutdown` command taken
      from the queue, or the drop of the last handle observed on an empty queue, ends the phase with
      `shutdown` in every phase (`shutdown_cmd_ends_phase`, `handles_dropped_ends_phase`; as script
      steps on a task blocked in a session: `shutdown_step_ends_session`,
      `handle_drop_ends_session`); a blocked task that is not waiting for a reply has consumed its
      whole queue and still has a sender (`blocked_not_pending_shutdown`).  In the model `alive`
      only records whether the outer task exists (it is cleared by `abort` alone): after a
      `Shutdown` command or the drop of the last handle the phase ends and the harness' outer task
      goes on to its next scripted phase, which ends with `shutdown` in the same way.
-/
namespace Rodbus.Client

/-! ## (1) outcome -/

theorem frameErrRes_internal {e : FrameErr} (h : frameErrRes e = .internal) :
    e = .internalShortRead := by
  cases e <;> simp [frameErrRes] at h ⊢

theorem respResult_ne_internal (req : ClientReq) (pdu : Bytes) : respResult req pdu ≠ .internal := by
  unfold respResult
  repeat' split
  all_goals simp

section
variable {σ : Type}

theorem readerPoll_ne_internal (F : Framing σ) (hF : Consuming F) (fuel : Nat) (st : σ) (rb : RB)
    (rx : List Rx) (res : Res) (x : σ × RB × List Rx)
    (h : readerPoll F fuel st rb rx = (.fail res, x)) : res ≠ .internal := by
  obtain ⟨w, hw⟩ := hF
  induction fuel generalizing st rb rx with
  | zero => simp [readerPoll] at h
  | succ n ih =>
    unfold readerPoll at h
    split at h
    · simp at h
    · rename_i e _ rb' hp
      simp at h
      obtain ⟨h1, _⟩ := h
      subst h1
      intro hi
      exact (hw.err _ _ _ _ _ hp).2 (frameErrRes_internal hi)
    · split at h
      · simp at h
      · simp at h; obtain ⟨h1, _⟩ := h; subst h1; simp
      · simp at h; obtain ⟨h1, _⟩ := h; subst h1; simp
      · split at h
        · simp at h; obtain ⟨h1, _⟩ := h; subst h1; simp
        · split at h
          · simp at h; obtain ⟨h1, _⟩ := h; subst h1; simp
          · exact ih _ _ _ h

theorem discardBuffered_ne_internal (F : Framing σ) (hF : Consuming F) (fuel : Nat) (st : σ)
    (rb : RB) (res : Res) (x : σ × RB) (h : discardBuffered F fuel st rb = (some res, x)) :
    res ≠ .internal := by
  obtain ⟨w, hw⟩ := hF
  induction fuel generalizing st rb with
  | zero => simp [discardBuffered] at h
  | succ n ih =>
    unfold discardBuffered at h
    split at h
    · exact ih _ _ h
    · simp at h
    · rename_i e _ rb' hp
      simp at h
      obtain ⟨h1, _⟩ := h
      subst h1
      intro hi
      exact (hw.err _ _ _ _ _ hp).2 (frameErrRes_internal hi)

/-- nothing the task completes a request with is the internal error -/
theorem noInternal_resOk (F : Framing σ) (hF : Consuming F) : ResOk F (fun res => res ≠ .internal) where
  badReq := by intro e; simp
  pipe := by simp
  timeout := by simp
  noConn := by simp
  shutdown := by simp
  resp := respResult_ne_internal
  reader := fun fuel st rb rx res x h => readerPoll_ne_internal F hF fuel st rb rx res x h
  discard := fun fuel st rb res x h => discardBuffered_ne_internal F hF fuel st rb res x h

/-- the outcome clauses for one state of the client -/
def PhaseOutcome (F : Framing σ) (s : State σ) : Prop :=
  (∀ rid sty res t, LogEntry.done rid sty res t ∈ s.log → res ≠ .internal)
    ∧ (∀ fuel rx, spuriousIn F fuel s.pst s.rb rx = false)
    ∧ (∀ fuel rx res x, readerPoll F fuel s.pst s.rb rx = (.fail res, x) → ReaderFailure rx res)
    ∧ (∀ fuel res x, discardBuffered F fuel s.pst s.rb = (some res, x) → ∃ k, res = .bf k)

/-- `client_phase_outcome` for every framing whose parser consumes or blocks and whose reader has
    a safety invariant `I` -/
theorem client_phase_outcome (F : Framing σ) (I : σ × RB → Prop) (hS : ReaderSafe F I)
    (hF : Consuming F) (cap maxTo : Nat) (d : Decode) (coins : List Bool) (steps : List Step)
    (s : State σ) (hs : s = runState F (State.init F cap maxTo d coins) steps) :
    PhaseOutcome F s ∧ I (s.pst, s.rb) := by
  subst hs
  have hI : I (runState F (State.init F cap maxTo d coins) steps).rd :=
    hS.reachable cap maxTo d coins steps
  have hL := reachable_logOk (Q := fun _ => True) (noInternal_resOk F hF) cap maxTo d coins steps
    (fun st _ => by cases st <;> trivial)
  refine ⟨⟨hL.2.2.2, ?_, ?_, ?_⟩, hI⟩
  · intro fuel rx
    exact (hS.readerPoll fuel _ _ rx hI).2.1
  · intro fuel rx res x h
    exact (hS.readerPoll fuel _ _ rx hI).2.2 res (by rw [h])
  · intro fuel res x h
    exact (hS.discard fuel _ _ hI).2 res (by rw [h])

end

/-- TCP / TLS -/
theorem client_phase_outcome_mbap (cap maxTo : Nat) (d : Decode) (coins : List Bool)
    (steps : List Step) (s : State Mbap.PState)
    (hs : s = runState mbap (State.init mbap cap maxTo d coins) steps) :
    PhaseOutcome mbap s ∧ Mbap.Inv s.rb ∧ Mbap.StOk s.pst :=
  client_phase_outcome mbap MbapRd mbap_readerSafe mbap_consuming cap maxTo d coins steps s hs

/-- serial (for the parser-state part this is `rtu_stok_reachable`) -/
theorem client_phase_outcome_rtu (cap maxTo : Nat) (d : Decode) (coins : List Bool)
    (steps : List Step) (s : State Rtu.PState)
    (hs : s = runState rtu (State.init rtu cap maxTo d coins) steps) :
    PhaseOutcome rtu s ∧ Rtu.Inv s.rb ∧ Rtu.StOk s.pst :=
  client_phase_outcome rtu RtuRd rtu_readerSafe rtu_consuming cap maxTo d coins steps s hs

/-- the framing errors behind `.bf k` are the protocol errors of Props/C07 (`IsProtocolError`):
    the two internal conditions do not map to `.bf` -/
theorem bf_is_protocol_error (e : FrameErr) (k : BfKind) (h : frameErrRes e = .bf k) :
    C07.IsProtocolError e := by
  cases e <;> simp [frameErrRes] at h <;> trivial

/-- how a phase can end: the exhaustive list (there is no internal-error kind) -/
theorem fin_kinds (k : EndKind) :
    (∃ i, k = .io i) ∨ k = .badFrame ∨ k = .disabled ∨ (∃ n, k = .maxTo n) ∨ k = .shutdown
      ∨ k = .enabled ∨ k = .elapsed := by
  cases k <;> simp

/-- a request result ends the session only as an I/O error or a bad frame -/
theorem sessionEnd_kinds (res : Res) (k : EndKind) (h : res.sessionEnd = some k) :
    (∃ i, res = .io i ∧ k = .io i) ∨ (∃ b, res = .bf b ∧ k = .badFrame) := by
  cases res <;> simp [Res.sessionEnd] at h
  · rename_i b; exact Or.inr ⟨b, rfl, h.symm⟩
  · rename_i i; exact Or.inl ⟨i, rfl, h.symm⟩

/-! ## (2) never spins without progress -/

/-- `client_no_spin`.  For every framing whose parser consumes or blocks there is a natural-number
    measure of the state that every tick of the outer task and every release of the clones held by
    completed futures strictly lowers; hence `settle` with more fuel than the measure ends in a
    state in which the task is blocked (waiting for input, a timer or a command). -/
theorem client_no_spin {σ : Type} (F : Framing σ) (hF : Consuming F) :
    ∃ m : State σ → Nat,
      (∀ s t, tick F s = some t → m t < m s)
        ∧ (∀ s : State σ, s.held ≠ 0 → m { s with held := 0 } < m s)
        ∧ (∀ n s, Blocked F (settle F n s) ∨ m (settle F n s) + n ≤ m s)
        ∧ (∀ n s, m s < n → Blocked F (settle F n s)) := by
  obtain ⟨w, hw⟩ := hF
  refine ⟨mu w, fun s t h => tick_mu F w hw s t h, ?_, settle_progress F w hw,
    fun n s h => settle_blocked_of_fuel F w hw n s h⟩
  intro s hh
  simp only [mu, ctl, rho, heldW, hh, if_false, if_true]
  omega

theorem client_no_spin_mbap :
    (∀ s t : State Mbap.PState, tick mbap s = some t → mu mbapW t < mu mbapW s)
      ∧ ∀ s : State Mbap.PState, Blocked mbap (settled mbap s) :=
  ⟨fun s t h => tick_mu mbap mbapW mbap_measure s t h, mbap_settled_blocked⟩

theorem client_no_spin_rtu :
    (∀ s t : State Rtu.PState, tick rtu s = some t → mu (fun _ => 0) t < mu (fun _ => 0) s)
      ∧ ∀ s : State Rtu.PState, Blocked rtu (settled rtu s) :=
  ⟨fun s t h => tick_mu rtu (fun _ => 0) rtu_measure s t h, rtu_settled_blocked⟩

/-- after every script step other than a clock movement the tasks have run until they block -/
theorem stepState_blocked {σ : Type} (F : Framing σ) (w : σ → Nat) (hw : ParseMeasure F w)
    (hb : ∀ st, w st ≤ 11) (s : State σ) (st : Step) (hst : ∀ ms, st ≠ .advance ms) :
    Blocked F (stepState F s st) := by
  cases st with
  | advance ms => exact absurd rfl (hst ms)
  | _ => exact settled_is_blocked F w hw hb _

/-! ## (3) shutdown is honoured -/

section
variable {σ : Type}

theorem abort_alive (s : State σ) : (abort s).alive = false := by
  unfold abort
  split
  · rename_i h; simpa using h
  · rfl

theorem scriptRids_append (a b : List Step) : scriptRids (a ++ b) = scriptRids a ++ scriptRids b := by
  induction a with
  | nil => rfl
  | cons st rest ih => rw [List.cons_append, scriptRids_cons, scriptRids_cons st rest, ih]; simp

/-- `client_shutdown_honoured`.  From every reachable state, dropping the task (`abort`, the step
    the owner of the channel performs on shutdown) ends it: afterwards the task does not exist,
    nothing is queued, nothing is in flight, and every accepted request has been completed exactly
    as often as it was accepted (exactly once for a script with distinct ids). -/
theorem client_shutdown_honoured (F : Framing σ) (cap maxTo : Nat) (d : Decode)
    (coins : List Bool) (steps : List Step) (s : State σ)
    (hs : s = runState F (State.init F cap maxTo d coins) (steps ++ [.abort])) :
    s.alive = false ∧ s.queue = [] ∧ s.pos = .noPhase
      ∧ (∀ rid, (doneIds s.log).count rid = s.accepted.count rid)
      ∧ ((scriptRids steps).Nodup → ∀ rid ∈ s.accepted, (doneIds s.log).count rid = 1) := by
  have hdead : s.alive = false := by
    rw [hs, runState_append]
    show (stepState F _ Step.abort).alive = false
    have h1 := (tsteps_pend (settled_steps F (applyStep
      (runState F (State.init F cap maxTo d coins) steps) .abort))).2
    have h2 : (settled F (applyStep (runState F (State.init F cap maxTo d coins) steps)
        .abort)).alive = (abort (runState F (State.init F cap maxTo d coins) steps)).alive := h1
    exact h2.trans (abort_alive _)
  obtain ⟨a, b, c, e⟩ := closed_trace_exactly_once F cap maxTo d coins (steps ++ [.abort]) s hs hdead
  refine ⟨hdead, a, b, c, ?_⟩
  intro hnd
  apply e
  rw [scriptRids_append]
  simpa [scriptRids] using hnd

/-- a `Shutdown` command at the head of the queue ends the running phase with `shutdown` as soon
    as the task takes a command: in a session, in `wait_for_enabled`, in `fail_requests_for` -/
theorem shutdown_cmd_ends_phase (F : Framing σ) (s : State σ) (q : List Cmd)
    (hq : s.queue = .shutdown :: q) :
    (∀ m, sessionRecv F s m = some (endPhase { s with queue := q } .shutdown))
      ∧ (s.enabled = false → tickWait s = some (endPhase { s with queue := q } .shutdown))
      ∧ (∀ dl c, (decide (s.now ≥ dl) && !c) = false →
          tickFail s dl c = some (endPhase { s with queue := q } .shutdown)) := by
  refine ⟨?_, ?_, ?_⟩
  · intro m; unfold sessionRecv; rw [hq]; rfl
  · intro he; unfold tickWait; rw [hq]; simp [he, waitCmd]
  · intro dl c hc
    unfold tickFail
    simp only [hc, hq]
    rfl

/-- the drop of the last handle, observed on an empty queue, ends the running phase with
    `shutdown` -/
theorem handles_dropped_ends_phase (F : Framing σ) (s : State σ) (hq : s.queue = [])
    (hc : closed s = true) :
    (∀ m, sessionRecv F s m = some (endPhase s .shutdown))
      ∧ (s.enabled = false → tickWait s = some (endPhase s .shutdown))
      ∧ (∀ dl c, (decide (s.now ≥ dl) && !c) = false →
          tickFail s dl c = some (endPhase s .shutdown)) := by
  refine ⟨?_, ?_, ?_⟩
  · intro m; unfold sessionRecv; rw [hq]; simp [hc]
  · intro he; unfold tickWait; rw [hq]; simp [he, hc]
  · intro dl c hcc
    unfold tickFail
    simp only [hcc, hq]
    simp [hc]

theorem closed_pollReader (F : Framing σ) (s : State σ) (m : Nat) :
    closed (pollReader F s m).2 = closed s := rfl

theorem closed_flip (s : State σ) : closed (flip s).2 = closed s := by
  unfold flip; cases s.coins <;> rfl

theorem sessionRecv_none (F : Framing σ) (s : State σ) (m : Nat) (h : sessionRecv F s m = none) :
    s.queue = [] ∧ closed s = false := by
  unfold sessionRecv at h
  split at h
  · cases h
  · rename_i hq
    split at h
    · cases h
    · rename_i hc; exact ⟨hq, by simpa using hc⟩

theorem tickIdle_none_open (F : Framing σ) (s : State σ) (m : Nat) (h : tickIdle F s m = none) :
    s.queue = [] ∧ closed s = false := by
  unfold tickIdle at h
  simp only [] at h
  generalize hpr : pollReader F s m = pr at h
  obtain ⟨r, s'⟩ := pr
  have hc : core s' = core s := by have := core_pollReader F s m; rw [hpr] at this; exact this
  have hq' : s'.queue = s.queue := congrArg Core.queue hc
  have hcl : closed s' = closed s := by have := closed_pollReader F s m; rw [hpr] at this; exact this
  simp only [] at h
  split at h
  · split at h
    · cases h
    · rename_i hn
      obtain ⟨a, b⟩ := sessionRecv_none F s' m hn
      exact ⟨hq' ▸ a, hcl ▸ b⟩
  · split at h
    · split at h
      · cases h
      · obtain ⟨a, b⟩ := sessionRecv_none F _ m h
        have hq0 : (flip s).2.queue = s.queue := congrArg Core.queue (core_flip s)
        exact ⟨hq0 ▸ a, closed_flip s ▸ b⟩
    · cases h

theorem tickWait_none_open (s : State σ) (h : tickWait s = none) :
    s.queue = [] ∧ closed s = false := by
  unfold tickWait at h
  split at h
  · cases h
  · split at h
    · cases h
    · rename_i hq
      split at h
      · cases h
      · rename_i hc; exact ⟨hq, by simpa using hc⟩

theorem tickFail_none_open (s : State σ) (dl : Nat) (b : Bool) (h : tickFail s dl b = none) :
    s.queue = [] ∧ closed s = false := by
  unfold tickFail at h
  simp only [] at h
  split at h
  · split at h
    · split at h <;> cases h
    · cases h
  · split at h
    · cases h
    · rename_i hq
      split at h
      · cases h
      · rename_i hc
        split at h
        · cases h
        · exact ⟨hq, by simpa using hc⟩

/-- a blocked task that is not waiting for the reply to a request in flight has consumed its whole
    queue (in particular every `Shutdown` command) and still has a sender: a queued shutdown or
    the drop of the last handle never leaves it blocked inside a phase -/
theorem blocked_not_pending_shutdown (F : Framing σ) (s : State σ) (ha : s.alive = true)
    (hb : tick F s = none)
    (hp : (∃ m, s.pos = .idle m) ∨ s.pos = .waitEnabled ∨ ∃ dl c, s.pos = .failFor dl c) :
    s.queue = [] ∧ closed s = false := by
  unfold tick at hb
  rw [ha] at hb
  simp only [Bool.not_true, Bool.false_eq_true, if_false] at hb
  rcases hp with ⟨m, hp⟩ | hp | ⟨dl, c, hp⟩
  · rw [hp] at hb; exact tickIdle_none_open F s m hb
  · rw [hp] at hb; exact tickWait_none_open s hb
  · rw [hp] at hb; exact tickFail_none_open s dl c hb

theorem tickIdle_none_reader (F : Framing σ) (s : State σ) (m : Nat) (h : tickIdle F s m = none) :
    (pollReader F s m).1 = .blocked := by
  unfold tickIdle at h
  simp only [] at h
  generalize pollReader F s m = pr at h
  obtain ⟨r, s'⟩ := pr
  simp only [] at h
  cases r with
  | blocked => rfl
  | frame f => simp only [] at h; split at h <;> first | cases h | (split at h <;> first | cases h | skip)
               all_goals (exfalso; rename_i hready _; exact absurd hready (by
                 intro hr
                 have hq := sessionRecv_none F _ m h
                 have hq0 : (flip s).2.queue = s.queue := congrArg Core.queue (core_flip s)
                 have hc0 := closed_flip s
                 unfold recvReady at hr
                 rw [← hq0, hq.1, ← hc0, hq.2] at hr
                 simp at hr))
  | fail res => simp only [] at h; split at h <;> first | cases h | (split at h <;> first | cases h | skip)
                all_goals (exfalso; rename_i hready _; exact absurd hready (by
                  intro hr
                  have hq := sessionRecv_none F _ m h
                  have hq0 : (flip s).2.queue = s.queue := congrArg Core.queue (core_flip s)
                  have hc0 := closed_flip s
                  unfold recvReady at hr
                  rw [← hq0, hq.1, ← hc0, hq.2] at hr
                  simp at hr))

/-- the script step `S<h>` (`Channel::shutdown`) on a task that is blocked in a session with no
    request in flight: the next tick takes the command and ends the session with `shutdown` -/
theorem shutdown_step_ends_session (F : Framing σ) (u : State σ) (m : Nat) (ha : u.alive = true)
    (hp : u.pos = .idle m) (hb : tick F u = none) (h : Nat) (hh : handleAlive u h = true) :
    ∃ t, tick F (applyStep u (.shutdown h)) = some t ∧ t.pos = .noPhase ∧ t.queue = []
      ∧ t.log = .fin .shutdown u.now :: u.log ∧ t.alive = true := by
  have hidle : tickIdle F u m = none := by
    unfold tick at hb
    rw [ha] at hb
    simp only [Bool.not_true, Bool.false_eq_true, if_false] at hb
    rw [hp] at hb; exact hb
  obtain ⟨hq, _⟩ := tickIdle_none_open F u m hidle
  have hr := tickIdle_none_reader F u m hidle
  have happly : applyStep u (.shutdown h) = enqueue u .shutdown := by
    simp [applyStep, hh, ha]
  have hpoll : pollReader F (enqueue u .shutdown) m
      = ((pollReader F u m).1, enqueue (pollReader F u m).2 .shutdown) := rfl
  have hq' : (pollReader F u m).2.queue = [] := hq
  refine ⟨endPhase { enqueue (pollReader F u m).2 .shutdown with queue := [] } .shutdown, ?_, rfl, rfl,
    rfl, ha⟩
  rw [happly]
  unfold tick
  have ha' : (enqueue u Cmd.shutdown).alive = true := ha
  have hp' : (enqueue u Cmd.shutdown).pos = .idle m := hp
  rw [ha']
  simp only [Bool.not_true, Bool.false_eq_true, if_false, hp']
  unfold tickIdle
  simp only [hpoll, hr]
  have : sessionRecv F (enqueue (pollReader F u m).2 Cmd.shutdown) m
      = some (endPhase { enqueue (pollReader F u m).2 .shutdown with queue := [] } .shutdown) := by
    unfold sessionRecv
    have hqq : (enqueue (pollReader F u m).2 Cmd.shutdown).queue = [Cmd.shutdown] := by
      show (pollReader F u m).2.queue ++ [Cmd.shutdown] = _
      rw [hq']; rfl
    rw [hqq]
    rfl
  rw [this]

/-- dropping the last handle (`H-<i>`, no completed future holds a clone) on a task that is
    blocked in a session with no request in flight: the next tick observes the closed channel and
    ends the session with `shutdown` -/
theorem handle_drop_ends_session (F : Framing σ) (u : State σ) (m : Nat) (ha : u.alive = true)
    (hp : u.pos = .idle m) (hb : tick F u = none) (i : Nat)
    (hc : closed (applyStep u (.dropHandle i)) = true) :
    ∃ t, tick F (applyStep u (.dropHandle i)) = some t ∧ t.pos = .noPhase ∧ t.queue = []
      ∧ t.log = .fin .shutdown u.now :: u.log ∧ t.alive = true := by
  have hidle : tickIdle F u m = none := by
    unfold tick at hb
    rw [ha] at hb
    simp only [Bool.not_true, Bool.false_eq_true, if_false] at hb
    rw [hp] at hb; exact hb
  obtain ⟨hq, _⟩ := tickIdle_none_open F u m hidle
  have hr := tickIdle_none_reader F u m hidle
  have hpoll : pollReader F (applyStep u (.dropHandle i)) m
      = ((pollReader F u m).1,
         { (pollReader F u m).2 with handles := u.handles.set i false }) := rfl
  have hq' : (pollReader F u m).2.queue = [] := hq
  refine ⟨endPhase { (pollReader F u m).2 with handles := u.handles.set i false } .shutdown, ?_, rfl,
    hq', rfl, ha⟩
  unfold tick
  have ha' : (applyStep u (.dropHandle i)).alive = true := ha
  have hp' : (applyStep u (.dropHandle i)).pos = .idle m := hp
  rw [ha']
  simp only [Bool.not_true, Bool.false_eq_true, if_false, hp']
  unfold tickIdle
  simp only [hpoll, hr]
  have : sessionRecv F ({ (pollReader F u m).2 with handles := u.handles.set i false } : State σ) m
      = some (endPhase { (pollReader F u m).2 with handles := u.handles.set i false }
          .shutdown) := by
    unfold sessionRecv
    show (match (pollReader F u m).2.queue with | c :: q => _ | [] => _) = _
    rw [hq']
    have hcl : closed ({ (pollReader F u m).2 with handles := u.handles.set i false } : State σ)
        = true := hc
    simp only [hcl, if_true]
  rw [this]

end

/-! ## non-vacuity -/

namespace Example

/-- garbage (a bad protocol id) fails the request in flight with the framing error and ends the
    session with `badFrame`; nothing internal -/
example :
    (runState mbap s16 [.newSession, .submit .R 0 (rc "a" .future 1000),
      .rx (.data [0, 0, 0xFF, 0xFF, 0, 2, 1, 3])]).log
      = [.fin .badFrame 0, .done "a" .future (.bf .proto) 0,
         .tx [0, 0, 0, 0, 0, 6, 1, 1, 0, 0, 0, 8]] := by decide

/-- a delivery larger than the read buffer (300 bytes of an over-long frame) is read in pieces;
    no spurious end of file: the session ends with the framing error of the header -/
example :
    (runState mbap s16 [.newSession, .submit .R 0 (rc "a" .future 1000),
      .rx (.data ([0, 0, 0, 0, 0x01, 0x2C, 1] ++ List.replicate 293 0))]).log.take 2
      = [.fin .badFrame 0, .done "a" .future (.bf .toobig) 0] := by decide +kernel

/-- the end of file the transport delivers is reported as such -/
example :
    (runState mbap s16 [.newSession, .submit .R 0 (rc "a" .future 1000), .rx .eof]).log.take 2
      = [.fin (.io .eof) 0, .done "a" .future (.io .eof) 0] := by decide

/-- abort with a request in flight and one queued -/
example :
    let s := runState mbap s16
      ([.newSession, .submit .R 0 (rc "a" .future 1000), .submit .C 0 (rc "b" .callback 10)]
        ++ [.abort])
    s.alive = false ∧ doneIds s.log = ["b", "a"] := by decide

/-- a `Shutdown` command ends the session -/
example :
    (runState mbap s16 [.newSession, .shutdown 0]).log = [.fin .shutdown 0] := by decide

/-- dropping the only handle ends the session -/
example :
    (runState mbap s16 [.newSession, .dropHandle 0]).log = [.fin .shutdown 0] := by decide

end Example

end Rodbus.Client
