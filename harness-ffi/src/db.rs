//! Suites `ffi db` (point database through the C ABI inside transactions, interleaved with client
//! reads) and `ffi atomic` (transactions vs. multi-register reads under real threads).
use crate::cb::*;
use crate::e2e::{ffi_call, Args, Op};
use crate::env::*;
use rodbus_ffi::ffi;
use std::sync::atomic::{AtomicBool, Ordering};
use std::sync::{Arc, Mutex};
use std::time::Duration;

#[derive(Clone, Copy, Debug)]
enum DbOp {
    Add(u8, u16, u16),
    Update(u8, u16, u16),
    Delete(u8, u16),
    Get(u8, u16),
    Read(u8, u16, u16),
    /// `c`: the transaction ends here (the next database op starts a new one)
    Commit,
}

fn parse_op(s: &str) -> Option<DbOp> {
    if s == "c" {
        return Some(DbOp::Commit);
    }
    let kind = s.chars().next()?;
    let parts: Vec<&str> = s[1..].split('.').collect();
    let t: u8 = parts.first()?.parse().ok()?;
    if t > 3 {
        return None;
    }
    let a: u16 = parts.get(1)?.parse().ok()?;
    let b = || -> Option<u16> { parts.get(2)?.parse().ok() };
    Some(match kind {
        'a' => DbOp::Add(t, a, b()?),
        'u' => DbOp::Update(t, a, b()?),
        'd' => DbOp::Delete(t, a),
        'g' => DbOp::Get(t, a),
        'r' => DbOp::Read(t, a, b()?),
        _ => return None,
    })
}

unsafe fn apply(db: *mut rodbus_ffi::Database, op: DbOp) -> String {
    let b = |x: bool| if x { "1".to_string() } else { "0".to_string() };
    match op {
        DbOp::Add(0, i, v) => b(ffi::rodbus_database_add_coil(db, i, v != 0)),
        DbOp::Add(1, i, v) => b(ffi::rodbus_database_add_discrete_input(db, i, v != 0)),
        DbOp::Add(2, i, v) => b(ffi::rodbus_database_add_holding_register(db, i, v)),
        DbOp::Add(_, i, v) => b(ffi::rodbus_database_add_input_register(db, i, v)),
        DbOp::Update(0, i, v) => b(ffi::rodbus_database_update_coil(db, i, v != 0)),
        DbOp::Update(1, i, v) => b(ffi::rodbus_database_update_discrete_input(db, i, v != 0)),
        DbOp::Update(2, i, v) => b(ffi::rodbus_database_update_holding_register(db, i, v)),
        DbOp::Update(_, i, v) => b(ffi::rodbus_database_update_input_register(db, i, v)),
        DbOp::Delete(0, i) => b(ffi::rodbus_database_delete_coil(db, i)),
        DbOp::Delete(1, i) => b(ffi::rodbus_database_delete_discrete_input(db, i)),
        DbOp::Delete(2, i) => b(ffi::rodbus_database_delete_holding_register(db, i)),
        DbOp::Delete(_, i) => b(ffi::rodbus_database_delete_input_register(db, i)),
        DbOp::Get(t, i) if t < 2 => {
            let mut v = false;
            let rc = if t == 0 {
                ffi::rodbus_database_get_coil(db, i, &mut v)
            } else {
                ffi::rodbus_database_get_discrete_input(db, i, &mut v)
            };
            if rc == 0 {
                (v as u8).to_string()
            } else if rc == 10 {
                "err".into()
            } else {
                format!("err{rc}")
            }
        }
        DbOp::Get(t, i) => {
            let mut v = 0u16;
            let rc = if t == 2 {
                ffi::rodbus_database_get_holding_register(db, i, &mut v)
            } else {
                ffi::rodbus_database_get_input_register(db, i, &mut v)
            };
            if rc == 0 {
                v.to_string()
            } else if rc == 10 {
                "err".into()
            } else {
                format!("err{rc}")
            }
        }
        DbOp::Read(..) | DbOp::Commit => "?".into(),
    }
}

fn client_read(t: u8, start: u16, count: u16, unit: u8) -> String {
    let op = [Op::Rc, Op::Rd, Op::Rh, Op::Ri][t as usize];
    let (rc, cb) = ffi_call(world().client.0, op, &Args::Range(start, count), param(unit, 2000), false);
    if rc != 0 {
        // still let the callback finish
        wait_done(&cb, Duration::from_millis(200));
        return format!("rc.{}", param_error_name(rc));
    }
    let st = wait_done(&cb, Duration::from_secs(5));
    match st.results.as_slice() {
        [one] => {
            if one == "ModbusExceptionIllegalDataAddress" {
                "exc.2".into()
            } else {
                one.clone()
            }
        }
        [] => "none".into(),
        many => many.join("+"),
    }
}

/// ffi db <op>,<op>,...   maximal runs of database ops (between reads and `c` tokens) form one
/// transaction each
pub fn run_db(tok: &[&str]) -> String {
    let ops: Vec<DbOp> = match tok.get(2) {
        Some(&"-") => vec![],
        Some(s) => match s.split(',').map(parse_op).collect::<Option<Vec<_>>>() {
            Some(v) => v,
            None => return "bad-case".into(),
        },
        None => return "bad-case".into(),
    };
    let mut out: Vec<String> = Vec::new();
    let mut touched: Vec<(u8, u16)> = Vec::new();
    let mut i = 0;
    while i < ops.len() {
        if let DbOp::Read(t, s, c) = ops[i] {
            out.push(client_read(t, s, c, UNIT_DB));
            i += 1;
            continue;
        }
        if let DbOp::Commit = ops[i] {
            i += 1;
            continue;
        }
        let mut j = i;
        while j < ops.len() && !matches!(ops[j], DbOp::Read(..) | DbOp::Commit) {
            if let DbOp::Add(t, idx, _) = ops[j] {
                touched.push((t, idx));
            }
            j += 1;
        }
        let batch: Vec<DbOp> = ops[i..j].to_vec();
        let res = Arc::new(Mutex::new(Vec::new()));
        let res2 = res.clone();
        let rc = transaction(UNIT_DB, move |db| {
            for op in &batch {
                res2.lock().unwrap().push(unsafe { apply(db, *op) });
            }
        });
        if rc != 0 {
            out.push(format!("txerr{rc}"));
        }
        out.extend(res.lock().unwrap().drain(..));
        i = j;
    }
    // leave the unit empty for the next case
    transaction(UNIT_DB, move |db| {
        for (t, idx) in &touched {
            unsafe { apply(db, DbOp::Delete(*t, *idx)) };
        }
    });
    if out.is_empty() {
        "-".into()
    } else {
        out.join(";")
    }
}

/// ffi atomic <n regs> <n transactions per thread> <n reads> <threads>
pub fn run_atomic(tok: &[&str]) -> String {
    let num = |i: usize| tok.get(i).and_then(|x| x.parse::<u32>().ok());
    let (n, ntx, nreads, threads) = match (num(2), num(3), num(4), num(5)) {
        (Some(a), Some(b), Some(c), Some(d)) if (1..=125).contains(&a) && d >= 1 && d <= 16 => (a as u16, b, c, d),
        _ => return "bad-case".into(),
    };
    let w = world();
    // (re)create the block with a common value
    transaction(UNIT_ATOMIC, move |db| unsafe {
        for i in 0..125u16 {
            ffi::rodbus_database_delete_holding_register(db, i);
        }
        for i in 0..n {
            ffi::rodbus_database_add_holding_register(db, i, 0);
        }
    });
    let stop = Arc::new(AtomicBool::new(false));
    let server = w.server;
    let mut handles = Vec::new();
    for th in 0..threads {
        let stop = stop.clone();
        handles.push(std::thread::spawn(move || {
            let server = server;
            let mut k = 0u32;
            while k < ntx && !stop.load(Ordering::Relaxed) {
                let value = ((th * 7919 + k * 13 + 1) % 65536) as u16;
                let rc = unsafe {
                    ffi::rodbus_server_update_database(
                        server.0,
                        UNIT_ATOMIC,
                        database_callback(move |db| {
                            for i in 0..n {
                                ffi::rodbus_database_update_holding_register(db, i, value);
                                if i % 16 == 0 {
                                    std::thread::yield_now();
                                }
                            }
                        }),
                    )
                };
                if rc != 0 {
                    return Err(rc);
                }
                k += 1;
            }
            Ok(())
        }));
    }
    let mut torn: Option<String> = None;
    let mut errors = 0;
    for r in 0..nreads {
        let s = client_read(2, 0, n, UNIT_ATOMIC);
        match s.strip_prefix("g0:") {
            Some(vals) => {
                let vs: Vec<&str> = vals.split('/').collect();
                if vs.len() != n as usize || vs.iter().any(|v| *v != vs[0]) {
                    torn = Some(format!("read{r}:{s}"));
                    break;
                }
            }
            None => {
                errors += 1;
                torn = Some(format!("read{r}:{s}"));
                break;
            }
        }
    }
    stop.store(true, Ordering::Relaxed);
    let mut txerr = None;
    for h in handles {
        if let Ok(Err(rc)) = h.join() {
            txerr = Some(rc);
        }
    }
    let _ = errors;
    match (torn, txerr) {
        (None, None) => "uniform".into(),
        (Some(t), _) => format!("torn:{t}"),
        (None, Some(rc)) => format!("txerr{rc}"),
    }
}
