//! Callback contexts handed to the C ABI: every invocation is counted.
use rodbus_ffi::ffi;
use std::os::raw::{c_int, c_void};
use std::sync::{Arc, Condvar, Mutex};
use std::time::{Duration, Instant};

#[derive(Default, Debug, Clone)]
pub struct CbState {
    pub complete: u32,
    pub failure: u32,
    pub destroy: u32,
    /// canonical text of every completion, in order
    pub results: Vec<String>,
}

pub struct CbInner {
    pub st: Mutex<CbState>,
    pub cv: Condvar,
}

pub type Cb = Arc<CbInner>;

pub fn new_cb() -> Cb {
    Arc::new(CbInner {
        st: Mutex::new(CbState::default()),
        cv: Condvar::new(),
    })
}

/// the context pointer keeps one strong count forever (a deliberate, tiny leak: a callback that
/// fires after `on_destroy` must not touch freed memory)
fn ctx_of(cb: &Cb) -> *mut c_void {
    Arc::into_raw(cb.clone()) as *mut c_void
}

unsafe fn inner<'a>(ctx: *mut c_void) -> &'a CbInner {
    &*(ctx as *const CbInner)
}

pub fn request_error_name(code: c_int) -> String {
    if (0..=19).contains(&code) {
        format!("{:?}", ffi::RequestError::from(code))
    } else {
        format!("unknown{code}")
    }
}

pub fn param_error_name(code: c_int) -> String {
    if (0..=20).contains(&code) {
        format!("{:?}", ffi::ParamError::from(code))
    } else {
        format!("unknown{code}")
    }
}

pub fn bits_text(items: &[(u16, bool)]) -> String {
    if items.is_empty() {
        return "b-".into();
    }
    let consecutive = items
        .iter()
        .enumerate()
        .all(|(i, (idx, _))| *idx as usize == items[0].0 as usize + i);
    if consecutive {
        format!(
            "b{}:{}",
            items[0].0,
            items.iter().map(|(_, v)| if *v { '1' } else { '0' }).collect::<String>()
        )
    } else {
        format!("bX{:?}", items).replace(' ', "")
    }
}

pub fn regs_text(items: &[(u16, u16)]) -> String {
    if items.is_empty() {
        return "g-".into();
    }
    let consecutive = items
        .iter()
        .enumerate()
        .all(|(i, (idx, _))| *idx as usize == items[0].0 as usize + i);
    if consecutive {
        format!(
            "g{}:{}",
            items[0].0,
            items.iter().map(|(_, v)| v.to_string()).collect::<Vec<_>>().join("/")
        )
    } else {
        format!("gX{:?}", items).replace(' ', "")
    }
}

extern "C" fn bit_complete<'a>(it: *mut rodbus_ffi::BitValueIterator<'a>, ctx: *mut c_void) {
    let mut items = Vec::new();
    unsafe {
        loop {
            let p = ffi::rodbus_bit_value_iterator_next(it);
            if p.is_null() {
                break;
            }
            items.push(((*p).index, (*p).value));
        }
        // an exhausted iterator stays exhausted
        let more = !ffi::rodbus_bit_value_iterator_next(it).is_null();
        let c = inner(ctx);
        let mut st = c.st.lock().unwrap();
        st.complete += 1;
        st.results.push(format!("{}{}", bits_text(&items), if more { "!more" } else { "" }));
        c.cv.notify_all();
    }
}

extern "C" fn reg_complete<'a>(it: *mut rodbus_ffi::RegisterValueIterator<'a>, ctx: *mut c_void) {
    let mut items = Vec::new();
    unsafe {
        loop {
            let p = ffi::rodbus_register_value_iterator_next(it);
            if p.is_null() {
                break;
            }
            items.push(((*p).index, (*p).value));
        }
        let more = !ffi::rodbus_register_value_iterator_next(it).is_null();
        let c = inner(ctx);
        let mut st = c.st.lock().unwrap();
        st.complete += 1;
        st.results.push(format!("{}{}", regs_text(&items), if more { "!more" } else { "" }));
        c.cv.notify_all();
    }
}

extern "C" fn write_complete(_nothing: c_int, ctx: *mut c_void) {
    unsafe {
        let c = inner(ctx);
        let mut st = c.st.lock().unwrap();
        st.complete += 1;
        st.results.push("complete".into());
        c.cv.notify_all();
    }
}

extern "C" fn on_failure(error: c_int, ctx: *mut c_void) {
    unsafe {
        let c = inner(ctx);
        let mut st = c.st.lock().unwrap();
        st.failure += 1;
        st.results.push(request_error_name(error));
        c.cv.notify_all();
    }
}

extern "C" fn on_destroy(ctx: *mut c_void) {
    unsafe {
        let c = inner(ctx);
        let mut st = c.st.lock().unwrap();
        st.destroy += 1;
        c.cv.notify_all();
    }
}

pub fn bit_read_callback(cb: &Cb) -> ffi::BitReadCallback {
    ffi::BitReadCallback {
        on_complete: Some(bit_complete),
        on_failure: Some(on_failure),
        on_destroy: Some(on_destroy),
        ctx: ctx_of(cb),
    }
}

pub fn register_read_callback(cb: &Cb) -> ffi::RegisterReadCallback {
    ffi::RegisterReadCallback {
        on_complete: Some(reg_complete),
        on_failure: Some(on_failure),
        on_destroy: Some(on_destroy),
        ctx: ctx_of(cb),
    }
}

pub fn write_callback(cb: &Cb) -> ffi::WriteCallback {
    ffi::WriteCallback {
        on_complete: Some(write_complete),
        on_failure: Some(on_failure),
        on_destroy: Some(on_destroy),
        ctx: ctx_of(cb),
    }
}

/// wait until the callback object has been destroyed (the last thing that can happen to it) or
/// the time is up; then a short grace period so that a second, spurious invocation would be seen
pub fn wait_done(cb: &Cb, max: Duration) -> CbState {
    let deadline = Instant::now() + max;
    {
        let mut st = cb.st.lock().unwrap();
        while st.destroy == 0 {
            let now = Instant::now();
            if now >= deadline {
                break;
            }
            let (g, _) = cb.cv.wait_timeout(st, deadline - now).unwrap();
            st = g;
        }
    }
    std::thread::sleep(Duration::from_millis(2));
    cb.st.lock().unwrap().clone()
}

/// `<result> c<n> f<n> d<n>`: result = the single completion, `none` if the callback never
/// completed, or all completions joined by `+` when it fired more than once
pub fn summary(st: &CbState) -> String {
    let res = if st.results.is_empty() {
        "none".to_string()
    } else {
        st.results.join("+")
    };
    format!("{} c{} f{} d{}", res, st.complete, st.failure, st.destroy)
}

// ---------------------------------------------------------------- client state listener

pub struct StateLog {
    pub states: Mutex<Vec<c_int>>,
    pub cv: Condvar,
}

pub type States = Arc<StateLog>;

extern "C" fn state_change(state: c_int, ctx: *mut c_void) {
    unsafe {
        let s = &*(ctx as *const StateLog);
        s.states.lock().unwrap().push(state);
        s.cv.notify_all();
    }
}

extern "C" fn state_destroy(_ctx: *mut c_void) {}

pub fn state_listener() -> (States, ffi::ClientStateListener) {
    let s: States = Arc::new(StateLog {
        states: Mutex::new(Vec::new()),
        cv: Condvar::new(),
    });
    let l = ffi::ClientStateListener {
        on_change: Some(state_change),
        on_destroy: Some(state_destroy),
        ctx: Arc::into_raw(s.clone()) as *mut c_void,
    };
    (s, l)
}

/// wait until the most recent state is `want`
pub fn wait_state(s: &States, want: c_int, max: Duration) -> bool {
    let deadline = Instant::now() + max;
    let mut st = s.states.lock().unwrap();
    loop {
        if st.last() == Some(&want) {
            return true;
        }
        let now = Instant::now();
        if now >= deadline {
            return false;
        }
        let (g, _) = s.cv.wait_timeout(st, deadline - now).unwrap();
        st = g;
    }
}

/// wait until `want` has been seen at least once
pub fn wait_seen(s: &States, want: c_int, max: Duration) -> bool {
    let deadline = Instant::now() + max;
    let mut st = s.states.lock().unwrap();
    loop {
        if st.contains(&want) {
            return true;
        }
        let now = Instant::now();
        if now >= deadline {
            return false;
        }
        let (g, _) = s.cv.wait_timeout(st, deadline - now).unwrap();
        st = g;
    }
}
