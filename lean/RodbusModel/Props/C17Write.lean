import RodbusModel.Props.C01Write
import RodbusModel.Props.C17
/-
  C17 over a transport with a failing write (fault model `runSessionW` / `handledW` of
  Props/C01Write): frames that are not answered — broadcasts on a serial link, frames for units
  the server does not host — are handled exactly as without the fault and never move the fault
  position, for every position, configuration and handler.
-/
namespace Rodbus.C01W

/-- a frame that is not answered does not use up the transport's write budget: it is handled and
    the fault position stays where it was -/
theorem unanswered_keeps_budget {σ : Type} (cfg : ServerCfg σ) (n : Nat) (hs : List (Nat × σ))
    (f : Frame) (fs : List Frame) (h : (handleFrame cfg hs f).reply = none) :
    handledW cfg n hs (f :: fs)
      = (f :: (handledW cfg n (handleFrame cfg hs f).states fs).1,
         (handledW cfg n (handleFrame cfg hs f).states fs).2) := by
  simp only [handledW, h]

/-- **broadcast_survives_write_fault** (C17 with a failing transport): on a serial link a broadcast
    write in front of the frames is executed and never touches the fault position, whatever the
    position is — even with a transport that accepts no write at all (`n = 0`) -/
theorem broadcast_survives_write_fault {σ : Type} (cfg : ServerCfg σ) (n : Nat)
    (hs : List (Nat × σ)) (f : Frame) (fs : List Frame) (hb : isBroadcast cfg f = true) :
    (handledW cfg n hs (f :: fs)).1
      = f :: (handledW cfg n (handleFrame cfg hs f).states fs).1 := by
  rw [unanswered_keeps_budget cfg n hs f fs (C17.broadcast_never_answered cfg hs f hb)]

/-- **foreign_frames_invisible_to_fault** (C17 with a failing transport): frames for units this
    server does not host leave no trace and do not move the fault position either -/
theorem foreign_frames_invisible_to_fault {σ : Type} (cfg : ServerCfg σ) (n : Nat)
    (hs : List (Nat × σ)) (f : Frame) (fs : List Frame)
    (hb : isBroadcast cfg f = false) (hl : lookupUnit hs f.dest = none) (ha : cfg.auth = none) :
    handledW cfg n hs (f :: fs) = (f :: (handledW cfg n hs fs).1, (handledW cfg n hs fs).2) := by
  have h := C17.silent_unless_addressed cfg hs f hb hl ha
  rw [unanswered_keeps_budget cfg n hs f fs (by rw [h]), h]

end Rodbus.C01W
