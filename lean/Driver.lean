import RodbusModel.Model.Basic
