import Driver.Server
import RodbusModel.Model.SerialServer
import RodbusModel.Spec.SerialServer
/-
  `sserver` suite (harness side: `pty rsrv`): the open / retry life cycle of the RTU server task.
  sserver r<min ms>.<max ms> <units> <script>   units as in `srv`; script = `-` or steps joined by `,`:
    f  the device path is absent from now on; the pending wait elapses / the first attempt is made:
       the open attempt fails
    o  the device path is present from now on; likewise: the open attempt succeeds
    x  the device disappears (path removed; an open port fails)
    q<hex>  a request frame that the open session serves (the reply, if any, is the observation)
    b<hex>  a frame that ends the open session (bad CRC)
    S / X   `ServerHandle::shutdown()` / every handle dropped
    ~<ms>   pause
  Output: the observations in order, e.g. `Fail(40),Fail(80),Open,tx:0103020005…,Wait(40),Fail(40),End`
  (delays in whole milliseconds; the model computes in nanoseconds).  `q`, `b`, `~` outside an
  open session (`~` also after the end) are not realizable by the harness: `unrealizable:<step>`.
  A `q` chunk that the reader model does not take for whole good frames, or a `b` chunk that does
  not end the session: `bad-case`.
-/
namespace Rodbus.Driver
open Rodbus.SerialServer

inductive SsStep
  | ev (e : Ev)
  | req (bs : Bytes)
  | bad (bs : Bytes)

def ssStep (s : String) : Option SsStep :=
  if s = "f" then some (.ev .absent)
  else if s = "o" then some (.ev .present)
  else if s = "x" then some (.ev .lost)
  else if s = "S" then some (.ev .shutdown)
  else if s = "X" then some (.ev .dropAll)
  else if s.startsWith "~" && ((s.drop 1).toString.toNat?).isSome then some (.ev .pause)
  else if s.startsWith "q" then (ofHex (s.drop 1).toString).map .req
  else if s.startsWith "b" then (ofHex (s.drop 1).toString).map .bad
  else none

def SsStep.toEv : SsStep → Ev
  | .ev e => e
  | .req _ => .frame
  | .bad _ => .badFrame

def SS_NS_PER_MS : Nat := 1000000

def ssObsStr (reply : Bytes) : Obs → String
  | .failed d => s!"Fail({d / SS_NS_PER_MS})"
  | .opened => "Open"
  | .reopen d => s!"Wait({d / SS_NS_PER_MS})"
  | .reply => s!"tx:{hexOrDash reply}"
  | .ended => "End"

/-- one chunk through a fresh RTU session over the handlers as they are: bytes written, new
    handler states, whether the chunk ended the session.  `useSpec`: the reference server
    `Spec.Server.respond` instead of the model's `runSession`. -/
def ssChunk (useSpec : Bool) (cfg : ServerCfg Points) (hs : List (Nat × Points)) (bs : Bytes) :
    Bytes × List (Nat × Points) × Bool :=
  if useSpec then
    let acc := srvLoop (Rtu.parse .request) (Spec.Server.respond cfg) true .start RB.empty
      ⟨[], [], hs, none, none⟩ [.data bs]
    (acc.tx, acc.hs, acc.ended != some "io.eof")
  else
    let o := runSession .rtu cfg {} hs [SessStep.data bs, SessStep.eof]
    (o.tx, o.states, o.ended != .eof)

/-- the generic walk: `stepFn` is the life-cycle machine (model or specification), `isOpen` tells
    whether its state has the port open, `isDone` whether the task is over -/
def ssWalk {σ : Type} (stepFn : σ → Ev → σ × List Obs) (isOpen isDone : σ → Bool) (useSpec : Bool)
    (cfg : ServerCfg Points) : σ → List (Nat × Points) → List (String × SsStep) →
    Except String (List String × List Obs)
  | st, _, [] =>
    let (_, obs) := stepFn st .shutdown
    .ok (obs.map (ssObsStr []), obs)
  | st, hs, (txt, step) :: rest =>
    let realizable := match step with
      | .req _ | .bad _ => isOpen st
      | .ev .pause => isOpen st || isDone st
      | _ => true
    if !realizable then .error s!"unrealizable:{txt}" else
    let (reply, hs', endsSession) := match step with
      | .req bs => ssChunk useSpec cfg hs bs
      | .bad bs => ssChunk useSpec cfg hs bs
      | .ev _ => ([], hs, false)
    let consistent := match step with
      | .req _ => !endsSession
      | .bad _ => endsSession && reply.isEmpty
      | .ev _ => true
    if !consistent then .error "bad-case" else
    let (st', obs) := stepFn st step.toEv
    match ssWalk stepFn isOpen isDone useSpec cfg st' hs' rest with
    | .error e => .error e
    | .ok (strs, all) => .ok (obs.map (ssObsStr reply) ++ strs, obs ++ all)

def runSserver (tok : List String) : String × String :=
  match tok with
  | [_, r, units, script] =>
    let rr := (String.ofList r.toList.tail).splitOn "."
    match (rr.getD 0 "").toNat?, (rr.getD 1 "").toNat?, r.startsWith "r", rr.length with
    | some mn, some mx, true, 2 =>
      let texts := if script = "-" then [] else script.splitOn ","
      match texts.mapM ssStep with
      | none => ("bad-case", "bad-case")
      | some steps =>
        let mnNs := mn * SS_NS_PER_MS
        let mxNs := mx * SS_NS_PER_MS
        let cfg : ServerCfg Points := ⟨true, pointsHandler, none⟩
        let hs := parseUnits units
        let zipped := texts.zip steps
        let model := ssWalk SerialServer.step (fun s => s.phase == .session)
          (fun s => s.phase == .finished) false cfg (SerialServer.init mnNs mxNs) hs zipped
        let spec := ssWalk (Spec.SerialServer.step mnNs mxNs) (fun t => t.mode == .open_)
          (fun t => t.mode == .done) true cfg {} hs zipped
        let m := match model with
          | .error e => e
          | .ok (strs, _) => ",".intercalate strs
        -- specification: the counter machine, and its observations checked on their own
        let s := match spec with
          | .error e => e
          | .ok (strs, obs) =>
            (if Spec.SerialServer.conforms mnNs mxNs false 0 obs then "" else "NONCONFORMING ") ++
              ",".intercalate strs
        (m, s)
    | _, _, _, _ => ("bad-case", "bad-case")
  | _ => ("bad-case", "bad-case")

end Rodbus.Driver
