import RodbusModel.Lemmas.ClientPdu
/-
  C04  The client accepts only the genuine matching reply and returns exactly its data: a
       well-formed exception reply yields exactly that exception code, every other reply fails
       with an error that is not an exception — never data and never a panic.

  Quantifier: every request kind and every valid range / index / value / vector, every reply PDU
  (any byte string, in particular all of 0..253 bytes).

  Only property theorems and non-vacuity examples; the proofs are in Lemmas/ClientPdu.lean.
  Vocabulary:
    `handleResponse req pdu`   `Request::handle_response` (client/message.rs and
                               client/requests/*.rs) on the reply PDU       (Model/Pdu.lean)
    `getReply H u s r`         the server's `Request::get_reply`            (Model/Pdu.lean)
    `ClientValid`, `WellFormedReply`, `ExceptionReply`, `bitOf`, `regOf`,
    `toServer`, `readAll`, `served`, `HandlerU16`                           (Spec/Client.lean)
  `handleResponse` is a total function into `Except RespErr RespVal`: "never a panic" is its
  totality together with `returned_indices` (the index arithmetic `start + pos` of the returned
  items stays within u16).
-/
namespace Rodbus.C04
open Rodbus.Spec.Client
open Rodbus.ClientPdu (instDecidableEqExcept)

/-! ## 1. Data is returned iff the reply is the genuine one, and then it is exactly its data -/

/-- `Ok(v)` iff the PDU is the well-formed reply to this very request carrying `v`:
    reads — function code, one byte-count byte, exactly `⌈n/8⌉` / `2n` payload bytes, `v` the
    `n` decoded items; writes — the exact echo of the request. -/
theorem success_iff {req : ClientReq} {pdu : Bytes} {v : RespVal} (hv : ClientValid req)
    (hw : Bytes.WF pdu) : handleResponse req pdu = .ok v ↔ WellFormedReply req pdu v :=
  ClientPdu.success_iff req pdu v hv hw

/-- a reply determines its data -/
theorem reply_data_unique {req : ClientReq} {pdu : Bytes} {v v' : RespVal} (hv : ClientValid req)
    (hw : Bytes.WF pdu) (h : WellFormedReply req pdu v) (h' : WellFormedReply req pdu v') :
    v = v' := by
  have a := (success_iff hv hw).2 h
  have b := (success_iff hv hw).2 h'
  rw [a] at b; cases b; rfl

/-- data is only ever returned for a reply that starts with the request's function code -/
theorem success_function_code {req : ClientReq} {pdu : Bytes} {v : RespVal}
    (h : handleResponse req pdu = .ok v) : ∃ body, pdu = req.fc.toByte :: body :=
  ClientPdu.ok_head h

/-! ## 2. An exception is reported iff the reply is the exception reply, with exactly its code -/

/-- `Err(Exception(c))` iff the PDU is `[fc | 0x80, c]` (any request, any byte string) -/
theorem exception_iff (req : ClientReq) (pdu : Bytes) (c : Nat) :
    handleResponse req pdu = .error (.exception c) ↔ pdu = [orErr req.fc.toByte, c] :=
  ClientPdu.exception_iff req pdu c

/-- for the eight function codes `fc | 0x80 = fc + 128` -/
theorem orErr_fc (fc : Fc) : orErr fc.toByte = fc.toByte + 128 := ClientPdu.orErr_fc fc

theorem exception_iff_spec (req : ClientReq) (pdu : Bytes) (c : Nat) :
    handleResponse req pdu = .error (.exception c) ↔ ExceptionReply req pdu c := by
  rw [exception_iff, orErr_fc]; rfl

/-! ## 3. Every other reply fails with an error that is not an exception -/

/-- neither the genuine reply nor the exception reply ⇒ `BadResponse` or `BadRequest` -/
theorem otherwise_error {req : ClientReq} {pdu : Bytes} (hv : ClientValid req) (hw : Bytes.WF pdu)
    (h1 : ¬ ∃ v, WellFormedReply req pdu v) (h2 : ¬ ∃ c, ExceptionReply req pdu c) :
    handleResponse req pdu = .error .badResponse ∨ handleResponse req pdu = .error .badRequest :=
  ClientPdu.otherwise_error req pdu hv hw h1 h2

/-- Trichotomy: a reply PDU is the genuine reply, or the exception reply, or neither — exactly one
    of the three — and the outcome is, respectively, its data, its code, or a non-exception
    error. -/
theorem trichotomy {req : ClientReq} {pdu : Bytes} (hv : ClientValid req) (hw : Bytes.WF pdu) :
    ((∃ v, WellFormedReply req pdu v ∧ handleResponse req pdu = .ok v) ∧
        ¬ ∃ c, ExceptionReply req pdu c) ∨
    ((∃ c, ExceptionReply req pdu c ∧ handleResponse req pdu = .error (.exception c)) ∧
        ¬ ∃ v, WellFormedReply req pdu v) ∨
    ((¬ ∃ v, WellFormedReply req pdu v) ∧ (¬ ∃ c, ExceptionReply req pdu c) ∧
        (handleResponse req pdu = .error .badResponse ∨
         handleResponse req pdu = .error .badRequest)) := by
  by_cases h1 : ∃ v, WellFormedReply req pdu v
  · left
    obtain ⟨v, hwf⟩ := h1
    have hok := (success_iff hv hw).2 hwf
    refine ⟨⟨v, hwf, hok⟩, ?_⟩
    rintro ⟨c, hc⟩
    rw [(exception_iff_spec req pdu c).2 hc] at hok; cases hok
  · right
    by_cases h2 : ∃ c, ExceptionReply req pdu c
    · left
      obtain ⟨c, hc⟩ := h2
      exact ⟨⟨c, hc, (exception_iff_spec req pdu c).2 hc⟩, h1⟩
    · right
      exact ⟨h1, h2, otherwise_error hv hw h1 h2⟩

/-- the error is `BadRequest` exactly for a write-multiple echo whose range is itself invalid
    (quantity 0 or address overflow), `BadResponse` in all other failing cases -/
theorem badRequest_iff (req : ClientReq) (pdu : Bytes) (hw : Bytes.WF pdu) :
    handleResponse req pdu = .error .badRequest ↔
      (req.fc = .writeMultipleCoils ∨ req.fc = .writeMultipleRegisters) ∧
      ∃ a b c d rest, pdu = req.fc.toByte :: a :: b :: c :: d :: rest ∧
        (be16 c d = 0 ∨ be16 a b + be16 c d > 65536) :=
  ClientPdu.badRequest_iff req pdu hw

/-- the empty PDU and a PDU with a foreign function code are errors, not data -/
theorem empty_reply (req : ClientReq) : handleResponse req [] = .error .badResponse := rfl

theorem foreign_function_code (req : ClientReq) (f : Nat) (body : Bytes)
    (h1 : f ≠ req.fc.toByte) (h2 : f ≠ req.fc.toByte + 128) :
    handleResponse req (f :: body) = .error .badResponse := by
  rw [ClientPdu.handle_ne req f body h1, ClientPdu.orErr_fc, if_neg h2]

/-! ## 4. Exception codes -/

/-- `u8::from(ExceptionCode::from(b)) = b` for every byte: the code reported to the caller
    determines the byte on the wire and vice versa -/
theorem exception_code_roundtrip : ∀ b, (ExCode.ofByte b).toByte = b := ClientPdu.exCode_roundtrip

theorem exception_code_injective {a b : Nat} (h : ExCode.ofByte a = ExCode.ofByte b) : a = b :=
  ClientPdu.exCode_ofByte_injective h

/-- agreement with the tables generated from exception.rs: listed bytes … -/
theorem exOfByte_table : ∀ p ∈ Gen.exOfByte, ExCode.ofByte p.1 = p.2 := ClientPdu.exOfByte_table

/-- … and every unlisted byte `b` maps to `Unknown(b)` -/
theorem exOfByte_unlisted (b : Nat) (h : ∀ p ∈ Gen.exOfByte, p.1 ≠ b) :
    ExCode.ofByte b = .unknown b :=
  ClientPdu.exOfByte_unlisted b h

theorem exToByte_table : ∀ p ∈ Gen.exToByte, p.1.toByte = p.2 := ClientPdu.exToByte_table

/-- every variant not listed in the table is `Unknown(b)` and maps to `b` -/
theorem exToByte_unlisted (c : ExCode) (h : ∀ p ∈ Gen.exToByte, p.1 ≠ c) :
    ∃ b, c = .unknown b ∧ c.toByte = b :=
  ClientPdu.exToByte_unlisted c h

/-! ## 5. The returned items -/

/-- On success a read returns exactly `count` items, item `i` has index `start + i` (ascending,
    no gaps) and `start + i ≤ 65535`: the u16 addition `range.start + pos` of the iterators
    cannot overflow. -/
theorem returned_indices {req : ClientReq} {pdu : Bytes} {v : RespVal} (hv : ClientValid req)
    (hw : Bytes.WF pdu) (h : handleResponse req pdu = .ok v) :
    (∀ s c, (req = .readCoils s c ∨ req = .readDiscreteInputs s c) →
      ∃ items, v = .bits items ∧ items.map Prod.fst = (List.range c).map (s + ·) ∧
        ∀ a ∈ items.map Prod.fst, a < 65536) ∧
    (∀ s c, (req = .readHoldingRegisters s c ∨ req = .readInputRegisters s c) →
      ∃ items, v = .regs items ∧ items.map Prod.fst = (List.range c).map (s + ·) ∧
        ∀ a ∈ items.map Prod.fst, a < 65536) := by
  have hwf := (success_iff hv hw).1 h
  constructor
  · intro s c hreq
    rcases hreq with rfl | rfl <;>
    · obtain ⟨bc, payload, _, _, rfl⟩ := hwf
      refine ⟨_, rfl, by simp [Function.comp_def], ?_⟩
      have : s + c ≤ 65536 := hv.2.2.2.1
      intro a ha
      simp at ha
      obtain ⟨i, hi, rfl⟩ := ha
      omega
  · intro s c hreq
    rcases hreq with rfl | rfl <;>
    · obtain ⟨bc, payload, _, _, rfl⟩ := hwf
      refine ⟨_, rfl, by simp [Function.comp_def], ?_⟩
      have : s + c ≤ 65536 := hv.2.2.2.1
      intro a ha
      simp at ha
      obtain ⟨i, hi, rfl⟩ := ha
      omega

/-- the returned register values are u16 values and the bits come from the payload only -/
theorem returned_values {s c : Nat} {pdu : Bytes} {items : List (Nat × Nat)}
    (hv : ClientValid (.readHoldingRegisters s c)) (hw : Bytes.WF pdu)
    (h : handleResponse (.readHoldingRegisters s c) pdu = .ok (.regs items)) :
    ∀ p ∈ items, p.2 < 65536 := by
  obtain ⟨bc, payload, rfl, hl, hitems⟩ := (success_iff hv hw).1 h
  cases hitems
  intro p hp
  simp at hp
  obtain ⟨i, hi, rfl⟩ := hp
  have hwp : Bytes.WF payload := (Bytes.WF_cons.1 (Bytes.WF_cons.1 hw).2).2
  have h1 : payload.getD (2 * i) 0 < 256 := by
    rw [List.getD_eq_getElem?_getD, List.getElem?_eq_getElem (by omega)]
    exact hwp _ (List.getElem_mem _)
  have h2 : payload.getD (2 * i + 1) 0 < 256 := by
    rw [List.getD_eq_getElem?_getD, List.getElem?_eq_getElem (by omega)]
    exact hwp _ (List.getElem_mem _)
  simp only [regOf]; omega

/-! ## 6. Client ∘ server -/

/-- `readAll` (Spec/Client.lean) in words: all values, in ascending address order … -/
theorem readAll_ok_iff {α : Type} (get : Nat → Except Nat α) (s n : Nat) (vs : List α) :
    readAll get s n = .ok vs ↔
      vs.length = n ∧ ∀ i (h : i < vs.length), get (s + i) = .ok vs[i] :=
  ClientPdu.readAll_ok_iff get s n vs

/-- … or the exception raised at the lowest failing address -/
theorem readAll_error_iff {α : Type} (get : Nat → Except Nat α) (s n e : Nat) :
    readAll get s n = .error e ↔
      ∃ k, k < n ∧ get (s + k) = .error e ∧ ∀ i, i < k → ∃ v, get (s + i) = .ok v :=
  ClientPdu.readAll_error_iff get s n e

/-- The client, given the reply the server computes for the request the client's bytes denote,
    returns exactly the application's answer (`served`): the values read in ascending address
    order paired with their addresses / the echoed write, or the exception the application
    raised first.  Hypothesis: the application's register values are u16 values.
    (No hypothesis on the exception byte is needed.) -/
theorem end_to_end {σ : Type} (H : Handler σ) (u : Nat) (s : σ) (req : ClientReq)
    (hv : ClientValid req) (hu : HandlerU16 H s) :
    handleResponse req (getReply H u s (toServer req)).1 = served H s req :=
  ClientPdu.end_to_end H u s req hv hu

/-- the same over the wire: bytes produced by the client, parsed by the server
    (`encodeRequest`, `parseRequest`), served, reply handled by the client -/
theorem end_to_end_wire {σ : Type} (H : Handler σ) (u : Nat) (s : σ) (req : ClientReq)
    (fcb : Nat) (body : Bytes) (r : Request) (hf : req.FieldsU16) (hvals : req.ValuesU16)
    (hu : HandlerU16 H s) (henc : encodeRequest req = .ok (fcb :: body))
    (hparse : parseRequest req.fc body = some r) :
    handleResponse req (getReply H u s r).1 = served H s req := by
  have hspec := ClientPdu.encode_ok_spec henc
  have hv : ClientValid req := (ClientPdu.rejection_none_iff req hf).1 hspec.1
  obtain ⟨b, hb⟩ := ClientPdu.pdu_head req
  have e := hspec.2
  rw [hb] at e
  injection e with e1 e2
  subst e2
  have := ClientPdu.parse_pdu req hv hvals _ hb
  rw [this] at hparse
  cases hparse
  exact end_to_end H u s req hv hu

/-! ## 7. Non-vacuity -/

/-- 10 coils, two payload bytes (the example of the Modbus specification, shortened) -/
example : handleResponse (.readCoils 0x13 10) [1, 2, 0xCD, 0x01] =
    .ok (.bits [(0x13, true), (0x14, false), (0x15, true), (0x16, true), (0x17, false),
      (0x18, false), (0x19, true), (0x1A, true), (0x1B, true), (0x1C, false)]) := by decide
example : WellFormedReply (.readCoils 0x13 10) [1, 2, 0xCD, 0x01]
    (.bits [(0x13, true), (0x14, false), (0x15, true), (0x16, true), (0x17, false),
      (0x18, false), (0x19, true), (0x1A, true), (0x1B, true), (0x1C, false)]) :=
  ⟨2, [0xCD, 0x01], by decide⟩
/-- the byte-count byte is not checked -/
example : handleResponse (.readHoldingRegisters 7 2) [3, 99, 0xCA, 0xFE, 0, 1] =
    .ok (.regs [(7, 0xCAFE), (8, 1)]) := by decide
/-- wrong payload length, trailing byte, wrong function code, truncated exception -/
example : handleResponse (.readHoldingRegisters 7 2) [3, 4, 0xCA, 0xFE, 0] =
    .error .badResponse := by decide
example : handleResponse (.readHoldingRegisters 7 2) [3, 4, 0xCA, 0xFE, 0, 1, 0] =
    .error .badResponse := by decide
example : handleResponse (.readHoldingRegisters 7 2) [4, 4, 0xCA, 0xFE, 0, 1] =
    .error .badResponse := by decide
example : handleResponse (.readHoldingRegisters 7 2) [0x83] = .error .badResponse := by decide
example : handleResponse (.readHoldingRegisters 7 2) [0x83, 2, 0] = .error .badResponse := by
  decide
/-- exception replies, known and unknown code -/
example : handleResponse (.readHoldingRegisters 7 2) [0x83, 2] = .error (.exception 2) := by decide
example : handleResponse (.writeMultipleCoils 7 [true]) [0x8F, 0x77] = .error (.exception 0x77) := by
  decide
example : ExCode.ofByte 2 = .illegalDataAddress ∧ ExCode.ofByte 0x77 = .unknown 0x77 := by decide
/-- echoes -/
example : handleResponse (.writeSingleCoil 3 true) [5, 0, 3, 0xFF, 0] = .ok (.coil 3 true) := by
  decide
example : handleResponse (.writeSingleCoil 3 true) [5, 0, 3, 0, 0] = .error .badResponse := by decide
example : handleResponse (.writeSingleCoil 3 true) [5, 0, 3, 0xFF, 1] = .error .badResponse := by
  decide
example : handleResponse (.writeSingleRegister 3 500) [6, 0, 3, 1, 0xF4] = .ok (.reg 3 500) := by
  decide
example : handleResponse (.writeSingleRegister 3 500) [6, 0, 4, 1, 0xF4] = .error .badResponse := by
  decide
example : handleResponse (.writeMultipleRegisters 1 [10, 258]) [16, 0, 1, 0, 2] =
    .ok (.range ⟨1, 2⟩) := by decide
example : handleResponse (.writeMultipleRegisters 1 [10, 258]) [16, 0, 1, 0, 3] =
    .error .badResponse := by decide
/-- an echoed range that is itself invalid -/
example : handleResponse (.writeMultipleRegisters 1 [10, 258]) [16, 0xFF, 0xFF, 0, 2] =
    .error .badRequest := by decide
example : handleResponse (.writeMultipleRegisters 1 [10, 258]) [16, 0, 1, 0, 0] =
    .error .badRequest := by decide

/-- an application for the end-to-end theorem: coil `a` is on iff `a` is even, address 5 fails -/
private def demo : Handler Unit where
  readCoil _ a := if a = 5 then .error 2 else .ok (a % 2 = 0)
  readDiscreteInput _ _ := .error 1
  readHoldingRegister _ a := .ok (a + 1000)
  readInputRegister _ _ := .error 1
  writeSingleCoil s _ _ := (.ok (), s)
  writeSingleRegister s _ _ := (.error 4, s)
  writeMultipleCoils s _ _ := (.ok (), s)
  writeMultipleRegisters s _ _ := (.ok (), s)

example : served demo () (.readCoils 0 3) = .ok (.bits [(0, true), (1, false), (2, true)]) := by
  decide
example : served demo () (.readCoils 3 4) = .error (.exception 2) := by decide
example : served demo () (.readHoldingRegisters 9 2) = .ok (.regs [(9, 1009), (10, 1010)]) := by
  decide
example : served demo () (.writeSingleRegister 9 2) = .error (.exception 4) := by decide

end Rodbus.C04
