import RodbusModel.Props.C10
/-! axiom audit of every property theorem of Props/C10 -/
#print axioms Rodbus.Client.model_refines
#print axioms Rodbus.Client.pending_partition
#print axioms Rodbus.Client.accepted_distinct
#print axioms Rodbus.Client.never_completed_twice
#print axioms Rodbus.Client.closed_trace_exactly_once
#print axioms Rodbus.Client.drained_exactly_once
#print axioms Rodbus.Client.drain_completes_partial
#print axioms Rodbus.Client.error_meaning_noconn
#print axioms Rodbus.Client.error_meaning_timeout
#print axioms Rodbus.Client.error_meaning_transport
#print axioms Rodbus.Client.error_meaning_shutdown_task
#print axioms Rodbus.Client.error_meaning_shutdown_partial
#print axioms Rodbus.Client.runState_reach
#print axioms Rodbus.Client.tick_eff
#print axioms Rodbus.Client.applyStep_eff
#print axioms Rodbus.Client.bal_reach
#print axioms Rodbus.Client.tidy_reach
#print axioms Rodbus.Client.drain_idle
#print axioms Rodbus.Client.session_ending_table_correct
