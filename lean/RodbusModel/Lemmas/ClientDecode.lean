import RodbusModel.Lemmas.ClientDrain
/-
  C20 (client side): the decode level is carried but never consulted.
  `erase` forgets the `decode` field and the level carried by queued set-decode commands; every
  transition function of the model commutes with it.
-/
namespace Rodbus.Client

def zeroD : Decode := ⟨0, 0, 0⟩

/-- forget the level a command carries (`z = true`), or nothing (`z = false`) -/
def eraseCmd (z : Bool) : Cmd → Cmd
  | .setDecode d => .setDecode (if z then zeroD else d)
  | c => c

/-- forget the level a script step carries (`z = true`), or nothing (`z = false`) -/
def eraseStep (z : Bool) : Step → Step
  | .setDecode d => .setDecode (if z then zeroD else d)
  | st => st

theorem eraseCmd_false (c : Cmd) : eraseCmd false c = c := by cases c <;> rfl

theorem eraseStep_false (st : Step) : eraseStep false st = st := by cases st <;> rfl

section
variable {σ : Type} {z : Bool}

/-- forget the `decode` field and, for `z = true`, also the levels carried by queued set-decode
    commands -/
def erase (z : Bool) (s : State σ) : State σ :=
  { s with decode := zeroD, queue := s.queue.map (eraseCmd z) }

@[simp] theorem eraseCmd_idem (c : Cmd) : eraseCmd z (eraseCmd z c) = eraseCmd z c := by
  cases c <;> cases z <;> rfl

/-- overwriting the `decode` field is invisible after `erase` -/
theorem erase_setDecode (s : State σ) (d : Decode) : erase z { s with decode := d } = erase z s := rfl

@[simp] theorem erase_idem (s : State σ) : (erase z) ((erase z) s) = (erase z) s := by
  simp [erase, List.map_map, Function.comp_def]

theorem erase_fields (s : State σ) :
    ((erase z) s).cap = s.cap ∧ ((erase z) s).maxTo = s.maxTo ∧ ((erase z) s).queue = s.queue.map (eraseCmd z)
      ∧ ((erase z) s).handles = s.handles ∧ ((erase z) s).enabled = s.enabled ∧ ((erase z) s).decode = zeroD
      ∧ ((erase z) s).tx = s.tx ∧ ((erase z) s).nto = s.nto ∧ ((erase z) s).pst = s.pst ∧ ((erase z) s).rb = s.rb
      ∧ ((erase z) s).pos = s.pos ∧ ((erase z) s).phases = s.phases ∧ ((erase z) s).mocks = s.mocks
      ∧ ((erase z) s).now = s.now ∧ ((erase z) s).alive = s.alive ∧ ((erase z) s).held = s.held
      ∧ ((erase z) s).coins = s.coins ∧ ((erase z) s).log = s.log ∧ ((erase z) s).accepted = s.accepted
      ∧ ((erase z) s).dequeued = s.dequeued ∧ ((erase z) s).sent = s.sent ∧ ((erase z) s).waited = s.waited :=
  ⟨rfl, rfl, rfl, rfl, rfl, rfl, rfl, rfl, rfl, rfl, rfl, rfl, rfl, rfl, rfl, rfl, rfl, rfl, rfl,
    rfl, rfl, rfl⟩

theorem eraseCmd_isReq (c : Cmd) : ((eraseCmd z) c).isReq = c.isReq := by cases c <;> rfl

theorem reqsOf_erase (q : List Cmd) : reqsOf (q.map (eraseCmd z)) = reqsOf q := by
  induction q with
  | nil => rfl
  | cons c q ih => cases c <;> simp [reqsOf, eraseCmd, ih]

theorem emit_erase (s : State σ) (e : LogEntry) : emit ((erase z) s) e = (erase z) (emit s e) := rfl

theorem complete_erase (s : State σ) (r : Req) (res : Res) :
    complete ((erase z) s) r res = (erase z) (complete s r res) := rfl

theorem endPhase_erase (s : State σ) (k : EndKind) : endPhase ((erase z) s) k = (erase z) (endPhase s k) :=
  rfl

theorem accept_erase (s : State σ) (rid : Rid) : accept ((erase z) s) rid = (erase z) (accept s rid) := rfl

theorem enqueue_erase (s : State σ) (c : Cmd) :
    enqueue ((erase z) s) ((eraseCmd z) c) = (erase z) (enqueue s c) := by
  simp [erase, enqueue]

theorem weak_of_strong {a b : State σ} (h : a = erase z b) : erase z a = erase z b := by
  rw [h, erase_idem]

/-- (weak form: a set-decode command stores its level in the `decode` field) -/
theorem applySetting_erase (s : State σ) (c : Cmd) :
    erase z (applySetting ((erase z) s) ((eraseCmd z) c)) = (erase z) (applySetting s c) := by
  cases c with
  | setDecode d =>
    show erase z (erase z s) = erase z s
    exact erase_idem s
  | req r => exact weak_of_strong rfl
  | enable => exact weak_of_strong rfl
  | disable => exact weak_of_strong rfl
  | shutdown => exact weak_of_strong rfl

theorem applySetting_enabled (s : State σ) (c : Cmd) :
    (applySetting ((erase z) s) ((eraseCmd z) c)).enabled = (applySetting s c).enabled := by
  cases c <;> rfl

theorem closed_erase (s : State σ) : closed ((erase z) s) = closed s := rfl

theorem recvReady_erase (s : State σ) : recvReady ((erase z) s) = recvReady s := by
  unfold recvReady
  rw [closed_erase]
  cases h : s.queue <;> simp [erase, h]

theorem flip_erase (s : State σ) :
    (flip ((erase z) s)).1 = (flip s).1 ∧ (flip ((erase z) s)).2 = (erase z) (flip s).2 := by
  unfold flip
  cases h : s.coins with
  | nil =>
    have : ((erase z) s).coins = [] := h
    simp [this]
  | cons c cs =>
    have : ((erase z) s).coins = c :: cs := h
    simp only [this]
    exact ⟨trivial, rfl⟩

theorem getMock_erase (s : State σ) (m : Nat) : getMock ((erase z) s) m = getMock s m := rfl

theorem setMock_erase (s : State σ) (m : Nat) (k : Mock) :
    setMock ((erase z) s) m k = (erase z) (setMock s m k) := rfl

theorem isLatest_erase (s : State σ) (m : Nat) : isLatest ((erase z) s) m = isLatest s m := rfl

theorem pollReader_erase (F : Framing σ) (s : State σ) (m : Nat) :
    pollReader F ((erase z) s) m = ((pollReader F s m).1, (erase z) (pollReader F s m).2) := rfl

theorem afterRequest_erase (s : State σ) (m : Nat) (res : Res) :
    afterRequest ((erase z) s) m res = (erase z) (afterRequest s m res) := by
  unfold afterRequest
  cases res.sessionEnd with
  | some k => rfl
  | none =>
    have e1 : ((erase z) s).maxTo = s.maxTo := rfl
    have e2 : ((erase z) s).nto = s.nto := rfl
    simp only [e1, e2]
    by_cases h1 : res = .timeout <;> by_cases h2 : s.maxTo = 0 <;>
      by_cases h3 : s.nto + 1 ≥ s.maxTo <;> simp [h1, h2, h3] <;> rfl

theorem finish_erase (s : State σ) (m : Nat) (r : Req) (res : Res) :
    finish ((erase z) s) m r res = (erase z) (finish s m r res) := by
  unfold finish
  exact afterRequest_erase (complete s r res) m res

theorem startRequest_erase (F : Framing σ) (s : State σ) (m : Nat) (r : Req) :
    startRequest F ((erase z) s) m r = (erase z) (startRequest F s m r) := by
  unfold startRequest
  simp only [erase_fields, getMock, setMock, isLatest]
  split
  · rw [← finish_erase]; rfl
  · split
    · rw [← finish_erase]; rfl
    · by_cases hw : (s.mocks.getD m {}).wErr = true
      · simp only [hw, if_true]
        rw [← finish_erase]; rfl
      · simp only [hw, if_false]
        by_cases hb : (m + 1 == s.mocks.length) = true <;>
          simp only [hb, if_true, if_false] <;> rfl

theorem endPhase_setDecode (s : State σ) (d : Decode) (k : EndKind) :
    erase z (endPhase { s with decode := d } k) = erase z (endPhase s k) := rfl

theorem runCmd_erase (F : Framing σ) (s : State σ) (m : Nat) (c : Cmd) :
    erase z (runCmd F ((erase z) s) m ((eraseCmd z) c)) = (erase z) (runCmd F s m c) := by
  cases c with
  | req r => exact weak_of_strong (startRequest_erase F s m r)
  | shutdown => exact weak_of_strong rfl
  | enable => exact weak_of_strong rfl
  | disable => exact weak_of_strong rfl
  | setDecode d =>
    by_cases h : s.enabled = true
    · have e1 : runCmd F s m (.setDecode d) = { s with decode := d } := by
        simp [runCmd, applySetting, h]
      have e2 : runCmd F (erase z s) m (eraseCmd z (.setDecode d))
          = { erase z s with decode := if z then zeroD else d } := by
        have : (erase z s).enabled = true := h
        simp [runCmd, applySetting, eraseCmd, this]
      rw [e1, e2]
      show erase z (erase z s) = erase z s
      exact erase_idem s
    · have e1 : runCmd F s m (.setDecode d) = endPhase { s with decode := d } .disabled := by
        simp [runCmd, applySetting, h]
      have e2 : runCmd F (erase z s) m (eraseCmd z (.setDecode d))
          = endPhase { erase z s with decode := if z then zeroD else d } .disabled := by
        have : ¬ (erase z s).enabled = true := h
        simp [runCmd, applySetting, eraseCmd, this]
      rw [e1, e2]
      show erase z (erase z (endPhase s .disabled)) = erase z (endPhase s .disabled)
      exact erase_idem _

theorem sessionRecv_erase (F : Framing σ) (s : State σ) (m : Nat) :
    (sessionRecv F ((erase z) s) m).map (erase z) = (sessionRecv F s m).map (erase z) := by
  unfold sessionRecv
  cases h : s.queue with
  | nil =>
    have : ((erase z) s).queue = [] := by simp [erase, h]
    simp only [this, closed_erase]
    by_cases hc : closed s = true <;> simp [hc, endPhase_erase]
  | cons c q =>
    have : ((erase z) s).queue = (eraseCmd z) c :: q.map (eraseCmd z) := by simp [erase, h]
    simp only [this, Option.map_some]
    exact congrArg some (runCmd_erase F { s with queue := q } m c)

theorem idleReader_erase (s : State σ) (r : ReadRes) :
    idleReader ((erase z) s) r = (erase z) (idleReader s r) := by
  unfold idleReader
  cases r with
  | fail res =>
    dsimp only
    cases h : res.sessionEnd <;> rfl
  | frame f => rfl
  | blocked => rfl

theorem inflightReader_erase (s : State σ) (m : Nat) (q : Req) (tx : Nat) (r : ReadRes) :
    inflightReader ((erase z) s) m q tx r = (erase z) (inflightReader s m q tx r) := by
  unfold inflightReader
  cases r with
  | frame f =>
    dsimp only
    by_cases h : txMatches f tx = true <;> simp [h, finish_erase]
  | fail res => exact finish_erase s m q res
  | blocked => rfl

theorem tickIdle_erase (F : Framing σ) (s : State σ) (m : Nat) :
    (tickIdle F ((erase z) s) m).map (erase z) = (tickIdle F s m).map (erase z) := by
  unfold tickIdle
  simp only [pollReader_erase, getMock_erase, recvReady_erase, (flip_erase s).1, (flip_erase s).2]
  generalize pollReader F s m = pr
  obtain ⟨r, s'⟩ := pr
  have hsr := sessionRecv_erase (z := z) F s' m
  have hsf := sessionRecv_erase (z := z) F (flip s).2 m
  cases r with
  | blocked =>
    dsimp only
    cases h1 : sessionRecv F (erase z s') m <;> cases h2 : sessionRecv F s' m <;>
      rw [h1, h2] at hsr <;> simp at hsr
    · by_cases hh : (!(getMock s m).rx.isEmpty) = true <;> simp [hh]
    · simpa using hsr
  | frame f =>
    dsimp only
    by_cases hr : recvReady s = true
    · simp only [hr, if_true]
      by_cases hc : (flip s).1 = true
      · simp only [hc, if_true, Option.map_some]
        exact congrArg some
          (weak_of_strong (idleReader_erase { s' with coins := (flip s).2.coins } _))
      · simp only [hc, Bool.false_eq_true, if_false]
        exact hsf
    · simp only [hr, Bool.false_eq_true, if_false, Option.map_some]
      exact congrArg some (weak_of_strong (idleReader_erase _ _))
  | fail res =>
    dsimp only
    by_cases hr : recvReady s = true
    · simp only [hr, if_true]
      by_cases hc : (flip s).1 = true
      · simp only [hc, if_true, Option.map_some]
        exact congrArg some
          (weak_of_strong (idleReader_erase { s' with coins := (flip s).2.coins } _))
      · simp only [hc, Bool.false_eq_true, if_false]
        exact hsf
    · simp only [hr, Bool.false_eq_true, if_false, Option.map_some]
      exact congrArg some (weak_of_strong (idleReader_erase _ _))

theorem tickInflight_erase (F : Framing σ) (s : State σ) (m : Nat) (q : Req) (tx dl : Nat) :
    tickInflight F ((erase z) s) m q tx dl = (tickInflight F s m q tx dl).map (erase z) := by
  unfold tickInflight
  simp only [pollReader_erase, getMock_erase, (flip_erase s).1, (flip_erase s).2, erase_fields]
  generalize pollReader F s m = pr
  obtain ⟨r, s'⟩ := pr
  by_cases he : decide (s.now ≥ dl) = true
  · cases r with
    | blocked =>
      dsimp only
      simp only [he, if_true, Option.map_some]
      rw [← finish_erase]
    | frame f =>
      dsimp only
      simp only [he, if_true]
      by_cases hc : (flip s).1 = true
      · simp only [hc, if_true, Option.map_some]
        rw [← finish_erase]
      · simp only [hc, Bool.false_eq_true, if_false, Option.map_some]
        rw [← inflightReader_erase]; rfl
    | fail res =>
      dsimp only
      simp only [he, if_true]
      by_cases hc : (flip s).1 = true
      · simp only [hc, if_true, Option.map_some]
        rw [← finish_erase]
      · simp only [hc, Bool.false_eq_true, if_false, Option.map_some]
        rw [← inflightReader_erase]; rfl
  · cases r with
    | blocked =>
      dsimp only
      simp only [he, Bool.false_eq_true, if_false]
      by_cases hh : (!(getMock s m).rx.isEmpty) = true <;> simp [hh]
    | frame f =>
      dsimp only
      simp only [he, Bool.false_eq_true, if_false, Option.map_some]
      rw [← inflightReader_erase]
    | fail res =>
      dsimp only
      simp only [he, Bool.false_eq_true, if_false, Option.map_some]
      rw [← inflightReader_erase]

theorem waitCmd_erase (s : State σ) (c : Cmd) :
    erase z (waitCmd ((erase z) s) ((eraseCmd z) c)) = (erase z) (waitCmd s c) := by
  cases c with
  | setDecode d =>
    show erase z (erase z s) = erase z s
    exact erase_idem s
  | req r => exact weak_of_strong rfl
  | enable => exact weak_of_strong rfl
  | disable => exact weak_of_strong rfl
  | shutdown => exact weak_of_strong rfl

theorem tickWait_erase (s : State σ) :
    (tickWait ((erase z) s)).map (erase z) = (tickWait s).map (erase z) := by
  unfold tickWait
  simp only [erase_fields, closed_erase]
  by_cases he : s.enabled = true
  · simp only [if_pos he, Option.map_some]
    exact congrArg some (weak_of_strong rfl)
  · simp only [if_neg he]
    cases h : s.queue with
    | nil =>
      simp only [List.map_nil]
      by_cases hc : closed s = true <;> simp [hc, endPhase_erase]
    | cons c q =>
      simp only [List.map_cons, Option.map_some]
      exact congrArg some (waitCmd_erase { s with queue := q } c)

theorem failCmd_erase (s : State σ) (c : Cmd) :
    erase z (failCmd ((erase z) s) ((eraseCmd z) c)) = (erase z) (failCmd s c) := by
  cases c with
  | req r => exact weak_of_strong rfl
  | shutdown => exact weak_of_strong rfl
  | enable => exact weak_of_strong rfl
  | disable => exact weak_of_strong rfl
  | setDecode d =>
    by_cases h : s.enabled = true
    · have e1 : failCmd s (.setDecode d) = { s with decode := d } := by
        simp [failCmd, applySetting, h]
      have e2 : failCmd (erase z s) (eraseCmd z (.setDecode d))
          = { erase z s with decode := if z then zeroD else d } := by
        have : (erase z s).enabled = true := h
        simp [failCmd, applySetting, eraseCmd, this]
      rw [e1, e2]
      show erase z (erase z s) = erase z s
      exact erase_idem s
    · have e1 : failCmd s (.setDecode d) = endPhase { s with decode := d } .disabled := by
        simp [failCmd, applySetting, h]
      have e2 : failCmd (erase z s) (eraseCmd z (.setDecode d))
          = endPhase { erase z s with decode := if z then zeroD else d } .disabled := by
        have : ¬ (erase z s).enabled = true := h
        simp [failCmd, applySetting, eraseCmd, this]
      rw [e1, e2]
      show erase z (erase z (endPhase s .disabled)) = erase z (endPhase s .disabled)
      exact erase_idem _

theorem tickFail_erase (s : State σ) (dl : Nat) (b : Bool) :
    (tickFail ((erase z) s) dl b).map (erase z) = (tickFail s dl b).map (erase z) := by
  unfold tickFail
  simp only [recvReady_erase, (flip_erase s).1, (flip_erase s).2, erase_fields, closed_erase]
  by_cases h1 : (decide (s.now ≥ dl) && !b) = true
  · simp only [h1, if_true]
    by_cases h2 : recvReady s = true
    · simp only [h2, if_true]
      by_cases h3 : (flip s).1 = true
      · simp only [h3, if_true, Option.map_some]
        exact congrArg some (weak_of_strong rfl)
      · simp only [h3, Bool.false_eq_true, if_false, Option.map_some]
        exact congrArg some (weak_of_strong rfl)
    · simp only [h2, Bool.false_eq_true, if_false, Option.map_some]
      exact congrArg some (weak_of_strong rfl)
  · simp only [h1, Bool.false_eq_true, if_false]
    cases h : s.queue with
    | nil =>
      simp only [List.map_nil]
      by_cases hc : closed s = true
      · simp [hc, endPhase_erase]
      · by_cases he : decide (s.now ≥ dl) = true <;> simp [hc, he, endPhase_erase]
    | cons c q =>
      simp only [List.map_cons, Option.map_some]
      exact congrArg some (failCmd_erase { s with queue := q } c)

theorem startPhase_erase (F : Framing σ) (s : State σ) :
    startPhase F ((erase z) s) = (startPhase F s).map (erase z) := by
  unfold startPhase
  simp only [erase_fields]
  cases s.phases with
  | nil => rfl
  | cons p ps => cases p <;> rfl

theorem map_weak_of_strong {a b : Option (State σ)} (h : a = b.map (erase z)) :
    a.map (erase z) = b.map (erase z) := by
  rw [h]; cases b <;> simp

theorem tick_erase (F : Framing σ) (s : State σ) :
    (tick F ((erase z) s)).map (erase z) = (tick F s).map (erase z) := by
  unfold tick
  simp only [erase_fields]
  by_cases ha : (!s.alive) = true
  · simp [ha]
  · simp only [ha, Bool.false_eq_true, if_false]
    cases s.pos with
    | noPhase => exact map_weak_of_strong (startPhase_erase F s)
    | idle m => exact tickIdle_erase F s m
    | inflight m q tx dl => exact map_weak_of_strong (tickInflight_erase F s m q tx dl)
    | waitEnabled => exact tickWait_erase s
    | failFor dl c => exact tickFail_erase s dl c

/-- two states that agree up to decode levels take the same tick, up to decode levels -/
theorem tick_congr (F : Framing σ) (a b : State σ) (h : erase z a = erase z b) :
    (tick F a).map (erase z) = (tick F b).map (erase z) := by
  rw [← tick_erase F a, ← tick_erase F b, h]

theorem settle_congr (F : Framing σ) (fuel : Nat) (a b : State σ) (h : erase z a = erase z b) :
    erase z (settle F fuel a) = erase z (settle F fuel b) := by
  induction fuel generalizing a b with
  | zero => exact h
  | succ n ih =>
    have ht := tick_congr F a b h
    have hheld : a.held = b.held := (congrArg State.held h : (erase z a).held = (erase z b).held)
    unfold settle
    cases h1 : tick F a <;> cases h2 : tick F b <;> rw [h1, h2] at ht <;> simp at ht
    · dsimp only
      rw [hheld]
      by_cases hh : b.held = 0
      · simp only [if_pos hh]; exact h
      · simp only [if_neg hh]
        exact ih _ _ (congrArg (fun s : State σ => { s with held := 0 }) h)
    · exact ih _ _ ht

theorem settleFuel_erase (s : State σ) : settleFuel ((erase z) s) = settleFuel s := by
  simp [settleFuel, erase]

theorem settleFuel_congr (a b : State σ) (h : erase z a = erase z b) :
    settleFuel a = settleFuel b := by
  rw [← settleFuel_erase (z := z) a, ← settleFuel_erase (z := z) b, h]

theorem settled_congr (F : Framing σ) (a b : State σ) (h : erase z a = erase z b) :
    erase z (settled F a) = erase z (settled F b) := by
  unfold settled
  rw [settleFuel_congr a b h]
  exact settle_congr F _ a b h

theorem nextTimer_erase (s : State σ) : nextTimer ((erase z) s) = nextTimer s := rfl

theorem moveClock_erase (s : State σ) (t : Nat) : moveClock ((erase z) s) t = (erase z) (moveClock s t) := rfl

theorem advance_congr (F : Framing σ) (fuel target : Nat) (a b : State σ)
    (h : erase z a = erase z b) :
    erase z (advance F fuel target a) = erase z (advance F fuel target b) := by
  have hmc : ∀ t, erase z (moveClock a t) = erase z (moveClock b t) := by
    intro t; rw [← moveClock_erase, ← moveClock_erase, h]
  have hnt : nextTimer a = nextTimer b := by
    rw [← nextTimer_erase (z := z) a, ← nextTimer_erase (z := z) b, h]
  induction fuel generalizing a b with
  | zero => exact hmc target
  | succ n ih =>
    unfold advance
    rw [hnt]
    cases nextTimer b with
    | none => exact hmc target
    | some dl =>
      dsimp only
      by_cases hd : dl ≤ target
      · simp only [if_pos hd]
        have h2 := settled_congr F _ _ (hmc dl)
        exact ih _ _ h2
          (fun t => by rw [← moveClock_erase, ← moveClock_erase, h2])
          (by rw [← nextTimer_erase (z := z) (settled F (moveClock a dl)),
                ← nextTimer_erase (z := z) (settled F (moveClock b dl)), h2])
      · simp only [if_neg hd]; exact hmc target

theorem advanceFuel_erase (s : State σ) : advanceFuel ((erase z) s) = advanceFuel s := by
  simp [advanceFuel, erase]

theorem completeAll_erase (s : State σ) (res : Res) (rs : List Req) :
    completeAll ((erase z) s) res rs = (erase z) (completeAll s res rs) := by
  induction rs generalizing s with
  | nil => rfl
  | cons r rs ih => unfold completeAll; rw [complete_erase, ih]

theorem abort_erase (s : State σ) : abort ((erase z) s) = (erase z) (abort s) := by
  unfold abort
  simp only [erase_fields]
  by_cases ha : (!s.alive) = true
  · simp only [if_pos ha]
  · simp only [if_neg ha]
    have h1 : inflightReqs ((erase z) s) = inflightReqs s := rfl
    rw [h1, reqsOf_erase, completeAll_erase]
    rfl

theorem submit_erase (s : State σ) (op : SubmitOp) (r : Req) :
    submit ((erase z) s) op r = (erase z) (submit s op r) := by
  unfold submit
  cases precheck (decide (op = .Q)) r.req with
  | refuse e => rfl
  | invalid e bits => cases op <;> rfl
  | pass =>
    dsimp only
    have e1 : (accept ((erase z) s) r.rid).alive = (accept s r.rid).alive := rfl
    have e2 : (accept ((erase z) s) r.rid).cap = (accept s r.rid).cap := rfl
    have e3 : (accept ((erase z) s) r.rid).queue.length = (accept s r.rid).queue.length := by
      simp [accept, erase]
    have e4 : enqueue (accept ((erase z) s) r.rid) (.req r) = (erase z) (enqueue (accept s r.rid) (.req r)) :=
      enqueue_erase (accept s r.rid) (.req r)
    cases op with
    | T =>
      dsimp only
      rw [e1, e2, e3, e4]
      by_cases ha : (!(accept s r.rid).alive) = true
      · simp only [if_pos ha]; rfl
      · simp only [if_neg ha]
        by_cases hf : (accept s r.rid).queue.length ≥ (accept s r.rid).cap
        · simp only [if_pos hf]; rfl
        · simp only [if_neg hf]
    | R =>
      dsimp only
      rw [e1, e4]
      by_cases ha : (!(accept s r.rid).alive) = true
      · simp only [if_pos ha]; rfl
      · simp only [if_neg ha]
    | C =>
      dsimp only
      rw [e1, e4]
      by_cases ha : (!(accept s r.rid).alive) = true
      · simp only [if_pos ha]; rfl
      · simp only [if_neg ha]
    | Q =>
      dsimp only
      rw [e1, e4]
      by_cases ha : (!(accept s r.rid).alive) = true
      · simp only [if_pos ha]; rfl
      · simp only [if_neg ha]

theorem trySetting_erase (s : State σ) (op : CmdOp) (c : Cmd) :
    trySetting ((erase z) s) op ((eraseCmd z) c) = (erase z) (trySetting s op c) := by
  unfold trySetting
  have e3 : ((erase z) s).queue.length = s.queue.length := by simp [erase]
  have e1 : ((erase z) s).alive = s.alive := rfl
  have e2 : ((erase z) s).cap = s.cap := rfl
  rw [e1, e2, e3, enqueue_erase]
  by_cases h : (!s.alive || decide (s.queue.length ≥ s.cap)) = true
  · simp only [if_pos h]; rfl
  · simp only [if_neg h]

theorem addPhase_erase (s : State σ) (p : Phase) : addPhase ((erase z) s) p = (erase z) (addPhase s p) := by
  unfold addPhase
  have e1 : ((erase z) s).alive = s.alive := rfl
  rw [e1]
  by_cases h : s.alive = true
  · simp only [if_pos h]; rfl
  · simp only [if_neg h]

theorem pushRx_erase (s : State σ) (x : Rx) : pushRx ((erase z) s) x = (erase z) (pushRx s x) := by
  unfold pushRx
  have e1 : ((erase z) s).mocks = s.mocks := rfl
  rw [e1]
  cases s.mocks.length <;> rfl

theorem applyStep_erase (s : State σ) (st : Step) :
    applyStep ((erase z) s) ((eraseStep z) st) = (erase z) (applyStep s st) := by
  have hh : ∀ h, handleAlive ((erase z) s) h = handleAlive s h := fun _ => rfl
  cases st with
  | newSession => exact addPhase_erase { s with mocks := s.mocks ++ [{}] } _
  | waitEnabled => exact addPhase_erase s _
  | failFor ms => exact addPhase_erase s _
  | enable h =>
    simp only [applyStep, eraseStep, hh]
    by_cases hx : handleAlive s h = true
    · simp only [if_pos hx]; exact trySetting_erase s .E .enable
    · simp only [if_neg hx]
  | disable h =>
    simp only [applyStep, eraseStep, hh]
    by_cases hx : handleAlive s h = true
    · simp only [if_pos hx]; exact trySetting_erase s .D .disable
    · simp only [if_neg hx]
  | setDecode d =>
    simp only [applyStep, eraseStep, hh]
    by_cases hx : handleAlive s 0 = true
    · simp only [if_pos hx]; exact trySetting_erase s .L (.setDecode d)
    · simp only [if_neg hx]
  | shutdown h =>
    simp only [applyStep, eraseStep, hh]
    have e1 : ((erase z) s).alive = s.alive := rfl
    rw [e1]
    by_cases hx : (handleAlive s h && s.alive) = true
    · simp only [if_pos hx]; exact enqueue_erase s .shutdown
    · simp only [if_neg hx]
  | cloneHandle => rfl
  | dropHandle i => rfl
  | submit op h r =>
    simp only [applyStep, eraseStep, hh]
    by_cases hx : handleAlive s h = true
    · simp only [if_pos hx]; exact submit_erase s op r
    · simp only [if_neg hx]; rfl
  | rx x => exact pushRx_erase s x
  | failWrite =>
    simp only [applyStep, eraseStep]
    have e1 : ((erase z) s).mocks = s.mocks := rfl
    rw [e1]
    cases s.mocks.length <;> rfl
  | advance ms => rfl
  | abort => exact abort_erase s

theorem eraseStep_advance (st st' : Step) (h : eraseStep z st = eraseStep z st') (ms : Nat)
    (hst : st = .advance ms) : st' = .advance ms := by
  subst hst
  cases st' <;> simp [eraseStep] at h ⊢
  exact h.symm

theorem stepState_congr (F : Framing σ) (a b : State σ) (st st' : Step)
    (h : erase z a = erase z b) (hst : eraseStep z st = eraseStep z st') :
    erase z (stepState F a st) = erase z (stepState F b st') := by
  have happ : erase z (applyStep a st) = erase z (applyStep b st') := by
    rw [← applyStep_erase, ← applyStep_erase, h, hst]
  have hfuel : advanceFuel a = advanceFuel b := by
    rw [← advanceFuel_erase (z := z) a, ← advanceFuel_erase (z := z) b, h]
  have hnow : a.now = b.now := (congrArg State.now h : (erase z a).now = (erase z b).now)
  by_cases hadv : ∃ ms, st = .advance ms
  · obtain ⟨ms, rfl⟩ := hadv
    have := eraseStep_advance _ st' hst ms rfl
    subst this
    simp only [stepState]
    rw [hfuel, hnow]
    exact advance_congr F _ _ a b h
  · have hadv' : ¬ ∃ ms, st' = .advance ms := by
      rintro ⟨ms, rfl⟩
      exact hadv ⟨ms, eraseStep_advance _ st hst.symm ms rfl⟩
    have e1 : stepState F a st = settled F (applyStep a st) := by
      cases st <;> first | rfl | exact absurd ⟨_, rfl⟩ hadv
    have e2 : stepState F b st' = settled F (applyStep b st') := by
      cases st' <;> first | rfl | exact absurd ⟨_, rfl⟩ hadv'
    rw [e1, e2]
    exact settled_congr F _ _ happ

/-- states that agree up to decode levels, scripts that agree up to the levels they carry: same
    log groups, final states that agree up to decode levels -/
theorem run_congr (F : Framing σ) (s t : State σ) (steps steps' : List Step)
    (hs : erase z s = erase z t) (hst : steps.map (eraseStep z) = steps'.map (eraseStep z)) :
    (run F s steps).2 = (run F t steps').2
      ∧ erase z (run F s steps).1 = erase z (run F t steps').1 := by
  induction steps generalizing s t steps' with
  | nil =>
    cases steps' with
    | nil => exact ⟨rfl, hs⟩
    | cons _ _ => simp at hst
  | cons st rest ih =>
    cases steps' with
    | nil => simp at hst
    | cons st' rest' =>
      simp only [List.map_cons, List.cons.injEq] at hst
      have h1 := stepState_congr F s t st st' hs hst.1
      have hlog : s.log = t.log := (congrArg State.log hs : (erase z s).log = (erase z t).log)
      have hlog' : (stepState F s st).log = (stepState F t st').log :=
        (congrArg State.log h1 : (erase z _).log = (erase z _).log)
      obtain ⟨i1, i2⟩ := ih (stepState F s st) (stepState F t st') rest' h1 hst.2
      simp only [run, step]
      rw [i1, hlog, hlog']
      exact ⟨rfl, i2⟩

theorem run_fst (F : Framing σ) (s : State σ) (steps : List Step) :
    (run F s steps).1 = runState F s steps := by
  induction steps generalizing s with
  | nil => rfl
  | cons st rest ih =>
    simp only [run, runState, List.foldl_cons]
    rw [ih]
    rfl

theorem run_append (F : Framing σ) (s : State σ) (a b : List Step) :
    (run F s (a ++ b)).2 = (run F s a).2 ++ (run F (run F s a).1 b).2
      ∧ (run F s (a ++ b)).1 = (run F (run F s a).1 b).1 := by
  induction a generalizing s with
  | nil => exact ⟨rfl, rfl⟩
  | cons st rest ih =>
    simp only [List.cons_append, run]
    obtain ⟨i1, i2⟩ := ih (step F s st).1
    rw [i1, i2]
    exact ⟨rfl, rfl⟩

/-! ### the equivalence that ignores only the `decode` field -/

/-- forget the `decode` field, nothing else -/
def eraseDecode (s : State σ) : State σ := { s with decode := zeroD }

theorem erase_false (s : State σ) : erase false s = eraseDecode s := by
  have : s.queue.map (eraseCmd false) = s.queue := by
    rw [show eraseCmd false = id from funext eraseCmd_false]; simp
  simp [erase, eraseDecode, this]

theorem map_eraseStep_false (steps : List Step) : steps.map (eraseStep false) = steps := by
  rw [show eraseStep false = id from funext eraseStep_false]; simp

/-- `eraseDecode s = eraseDecode t` says exactly that `t` is `s` with another `decode` field -/
theorem eraseDecode_eq_iff (s t : State σ) :
    eraseDecode s = eraseDecode t ↔ t = { s with decode := t.decode } := by
  constructor
  · intro h
    cases s; cases t
    simp only [eraseDecode, State.mk.injEq] at h ⊢
    simp_all
  · intro h
    rw [h]; rfl

theorem step_log_nil (l : List LogEntry) : newEntries l l = [] := by
  simp [newEntries]

/-! ### a set-decode command is an ordinary queued command -/

theorem teff_inflight_queue (c c' : Core) (t : TEff c c') (m : Nat) (r : Req) (tx dl : Nat)
    (hp : c.pos = .inflight m r tx dl) : c'.queue = c.queue := by
  have hi : inflightIds c.pos ≠ [] := by rw [hp]; simp [inflightIds]
  cases t with
  | quiet => rfl
  | commit dl' ha hp' => rw [hp] at hp'
  | startSession m' ha hp' => rw [hp] at hp'
  | startWait ha hp' => rw [hp] at hp'
  | startFail ms ha hp' => rw [hp] at hp'
  | phaseEnd k ha hi' hn => exact absurd hi' hi
  | phaseEndCmd k x q ha hi' hn hq hx => exact absurd hi' hi
  | setting x q ha hi' hn hq hx => exact absurd hi' hi
  | noConn r' q ha hp' hq =>
    rcases hp' with hp' | ⟨d, b, hp'⟩ <;> rw [hp] at hp' <;> cases hp'
  | send m' r' q bytes logged ha hp' hq => rw [hp] at hp'; cases hp'
  | dequeueFail m' r' q res ha hp' hq hres => rw [hp] at hp'; cases hp'
  | finish m' r' tx' dl' res ha hp' ht h3 h4 => exact (afterCore_parts _ m' res).2.1
  | time t ht1 ht2 => rfl

/-- while a request is in flight the queue is not touched: a queued set-decode command (like any
    other command) waits until the transaction is over -/
theorem inflight_keeps_queue (F : Framing σ) (s t : State σ) (m : Nat) (r : Req) (tx dl : Nat)
    (hp : s.pos = .inflight m r tx dl) (h : tick F s = some t) : t.queue = s.queue :=
  teff_inflight_queue (core s) (core t) (tick_eff F s t h) m r tx dl hp

theorem runCmd_setDecode_enabled (F : Framing σ) (s : State σ) (m : Nat) (d : Decode)
    (he : s.enabled = true) : runCmd F s m (.setDecode d) = { s with decode := d } := by
  simp [runCmd, applySetting, he]

theorem runCmd_setDecode_disabled (F : Framing σ) (s : State σ) (m : Nat) (d : Decode)
    (he : s.enabled = false) :
    runCmd F s m (.setDecode d) = endPhase { s with decode := d } .disabled := by
  simp [runCmd, applySetting, he]

theorem failCmd_setDecode_enabled (s : State σ) (d : Decode) (he : s.enabled = true) :
    failCmd s (.setDecode d) = { s with decode := d } := by
  simp [failCmd, applySetting, he]

theorem waitCmd_setDecode (s : State σ) (d : Decode) :
    waitCmd s (.setDecode d) = { s with decode := d } := rfl

theorem applyStep_setDecode (s : State σ) (d : Decode) :
    applyStep s (.setDecode d) =
      if handleAlive s 0 then
        (if !s.alive || decide (s.queue.length ≥ s.cap) then emit s (.cmdErr .L)
         else enqueue s (.setDecode d))
      else s := rfl

/-! ### inserting a set-decode step where the task is blocked with an empty queue -/

/-- the task is blocked in a phase that takes commands, nothing is queued, handle 0 is alive, the
    queue has room, and (in a session) the reader is blocked with nothing left to read -/
def Quiescent (F : Framing σ) (s : State σ) : Prop :=
  s.alive = true ∧ handleAlive s 0 = true ∧ 0 < s.cap ∧ s.queue = [] ∧ s.held = 0
    ∧ ((∃ m, s.pos = .idle m ∧ s.enabled = true ∧ (getMock s m).rx = []
          ∧ pollReader F s m = (.blocked, s))
        ∨ (s.pos = .waitEnabled ∧ s.enabled = false)
        ∨ (∃ dl, s.pos = .failFor dl false ∧ s.enabled = true ∧ s.now < dl))

theorem handles_any (s : State σ) (h : handleAlive s 0 = true) : s.handles.any id = true := by
  unfold handleAlive at h
  cases hh : s.handles with
  | nil => rw [hh] at h; simp at h
  | cons a l => rw [hh] at h; simp at h; simp [h]

theorem closed_of_handle (s : State σ) (h : handleAlive s 0 = true) : closed s = false := by
  unfold closed
  simp [handles_any s h]

theorem pollReader_with (F : Framing σ) (s s' : State σ) (m : Nat) (r : ReadRes)
    (h : pollReader F s m = (r, s')) (q : List Cmd) (d : Decode) :
    pollReader F { s with queue := q, decode := d } m = (r, { s' with queue := q, decode := d }) := by
  unfold pollReader at h ⊢
  simp only [getMock, setMock] at h ⊢
  generalize readerPoll F _ s.pst s.rb _ = rr at h ⊢
  obtain ⟨r0, st', rb', rx'⟩ := rr
  simp only [Prod.mk.injEq] at h ⊢
  obtain ⟨h1, h2⟩ := h
  exact ⟨h1, by rw [← h2]⟩

theorem tick_at_idle (F : Framing σ) (u : State σ) (m : Nat) (ha : u.alive = true)
    (hp : u.pos = .idle m) : tick F u = tickIdle F u m := by
  unfold tick; simp [ha, hp]

theorem tick_at_wait (F : Framing σ) (u : State σ) (ha : u.alive = true)
    (hp : u.pos = .waitEnabled) : tick F u = tickWait u := by
  unfold tick; simp [ha, hp]

/-- in a quiescent state nothing happens: the task is blocked -/
theorem tick_quiescent (F : Framing σ) (s : State σ) (h : Quiescent F s) (d : Decode) :
    tick F { s with decode := d } = none := by
  obtain ⟨ha, hh, _, hq, _, hcase⟩ := h
  have hany := handles_any s hh
  rcases hcase with ⟨m, hp, he, hrx, hpoll⟩ | ⟨hp, he⟩ | ⟨dl, hp, he, hnow⟩
  · rw [tick_at_idle F { s with decode := d } m ha hp]
    have hp2 := pollReader_with F s s m .blocked hpoll s.queue d
    unfold tickIdle
    have hrx' : (getMock ({ s with decode := d } : State σ) m).rx = [] := hrx
    simp only [hrx']
    rw [show ({ s with decode := d } : State σ) = { s with queue := s.queue, decode := d } from rfl, hp2]
    simp [sessionRecv, hq, closed, hany]
  · rw [tick_at_wait F { s with decode := d } ha hp]
    simp [tickWait, he, hq, closed, hany]
  · rw [tick_fail F { s with decode := d } dl false ha hp]
    have hexp : decide (s.now ≥ dl) = false := by simp; omega
    simp [tickFail, hexp, hq, closed, hany]

/-- `level_change_transparent` (local form): in a quiescent state the step `L<d>` only changes the
    `decode` field; it logs nothing -/
theorem step_setDecode_quiescent (F : Framing σ) (s : State σ) (h : Quiescent F s) (d : Decode) :
    stepState F s (.setDecode d) = { s with decode := d } := by
  have hq0 := h
  obtain ⟨ha, hh, hcap, hq, hheld, hcase⟩ := h
  have happly : applyStep s (.setDecode d) = { s with queue := [.setDecode d] } := by
    rw [applyStep_setDecode]
    have h3 : ¬ s.cap = 0 := by omega
    simp [hh, ha, enqueue, hq, h3, hcap]
  show settled F (applyStep s (.setDecode d)) = _
  rw [happly]
  unfold settled
  generalize hfu : settleFuel ({ s with queue := [.setDecode d] } : State σ) = fuel
  have hfuel : 2 ≤ fuel := by rw [← hfu]; simp [settleFuel]
  obtain ⟨n, rfl⟩ : ∃ n, fuel = n + 2 := ⟨fuel - 2, by omega⟩
  have ht : tick F ({ s with queue := [.setDecode d] } : State σ) = some { s with decode := d } := by
    rcases hcase with ⟨m, hp, he, hrx, hpoll⟩ | ⟨hp, he⟩ | ⟨dl, hp, he, hnow⟩
    · rw [tick_at_idle F { s with queue := [.setDecode d] } m ha hp]
      have hp2 := pollReader_with F s s m .blocked hpoll [.setDecode d] s.decode
      unfold tickIdle
      rw [show ({ s with queue := [.setDecode d] } : State σ)
        = { s with queue := [.setDecode d], decode := s.decode } from rfl, hp2]
      simp [sessionRecv, runCmd, applySetting, he, hq]
    · rw [tick_at_wait F { s with queue := [.setDecode d] } ha hp]
      simp [tickWait, he, waitCmd, applySetting, hq]
    · rw [tick_fail F { s with queue := [.setDecode d] } dl false ha hp]
      have hexp : decide (s.now ≥ dl) = false := by simp; omega
      simp [tickFail, hexp, failCmd, applySetting, he, hq]
  rw [settle_succ_some F (n + 1) _ _ ht, settle_succ_none F n _ (tick_quiescent F s hq0 d)]
  simp [hheld]

end

end Rodbus.Client
