import RodbusModel.Model.Ffi
/-
  Reference specifications for the C ABI, written in a deliberately different style from
  `Model/Ffi.lean`: the point database as a total function `Table → Index → Option Value`,
  client reads answered directly from that function (no PDUs), names produced by a naming rule.
-/
namespace Rodbus.Ffi.Spec
open Rodbus.Ffi

/-- the abstract point database: one partial map per point type -/
abbrev AMap := Table → Nat → Option Nat

def AMap.empty : AMap := fun _ _ => none

def AMap.set (m : AMap) (t : Table) (i : Nat) (v : Option Nat) : AMap :=
  fun t' i' => if t' = t ∧ i' = i then v else m t' i'

/-- add succeeds iff absent, update and delete iff present, get fails iff absent -/
def AMap.step (m : AMap) : DbOp → AMap × DbRes
  | .add t i v => if (m t i).isNone then (m.set t i (some v), .flag true) else (m, .flag false)
  | .update t i v => if (m t i).isSome then (m.set t i (some v), .flag true) else (m, .flag false)
  | .delete t i => if (m t i).isSome then (m.set t i none, .flag true) else (m, .flag false)
  | .get t i => match m t i with
    | some v => (m, .val v)
    | none => (m, .err)

def AMap.run (m : AMap) : List DbOp → AMap × List DbRes
  | [] => (m, [])
  | op :: ops =>
    let r := m.step op
    let rs := AMap.run r.1 ops
    (rs.1, r.2 :: rs.2)

/-- a client read of `count` points from `start`: exception 02 as soon as one point of the
    range is absent, otherwise all the values -/
def AMap.read (m : AMap) (t : Table) (start count : Nat) : RdOut :=
  if (List.range count).all (fun k => (m t (start + k)).isSome) then
    .ok ((List.range count).map (fun k => (m t (start + k)).getD 0))
  else .error 2

/-- names of the standard exception codes by number (Modbus application protocol, table of
    exception codes) -/
def exceptionNames : List (Nat × String) :=
  [(1, "IllegalFunction"), (2, "IllegalDataAddress"), (3, "IllegalDataValue"),
   (4, "ServerDeviceFailure"), (5, "Acknowledge"), (6, "ServerDeviceBusy"),
   (8, "MemoryParityError"), (10, "GatewayPathUnavailable"),
   (11, "GatewayTargetDeviceFailedToRespond")]

/-- the C-ABI error named after exception byte `b` -/
def exceptionErrorName (b : Nat) : String :=
  "ModbusException" ++ ((exceptionNames.lookup b).getD "Unknown")

/-- the C-ABI error named after a `rodbus::RequestError` variant: the same name; the schema
    spells three of them slightly differently -/
def requestErrorName (rustVariant : String) : String :=
  if rustVariant = "Io" then "IoError"
  else if rustVariant = "BadFrame" then "BadFraming"
  else if rustVariant = "Internal" then "InternalError"
  else rustVariant

/-! ### Caller-owned objects: every call sees the values of its arguments, nothing else -/

/-- a point memory as a function (absent = `none`) -/
abbrev Mem := Nat → Option Nat

def Mem.set (m : Mem) (a v : Nat) : Mem := fun a' => if a' = a then some v else m a'

/-- a multiple write applied point by point in ascending order; it stops at the first absent
    point.  Returns whether every point existed and the memory afterwards. -/
def Mem.writeAll (m : Mem) (start : Nat) : List Nat → Bool × Mem
  | [] => (true, m)
  | v :: vs =>
    match m start with
    | some _ => Mem.writeAll (m.set start v) (start + 1) vs
    | none => (false, m)

/-- a read of `n` points from `start`: all the values, or `none` if one is absent -/
def Mem.readAll (m : Mem) (start n : Nat) : Option (List Nat) :=
  (List.range n).mapM fun k => m (start + k)

/-- `k` writes of the SAME values to the given start addresses: for each write whether the
    request was acceptable (non-empty, no address overflow) and whether it succeeded; and the
    memory afterwards.  Every write carries the full list of values, whatever came before. -/
def Mem.writeSame (m : Mem) (vs : List Nat) : List Nat → List (Bool × Bool) × Mem
  | [] => ([], m)
  | s :: rest =>
    if vs.length = 0 ∨ s + vs.length > 65536 then
      let r := Mem.writeSame m vs rest
      ((false, false) :: r.1, r.2)
    else
      let w := m.writeAll s vs
      let r := Mem.writeSame w.2 vs rest
      ((true, w.1) :: r.1, r.2)

/-! ### Control functions and constructors: outcome tables -/

/-- (function, circumstance) ↦ `ParamError` -/
def controlReturns : List ((String × String) × String) :=
  [(("client_channel_set_decode_level", "live"), "Ok"),
   (("client_channel_set_decode_level", "null"), "NullParameter"),
   (("client_channel_set_decode_level", "closed"), "Shutdown"),
   (("client_channel_enable", "live"), "Ok"),
   (("client_channel_enable", "null"), "NullParameter"),
   (("client_channel_disable", "live"), "Ok"),
   (("client_channel_disable", "null"), "NullParameter"),
   (("server_set_decode_level", "live"), "Ok"),
   (("server_set_decode_level", "null"), "NullParameter"),
   (("server_set_decode_level", "withinAsync"), "RuntimeCannotBlockWithinAsync"),
   (("server_update_database", "live"), "Ok"),
   (("server_update_database", "null"), "NullParameter"),
   (("server_update_database", "nounit"), "InvalidUnitId")]

def controlReturn (fn circumstance : String) : String :=
  (controlReturns.lookup (fn, circumstance)).getD "?"

/-- TLS configuration scenarios of the client constructor: scenario ↦ (what the Rust-API
    constructor reports for the same inputs, `ParamError` of the C ABI).  The certificate
    loader of the library reports every unusable file as `BadConfig`. -/
def tlsClientScenarios : List (String × String × String) :=
  [("ok", "ok", "Ok"), ("ca", "ok", "Ok"), ("wilddns", "ok", "Ok"),
   ("nopeer", "BadConfig", "BadTlsConfig"), ("nolocal", "BadConfig", "BadTlsConfig"),
   ("nokey", "BadConfig", "BadTlsConfig"), ("keyiscert", "BadConfig", "BadTlsConfig"),
   ("peeriskey", "BadConfig", "BadTlsConfig"), ("canopeer", "BadConfig", "BadTlsConfig"),
   ("baddns", "InvalidDnsName", "InvalidDnsName"), ("stardns", "InvalidDnsName", "InvalidDnsName"),
   ("utf8peer", "Utf8Error", "InvalidUtf8"), ("utf8dns", "Utf8Error", "InvalidUtf8")]

/-- the same for the two TLS server constructors (a server has no expected name; paths are
    converted lossily, so a path that is not UTF-8 is just a file that does not exist) -/
def tlsServerScenarios : List (String × String × String) :=
  [("ok", "ok", "Ok"), ("ca", "ok", "Ok"),
   ("nopeer", "BadConfig", "BadTlsConfig"), ("nolocal", "BadConfig", "BadTlsConfig"),
   ("nokey", "BadConfig", "BadTlsConfig"), ("keyiscert", "BadConfig", "BadTlsConfig"),
   ("peeriskey", "BadConfig", "BadTlsConfig"), ("canopeer", "BadConfig", "BadTlsConfig"),
   ("utf8peer", "BadConfig", "BadTlsConfig")]

/-- arguments that are wrong before any configuration is looked at -/
def structuralScenarios : List (String × String) :=
  [("nullrt", "NullParameter"), ("nullfilter", "NullParameter"), ("nullmap", "NullParameter"),
   ("badip", "InvalidIpAddress"), ("inuse", "ServerBindError"), ("ok", "Ok")]

end Rodbus.Ffi.Spec
