import RodbusModel.Props.C06
/-
  C06: discharging the delimitation hypothesis `hspan` of `C06.corruption_rejected_partial`.

  An RTU receiver delimits a frame from two of its bytes only: the function code (frame byte 1;
  byte 0 is the address) and — for the length modes that read a byte count (`LengthMode.offset k`)
  — the byte-count byte (PDU byte `k` = frame byte `k + 1`).  An error pattern that is zero on
  these bytes (`delimitingBytes`) cannot change the delimitation (`span_unchanged`), so every
  1-bit, 2-bit and ≤ 16-bit-burst error confined to the OTHER bytes — the address / unit id, all
  data bytes, both CRC bytes — is rejected with a CRC error, without any further hypothesis
  (`corruption_rejected_data_bytes`).

  What remains excluded is exactly `delimitingBytes` (`delimiting_bytes_request`,
  `delimiting_bytes_response`: frame byte 1 always; frame byte 6 for requests 15/16; frame byte 2
  for responses 1-4), and for each of them a single-bit error that IS accepted is exhibited
  (`C06.byte_count_flip_accepted`, `request_byte_count_flip_accepted`,
  `function_code_flip_accepted`): the exclusion is forced by the protocol.
-/
namespace Rodbus.C06
open Rodbus.Crc Rodbus.Rtu

/-- frame positions (address byte = position 0) of the bytes the length rule of direction `d`
    reads for a PDU: the function code, and the byte count where the length mode has one -/
def delimitingBytes (d : Dir) (pdu : Bytes) : List Nat :=
  match lengthMode d (pdu.headD 0) with
  | .offset k => [1, k + 1]
  | _ => [1]

theorem lengthMode_request (fc : Nat) :
    lengthMode .request fc =
      if fc = 1 ∨ fc = 2 ∨ fc = 3 ∨ fc = 4 ∨ fc = 5 ∨ fc = 6 then .fixed 4
      else if fc = 15 ∨ fc = 16 then .offset 5 else .unknown := by
  simp [lengthMode]

theorem lengthMode_response (fc : Nat) :
    lengthMode .response fc =
      if fc &&& 0x80 ≠ 0 then .fixed 1
      else if fc = 1 ∨ fc = 2 ∨ fc = 3 ∨ fc = 4 then .offset 1
      else if fc = 5 ∨ fc = 6 ∨ fc = 15 ∨ fc = 16 then .fixed 4 else .unknown := by
  simp [lengthMode]

/-- requests: the function code; for Write Multiple Coils / Registers also the byte count, which
    is PDU byte 5 = frame byte 6 -/
theorem delimiting_bytes_request (fc : Nat) (body : Bytes) :
    delimitingBytes .request (fc :: body) = if fc = 15 ∨ fc = 16 then [1, 6] else [1] := by
  simp only [delimitingBytes, List.headD_cons, lengthMode_request]
  by_cases h6 : fc = 1 ∨ fc = 2 ∨ fc = 3 ∨ fc = 4 ∨ fc = 5 ∨ fc = 6
  · have : ¬ (fc = 15 ∨ fc = 16) := by omega
    simp [h6, this]
  · by_cases h15 : fc = 15 ∨ fc = 16
    · simp [h6, h15]
    · simp [h6, h15]

/-- responses: the function code; for the four read responses also the byte count, which is PDU
    byte 1 = frame byte 2 -/
theorem delimiting_bytes_response (fc : Nat) (body : Bytes) :
    delimitingBytes .response (fc :: body)
      = if fc = 1 ∨ fc = 2 ∨ fc = 3 ∨ fc = 4 then [1, 2] else [1] := by
  simp only [delimitingBytes, List.headD_cons, lengthMode_response]
  by_cases h4 : fc = 1 ∨ fc = 2 ∨ fc = 3 ∨ fc = 4
  · have hx : fc &&& 0x80 = 0 := by rcases h4 with h | h | h | h <;> subst h <;> decide
    simp [h4, hx]
  · by_cases hx : fc &&& 0x80 = 0
    · by_cases h5 : fc = 5 ∨ fc = 6 ∨ fc = 15 ∨ fc = 16
      · simp [h4, h5, hx]
      · simp [h4, h5, hx]
    · simp [h4, hx]

/-- byte `i` of the corrupted frame is byte `i` of the original wherever the error is zero -/
theorem xorBytes_getElem?_of_zero (f e : Bytes) (hl : f.length = e.length) (i : Nat)
    (h : e.getD i 0 = 0) : (xorBytes f e)[i]? = f[i]? := by
  induction f generalizing e i with
  | nil => cases e <;> simp [xorBytes]
  | cons a as ih =>
    cases e with
    | nil => simp at hl
    | cons c cs =>
      cases i with
      | zero =>
        have hc : c = 0 := by simpa using h
        simp [xorBytes, hc]
      | succ i =>
        simp only [xorBytes, List.getElem?_cons_succ]
        exact ih cs (by simpa using hl) i (by simpa using h)

/-- the length rule reads the function code (position 1) and, in an `offset k` mode, position
    `k + 1`; two streams of the same length that agree there are delimited alike -/
theorem frameLen?_congr (d : Dir) (s s' : Bytes) (hlen : s'.length = s.length)
    (h1 : s'[1]? = s[1]?)
    (hk : ∀ k, lengthMode d (s.getD 1 0) = .offset k → s'[k + 1]? = s[k + 1]?) :
    frameLen? d s' = frameLen? d s := by
  match s, s' with
  | [], [] => rfl
  | [_], [_] => rfl
  | [], _ :: _ => simp at hlen
  | _ :: _, [] => simp at hlen
  | [_], _ :: _ :: _ => simp at hlen
  | _ :: _ :: _, [_] => simp at hlen
  | dest :: fc :: rest, dest' :: fc' :: rest' =>
    have hfc : fc' = fc := by simpa using h1
    subst hfc
    simp only [frameLen?]
    cases hm : lengthMode d fc' with
    | unknown => rfl
    | fixed n => rfl
    | offset k =>
      have := hk k (by simpa using hm)
      simp only [List.getElem?_cons_succ] at this
      simp only [this]

/-- **span_unchanged**: an error pattern that is zero on the function-code byte and (where there
    is one) on the byte-count byte leaves the delimitation of the frame unchanged.  No hypothesis
    on the PDU other than that it has a function code. -/
theorem span_unchanged (d : Dir) (dest : Nat) (pdu e : Bytes) (hne : pdu ≠ [])
    (hl : e.length = (format dest pdu).length)
    (hz : ∀ i ∈ delimitingBytes d pdu, e.getD i 0 = 0) :
    frameLen? d (xorBytes (format dest pdu) e) = frameLen? d (format dest pdu)
    ∧ frameSpan d (xorBytes (format dest pdu) e) = frameSpan d (format dest pdu) := by
  have key : frameLen? d (xorBytes (format dest pdu) e) = frameLen? d (format dest pdu) := by
    cases pdu with
    | nil => exact absurd rfl hne
    | cons fc body =>
      apply frameLen?_congr
      · exact xorBytes_length _ _ hl.symm
      · exact xorBytes_getElem?_of_zero _ _ hl.symm 1 (hz 1 (by unfold delimitingBytes; split <;> simp))
      · intro k hm
        have hm' : lengthMode d ((fc :: body).headD 0) = .offset k := by
          simpa [format] using hm
        exact xorBytes_getElem?_of_zero _ _ hl.symm (k + 1)
          (hz (k + 1) (by unfold delimitingBytes; rw [hm']; simp))
  exact ⟨key, by simp only [frameSpan, key]⟩

/-- **corruption_rejected_data_bytes**: hypothesis-free form of `corruption_rejected_partial`.
    A valid frame hit by a single-bit, a double-bit or a ≤ 16-bit burst error that spares the
    function-code byte and the byte-count byte — i.e. an error anywhere in the unit id, the data
    bytes and the two CRC bytes — is answered with a CRC error and nothing else: no frame event
    (no handler call, no reply, no accepted response), and the session ends. -/
theorem corruption_rejected_data_bytes (d : Dir) (dest : Nat) (pdu e rest : Bytes)
    (hd : dest < 256) (hp : WellFormedPdu d pdu) (he : Bytes.WF e)
    (hl : e.length = (format dest pdu).length)
    (hpat : SingleBit e ∨ Burst16 e ∨ DoubleBit e)
    (hz : ∀ i ∈ delimitingBytes d pdu, e.getD i 0 = 0) :
    ∃ r x, r ≠ x ∧
      specFrames d (xorBytes (format dest pdu) e ++ rest) = [.err (.crcValidationFailure r x)] := by
  have hne : pdu ≠ [] := by
    intro h; have := hp.2.2; rw [h] at this; simp [pduLenRule] at this
  refine corruption_rejected_partial d dest pdu e rest hd hp he hl hpat ?_
  rw [(span_unchanged d dest pdu e hne hl hz).2]
  exact hp.span dest

/-- the same through the buffered reader, for every chunking of the corrupted stream -/
theorem corruption_rejected_data_bytes_run (d : Dir) (dest : Nat) (pdu e rest : Bytes)
    (chunks : List Bytes) (hd : dest < 256) (hp : WellFormedPdu d pdu) (he : Bytes.WF e)
    (hl : e.length = (format dest pdu).length)
    (hpat : SingleBit e ∨ Burst16 e ∨ DoubleBit e)
    (hz : ∀ i ∈ delimitingBytes d pdu, e.getD i 0 = 0)
    (hc : chunks.flatten = xorBytes (format dest pdu) e ++ rest) :
    (∃ r x, r ≠ x ∧ Rtu.run d chunks = [.err (.crcValidationFailure r x)])
      ∧ ∀ f, Event.frame f ∉ Rtu.run d chunks := by
  obtain ⟨r, x, hrx, h⟩ := corruption_rejected_data_bytes d dest pdu e rest hd hp he hl hpat hz
  rw [rtu_chunking_independent, hc, h]
  exact ⟨⟨r, x, hrx, rfl⟩, by simp⟩

/-- in particular every error confined to the address byte, and every error confined to the two
    CRC bytes, is rejected: these positions are never delimiting -/
theorem address_and_crc_never_delimiting (d : Dir) (pdu : Bytes) (hp : WellFormedPdu d pdu) :
    0 ∉ delimitingBytes d pdu ∧ pdu.length + 1 ∉ delimitingBytes d pdu
      ∧ pdu.length + 2 ∉ delimitingBytes d pdu := by
  unfold delimitingBytes
  obtain ⟨_, _, hr⟩ := hp
  cases pdu with
  | nil => simp [pduLenRule] at hr
  | cons fc body =>
    simp only [pduLenRule, List.headD_cons] at hr ⊢
    cases hm : lengthMode d fc with
    | unknown => rw [hm] at hr; simp at hr
    | fixed n => simp
    | offset k =>
      rw [hm] at hr
      simp only at hr
      cases hk : (fc :: body)[k]? with
      | none => rw [hk] at hr; simp at hr
      | some extra =>
        rw [hk] at hr
        simp only [Option.some.injEq, List.length_cons] at hr
        simp only [List.length_cons, List.mem_cons, List.not_mem_nil, or_false, not_or]
        omega

/-! ## The excluded positions are necessary: accepted single-bit errors at each of them -/

/-- the witness `byte_count_flip_accepted` flips a bit of frame byte 2, the byte count of a
    read response, and of no other byte -/
theorem byte_count_flip_position :
    delimitingBytes .response [0x03, 0x04, 0x50, 0xF8, 0x00, 0x00] = [1, 2]
    ∧ ∀ i, ([0, 0, 4, 0, 0, 0, 0, 0, 0] : Bytes).getD i 0 ≠ 0 ↔ i = 2 := by
  refine ⟨by decide, fun i => ?_⟩
  match i with
  | 0 | 1 | 2 | 3 | 4 | 5 | 6 | 7 | 8 => decide
  | n + 9 => simp

/-- server side (requests): the valid request `2A 10 0000 0001 02 93C2 crc` (write one register)
    with a single flipped bit in its byte count (`02 → 00`, frame byte 6) is delimited two bytes
    short; the register value `93 C2` happens to be the CRC of `2A 10 00 00 00 01 00`, so the
    server's reader accepts a frame that was never sent -/
theorem request_byte_count_flip_accepted :
    WellFormedPdu .request [0x10, 0, 0, 0, 1, 2, 0x93, 0xC2]
    ∧ SingleBit [0, 0, 0, 0, 0, 0, 2, 0, 0, 0, 0]
    ∧ delimitingBytes .request [0x10, 0, 0, 0, 1, 2, 0x93, 0xC2] = [1, 6]
    ∧ Rtu.run .request
        [xorBytes (format 0x2A [0x10, 0, 0, 0, 1, 2, 0x93, 0xC2]) [0, 0, 0, 0, 0, 0, 2, 0, 0, 0, 0]]
      = [.frame ⟨none, 0x2A, [0x10, 0, 0, 0, 1, 0]⟩, .err (.unknownFunctionCode 0xC0)] :=
  ⟨by decide, ⟨49, by decide⟩, by decide, by decide +kernel⟩

/-- the function-code byte (frame byte 1): the valid response `2A 06 0051 6800 crc` (echo of a
    single-register write) with a single flipped bit in its function code (`06 → 02`) is
    delimited by the byte count `00` of a read response; `51 68` happens to be the CRC of
    `2A 02 00`, and the receiver accepts the frame `02 00` that was never sent -/
theorem function_code_flip_accepted :
    WellFormedPdu .response [0x06, 0x00, 0x51, 0x68, 0x00]
    ∧ SingleBit [0, 4, 0, 0, 0, 0, 0, 0]
    ∧ delimitingBytes .response [0x06, 0x00, 0x51, 0x68, 0x00] = [1]
    ∧ Rtu.run .response
        [xorBytes (format 0x2A [0x06, 0x00, 0x51, 0x68, 0x00]) [0, 4, 0, 0, 0, 0, 0, 0]]
      = [.frame ⟨none, 0x2A, [0x02, 0x00]⟩] :=
  ⟨by decide, ⟨10, by decide⟩, by decide, by decide +kernel⟩

/-! ## Non-vacuity of `corruption_rejected_data_bytes` -/

/-- a flipped bit in the unit id -/
example : ∃ r x, r ≠ x ∧
    specFrames .request
      (xorBytes (format 0x2A [0x10, 0, 0x10, 0, 2, 4, 0x12, 0x34, 0x56, 0x78])
        [0x40, 0, 0, 0, 0, 0, 0, 0, 0, 0, 0, 0, 0])
      = [.err (.crcValidationFailure r x)] := by
  have := corruption_rejected_data_bytes .request 0x2A
    [0x10, 0, 0x10, 0, 2, 4, 0x12, 0x34, 0x56, 0x78] [0x40, 0, 0, 0, 0, 0, 0, 0, 0, 0, 0, 0, 0] []
    (by decide) (by decide) (by decide) (by decide +kernel) (Or.inl ⟨6, by decide⟩) (by decide)
  simpa using this

/-- a 16-bit burst over the two CRC bytes -/
example : ∃ r x, r ≠ x ∧
    specFrames .request
      (xorBytes (format 0x2A [0x03, 0, 0x10, 0, 3]) [0, 0, 0, 0, 0, 0, 0xFF, 0xFF])
      = [.err (.crcValidationFailure r x)] := by
  have := corruption_rejected_data_bytes .request 0x2A [0x03, 0, 0x10, 0, 3]
    [0, 0, 0, 0, 0, 0, 0xFF, 0xFF] [] (by decide) (by decide) (by decide) (by decide +kernel)
    (Or.inr (Or.inl ⟨48, 0xFFFF, by decide, by decide, by decide⟩)) (by decide)
  simpa using this

/-- two flipped bits, one in a data byte and one in the address of a read response -/
example : DoubleBit [1, 0, 0, 0, 0, 0x80, 0, 0, 0]
    ∧ ∀ i ∈ delimitingBytes .response [0x03, 0x04, 0x50, 0xF8, 0x00, 0x00],
        ([1, 0, 0, 0, 0, 0x80, 0, 0, 0] : Bytes).getD i 0 = 0 :=
  ⟨⟨0, 47, by decide, by decide⟩, by decide⟩

end Rodbus.C06
