import RodbusModel.Lemmas.ClientCause
import RodbusModel.Lemmas.ClientStale
/-
  State predicates that hold along every run, including in every state of the trace
  (`StepInv`, `runTrace_inv`), and one instance: the request in flight has been encoded
  successfully (`InflightEnc`) — `startRequest` puts a request in flight only in the branch in
  which `encodeRequest` returned a PDU.
-/
namespace Rodbus.Client

section
variable {σ : Type}

/-- `P` is kept by everything that happens in a run: a tick of the task, the release of the
    clones held by completed futures, the clock, the direct effect of a script step -/
structure StepInv (F : Framing σ) (P : State σ → Prop) : Prop where
  tick : ∀ s t, P s → tick F s = some t → P t
  release : ∀ s, P s → P { s with held := 0 }
  clock : ∀ s target, P s → P (moveClock s target)
  user : ∀ s st, P s → P (applyStep s st)

variable {F : Framing σ} {P : State σ → Prop}

theorem settle_inv (hP : StepInv F P) (fuel : Nat) (s : State σ) (h : P s) :
    P (settle F fuel s) ∧ ∀ s0 ∈ settleTrace F fuel s, P s0 := by
  induction fuel generalizing s with
  | zero => exact ⟨h, by simp [settleTrace]⟩
  | succ n ih =>
    cases ht : tick F s with
    | none =>
      rw [settle_succ_none F n s ht]
      simp only [settleTrace, ht]
      split
      · exact ⟨h, by simp⟩
      · exact ih _ (hP.release s h)
    | some t =>
      rw [settle_succ_some F n s t ht]
      simp only [settleTrace, ht]
      obtain ⟨h1, h2⟩ := ih t (hP.tick s t h ht)
      refine ⟨h1, ?_⟩
      intro s0 hs0
      rcases List.mem_cons.mp hs0 with rfl | hs0
      · exact h
      · exact h2 s0 hs0

theorem advance_inv (hP : StepInv F P) (fuel target : Nat) (s : State σ) (h : P s) :
    P (advance F fuel target s) ∧ ∀ s0 ∈ advanceTrace F fuel target s, P s0 := by
  induction fuel generalizing s with
  | zero => exact ⟨hP.clock s target h, by simp [advanceTrace]⟩
  | succ n ih =>
    unfold advance advanceTrace
    cases hnt : nextTimer s with
    | none => exact ⟨hP.clock s target h, by simp⟩
    | some dl =>
      simp only []
      by_cases hle : dl ≤ target
      · rw [if_pos hle, if_pos hle]
        obtain ⟨h1, h2⟩ := settle_inv hP (settleFuel (moveClock s dl)) _ (hP.clock s dl h)
        obtain ⟨h3, h4⟩ := ih _ h1
        refine ⟨h3, ?_⟩
        intro s0 hs0
        rcases List.mem_append.mp hs0 with hs0 | hs0
        · exact h2 s0 hs0
        · exact h4 s0 hs0
      · rw [if_neg hle, if_neg hle]
        exact ⟨hP.clock s target h, by simp⟩

theorem stepState_inv (hP : StepInv F P) (s : State σ) (st : Step) (h : P s) :
    P (stepState F s st) ∧ ∀ s0 ∈ stepTrace F s st, P s0 := by
  cases st with
  | advance ms => exact advance_inv hP _ _ s h
  | _ => all_goals exact settle_inv hP _ _ (hP.user s _ h)

/-- a predicate kept by everything that happens in a run holds in the final state and in every
    state in which the task was polled during the run -/
theorem runTrace_inv (hP : StepInv F P) (s : State σ) (steps : List Step) (h : P s) :
    P (runState F s steps) ∧ ∀ s0 ∈ runTrace F s steps, P s0 := by
  induction steps generalizing s with
  | nil => exact ⟨h, by simp [runTrace]⟩
  | cons st rest ih =>
    obtain ⟨h1, h2⟩ := stepState_inv hP s st h
    obtain ⟨h3, h4⟩ := ih _ h1
    refine ⟨h3, ?_⟩
    intro s0 hs0
    simp only [runTrace, List.mem_append] at hs0
    rcases hs0 with hs0 | hs0
    · exact h2 s0 hs0
    · exact h4 s0 hs0

/-! ### the request in flight has been encoded -/

/-- `encodeRequest` accepted the request -/
def Enc (r : Req) : Prop := ∃ pdu, encodeRequest r.req = .ok pdu

def InflightEnc (s : State σ) : Prop := ∀ m r tx dl, s.pos = .inflight m r tx dl → Enc r

theorem startRequest_enc (F : Framing σ) (s : State σ) (m : Nat) (r : Req) (m' : Nat) (r' : Req)
    (tx dl : Nat) (h : (startRequest F s m r).pos = .inflight m' r' tx dl) : Enc r' := by
  unfold startRequest at h
  simp only [] at h
  split at h
  · exact absurd h (finish_pos_not_inflight _ _ _ _ _ _ _ _)
  · rename_i pdu hpdu
    split at h
    · exact absurd h (finish_pos_not_inflight _ _ _ _ _ _ _ _)
    · split at h
      · exact absurd h (finish_pos_not_inflight _ _ _ _ _ _ _ _)
      · simp only [Pos.inflight.injEq] at h
        obtain ⟨_, rfl, _, _⟩ := h
        exact ⟨pdu, hpdu⟩

theorem pos_applySetting (s : State σ) (c : Cmd) : (applySetting s c).pos = s.pos := by
  cases c <;> rfl

theorem sessionRecv_enc (F : Framing σ) (s t : State σ) (m : Nat) (hp : s.pos = .idle m)
    (ht : sessionRecv F s m = some t) (m' : Nat) (r' : Req) (tx dl : Nat)
    (h : t.pos = .inflight m' r' tx dl) : Enc r' := by
  unfold sessionRecv at ht
  split at ht
  · cases ht
    unfold runCmd at h
    split at h
    · exact startRequest_enc F _ m _ m' r' tx dl h
    · cases h
    · simp only [] at h
      split at h
      · rw [pos_applySetting] at h
        rw [show ({ s with queue := _ } : State σ).pos = s.pos from rfl, hp] at h; cases h
      · cases h
  · split at ht
    · cases ht; cases h
    · cases ht

theorem pos_idleReader (s : State σ) (r : ReadRes) :
    (idleReader s r).pos = s.pos ∨ (idleReader s r).pos = .noPhase := by
  unfold idleReader
  split
  · split
    · exact Or.inr rfl
    · exact Or.inl rfl
  · exact Or.inl rfl

theorem pos_flip (s : State σ) : (flip s).2.pos = s.pos := by
  unfold flip; cases s.coins <;> rfl

theorem tickIdle_enc (F : Framing σ) (s t : State σ) (m : Nat) (hp : s.pos = .idle m)
    (ht : tickIdle F s m = some t) (m' : Nat) (r' : Req) (tx dl : Nat)
    (h : t.pos = .inflight m' r' tx dl) : Enc r' := by
  unfold tickIdle at ht
  have hl : (pollReader F s m).2.pos = s.pos := rfl
  generalize pollReader F s m = pr at hl ht
  obtain ⟨r, s'⟩ := pr
  simp only [] at hl ht
  have hidle : ∀ x : State σ, x.pos = s.pos → ∀ rr, (idleReader x rr).pos = .inflight m' r' tx dl →
      False := by
    intro x hx rr hh
    rcases pos_idleReader x rr with h1 | h1 <;> rw [h1] at hh
    · rw [hx, hp] at hh; cases hh
    · cases hh
  split at ht
  · split at ht
    · rename_i t' hs
      cases ht
      exact sessionRecv_enc F s' _ m (by rw [hl, hp]) hs m' r' tx dl h
    · split at ht
      · cases ht; rw [hl, hp] at h; cases h
      · cases ht
  · split at ht
    · split at ht
      · cases ht; exact (hidle { s' with coins := (flip s).2.coins } hl r h).elim
      · exact sessionRecv_enc F _ _ m (by rw [pos_flip, hp]) ht m' r' tx dl h
    · cases ht; exact (hidle _ hl r h).elim

theorem tick_enc (F : Framing σ) (s t : State σ) (hP : InflightEnc s) (ht : tick F s = some t) :
    InflightEnc t := by
  intro m r tx dl hp'
  rcases teff_deadline _ _ (tick_eff F s t ht) m r tx dl hp' with h1 | ⟨h1, _⟩
  · exact hP m r tx dl h1
  · have hp : s.pos = .idle m := h1
    unfold tick at ht
    split at ht
    · cases ht
    · simp only [hp] at ht
      exact tickIdle_enc F s t m hp ht m r tx dl hp'

theorem ueff_pos {c c' : Core} (e : UEff c c') : c'.pos = c.pos ∨ c'.pos = .noPhase := by
  cases e with
  | abort ha => exact Or.inr rfl
  | _ => exact Or.inl rfl

theorem inflightEnc_stepInv (F : Framing σ) : StepInv F (InflightEnc (σ := σ)) where
  tick := fun s t h ht => tick_enc F s t h ht
  release := fun _ h => h
  clock := fun _ _ h => h
  user := by
    intro s st h m r tx dl hp
    rcases ueff_pos (applyStep_eff s st) with h1 | h1
    · have h1' : (applyStep s st).pos = s.pos := h1
      rw [h1'] at hp; exact h m r tx dl hp
    · have h1' : (applyStep s st).pos = .noPhase := h1
      rw [h1'] at hp; cases hp

/-- in every state in which the task is polled during a run (and at its end) the request in flight
    is one that `encodeRequest` accepted -/
theorem runTrace_inflightEnc (F : Framing σ) (cap maxTo : Nat) (d : Decode) (coins : List Bool)
    (steps : List Step) :
    InflightEnc (runState F (State.init F cap maxTo d coins) steps)
      ∧ ∀ s0 ∈ runTrace F (State.init F cap maxTo d coins) steps, InflightEnc s0 := by
  apply runTrace_inv (inflightEnc_stepInv F)
  intro m r tx dl hp
  simp [State.init] at hp

end

end Rodbus.Client
