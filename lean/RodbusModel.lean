import RodbusModel.Model.Basic
import RodbusModel.Model.Buffer
