//! Suites `ffi flt`, `ffi fltadd` (address filter construction through the C ABI) and `ffi fnet`
//! (which peers a server created through the C ABI serves).
use crate::env::*;
use rodbus_ffi::ffi;
use std::ffi::CString;
use std::os::raw::{c_int, c_void};
use std::time::Duration;
use tokio::io::{AsyncReadExt, AsyncWriteExt};

pub(crate) fn unhex(s: &str) -> Option<Vec<u8>> {
    if s == "-" {
        return Some(vec![]);
    }
    if s.len() % 2 != 0 {
        return None;
    }
    (0..s.len() / 2).map(|i| u8::from_str_radix(&s[2 * i..2 * i + 2], 16).ok()).collect()
}

fn ip_text(a: &std::net::IpAddr) -> String {
    match a {
        std::net::IpAddr::V4(x) => x.to_string(),
        std::net::IpAddr::V6(_) => "v6".into(),
    }
}

/// canonical text of the filter object behind the opaque pointer, as converted for the server
/// (`From<&AddressFilter> for rodbus::server::AddressFilter`)
pub(crate) unsafe fn filter_text(f: *mut rodbus_ffi::AddressFilter) -> String {
    let conv: rodbus::server::AddressFilter = (&*f).into();
    match conv {
        rodbus::server::AddressFilter::Any => "any".into(),
        rodbus::server::AddressFilter::Exact(a) => format!("exact[{}]", ip_text(&a)),
        rodbus::server::AddressFilter::AnyOf(set) => {
            let mut v: Vec<String> = set.iter().map(ip_text).collect();
            v.sort();
            format!("set[{}]", v.join(","))
        }
        rodbus::server::AddressFilter::WildcardIpv4(w) => format!("wild{:?}", w)
            .replace("WildcardIPv4 ", "")
            .replace("Some(", "")
            .replace(')', "")
            .replace("None", "*")
            .replace(' ', ""),
        _ => "other".into(),
    }
}

/// `any` or the hex of the string handed to `rodbus_address_filter_create`
pub(crate) unsafe fn make_filter(tok: &str) -> Result<*mut rodbus_ffi::AddressFilter, String> {
    if tok == "any" {
        return Ok(ffi::rodbus_address_filter_any());
    }
    let bytes = unhex(tok).ok_or("bad-case")?;
    let c = CString::new(bytes).map_err(|_| "nul".to_string())?;
    let mut f: *mut rodbus_ffi::AddressFilter = std::ptr::null_mut();
    let rc = ffi::rodbus_address_filter_create(c.as_ptr(), &mut f);
    if rc == 0 {
        Ok(f)
    } else if rc == 7 {
        Err("err".into())
    } else {
        Err(format!("err{rc}"))
    }
}

/// ffi flt <hex>
pub fn run_flt(tok: &[&str]) -> String {
    let Some(h) = tok.get(2) else { return "bad-case".into() };
    unsafe {
        match make_filter(h) {
            Ok(f) => {
                let s = format!("ok {}", filter_text(f));
                ffi::rodbus_address_filter_destroy(f);
                s
            }
            Err(e) => e,
        }
    }
}

/// ffi fltadd <hex|any> <hex>
pub fn run_fltadd(tok: &[&str]) -> String {
    let (Some(h), Some(a)) = (tok.get(2), tok.get(3)) else { return "bad-case".into() };
    unsafe {
        match make_filter(h) {
            Err(e) => e,
            Ok(f) => {
                let Some(bytes) = unhex(a) else { return "bad-case".into() };
                let Ok(c) = CString::new(bytes) else { return "nul".into() };
                let rc = ffi::rodbus_address_filter_add(f, c.as_ptr());
                let s = format!(
                    "ok {} {}",
                    if rc == 0 {
                        "ok".to_string()
                    } else if rc == 7 {
                        "err".to_string()
                    } else {
                        format!("err{rc}")
                    },
                    filter_text(f)
                );
                ffi::rodbus_address_filter_destroy(f);
                s
            }
        }
    }
}

extern "C" fn allow_range(_u: u8, _r: ffi::AddressRange, _role: *const std::os::raw::c_char, _ctx: *mut c_void) -> c_int {
    0
}
extern "C" fn allow_index(_u: u8, _i: u16, _role: *const std::os::raw::c_char, _ctx: *mut c_void) -> c_int {
    0
}
extern "C" fn nop(_ctx: *mut c_void) {}

fn allow_all() -> ffi::AuthorizationHandler {
    ffi::AuthorizationHandler {
        read_coils: Some(allow_range),
        read_discrete_inputs: Some(allow_range),
        read_holding_registers: Some(allow_range),
        read_input_registers: Some(allow_range),
        write_single_coil: Some(allow_index),
        write_single_register: Some(allow_index),
        write_multiple_coils: Some(allow_range),
        write_multiple_registers: Some(allow_range),
        on_destroy: Some(nop),
        ctx: std::ptr::null_mut(),
    }
}

fn certs_dir() -> String {
    std::env::var("VERIF_CERTS").unwrap_or_else(|_| "/repo/certs".into())
}

/// ffi fnet <tcp|tls|tlsauth> <filter hex | any> <peer source ip>
pub fn run_fnet(tok: &[&str]) -> String {
    let (Some(variant), Some(ftok), Some(src)) = (tok.get(2), tok.get(3), tok.get(4)) else {
        return "bad-case".into();
    };
    let Ok(src): Result<std::net::Ipv4Addr, _> = src.parse() else { return "bad-case".into() };
    let w = world();
    unsafe {
        let filter = match make_filter(ftok) {
            Ok(f) => f,
            Err(e) => return if e == "err" { "badfilter".into() } else { e },
        };
        let addr = CString::new("127.0.0.1").unwrap();
        let dir = certs_dir();
        let peer_cert = CString::new(format!("{dir}/self_signed/entity1_cert.pem")).unwrap();
        let local_cert = CString::new(format!("{dir}/self_signed/entity2_cert.pem")).unwrap();
        let key = CString::new(format!("{dir}/self_signed/entity2_key.pem")).unwrap();
        let password = CString::new("").unwrap();
        let mut server: *mut rodbus_ffi::Server = std::ptr::null_mut();
        let mut port = 0;
        let mut rc = -1;
        for _ in 0..10 {
            let map = ffi::rodbus_device_map_create();
            ffi::rodbus_device_map_add_endpoint(
                map,
                1,
                full_write_handler(),
                database_callback(|db| {
                    for i in 0..10 {
                        ffi::rodbus_database_add_holding_register(db, i, reg_value(2, i));
                    }
                }),
            );
            port = free_port();
            let tls = || ffi::TlsServerConfig {
                peer_cert_path: peer_cert.as_ptr(),
                local_cert_path: local_cert.as_ptr(),
                private_key_path: key.as_ptr(),
                password: password.as_ptr(),
                min_tls_version: 0,
                certificate_mode: 1,
            };
            rc = match *variant {
                "tcp" => ffi::rodbus_server_create_tcp(w.runtime.0, addr.as_ptr(), port, filter, 10, map, decode_nothing(), &mut server),
                "tls" => ffi::rodbus_server_create_tls(w.runtime.0, addr.as_ptr(), port, filter, 10, map, tls(), decode_nothing(), &mut server),
                "tlsauth" => ffi::rodbus_server_create_tls_with_authz(
                    w.runtime.0,
                    addr.as_ptr(),
                    port,
                    filter,
                    10,
                    map,
                    tls(),
                    allow_all(),
                    decode_nothing(),
                    &mut server,
                ),
                _ => {
                    ffi::rodbus_device_map_destroy(map);
                    ffi::rodbus_address_filter_destroy(filter);
                    return "bad-case".into();
                }
            };
            ffi::rodbus_device_map_destroy(map);
            if rc != 11 {
                break; // anything but a bind error is final
            }
        }
        ffi::rodbus_address_filter_destroy(filter);
        if rc != 0 {
            return format!("create-error.{}", crate::cb::param_error_name(rc));
        }
        let is_tcp = *variant == "tcp";
        let res = hrt().block_on(async move {
            let sock = match tokio::net::TcpSocket::new_v4() {
                Ok(s) => s,
                Err(e) => return format!("sockerr.{:?}", e.kind()),
            };
            if let Err(e) = sock.bind(std::net::SocketAddr::new(src.into(), 0)) {
                return format!("binderr.{:?}", e.kind());
            }
            let mut s = match tokio::time::timeout(Duration::from_secs(2), sock.connect(([127, 0, 0, 1], port).into())).await {
                Ok(Ok(s)) => s,
                Ok(Err(e)) => return format!("connecterr.{:?}", e.kind()),
                Err(_) => return "connect-timeout".into(),
            };
            if is_tcp {
                // read holding registers 0..2 of unit 1
                let req = [0u8, 1, 0, 0, 0, 6, 1, 3, 0, 0, 0, 2];
                if s.write_all(&req).await.is_err() {
                    return "closed".into();
                }
            }
            let mut buf = [0u8; 64];
            match tokio::time::timeout(Duration::from_millis(300), s.read(&mut buf)).await {
                Ok(Ok(0)) => "closed".to_string(),
                Ok(Ok(_)) => {
                    if is_tcp {
                        "served".into()
                    } else {
                        "data".into()
                    }
                }
                Ok(Err(_)) => "closed".into(),
                Err(_) => {
                    if is_tcp {
                        "silent".into()
                    } else {
                        "served".into() // kept open, waiting for the TLS handshake
                    }
                }
            }
        });
        ffi::rodbus_server_destroy(server);
        res
    }
}
