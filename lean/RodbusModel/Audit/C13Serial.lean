import RodbusModel.Props.C13Serial
#print axioms Rodbus.C13Serial.chain_append
#print axioms Rodbus.C13Serial.lastOr_append
#print axioms Rodbus.C13Serial.step_legal
#print axioms Rodbus.C13Serial.outputs_legal
#print axioms Rodbus.C13Serial.legal_port_path
#print axioms Rodbus.C13Serial.legal_port_path_spelled_out
#print axioms Rodbus.C13Serial.open_only_after_disabled_or_wait
#print axioms Rodbus.C13Serial.wait_only_after_disabled_wait_open
#print axioms Rodbus.C13Serial.disabled_only_after_wait_or_open
#print axioms Rodbus.C13Serial.nothing_after_shutdown
#print axioms Rodbus.C13Serial.attempt_only_enabled
#print axioms Rodbus.C13Serial.attempt_only_enabled_run
#print axioms Rodbus.C13Serial.wait_causes
#print axioms Rodbus.C13Serial.open_causes
#print axioms Rodbus.C13Serial.disabled_causes
#print axioms Rodbus.C13Serial.lost_port_announced
