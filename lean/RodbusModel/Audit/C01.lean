import RodbusModel.Props.C01
import RodbusModel.Props.C01Stream
import RodbusModel.Props.Tables
/- axiom audit for C01: every line must report a subset of {propext, Classical.choice, Quot.sound} -/
#print axioms Rodbus.C01.handleFrame_eq_spec
#print axioms Rodbus.C01.handleFrame_eq_spec_wf
#print axioms Rodbus.C01.parse_iff_valid
#print axioms Rodbus.C01.parse_none_iff_invalid
#print axioms Rodbus.C01.request_of_frame
#print axioms Rodbus.C01.range_tryFrom
#print axioms Rodbus.C01.runFrames_eq_spec
#print axioms Rodbus.C01.reply_framing_tcp
#print axioms Rodbus.C01.reply_framing_rtu
#print axioms Rodbus.C01.reply_pdu_len
#print axioms Rodbus.C01.framed_reply_len
#print axioms Rodbus.C01.empty_pdu_silent
#print axioms Rodbus.C01.unknown_function_reply
#print axioms Rodbus.C01.unknown_function_iff
#print axioms Rodbus.C01.orErr_is_or_0x80
#print axioms Rodbus.C01.invalid_request_reply
#print axioms Rodbus.C01.unconfigured_silent
#print axioms Rodbus.C01.unconfigured_silent_no_auth
#print axioms Rodbus.C01.served
#print axioms Rodbus.C01.read_request_of_frame
#print axioms Rodbus.C01.read_bits_payload
#print axioms Rodbus.C01.read_regs_payload
#print axioms Rodbus.C01.read_byte_count_fits
#print axioms Rodbus.C01.first_exception_reply
#print axioms Rodbus.C01.readErr_meaning
#print axioms Rodbus.C01.write_echo
#print axioms Rodbus.C01.write_echo_is_request_prefix
#print axioms Rodbus.C01.session_replies
#print axioms Rodbus.C01.session_replies_cons
#print axioms Rodbus.C01.session_replies_in_order
#print axioms Rodbus.C01.session_units_constant
#print axioms Rodbus.Tables.fc_table_correct
#print axioms Rodbus.Tables.fc_ofByte_large
#print axioms Rodbus.Tables.error_mask_correct
#print axioms Rodbus.Tables.exception_roundtrip
#print axioms Rodbus.Tables.limits_correct
#print axioms Rodbus.Tables.server_limits_correct
#print axioms Rodbus.Tables.server_limits_sharp
#print axioms Rodbus.Tables.request_function_correct
#print axioms Rodbus.Tables.broadcast_table_correct
#print axioms Rodbus.C01Stream.stream_replies
#print axioms Rodbus.C01Stream.session_chunking_independent
#print axioms Rodbus.C01Stream.handleEvents_uses_reference_server
#print axioms Rodbus.C01Stream.readerRun_eq_spec
