import RodbusModel.Props.C09
import RodbusModel.Model.TlsClientChain
/-
  C09, client side, the Certificate message as a list (`admitClientChain`,
  Model/TlsClientChain.lean): theorems mirroring `C09.self_signed_single_certificate`,
  `C09.extra_certificates_irrelevant` and `C09.empty_chain_refused` of the server side, the full
  characterisation `client_chain_admit_iff`, and the agreement of the two roles on the
  self-signed verifier (one `verify_peer` for both).
  Hypotheses as for C09: the TLS library reports the certificate attributes correctly and
  negotiates the highest common enabled version.
-/
namespace Rodbus.C09
open Rodbus.Tls

/-- the self-signed verifier of the client accepts exactly one certificate: a second one — an
    "intermediate" — makes it fail, even when the first is the expected certificate -/
theorem client_self_signed_single_certificate (min : Ver) (e : Nat) (name : Option String)
    (offered : List Ver) (c d : Cert) (rest : List Cert) :
    admitClientChain min (.selfSigned e) name offered (c :: d :: rest) = none := rfl

/-- in authority mode certificates sent after the end entity change nothing: admission and
    version are those of the first certificate alone (name check included) -/
theorem client_extra_certificates_irrelevant (min : Ver) (t : Nat) (name : Option String)
    (offered : List Ver) (c : Cert) (rest : List Cert) :
    admitClientChain min (.authority t) name offered (c :: rest)
      = admitClient min (.authority t) name offered (some c) := by
  cases rest <;> rfl

/-- a single certificate: the chain form is the single-certificate form, in every mode -/
theorem client_single_certificate (min : Ver) (mode : Mode) (name : Option String)
    (offered : List Ver) (c : Cert) :
    admitClientChain min mode name offered [c] = admitClient min mode name offered (some c) := by
  cases mode <;> rfl

/-- an empty Certificate message is refused in every mode -/
theorem client_empty_chain_refused (min : Ver) (mode : Mode) (name : Option String)
    (offered : List Ver) : admitClientChain min mode name offered [] = none := by
  cases mode <;> simp [admitClientChain, admitClient, certAccepted] <;> split <;> rfl

/-- **client_chain_admit_iff**: the client proceeds iff the server offers a version at or above
    the minimum and its Certificate message starts with a certificate that validates under the
    configured mode — and, in self-signed mode, consists of that certificate alone -/
theorem client_chain_admit_iff (min : Ver) (mode : Mode) (name : Option String)
    (offered : List Ver) (chain : List Cert) :
    (admitClientChain min mode name offered chain).isSome ↔
      (∃ v ∈ offered, min.rank ≤ v.rank) ∧
      ∃ c rest, chain = c :: rest ∧ certAccepted mode name (some c) = true ∧
        ((∃ e, mode = .selfSigned e) → rest = []) := by
  cases chain with
  | nil =>
    rw [client_empty_chain_refused]
    simp
  | cons c rest =>
    cases mode with
    | authority t =>
      rw [client_extra_certificates_irrelevant, client_admit_iff]
      simp
    | selfSigned e =>
      cases rest with
      | nil =>
        rw [client_single_certificate, client_admit_iff]
        simp
      | cons d rest' =>
        rw [client_self_signed_single_certificate]
        simp

/-- the version the client ends up with is at or above its minimum and one the server offers -/
theorem client_chain_version (min : Ver) (mode : Mode) (name : Option String)
    (offered : List Ver) (chain : List Cert) (v : Ver)
    (h : admitClientChain min mode name offered chain = some v) :
    min.rank ≤ v.rank ∧ v ∈ offered := by
  have h' : ∃ p, admitClient min mode name offered p = some v := by
    unfold admitClientChain at h
    split at h
    · cases h
    · exact ⟨_, h⟩
  obtain ⟨p, hp⟩ := h'
  unfold admitClient at hp
  cases hn : negotiate (enabled min) offered with
  | none => rw [hn] at hp; cases hp
  | some w =>
    rw [hn] at hp
    simp only at hp
    split at hp
    · injection hp with hp; subst hp; exact negotiated_at_least_min min offered w hn
    · cases hp

/-- in self-signed mode the server name plays no role ("in lieu of performing server subject
    name validation"): the verdict is the same for every configured name -/
theorem client_self_signed_name_irrelevant (min : Ver) (e : Nat) (name name' : Option String)
    (offered : List Ver) (chain : List Cert) :
    admitClientChain min (.selfSigned e) name offered chain
      = admitClientChain min (.selfSigned e) name' offered chain := by
  match chain with
  | [] => rfl
  | [c] => rfl
  | _ :: _ :: _ => rfl

/-- both roles use the same self-signed verifier: a Certificate message is accepted by a
    self-signed client iff a self-signed server (without authorization) with the same expected
    certificate and minimum version accepts it from a peer offering the same versions -/
theorem self_signed_verifier_symmetric (min : Ver) (e : Nat) (name : Option String)
    (offered : List Ver) (chain : List Cert) :
    (admitClientChain min (.selfSigned e) name offered chain).isSome
      = (admitServerChain min (.selfSigned e) false offered chain).isSome := by
  match chain with
  | [] => rw [client_empty_chain_refused, empty_chain_refused]; rfl
  | _ :: _ :: _ => rfl
  | [c] =>
    simp only [admitClientChain, admitServerChain, admitClient, admitServer, List.head?_cons]
    cases negotiate (enabled min) offered with
    | none => rfl
    | some v =>
      simp only [certAccepted]
      by_cases hb : (c.bytesId == e && c.validNow) = true
      · simp [hb]
      · simp [hb]

/-! ## Non-vacuity -/

/-- the expected certificate alone is accepted; followed by a second certificate — even a copy of
    itself — it is refused; in authority mode the same extra certificate is harmless -/
example :
    let srv : Cert := ⟨none, ["server"], true, [], 42⟩
    let ca : Cert := ⟨some 1, ["test.com"], true, [], 5⟩
    admitClientChain .v12 (.selfSigned 42) none [.v12, .v13] [srv] = some .v13
    ∧ admitClientChain .v12 (.selfSigned 42) none [.v12, .v13] [srv, srv] = none
    ∧ admitClientChain .v12 (.selfSigned 42) none [.v12, .v13] [] = none
    ∧ admitClientChain .v12 (.authority 1) (some "test.com") [.v12] [ca, srv] = some .v12
    ∧ admitClientChain .v13 (.authority 1) (some "test.com") [.v12] [ca, srv] = none
    ∧ admitClientChain .v12 (.authority 1) (some "other.com") [.v12] [ca, srv] = none := by
  decide

end Rodbus.C09
