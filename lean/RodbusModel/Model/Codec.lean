import RodbusModel.Model.Basic
/-
  M1: ranges, function codes, bit packing, register (de)serialisation.
  Mirrors `types.rs`, `common/{bits,function,parse,serialize}.rs`, `constants.rs`.
-/
namespace Rodbus

/-! ### function codes (`common/function.rs`) -/

inductive Fc
  | readCoils | readDiscreteInputs | readHoldingRegisters | readInputRegisters
  | writeSingleCoil | writeSingleRegister | writeMultipleCoils | writeMultipleRegisters
deriving DecidableEq, Repr

/-- `FunctionCode::get_value` -/
def Fc.toByte : Fc → Nat
  | .readCoils => 1 | .readDiscreteInputs => 2 | .readHoldingRegisters => 3
  | .readInputRegisters => 4 | .writeSingleCoil => 5 | .writeSingleRegister => 6
  | .writeMultipleCoils => 15 | .writeMultipleRegisters => 16

/-- `FunctionCode::get` -/
def Fc.ofByte (b : Nat) : Option Fc :=
  if b = 1 then some .readCoils else if b = 2 then some .readDiscreteInputs
  else if b = 3 then some .readHoldingRegisters else if b = 4 then some .readInputRegisters
  else if b = 5 then some .writeSingleCoil else if b = 6 then some .writeSingleRegister
  else if b = 15 then some .writeMultipleCoils else if b = 16 then some .writeMultipleRegisters
  else none

def Fc.all : List Fc :=
  [.readCoils, .readDiscreteInputs, .readHoldingRegisters, .readInputRegisters,
   .writeSingleCoil, .writeSingleRegister, .writeMultipleCoils, .writeMultipleRegisters]

/-- `FunctionCode::as_error` / `FunctionField::{Exception,UnknownFunction}::get_value`:
    on bytes, `b | 0x80` -/
def orErr (b : Nat) : Nat := if b % 256 < 128 then b % 256 + 128 else b % 256

def Fc.isRead : Fc → Bool
  | .readCoils | .readDiscreteInputs | .readHoldingRegisters | .readInputRegisters => true
  | _ => false

/-! ### limits (`constants.rs`) -/

def MAX_READ_COILS_COUNT : Nat := 2000
def MAX_READ_REGISTERS_COUNT : Nat := 125
def MAX_WRITE_COILS_COUNT : Nat := 1968
def MAX_WRITE_REGISTERS_COUNT : Nat := 123
def COIL_ON : Nat := 0xFF00
def COIL_OFF : Nat := 0

/-! ### `AddressRange` (`types.rs`) -/

structure Range where
  start : Nat
  count : Nat
deriving DecidableEq, Repr

inductive RangeErr
  | countOfZero
  | addressOverflow
  | countTooLargeForType
deriving DecidableEq, Repr

/-- `AddressRange::try_from` on u16 arguments -/
def Range.tryFrom (start count : Nat) : Except RangeErr Range :=
  if count = 0 then .error .countOfZero
  else
    let maxStart := 65535 - (count - 1)
    if start > maxStart then .error .addressOverflow
    else .ok ⟨start, count⟩

/-- `AddressRange::limited_count` -/
def Range.limitedCount (r : Range) (limit : Nat) : Except RangeErr Range :=
  if r.count > limit then .error .countTooLargeForType else .ok r

/-- `AddressIterator` / `AddressRange::iter` -/
def Range.addresses (r : Range) : List Nat := (List.range r.count).map (r.start + ·)

/-! ### bits (`common/bits.rs`, `common/serialize.rs`, `types.rs::BitIterator`) -/

/-- `num_bytes_for_bits` / `calc_bytes_for_bits` -/
def numBytesForBits (n : Nat) : Nat := (n + 7) / 8

/-- one byte from at most 8 bits, bit `k` of the byte is the `k`-th element (LSB first) -/
def packByte : List Bool → Nat
  | [] => 0
  | b :: bs => (if b then 1 else 0) + 2 * packByte bs

/-- `impl Serialize for &[bool]` / the accumulator loop of `BitWriter::serialize`:
    chunks of 8, LSB first, the last byte zero padded -/
def packBits (bits : List Bool) : Bytes :=
  if h : bits = [] then []
  else packByte (bits.take 8) :: packBits (bits.drop 8)
termination_by bits.length
decreasing_by
  cases bits with
  | nil => exact absurd rfl h
  | cons a t => simp [List.length_drop]; omega

/-- `BitIterator::next` for position `pos`: `(bytes[pos/8] & (1 << pos%8)) != 0` -/
def bitAt (bytes : Bytes) (pos : Nat) : Bool :=
  (bytes.getD (pos / 8) 0) / 2 ^ (pos % 8) % 2 = 1

/-- all items of a `BitIterator` over `count` bits (the iterator is only constructed by
    `parse_all`, i.e. with exactly `numBytesForBits count` bytes) -/
def unpackBits (bytes : Bytes) (count : Nat) : List Bool :=
  (List.range count).map (bitAt bytes)

/-! ### registers -/

/-- `RegisterWriter::serialize` / `impl Serialize for &[u16]` payload -/
def packRegs (vs : List Nat) : Bytes := (vs.map u16be).flatten

/-- `RegisterIterator` items (only constructed with exactly `2·count` bytes) -/
def unpackRegs : Bytes → List Nat
  | hi :: lo :: rest => be16 hi lo :: unpackRegs rest
  | _ => []

/-- `coil_from_u16` -/
def coilFromU16 (v : Nat) : Option Bool :=
  if v = COIL_ON then some true else if v = COIL_OFF then some false else none

/-- `coil_to_u16` -/
def coilToU16 (b : Bool) : Nat := if b then COIL_ON else COIL_OFF

/-- items handed to handlers / returned to callers: `Indexed { index = start + i, value }` -/
def indexed {α : Type} (start : Nat) (vs : List α) : List (Nat × α) :=
  (List.range vs.length).zip vs |>.map (fun (i, v) => (start + i, v))

/-! ### `ExceptionCode` ↔ u8 (`exception.rs`) -/

inductive ExCode
  | illegalFunction | illegalDataAddress | illegalDataValue | serverDeviceFailure
  | acknowledge | serverDeviceBusy | memoryParityError | gatewayPathUnavailable
  | gatewayTargetDeviceFailedToRespond
  | unknown (b : Nat)
deriving DecidableEq, Repr

/-- `impl From<u8> for ExceptionCode` -/
def ExCode.ofByte (b : Nat) : ExCode :=
  if b = 1 then .illegalFunction else if b = 2 then .illegalDataAddress
  else if b = 3 then .illegalDataValue else if b = 4 then .serverDeviceFailure
  else if b = 5 then .acknowledge else if b = 6 then .serverDeviceBusy
  else if b = 8 then .memoryParityError else if b = 10 then .gatewayPathUnavailable
  else if b = 11 then .gatewayTargetDeviceFailedToRespond
  else .unknown b

/-- `impl From<ExceptionCode> for u8` -/
def ExCode.toByte : ExCode → Nat
  | .illegalFunction => 1 | .illegalDataAddress => 2 | .illegalDataValue => 3
  | .serverDeviceFailure => 4 | .acknowledge => 5 | .serverDeviceBusy => 6
  | .memoryParityError => 8 | .gatewayPathUnavailable => 10
  | .gatewayTargetDeviceFailedToRespond => 11
  | .unknown b => b

end Rodbus
