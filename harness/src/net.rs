//! `net` suite: the production TCP/TLS server tasks on loopback (real sockets, real time).
//!
//! net <tcp|tls|tlsa>[6] m<max_sessions> <filter> <script>
//!   filter: any | x<ip> | s<ip>/<ip>… | w<hex wildcard string>
//!   script: `,`-joined steps
//!     c<k>.<src ip>  connect connection k from that source address
//!     q<k>           send a read request on k (tcp only) and wait for the reply
//!     g<k>           send garbage on k
//!     x<k>           close k on the client side
//!     p<k>           probe k: still open?
//!     L / S / H      set decode level / shutdown / drop the server handle
use crate::points::*;
use crate::util::*;
use rodbus::server::*;
use rodbus::*;
use std::collections::HashMap;
use std::net::{IpAddr, SocketAddr};
use std::sync::{Arc, Mutex};
use std::time::Duration;
use tokio::io::{AsyncReadExt, AsyncWriteExt};
use tokio::net::{TcpSocket, TcpStream};

const SETTLE_MS: u64 = 60;

fn parse_filter(tok: &str) -> AddressFilter {
    match &tok[0..1] {
        "a" => AddressFilter::Any,
        "x" => AddressFilter::Exact(tok[1..].parse().unwrap()),
        "s" => AddressFilter::AnyOf(
            tok[1..]
                .split('/')
                .filter(|x| !x.is_empty())
                .map(|x| x.parse().unwrap())
                .collect(),
        ),
        _ => AddressFilter::WildcardIpv4(
            String::from_utf8(unhex(&tok[1..]))
                .unwrap()
                .parse::<WildcardIPv4>()
                .expect("generator only emits valid wildcards here"),
        ),
    }
}

async fn connect_from(src: IpAddr, dst: SocketAddr) -> std::io::Result<TcpStream> {
    let sock = if src.is_ipv4() {
        TcpSocket::new_v4()?
    } else {
        TcpSocket::new_v6()?
    };
    sock.bind(SocketAddr::new(src, 0))?;
    tokio::time::timeout(Duration::from_millis(1000), sock.connect(dst))
        .await
        .map_err(|_| std::io::Error::from(std::io::ErrorKind::TimedOut))?
}

/// open = nothing to read within the probe window; closed = EOF / reset
async fn probe(s: &mut TcpStream) -> &'static str {
    let mut buf = [0u8; 64];
    match tokio::time::timeout(Duration::from_millis(SETTLE_MS), s.read(&mut buf)).await {
        Err(_) => "open",
        Ok(Ok(0)) => "closed",
        Ok(Ok(_)) => "data",
        Ok(Err(_)) => "closed",
    }
}

fn tls_config() -> TlsServerConfig {
    let d = std::path::Path::new("/repo/certs/self_signed");
    TlsServerConfig::new(
        &d.join("entity2_cert.pem"),
        &d.join("entity1_cert.pem"),
        &d.join("entity1_key.pem"),
        None,
        MinTlsVersion::V1_2,
        CertificateMode::SelfSigned,
    )
    .expect("tls config")
}

pub async fn run_net(tok: &[&str]) -> String {
    let v6 = tok[1].ends_with('6');
    let variant = tok[1].trim_end_matches('6');
    let max: usize = tok[2][1..].parse().unwrap();
    let filter = parse_filter(tok[3]);
    let log: Log = Arc::new(Mutex::new(Vec::new()));
    let mut map: ServerHandlerMap<TestHandler> = ServerHandlerMap::new();
    map.add(
        UnitId::new(1),
        TestHandler {
            unit: 1,
            points: Points::parse("s2.0.10.1"),
            log: log.clone(),
        }
        .wrap(),
    );
    let bind_ip: IpAddr = if v6 { "::1".parse().unwrap() } else { "127.0.0.1".parse().unwrap() };
    let listener = match tokio::net::TcpListener::bind(SocketAddr::new(bind_ip, 0)).await {
        Ok(l) => l,
        Err(e) => return format!("bind-failed:{e}"),
    };
    let addr = listener.local_addr().unwrap();
    let (handle, task) = match variant {
        "tcp" => create_tcp_server_task(max, listener, map, filter, DecodeLevel::nothing()),
        "tls" => create_tls_server_task(max, listener, map, tls_config(), filter, DecodeLevel::nothing()),
        _ => create_tls_server_task_with_authz(
            max,
            listener,
            map,
            ReadOnlyAuthorizationHandler::create(),
            tls_config(),
            filter,
            DecodeLevel::nothing(),
        ),
    };
    let join = tokio::spawn(task.run());
    let mut handle = Some(handle);
    let mut conns: HashMap<String, TcpStream> = HashMap::new();
    let mut out: Vec<String> = Vec::new();
    let mut tx: u16 = 0;
    if tok[4] != "-" {
        for step in tok[4].split(',') {
            let (op, rest) = step.split_at(1);
            match op {
                "c" => {
                    let (k, src) = rest.split_once('.').unwrap();
                    match connect_from(src.parse().unwrap(), addr).await {
                        Err(_) => out.push(format!("c{k}:refused")),
                        Ok(mut s) => {
                            let st = probe(&mut s).await;
                            out.push(format!("c{k}:{st}"));
                            conns.insert(k.to_string(), s);
                        }
                    }
                }
                "q" => {
                    let r = match conns.get_mut(rest) {
                        None => "noconn".to_string(),
                        Some(s) => {
                            tx = tx.wrapping_add(1);
                            let req = [(tx >> 8) as u8, tx as u8, 0, 0, 0, 6, 1, 3, 0, 0, 0, 1];
                            if s.write_all(&req).await.is_err() {
                                "closed".to_string()
                            } else {
                                let mut buf = [0u8; 11];
                                match tokio::time::timeout(
                                    Duration::from_millis(500),
                                    s.read_exact(&mut buf),
                                )
                                .await
                                {
                                    Err(_) => "timeout".to_string(),
                                    Ok(Err(_)) => "closed".to_string(),
                                    Ok(Ok(_)) => {
                                        if buf[0] == (tx >> 8) as u8 && buf[1] == tx as u8 {
                                            format!("ok.{}", ((buf[9] as u16) << 8) | buf[10] as u16)
                                        } else {
                                            format!("wrongtx.{}", hex(&buf))
                                        }
                                    }
                                }
                            }
                        }
                    };
                    out.push(format!("q{rest}:{r}"));
                }
                "g" => {
                    let r = match conns.get_mut(rest) {
                        None => "noconn",
                        Some(s) => {
                            let _ = s.write_all(&[0, 1, 0xFF, 0xFF, 0, 2, 1, 3]).await;
                            probe(s).await
                        }
                    };
                    out.push(format!("g{rest}:{r}"));
                }
                "x" => {
                    conns.remove(rest);
                    tokio::time::sleep(Duration::from_millis(SETTLE_MS)).await;
                }
                "p" => {
                    let r = match conns.get_mut(rest) {
                        None => "noconn",
                        Some(s) => probe(s).await,
                    };
                    out.push(format!("p{rest}:{r}"));
                }
                "L" => {
                    if let Some(h) = handle.as_mut() {
                        let r = tokio::time::timeout(
                            Duration::from_millis(500),
                            h.set_decode_level(decode_level("d322")),
                        )
                        .await;
                        out.push(format!(
                            "L:{}",
                            match r {
                                Ok(Ok(())) => "ok",
                                Ok(Err(_)) => "shutdown",
                                Err(_) => "blocked",
                            }
                        ));
                    }
                }
                "S" => {
                    if let Some(h) = handle.as_ref() {
                        let r = tokio::time::timeout(Duration::from_millis(500), h.shutdown()).await;
                        out.push(format!(
                            "S:{}",
                            match r {
                                Ok(Ok(())) => "ok",
                                Ok(Err(_)) => "shutdown",
                                Err(_) => "blocked",
                            }
                        ));
                    }
                    tokio::time::sleep(Duration::from_millis(SETTLE_MS)).await;
                }
                "H" => {
                    handle = None;
                    tokio::time::sleep(Duration::from_millis(SETTLE_MS)).await;
                }
                _ => {}
            }
        }
    }
    let fin = if join.is_finished() { "taskdone" } else { "alive" };
    if !join.is_finished() {
        join.abort();
    }
    let calls = log.lock().unwrap().len();
    format!(
        "{} | {} calls={}",
        if out.is_empty() { "-".into() } else { out.join(";") },
        fin,
        calls
    )
}
