import RodbusModel.Lemmas.Codec
import RodbusModel.Spec.Server
/-
  Helper lemmas for Props/C01, C02, C08, C17: the cursor-style server model (`parseRequest`,
  `getReply`, `broadcastAll`, `handleFrame`) against the declarative reference server
  (Spec/Server.lean).
-/
namespace Rodbus
open Rodbus.Spec.Server

/-! ### packed bytes: accumulator loop = closed formula -/

theorem packedByte_eq_sumTo (val : Nat → Bool) (qty j : Nat) :
    packedByte val qty j
      = sumTo (fun k => if 8 * j + k < qty ∧ val (8 * j + k) then 2 ^ k else 0) 8 := by
  unfold packedByte
  exact foldl_range_eq_sumTo (fun k => if 8 * j + k < qty ∧ val (8 * j + k) then 2 ^ k else 0) 8

/-- the closed formula looks at `val` only inside the requested range -/
theorem packedByte_congr {v1 v2 : Nat → Bool} {qty : Nat} (h : ∀ i < qty, v1 i = v2 i) (j : Nat) :
    packedByte v1 qty j = packedByte v2 qty j := by
  rw [packedByte_eq_sumTo, packedByte_eq_sumTo]
  apply sumTo_congr; intro k _
  by_cases hk : 8 * j + k < qty
  · simp [hk, h _ hk]
  · simp [hk]

/-- `packBits` (chunks of 8, LSB first, zero padded) is the byte-wise closed formula -/
theorem packBits_eq_map_packedByte (bits : List Bool) :
    packBits bits = (List.range (numBytesForBits bits.length)).map
      (packedByte (fun i => bits.getD i false) bits.length) := by
  apply List.ext_getElem
  · simp [packBits_length]
  · intro j h1 h2
    have e : (packBits bits)[j] = (packBits bits).getD j 0 := by
      simp [List.getD_eq_getElem?_getD, List.getElem?_eq_getElem h1]
    rw [e, packBits_getD, List.getElem_map, List.getElem_range, packedByte_eq_sumTo,
      packByte_eq_sumTo _ 8 (by simp [List.length_take]; omega)]
    apply sumTo_congr; intro k hk
    have e2 : ((bits.drop (8 * j)).take 8).getD k false = bits.getD (8 * j + k) false := by
      simp [List.getD_eq_getElem?_getD, hk, List.getElem?_drop]
    rw [e2]
    by_cases hlt : 8 * j + k < bits.length
    · simp [hlt]
    · have : bits.getD (8 * j + k) false = false := by
        simp [List.getD_eq_getElem?_getD, List.getElem?_eq_none (Nat.le_of_not_lt hlt)]
      simp [hlt]

/-- the bit-read reply payload for `n` values given by `val` -/
theorem packBits_map_range (val : Nat → Bool) (n : Nat) :
    packBits ((List.range n).map val) = (List.range ((n + 7) / 8)).map (packedByte val n) := by
  rw [packBits_eq_map_packedByte]
  simp only [List.length_map, List.length_range, numBytesForBits]
  apply List.map_congr_left
  intro j _
  apply packedByte_congr
  intro i hi
  simp [List.getD_eq_getElem?_getD, hi]

theorem packRegs_map_range (val : Nat → Nat) (n : Nat) :
    packRegs ((List.range n).map val)
      = ((List.range n).map fun i => [val i / 256 % 256, val i % 256]).flatten := by
  simp [packRegs, u16be, List.map_map, Function.comp_def]

/-! ### `readSeq` (getter loop) against `firstFailure` / `queried` -/

theorem firstFailure_zero {α : Type} (get : Nat → Except Nat α) (start : Nat) :
    firstFailure get start 0 = none := rfl

theorem firstFailure_succ {α : Type} (get : Nat → Except Nat α) (start n : Nat) :
    firstFailure get start (n + 1) =
      match get start with
      | .error e => some (0, e)
      | .ok _ => (firstFailure get (start + 1) n).map fun p => (p.1 + 1, p.2) := by
  unfold firstFailure
  rw [List.range_succ_eq_map, List.findSome?_cons, Nat.add_zero]
  cases hg : get start with
  | error e => rfl
  | ok v =>
    simp only [List.findSome?_map, Function.comp_def]
    induction (List.range n) with
    | nil => rfl
    | cons a t ih =>
      simp only [List.findSome?_cons]
      have : start + (a + 1) = start + 1 + a := by omega
      rw [this]
      cases get (start + 1 + a) with
      | error e => rfl
      | ok v => simpa using ih

/-- `firstFailure = some (k, e)`: address `start + k` is the first of the range whose read raises,
    and it raises `e` -/
theorem firstFailure_some_iff {α : Type} (get : Nat → Except Nat α) (start n k e : Nat) :
    firstFailure get start n = some (k, e) ↔
      k < n ∧ get (start + k) = .error e ∧ ∀ i < k, ∃ v, get (start + i) = .ok v := by
  induction n generalizing start k with
  | zero => simp [firstFailure_zero]
  | succ n ih =>
    rw [firstFailure_succ]
    cases hg : get start with
    | error e' =>
      constructor
      · intro h; simp only [Option.some.injEq, Prod.mk.injEq] at h
        obtain ⟨rfl, rfl⟩ := h
        exact ⟨by omega, by simpa using hg, by intro i hi; omega⟩
      · rintro ⟨_, h2, h3⟩
        cases k with
        | zero => simp only [Nat.add_zero, hg] at h2; injection h2 with h2; rw [h2]
        | succ k =>
          obtain ⟨v, hv⟩ := h3 0 (by omega)
          simp [hg] at hv
    | ok v =>
      simp only [Option.map_eq_some_iff, Prod.mk.injEq, Prod.exists]
      constructor
      · rintro ⟨k', e', h, rfl, rfl⟩
        obtain ⟨h1, h2, h3⟩ := (ih (start + 1) k' ).1 h
        refine ⟨by omega, by rw [← h2]; congr 1; omega, ?_⟩
        intro i hi
        cases i with
        | zero => exact ⟨v, by simpa using hg⟩
        | succ i =>
          obtain ⟨w, hw⟩ := h3 i (by omega)
          exact ⟨w, by rw [← hw]; congr 1; omega⟩
      · rintro ⟨h1, h2, h3⟩
        cases k with
        | zero => simp [hg] at h2
        | succ k =>
          refine ⟨k, e, (ih (start + 1) k).2 ⟨by omega, by rw [← h2]; congr 1; omega, ?_⟩, rfl, rfl⟩
          intro i hi
          obtain ⟨w, hw⟩ := h3 (i + 1) (by omega)
          exact ⟨w, by rw [← hw]; congr 1; omega⟩

/-- `firstFailure = none`: every read of the range succeeds -/
theorem firstFailure_none_iff {α : Type} (get : Nat → Except Nat α) (start n : Nat) :
    firstFailure get start n = none ↔ ∀ i < n, ∃ v, get (start + i) = .ok v := by
  induction n generalizing start with
  | zero => simp [firstFailure_zero]
  | succ n ih =>
    rw [firstFailure_succ]
    cases hg : get start with
    | error e =>
      simp only [reduceCtorEq, false_iff]
      intro h
      obtain ⟨v, hv⟩ := h 0 (by omega)
      simp [hg] at hv
    | ok v =>
      simp only [Option.map_eq_none_iff, ih]
      constructor
      · intro h i hi
        cases i with
        | zero => exact ⟨v, by simpa using hg⟩
        | succ i =>
          obtain ⟨w, hw⟩ := h i (by omega)
          exact ⟨w, by rw [← hw]; congr 1; omega⟩
      · intro h i hi
        obtain ⟨w, hw⟩ := h (i + 1) (by omega)
        exact ⟨w, by rw [← hw]; congr 1; omega⟩

theorem range_succ_map_add (start n : Nat) :
    (List.range (n + 1)).map (start + ·) = start :: (List.range n).map (start + 1 + ·) := by
  rw [List.range_succ_eq_map]
  simp only [List.map_cons, List.map_map, Nat.add_zero, List.cons.injEq, true_and]
  apply List.map_congr_left; intro a _; simp only [Function.comp]; omega

/-- the getter loop over a range: it queries ascending addresses up to and including the first
    failure and yields that exception, or queries the whole range and yields all values -/
theorem readSeq_range {α : Type} (d : α) (get : Nat → Except Nat α) (start n : Nat) :
    readSeq get ((List.range n).map (start + ·)) =
      match firstFailure get start n with
      | none => ((List.range n).map (start + ·),
                 .ok ((List.range n).map fun i => valOr d (get (start + i))))
      | some (k, e) => ((List.range (k + 1)).map (start + ·), .error e) := by
  induction n generalizing start with
  | zero => simp [firstFailure_zero, readSeq]
  | succ n ih =>
    rw [range_succ_map_add, readSeq, firstFailure_succ]
    cases hg : get start with
    | error e => simp
    | ok v =>
      simp only [ih (start + 1)]
      cases hf : firstFailure get (start + 1) n with
      | some p =>
        obtain ⟨k, e⟩ := p
        simp only [Option.map_some, Except.map]
        rw [range_succ_map_add start (k + 1)]
      | none =>
        simp only [Option.map_none, Except.map]
        rw [List.range_succ_eq_map]
        simp only [List.map_cons, List.map_map, Nat.add_zero, hg, valOr]
        congr 3
        apply List.map_congr_left; intro a _; simp only [Function.comp]
        congr 2; omega

theorem readSeq_addresses {α : Type} (d : α) (get : Nat → Except Nat α) (r : Range) :
    readSeq get r.addresses =
      match firstFailure get r.start r.count with
      | none => (queried get r.start r.count,
                 .ok ((List.range r.count).map fun i => valOr d (get (r.start + i))))
      | some (_, e) => (queried get r.start r.count, .error e) := by
  unfold Range.addresses queried
  rw [readSeq_range d]
  cases firstFailure get r.start r.count with
  | none => rfl
  | some p => rfl

/-! ### `parseRequest` (cursor style) against `validBody` / `decode` (positional) -/

theorem bitAt_eq_bitOf : bitAt = bitOf := by
  funext bs i; simp only [bitAt, bitOf]; rw [Bool.eq_iff_iff]; simp

/-- `RegisterIterator` over exactly `2n` bytes, by position -/
theorem unpackRegs_eq_map (payload : Bytes) (n : Nat) (h : payload.length = 2 * n) :
    unpackRegs payload = (List.range n).map fun i => u16At payload (2 * i) := by
  apply List.ext_getElem
  · simp [unpackRegs_length, h]
  · intro i h1 h2
    rw [unpackRegs_getElem]; simp [u16At]

theorem parseRange_iff (body : Bytes) (r : Range) (rest : Bytes) :
    parseRange body = some (r, rest) ↔
      ∃ a b c d, body = a :: b :: c :: d :: rest ∧ Range.tryFrom (be16 a b) (be16 c d) = .ok r := by
  rcases body with _ | ⟨a, _ | ⟨b, _ | ⟨c, _ | ⟨d, t⟩⟩⟩⟩ <;> try (simp [parseRange]; done)
  simp only [parseRange]
  cases h : Range.tryFrom (be16 a b) (be16 c d) with
  | error e =>
    simp only [reduceCtorEq, false_iff, not_exists, not_and]
    intro a' b' c' d' hb; injection hb with h1 hb; injection hb with h2 hb
    injection hb with h3 hb; injection hb with h4 hb
    subst h1 h2 h3 h4; rw [h]; simp
  | ok r0 =>
    simp only [Option.some.injEq, Prod.mk.injEq, List.cons.injEq]
    constructor
    · rintro ⟨rfl, rfl⟩; exact ⟨a, b, c, d, ⟨rfl, rfl, rfl, rfl, rfl⟩, h⟩
    · rintro ⟨a', b', c', d', ⟨rfl, rfl, rfl, rfl, rfl⟩, h'⟩
      rw [h] at h'; injection h' with h'; exact ⟨h', rfl⟩

/-- range + limit + rest, as one statement -/
theorem parseRange_limited {limit : Nat} (hl : limit ≤ 65536) (body : Bytes) (r : Range)
    (rest : Bytes) :
    (∃ r0, parseRange body = some (r0, rest) ∧ r0.limitedCount limit = .ok r) ↔
      (∃ a b c d, body = a :: b :: c :: d :: rest) ∧ 1 ≤ u16At body 2 ∧ u16At body 2 ≤ limit
        ∧ u16At body 0 + u16At body 2 ≤ 65536 ∧ r = ⟨u16At body 0, u16At body 2⟩ := by
  constructor
  · rintro ⟨r0, h1, h2⟩
    obtain ⟨a, b, c, d, rfl, h1'⟩ := (parseRange_iff _ _ _).1 h1
    have := (Range.tryFrom_limited hl r).1 ⟨r0, h1', h2⟩
    exact ⟨⟨a, b, c, d, rfl⟩, by simpa [u16At, be16] using this⟩
  · rintro ⟨⟨a, b, c, d, rfl⟩, h⟩
    have h' : 1 ≤ be16 c d ∧ be16 c d ≤ limit ∧ be16 a b + be16 c d ≤ 65536
        ∧ r = ⟨be16 a b, be16 c d⟩ := by simpa [u16At, be16] using h
    obtain ⟨r0, h1, h2⟩ := (Range.tryFrom_limited hl r).2 h'
    exact ⟨r0, (parseRange_iff _ _ _).2 ⟨a, b, c, d, rfl, h1⟩, h2⟩

theorem parseReadRange_iff {limit : Nat} (hl : limit ≤ 65536) (body : Bytes) (r : Range) :
    parseReadRange limit body = some r ↔
      body.length = 4 ∧ 1 ≤ u16At body 2 ∧ u16At body 2 ≤ limit
        ∧ u16At body 0 + u16At body 2 ≤ 65536 ∧ r = ⟨u16At body 0, u16At body 2⟩ := by
  have key := parseRange_limited hl body r []
  have hlen : body.length = 4 ↔ ∃ a b c d, body = a :: b :: c :: d :: [] := by
    constructor
    · intro h
      match body, h with
      | [a, b, c, d], _ => exact ⟨a, b, c, d, rfl⟩
    · rintro ⟨a, b, c, d, rfl⟩; rfl
  rw [hlen, ← key]
  unfold parseReadRange
  constructor
  · intro h
    cases h1 : parseRange body with
    | none => simp [h1] at h
    | some p =>
      obtain ⟨r0, rest⟩ := p
      simp only [h1] at h
      cases h2 : r0.limitedCount limit with
      | error e => simp [h2] at h
      | ok r1 =>
        simp only [h2] at h
        by_cases h3 : rest = []
        · subst h3; simp only [if_true, Option.some.injEq] at h; subst h
          exact ⟨r0, rfl, h2⟩
        · simp [h3] at h
  · rintro ⟨r0, h1, h2⟩
    simp [h1, h2]


theorem u16At_zero (a b : Nat) (t : Bytes) : u16At (a :: b :: t) 0 = be16 a b := rfl
theorem u16At_two (a b c d : Nat) (t : Bytes) : u16At (a :: b :: c :: d :: t) 2 = be16 c d := rfl

theorem parseRequest_iff_read (fc : Fc) (hr : fc.isRead) (body : Bytes) (r : Request) :
    parseRequest fc body = some r ↔ validBody fc body = true ∧ r = decode fc body := by
  cases fc <;> simp [Fc.isRead] at hr
  all_goals
    simp only [parseRequest, Option.map_eq_some_iff, MAX_READ_COILS_COUNT, MAX_READ_REGISTERS_COUNT,
      parseReadRange_iff (limit := 2000) (by decide),
      parseReadRange_iff (limit := 125) (by decide), validBody, decode,
      Bool.and_eq_true, decide_eq_true_eq, beq_iff_eq]
    constructor
    · rintro ⟨a, ⟨h1, h2, h3, h4, rfl⟩, rfl⟩; exact ⟨⟨⟨⟨h1, h2⟩, h3⟩, h4⟩, rfl⟩
    · rintro ⟨⟨⟨⟨h1, h2⟩, h3⟩, h4⟩, rfl⟩; exact ⟨_, ⟨h1, h2, h3, h4, rfl⟩, rfl⟩

theorem parseRequest_iff_wsc (body : Bytes) (r : Request) :
    parseRequest .writeSingleCoil body = some r ↔
      validBody .writeSingleCoil body = true ∧ r = decode .writeSingleCoil body := by
  rcases body with _ | ⟨a, _ | ⟨b, _ | ⟨c, _ | ⟨d, _ | ⟨e, t⟩⟩⟩⟩⟩ <;>
    try (simp [parseRequest, validBody]; done)
  simp only [parseRequest, validBody, decode, u16At_zero, u16At_two, coilFromU16, COIL_ON, COIL_OFF]
  generalize be16 c d = q
  by_cases h1 : q = 65280
  · subst h1; simp [eq_comm]
  · by_cases h2 : q = 0
    · subst h2; simp [eq_comm]
    · simp [h1, h2]

theorem parseRequest_iff_wsr (body : Bytes) (r : Request) :
    parseRequest .writeSingleRegister body = some r ↔
      validBody .writeSingleRegister body = true ∧ r = decode .writeSingleRegister body := by
  rcases body with _ | ⟨a, _ | ⟨b, _ | ⟨c, _ | ⟨d, _ | ⟨e, t⟩⟩⟩⟩⟩ <;>
    try (simp [parseRequest, validBody]; done)
  simp [parseRequest, validBody, decode, u16At_zero, u16At_two, eq_comm]

theorem u16At_five (a b c d bc : Nat) (payload : Bytes) (k : Nat) :
    u16At (a :: b :: c :: d :: bc :: payload) (5 + k) = u16At payload k := by
  have : 5 + k = k + 1 + 1 + 1 + 1 + 1 := by omega
  rw [this]; simp only [u16At, List.getD_cons_succ]


theorem length_eq_four {body : Bytes} (h : body.length = 4) :
    ∃ a b c d, body = [a, b, c, d] := by
  rcases body with _ | ⟨a, _ | ⟨b, _ | ⟨c, _ | ⟨d, _ | ⟨e, t⟩⟩⟩⟩⟩ <;> simp at h
  exact ⟨a, b, c, d, rfl⟩

theorem length_ge_five {body : Bytes} (h : 5 ≤ body.length) :
    ∃ a b c d bc payload, body = a :: b :: c :: d :: bc :: payload := by
  match body, h with
  | a :: b :: c :: d :: bc :: payload, _ => exact ⟨a, b, c, d, bc, payload, rfl⟩

theorem parseRequest_iff_wmc (body : Bytes) (r : Request) :
    parseRequest .writeMultipleCoils body = some r ↔
      validBody .writeMultipleCoils body = true ∧ r = decode .writeMultipleCoils body := by
  simp only [validBody, decode, Bool.and_eq_true, decide_eq_true_eq, beq_iff_eq]
  constructor
  · intro h
    unfold parseRequest at h
    simp only at h
    cases h1 : parseRange body with
    | none => simp [h1] at h
    | some p =>
      obtain ⟨r0, rest⟩ := p
      simp only [h1] at h
      cases h2 : r0.limitedCount MAX_WRITE_COILS_COUNT with
      | error e => simp [h2] at h
      | ok r1 =>
        simp only [h2] at h
        obtain ⟨⟨a, b, c, d, rfl⟩, k1, k2, k3, rfl⟩ :=
          (parseRange_limited (by decide) body r1 rest).1 ⟨r0, h1, h2⟩
        cases rest with
        | nil => simp at h
        | cons bc payload =>
          simp only at h
          split at h
          · rename_i hl
            injection h with h; subst h
            simp only [MAX_WRITE_COILS_COUNT, numBytesForBits] at *
            refine ⟨⟨⟨⟨k1, k2⟩, k3⟩, by simp [hl]; omega⟩, ?_⟩
            simp [unpackBits, bitAt_eq_bitOf]
          · simp at h
  · rintro ⟨⟨⟨⟨k1, k2⟩, k3⟩, k4⟩, rfl⟩
    obtain ⟨a, b, c, d, bc, payload, rfl⟩ := length_ge_five (body := body) (by omega)
    obtain ⟨r0, h1, h2⟩ := (parseRange_limited (limit := MAX_WRITE_COILS_COUNT) (by decide)
      (a :: b :: c :: d :: bc :: payload) _ (bc :: payload)).2
        ⟨⟨a, b, c, d, rfl⟩, k1, k2, k3, rfl⟩
    have hl : payload.length = numBytesForBits (u16At (a :: b :: c :: d :: bc :: payload) 2) := by
      simp only [numBytesForBits]; simp at k4; omega
    unfold parseRequest
    simp only [h1, h2, hl, if_true]
    simp [unpackBits, bitAt_eq_bitOf]

theorem parseRequest_iff_wmr (body : Bytes) (r : Request) :
    parseRequest .writeMultipleRegisters body = some r ↔
      validBody .writeMultipleRegisters body = true ∧ r = decode .writeMultipleRegisters body := by
  simp only [validBody, decode, Bool.and_eq_true, decide_eq_true_eq, beq_iff_eq]
  constructor
  · intro h
    unfold parseRequest at h
    simp only at h
    cases h1 : parseRange body with
    | none => simp [h1] at h
    | some p =>
      obtain ⟨r0, rest⟩ := p
      simp only [h1] at h
      cases h2 : r0.limitedCount MAX_WRITE_REGISTERS_COUNT with
      | error e => simp [h2] at h
      | ok r1 =>
        simp only [h2] at h
        obtain ⟨⟨a, b, c, d, rfl⟩, k1, k2, k3, rfl⟩ :=
          (parseRange_limited (by decide) body r1 rest).1 ⟨r0, h1, h2⟩
        cases rest with
        | nil => simp at h
        | cons bc payload =>
          simp only at h
          split at h
          · rename_i hl
            injection h with h; subst h
            simp only [MAX_WRITE_REGISTERS_COUNT] at *
            refine ⟨⟨⟨⟨k1, k2⟩, k3⟩, by simp [hl]; omega⟩, ?_⟩
            rw [unpackRegs_eq_map _ _ hl]
            simp only [u16At_five]
          · simp at h
  · rintro ⟨⟨⟨⟨k1, k2⟩, k3⟩, k4⟩, rfl⟩
    obtain ⟨a, b, c, d, bc, payload, rfl⟩ := length_ge_five (body := body) (by omega)
    obtain ⟨r0, h1, h2⟩ := (parseRange_limited (limit := MAX_WRITE_REGISTERS_COUNT) (by decide)
      (a :: b :: c :: d :: bc :: payload) _ (bc :: payload)).2
        ⟨⟨a, b, c, d, rfl⟩, k1, k2, k3, rfl⟩
    have hl : payload.length = 2 * (u16At (a :: b :: c :: d :: bc :: payload) 2) := by
      simp at k4; omega
    unfold parseRequest
    simp only [h1, h2, hl, if_true]
    rw [unpackRegs_eq_map _ _ hl]
    simp only [u16At_five]

/-- `Request::parse` accepts exactly the valid bodies and yields the request they denote -/
theorem parseRequest_iff (fc : Fc) (body : Bytes) (r : Request) :
    parseRequest fc body = some r ↔ validBody fc body = true ∧ r = decode fc body := by
  cases fc
  case writeSingleCoil => exact parseRequest_iff_wsc body r
  case writeSingleRegister => exact parseRequest_iff_wsr body r
  case writeMultipleCoils => exact parseRequest_iff_wmc body r
  case writeMultipleRegisters => exact parseRequest_iff_wmr body r
  all_goals exact parseRequest_iff_read _ rfl body r

theorem parseRequest_eq (fc : Fc) (body : Bytes) :
    parseRequest fc body = if validBody fc body then some (decode fc body) else none := by
  by_cases h : validBody fc body = true
  · rw [if_pos h]; exact (parseRequest_iff fc body _).2 ⟨h, rfl⟩
  · rw [if_neg h]
    cases hp : parseRequest fc body with
    | none => rfl
    | some r => exact absurd ((parseRequest_iff fc body r).1 hp).1 h

/-! ### serving, broadcasting, authorization -/

theorem decode_fc (fc : Fc) (body : Bytes) : (decode fc body).fc = fc := by
  cases fc <;> rfl

theorem authCall_eq_authQuestion (req : Request) (unit : Nat) (role : String) :
    authCall req.fc unit req.authArg role = authQuestion req unit role := by
  cases req <;> rfl

theorem indexed_eq {α : Type} (start : Nat) (vs : List α) :
    indexed start vs = ((List.range vs.length).zip vs).map fun (i, v) => (start + i, v) := rfl

/-- `Request::get_reply` does what the reference server prescribes for a served request -/
theorem getReply_eq_serve {σ : Type} (H : Handler σ) (u : Nat) (s : σ) (req : Request) :
    getReply H u s req = serve H u s req := by
  cases req with
  | readCoils r =>
    simp only [getReply, serve, bitsReply, readSeq_addresses false, Request.fc, Fc.toByte]
    cases firstFailure (H.readCoil s) r.start r.count with
    | none => simp [packBits_map_range, numBytesForBits]
    | some p => simp [exceptionPdu]
  | readDiscreteInputs r =>
    simp only [getReply, serve, bitsReply, readSeq_addresses false, Request.fc, Fc.toByte]
    cases firstFailure (H.readDiscreteInput s) r.start r.count with
    | none => simp [packBits_map_range, numBytesForBits]
    | some p => simp [exceptionPdu]
  | readHoldingRegisters r =>
    simp only [getReply, serve, regsReply, readSeq_addresses 0, Request.fc, Fc.toByte]
    cases firstFailure (H.readHoldingRegister s) r.start r.count with
    | none => simp [packRegs_map_range]
    | some p => simp [exceptionPdu]
  | readInputRegisters r =>
    simp only [getReply, serve, regsReply, readSeq_addresses 0, Request.fc, Fc.toByte]
    cases firstFailure (H.readInputRegister s) r.start r.count with
    | none => simp [packRegs_map_range]
    | some p => simp [exceptionPdu]
  | writeSingleCoil i v =>
    rcases hp : H.writeSingleCoil s i v with ⟨res, s'⟩
    simp only [getReply, serve, Request.fc, Fc.toByte, hp]
    cases res with
    | error e => simp [writeReply, exceptionPdu]
    | ok x => cases v <;> simp [writeReply, u16be, be, coilToU16, COIL_ON, COIL_OFF]
  | writeSingleRegister i v =>
    rcases hp : H.writeSingleRegister s i v with ⟨res, s'⟩
    simp only [getReply, serve, Request.fc, Fc.toByte, hp]
    cases res with
    | error e => simp [writeReply, exceptionPdu]
    | ok x => simp [writeReply, u16be, be]
  | writeMultipleCoils r vals =>
    rcases hp : H.writeMultipleCoils s r (indexed r.start vals) with ⟨res, s'⟩
    simp only [getReply, serve, Request.fc, Fc.toByte, ← indexed_eq, hp]
    cases res with
    | error e => simp [writeReply, exceptionPdu]
    | ok x => simp [writeReply, u16be, be]
  | writeMultipleRegisters r vals =>
    rcases hp : H.writeMultipleRegisters s r (indexed r.start vals) with ⟨res, s'⟩
    simp only [getReply, serve, Request.fc, Fc.toByte, ← indexed_eq, hp]
    cases res with
    | error e => simp [writeReply, exceptionPdu]
    | ok x => simp [writeReply, u16be, be]

/-- `for handler in handlers { request.execute(handler) }`: a write is applied to every unit,
    a read (`into_broadcast_request` = `None`) to none -/
theorem broadcastAll_eq {σ : Type} (H : Handler σ) (req : Request) (hs : List (Nat × σ)) :
    broadcastAll H req hs = if isWrite req then applyToAll H req hs else ([], hs) := by
  induction hs with
  | nil => cases req <;> simp [broadcastAll, applyToAll, isWrite]
  | cons p rest ih =>
    obtain ⟨u, s⟩ := p
    cases req with
    | readCoils r => simp [broadcastAll, executeBroadcast, isWrite]
    | readDiscreteInputs r => simp [broadcastAll, executeBroadcast, isWrite]
    | readHoldingRegisters r => simp [broadcastAll, executeBroadcast, isWrite]
    | readInputRegisters r => simp [broadcastAll, executeBroadcast, isWrite]
    | writeSingleCoil i v =>
      simp only [isWrite, if_true] at ih ⊢
      simp only [broadcastAll, executeBroadcast, applyToAll, serve, ih]
    | writeSingleRegister i v =>
      simp only [isWrite, if_true] at ih ⊢
      simp only [broadcastAll, executeBroadcast, applyToAll, serve, ih]
    | writeMultipleCoils r vals =>
      simp only [isWrite, if_true] at ih ⊢
      simp only [broadcastAll, executeBroadcast, applyToAll, serve, ih, indexed_eq]
    | writeMultipleRegisters r vals =>
      simp only [isWrite, if_true] at ih ⊢
      simp only [broadcastAll, executeBroadcast, applyToAll, serve, ih, indexed_eq]

theorem authCall_decode (fc : Fc) (body : Bytes) (unit : Nat) (role : String) :
    authCall fc unit (decode fc body).authArg role = authQuestion (decode fc body) unit role := by
  have := authCall_eq_authQuestion (decode fc body) unit role
  rwa [decode_fc] at this

/-- THE correspondence: the cursor-style model of `SessionTask::handle_frame` is the reference
    server, for every configuration, handler state, and frame -/
theorem handleFrame_eq_respond {σ : Type} (cfg : ServerCfg σ) (hs : List (Nat × σ)) (f : Frame) :
    handleFrame cfg hs f = respond cfg hs f := by
  unfold handleFrame respond
  cases hp : f.pdu with
  | nil => simp
  | cons b body =>
    simp only [List.isEmpty_cons, List.headD_cons, List.drop_succ_cons, List.drop_zero]
    cases hfc : Fc.ofByte b with
    | none =>
      cases cfg.rtu && f.dest == 0 <;> cases lookupUnit hs f.dest <;> simp [exceptionPdu]
    | some fc =>
      simp only [parseRequest_eq]
      cases hv : validBody fc body with
      | false =>
        cases cfg.rtu && f.dest == 0 <;> cases lookupUnit hs f.dest <;> simp [exceptionPdu]
      | true =>
        simp only [if_true, Bool.not_true, decode_fc, authCall_decode,
          broadcastAll_eq, getReply_eq_serve]
        cases hb : (cfg.rtu && f.dest == 0) <;> cases hw : isWrite (decode fc body) <;>
          cases hl : lookupUnit hs f.dest <;> cases ha : cfg.auth with
        | none => simp
        | some pr =>
          obtain ⟨P, role⟩ := pr
          cases hP : P fc f.dest (decode fc body).authArg role <;> simp [exceptionPdu, hP]

end Rodbus
