import RodbusModel.Model.Tls
/-
  M-TLS (client side, Certificate message as a list): the counterpart of `admitServerChain`.

  What the client sees of the server's Certificate message is the presented list, end entity
  first.  In authority mode the verifier of rustls / webpki validates the first certificate and
  treats further ones as candidate intermediates only.  In self-signed mode
  (`TlsClientConfig::self_signed`, tcp/tls/client.rs: "1) That the server presents a single
  certificate 2) … byte-for-byte match … 3) … Validity … is currently valid") the verifier is
  `SelfSignedVerifier::verify_peer` of sfio-rustls-config (self_signed.rs), the SAME function for
  both roles (`verify_client_cert` and `verify_server_cert` both call it): it fails with
  "sent N intermediate certificates, expected none" before it looks at the end entity, and it
  ignores the server name.
-/
namespace Rodbus.Tls

/-- `TlsClientConfig::handle_connection` on the server's Certificate message -/
def admitClientChain (min : Ver) (mode : Mode) (name : Option String) (offered : List Ver)
    (chain : List Cert) : Option Ver :=
  match mode, chain with
  | .selfSigned _, _ :: _ :: _ => none
  | _, _ => admitClient min mode name offered chain.head?

end Rodbus.Tls
