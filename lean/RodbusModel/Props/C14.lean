import RodbusModel.Model.Retry
/-
  C14 — Reconnect delays follow the retry strategy: doubling, capped, reset on success.
  (strategy object; the task-level use of the strategy is in Props/C13 / the lifecycle suite)
-/
namespace Rodbus.C14
open Rodbus.Retry

/-- state invariant: the current delay never exceeds the cap, and it is `min·2^j` capped -/
def Inv (d : Doubling) : Prop := d.current ≤ d.max

theorem create_inv (min max : Nat) : Inv (create min max) := by
  show Nat.min min max ≤ max
  exact Nat.min_le_right _ _

theorem reset_inv (d : Doubling) : Inv (reset d) := by
  show Nat.min d.min d.max ≤ d.max
  exact Nat.min_le_right _ _

theorem failed_inv (d : Doubling) : Inv (afterFailedConnect d).2 := by
  show Nat.min (Nat.min (2 * d.current) DURATION_MAX) d.max ≤ d.max
  exact Nat.min_le_right _ _

/-- arithmetic core of the doubling step -/
theorem step_arith (a max DM : Nat) (hmax : max ≤ DM) :
    Nat.min (Nat.min (2 * Nat.min a max) DM) max = Nat.min (2 * a) max := by
  simp only [Nat.min_def]
  repeat' split
  all_goals omega

/-- closed form of the state after `j` consecutive failures, for representable durations -/
theorem current_after (min max : Nat) (hmax : max ≤ DURATION_MAX) (j : Nat) :
    ∀ d : Doubling, d.min = min → d.max = max → d.current = Nat.min (min * 2 ^ j) max →
      (afterFailedConnect d).2.current = Nat.min (min * 2 ^ (j + 1)) max ∧
      (afterFailedConnect d).2.min = min ∧ (afterFailedConnect d).2.max = max := by
  intro d h1 h2 h3
  refine ⟨?_, by simp [afterFailedConnect, h1], by simp [afterFailedConnect, h2]⟩
  show Nat.min (Nat.min (2 * d.current) DURATION_MAX) d.max = _
  have hp : min * 2 ^ (j + 1) = 2 * (min * 2 ^ j) := by rw [Nat.pow_succ]; ac_rfl
  rw [hp, h2, h3]
  exact step_arith _ _ _ hmax

/-- **kth_delay**: after a reset (or creation), the k-th consecutive `after_failed_connect`
    returns `min · 2^(k-1)` capped at `max` — for every `(min, max)` with `max` representable
    and every `k`. -/
theorem kth_delay (min max : Nat) (hmax : max ≤ DURATION_MAX) (k : Nat) :
    ∀ d : Doubling, d.min = min → d.max = max → ∀ j, d.current = Nat.min (min * 2 ^ j) max →
      (failures d k) = (List.range k).map (fun i => Nat.min (min * 2 ^ (j + i)) max) := by
  induction k with
  | zero => intros; rfl
  | succ k ih =>
    intro d h1 h2 j h3
    obtain ⟨c1, c2, c3⟩ := current_after min max hmax j d h1 h2 h3
    have := ih (afterFailedConnect d).2 c2 c3 (j + 1) c1
    simp only [failures]
    rw [this, List.range_succ_eq_map, List.map_cons, List.map_map]
    have h0 : (afterFailedConnect d).1 = Nat.min (min * 2 ^ (j + 0)) max := by
      simp [afterFailedConnect, h3]
    rw [h0]
    congr 1
    apply List.map_congr_left
    intro i _
    simp only [Function.comp]
    have : j + 1 + i = j + (i + 1) := by omega
    rw [this]

/-- the k-th delay after creation -/
theorem kth_delay_created (min max : Nat) (hmax : max ≤ DURATION_MAX) (k : Nat) :
    failures (create min max) k = (List.range k).map (fun i => Nat.min (min * 2 ^ i) max) := by
  have := kth_delay min max hmax k (create min max) rfl rfl 0 (by simp [create])
  simpa using this

/-- … and after any reset: the sequence restarts at `min` (capped) -/
theorem kth_delay_after_reset (d : Doubling) (hmax : d.max ≤ DURATION_MAX) (k : Nat) :
    failures (reset d) k = (List.range k).map (fun i => Nat.min (d.min * 2 ^ i) d.max) := by
  have := kth_delay d.min d.max hmax k (reset d) rfl rfl 0 (by simp [reset])
  simpa using this

/-- **no wrap, however long the failure run**: the `i`-th (0-based) of `k` consecutive failures
    after creation waits `min · 2^i` capped at `max` — for every `i < k`, with no bound on `k`
    (no counter that could wrap is involved) -/
theorem kth_delay_get (min max : Nat) (hmax : max ≤ DURATION_MAX) (k i : Nat) (hi : i < k) :
    (failures (create min max) k)[i]? = some (Nat.min (min * 2 ^ i) max) := by
  rw [kth_delay_created min max hmax k]
  simp [hi]

/-- … and once `min · 2^j` has reached the cap, every later delay IS the cap: the sequence never
    falls back (in particular not after 256 or 65536 attempts) -/
theorem delay_saturates (min max : Nat) (hmax : max ≤ DURATION_MAX) (j : Nat)
    (hj : max ≤ min * 2 ^ j) (k i : Nat) (hji : j ≤ i) (hi : i < k) :
    (failures (create min max) k)[i]? = some max := by
  rw [kth_delay_get min max hmax k i hi]
  have h1 : 2 ^ j ≤ 2 ^ i := Nat.pow_le_pow_right (by omega) hji
  have h2 : min * 2 ^ j ≤ min * 2 ^ i := Nat.mul_le_mul_left _ h1
  have h3 : max ≤ min * 2 ^ i := Nat.le_trans hj h2
  congr 1
  exact Nat.min_eq_right h3

/-- after a lost connection the delay is `min`, whatever happened before -/
theorem disconnect_is_min (d : Doubling) : afterDisconnect d = d.min := rfl

theorem disconnect_after_failures (min max k : Nat) :
    ∀ d : Doubling, d.min = min → afterDisconnect (List.foldl (fun d _ => (afterFailedConnect d).2) d (List.range k)) = min := by
  induction k with
  | zero => intro d h; simpa [afterDisconnect] using h
  | succ k ih =>
    intro d h
    rw [List.range_succ, List.foldl_append]
    have := ih d h
    simp only [afterDisconnect] at this ⊢
    simpa [afterFailedConnect] using this

/-- every delay ever returned by `after_failed_connect` is at most `max` -/
theorem delay_le_max (d : Doubling) (h : Inv d) (ops : List Op) :
    ∀ x ∈ run d ops, x ≤ d.max ∨ x = d.min := by
  induction ops generalizing d with
  | nil => intro x hx; simp [run] at hx
  | cons op ops ih =>
    intro x hx
    cases op with
    | failed =>
      simp only [run, List.mem_cons] at hx
      rcases hx with rfl | hx
      · left; exact h
      · have := ih (afterFailedConnect d).2 (failed_inv d) x hx
        simpa [afterFailedConnect] using this
    | disconnect =>
      simp only [run, List.mem_cons] at hx
      rcases hx with rfl | hx
      · right; rfl
      · exact ih d h x hx
    | reset =>
      simp only [run] at hx
      have := ih (reset d) (reset_inv d) x hx
      simpa [reset] using this

/-- the doubling never overflows a `Duration`: the stored value stays representable -/
theorem no_overflow (d : Doubling) (h : d.current ≤ DURATION_MAX) :
    (afterFailedConnect d).2.current ≤ DURATION_MAX := by
  simp only [afterFailedConnect]
  exact Nat.le_trans (Nat.min_le_left _ _) (Nat.min_le_right _ _)

/-- non-vacuity: 1 s / 60 s, seven failures: 1, 2, 4, 8, 16, 32, 60 s -/
example : failures (create 1000000000 60000000000) 7 =
    [1000000000, 2000000000, 4000000000, 8000000000, 16000000000, 32000000000, 60000000000] := by
  decide
/-- min > max: every delay is the cap -/
example : failures (create 2000000000 1000000000) 3 = [1000000000, 1000000000, 1000000000] := by
  decide
/-- a long failure run (1 ms / 8 ms, the `life` suite's long family): 1, 2, 4, then 8 for ever —
    the 256th, the 400th and the 65537th delay are 8 -/
example : (failures (create 1 8) 8).take 5 = [1, 2, 4, 8, 8] := by decide
example : (failures (create 1 8) 400)[255]? = some 8 ∧ (failures (create 1 8) 400)[399]? = some 8 :=
  ⟨delay_saturates 1 8 (by decide) 3 (by decide) 400 255 (by decide) (by decide),
   delay_saturates 1 8 (by decide) 3 (by decide) 400 399 (by decide) (by decide)⟩
example : (failures (create 1 8) 70000)[65536]? = some 8 :=
  delay_saturates 1 8 (by decide) 3 (by decide) 70000 65536 (by decide) (by decide)
example : run (create 5 40) [.failed, .failed, .disconnect, .failed, .reset, .failed] = [5, 10, 5, 20, 5] := by
  decide

end Rodbus.C14
