import RodbusModel.Lemmas.ClientRunInv
import RodbusModel.Lemmas.ClientInv
/-
  Run-level invariants of the client task about WHAT is written and WHAT is completed
  (C03 / C06 / C07 at the level of a run, not of the helper functions).

  `LogOk F Q G s`:
  * every request still queued satisfies `Q` (a predicate on requests that every submitted request
    of the script satisfies, e.g. "its arguments are u16 values" or "it is one of the script");
  * every entry `(rid, tx, bytes)` of `sent` is the frame `F.format tx unit pdu` of a request `r`
    with `Q r`, `r.rid = rid` whose `encodeRequest` succeeded with `pdu`;
  * every `.tx b` entry of the log is the frame of an entry of `sent`;
  * every completion `.done _ _ res _` of the log carries a result with `G res` (a predicate on
    results that holds for everything the reader, the discard loop, the response handler, the
    validation, a failed write, a timeout, `noconn` and shutdown can produce).

  It holds initially and is kept by every tick, clock movement and script step (`runState_logOk`).
-/
namespace Rodbus.Client

/-- the frames of the `.tx` entries of a log -/
def txLog : List LogEntry → List Bytes
  | [] => []
  | .tx b :: es => b :: txLog es
  | _ :: es => txLog es

theorem mem_txLog {b : Bytes} {l : List LogEntry} : b ∈ txLog l ↔ LogEntry.tx b ∈ l := by
  induction l with
  | nil => simp [txLog]
  | cons e es ih => cases e <;> simp [txLog, ih]

theorem txLog_append (a b : List LogEntry) : txLog (a ++ b) = txLog a ++ txLog b := by
  induction a with
  | nil => rfl
  | cons e es ih => cases e <;> simp [txLog, ih]

/-- the requests a script submits, in order -/
def scriptReqs : List Step → List Req
  | [] => []
  | .submit _ _ r :: rest => r :: scriptReqs rest
  | _ :: rest => scriptReqs rest

theorem scriptRids_eq_map (steps : List Step) : scriptRids steps = (scriptReqs steps).map (·.rid) := by
  induction steps with
  | nil => rfl
  | cons st rest ih => cases st <;> simp [scriptRids, scriptReqs, ih]

theorem mem_scriptReqs {r : Req} {steps : List Step} :
    r ∈ scriptReqs steps ↔ ∃ op h, Step.submit op h r ∈ steps := by
  induction steps with
  | nil => simp [scriptReqs]
  | cons st rest ih =>
    cases st <;> simp [scriptReqs, ih]
    rename_i op h r'
    constructor
    · rintro (rfl | ⟨op', h', hm⟩)
      · exact ⟨op, h, Or.inl ⟨rfl, rfl, rfl⟩⟩
      · exact ⟨op', h', Or.inr hm⟩
    · rintro ⟨op', h', ⟨_, _, rfl⟩ | hm⟩
      · exact Or.inl rfl
      · exact Or.inr ⟨op', h', hm⟩

section
variable {σ : Type}

/-- `x = (rid, tx, bytes)` is the frame of a request satisfying `Q` that was encoded successfully -/
def Encoded (F : Framing σ) (Q : Req → Prop) (x : Rid × Nat × Bytes) : Prop :=
  ∃ r pdu, Q r ∧ r.rid = x.1 ∧ encodeRequest r.req = .ok pdu ∧ x.2.2 = F.format x.2.1 r.unit pdu

/-- `G` holds for every result the task can complete a request with -/
structure ResOk (F : Framing σ) (G : Res → Prop) : Prop where
  badReq : ∀ e, G (.badReq e)
  pipe : G (.io .pipe)
  timeout : G .timeout
  noConn : G .noConn
  shutdown : G .shutdown
  resp : ∀ req pdu, G (respResult req pdu)
  reader : ∀ fuel st rb rx res x, readerPoll F fuel st rb rx = (.fail res, x) → G res
  discard : ∀ fuel st rb res x, discardBuffered F fuel st rb = (some res, x) → G res

/-- the invariant on the three fields it talks about -/
def LogOk' (F : Framing σ) (Q : Req → Prop) (G : Res → Prop) (queue : List Cmd)
    (sent : List (Rid × Nat × Bytes)) (log : List LogEntry) : Prop :=
  (∀ r ∈ reqsOf queue, Q r) ∧ (∀ x ∈ sent, Encoded F Q x)
    ∧ (∀ b ∈ txLog log, ∃ rid tx, (rid, tx, b) ∈ sent)
    ∧ (∀ rid sty res t, LogEntry.done rid sty res t ∈ log → G res)

def LogOk (F : Framing σ) (Q : Req → Prop) (G : Res → Prop) (s : State σ) : Prop :=
  LogOk' F Q G s.queue s.sent s.log

/-- an entry that is not a transmission and, if it is a completion, carries a good result -/
def EntryOk (G : Res → Prop) : LogEntry → Prop
  | .tx _ => False
  | .done _ _ res _ => G res
  | _ => True

variable {F : Framing σ} {Q : Req → Prop} {G : Res → Prop}

theorem logOk'_cons {q : List Cmd} {sent : List (Rid × Nat × Bytes)} {log : List LogEntry}
    (h : LogOk' F Q G q sent log) (e : LogEntry) (he : EntryOk G e) :
    LogOk' F Q G q sent (e :: log) := by
  obtain ⟨h1, h2, h3, h4⟩ := h
  refine ⟨h1, h2, ?_, ?_⟩
  · intro b hb
    cases e <;> simp only [txLog] at hb
    all_goals first | exact h3 b hb | exact absurd he (by simp [EntryOk])
  · intro rid sty res t hm
    simp only [List.mem_cons] at hm
    rcases hm with rfl | hm
    · exact he
    · exact h4 rid sty res t hm

theorem logOk'_append {q : List Cmd} {sent : List (Rid × Nat × Bytes)} {log : List LogEntry}
    (h : LogOk' F Q G q sent log) (es : List LogEntry) (he : ∀ e ∈ es, EntryOk G e) :
    LogOk' F Q G q sent (es ++ log) := by
  induction es with
  | nil => exact h
  | cons e es ih =>
    exact logOk'_cons (ih (fun x hx => he x (by simp [hx]))) e (he e (by simp))

theorem logOk'_pop {c : Cmd} {q : List Cmd} {sent : List (Rid × Nat × Bytes)}
    {log : List LogEntry} (h : LogOk' F Q G (c :: q) sent log) :
    LogOk' F Q G q sent log ∧ ∀ r, c = .req r → Q r := by
  obtain ⟨h1, h2, h3, h4⟩ := h
  refine ⟨⟨fun r hr => h1 r ?_, h2, h3, h4⟩, ?_⟩
  · cases c <;> simp [reqsOf, hr]
  · rintro r rfl
    exact h1 r (by simp [reqsOf])

theorem logOk'_snoc_req {q : List Cmd} {sent : List (Rid × Nat × Bytes)} {log : List LogEntry}
    (h : LogOk' F Q G q sent log) (r : Req) (hr : Q r) : LogOk' F Q G (q ++ [.req r]) sent log := by
  obtain ⟨h1, h2, h3, h4⟩ := h
  refine ⟨?_, h2, h3, h4⟩
  intro x hx
  rw [reqsOf_append] at hx
  simp only [List.mem_append] at hx
  rcases hx with hx | hx
  · exact h1 x hx
  · simp [reqsOf] at hx; subst hx; exact hr

theorem logOk'_snoc_other {q : List Cmd} {sent : List (Rid × Nat × Bytes)} {log : List LogEntry}
    (h : LogOk' F Q G q sent log) (c : Cmd) (hc : c.isReq = false) :
    LogOk' F Q G (q ++ [c]) sent log := by
  obtain ⟨h1, h2, h3, h4⟩ := h
  refine ⟨?_, h2, h3, h4⟩
  intro x hx
  rw [reqsOf_append] at hx
  simp only [List.mem_append] at hx
  rcases hx with hx | hx
  · exact h1 x hx
  · cases c <;> simp [reqsOf, Cmd.isReq] at hx hc

theorem logOk'_send {q : List Cmd} {sent : List (Rid × Nat × Bytes)} {log : List LogEntry}
    (h : LogOk' F Q G q sent log) (x : Rid × Nat × Bytes) (hx : Encoded F Q x) (logged : Bool) :
    LogOk' F Q G q (x :: sent) (if logged then .tx x.2.2 :: log else log) := by
  obtain ⟨h1, h2, h3, h4⟩ := h
  refine ⟨h1, ?_, ?_, ?_⟩
  · intro y hy
    simp only [List.mem_cons] at hy
    rcases hy with rfl | hy
    · exact hx
    · exact h2 y hy
  · intro b hb
    cases logged
    · obtain ⟨rid, tx, hm⟩ := h3 b hb
      exact ⟨rid, tx, by simp [hm]⟩
    · simp only [if_true, txLog, List.mem_cons] at hb
      rcases hb with rfl | hb
      · exact ⟨x.1, x.2.1, by simp⟩
      · obtain ⟨rid, tx, hm⟩ := h3 b hb
        exact ⟨rid, tx, by simp [hm]⟩
  · intro rid sty res t hm
    cases logged
    · exact h4 rid sty res t hm
    · simp only [if_true, List.mem_cons] at hm
      rcases hm with hm | hm
      · cases hm
      · exact h4 rid sty res t hm

/-! ### the updaters -/

theorem logOk_endPhase (s : State σ) (k : EndKind) (h : LogOk F Q G s) :
    LogOk F Q G (endPhase s k) :=
  logOk'_cons h _ trivial

theorem logOk_complete (s : State σ) (r : Req) (res : Res) (h : LogOk F Q G s) (hg : G res) :
    LogOk F Q G (complete s r res) :=
  logOk'_cons h _ hg

theorem logOk_afterRequest (s : State σ) (m : Nat) (res : Res) (h : LogOk F Q G s) :
    LogOk F Q G (afterRequest s m res) := by
  unfold afterRequest
  split
  · exact logOk_endPhase s _ h
  · split
    · split
      · exact h
      · split
        · exact logOk_endPhase _ _ h
        · exact h
    · exact h

theorem logOk_finish (s : State σ) (m : Nat) (r : Req) (res : Res) (h : LogOk F Q G s)
    (hg : G res) : LogOk F Q G (finish s m r res) :=
  logOk_afterRequest _ m res (logOk_complete s r res h hg)

theorem logOk_applySetting (s : State σ) (c : Cmd) (h : LogOk F Q G s) :
    LogOk F Q G (applySetting s c) := by
  cases c <;> exact h

theorem logOk_flip (s : State σ) (h : LogOk F Q G s) : LogOk F Q G (flip s).2 := by
  unfold flip; cases s.coins <;> exact h

theorem logOk_pollReader (s : State σ) (m : Nat) (h : LogOk F Q G s) :
    LogOk F Q G (pollReader F s m).2 := h

theorem pollReader_fail_ok (hG : ResOk F G) (s s' : State σ) (m : Nat) (res : Res)
    (h : pollReader F s m = (.fail res, s')) : G res := by
  unfold pollReader at h
  simp only [] at h
  generalize hr : readerPoll F _ s.pst s.rb _ = rr at h
  obtain ⟨r, st', rb', rx'⟩ := rr
  simp at h
  obtain ⟨h1, _⟩ := h
  subst h1
  exact hG.reader _ _ _ _ _ _ hr

/-- `startRequest` on a state whose queue has been popped: the request satisfies `Q` -/
theorem logOk_startRequest (hG : ResOk F G) (s : State σ) (m : Nat) (r : Req)
    (h : LogOk F Q G s) (hr : Q r) : LogOk F Q G (startRequest F s m r) := by
  unfold startRequest
  simp only []
  split
  · exact logOk_finish _ m r _ h (hG.badReq _)
  · rename_i pdu hp
    split
    · rename_i res st' rb' hd
      exact logOk_finish _ m r _ h (hG.discard _ _ _ _ _ hd)
    · split
      · exact logOk_finish _ m r _ h hG.pipe
      · have henc : Encoded F Q (r.rid, s.tx, F.format s.tx r.unit pdu) := ⟨r, pdu, hr, rfl, hp, rfl⟩
        generalize hb : isLatest _ m = b
        have := logOk'_send (F := F) (Q := Q) (G := G) h _ henc b
        cases b
        · exact this
        · exact this

theorem logOk_runCmd (hG : ResOk F G) (s : State σ) (m : Nat) (c : Cmd) (h : LogOk F Q G s)
    (hc : ∀ r, c = .req r → Q r) : LogOk F Q G (runCmd F s m c) := by
  unfold runCmd
  split
  · exact logOk_startRequest hG s m _ h (hc _ rfl)
  · exact logOk_endPhase s _ h
  · simp only []
    split
    · exact logOk_applySetting s _ h
    · exact logOk_endPhase _ _ (logOk_applySetting s _ h)

theorem logOk_sessionRecv (hG : ResOk F G) (s t : State σ) (m : Nat) (h : LogOk F Q G s)
    (ht : sessionRecv F s m = some t) : LogOk F Q G t := by
  unfold sessionRecv at ht
  split at ht
  · rename_i c q hq
    cases ht
    have h' : LogOk' F Q G (c :: q) s.sent s.log := by
      have := h; unfold LogOk at this; rw [hq] at this; exact this
    obtain ⟨hp, hc⟩ := logOk'_pop h'
    exact logOk_runCmd hG { s with queue := q } m c hp hc
  · split at ht
    · cases ht; exact logOk_endPhase s _ h
    · cases ht

theorem logOk_idleReader (s : State σ) (r : ReadRes) (h : LogOk F Q G s) :
    LogOk F Q G (idleReader s r) := by
  unfold idleReader
  split
  · split
    · exact logOk_endPhase s _ h
    · exact h
  · exact h

theorem logOk_tickIdle (hG : ResOk F G) (s t : State σ) (m : Nat) (h : LogOk F Q G s)
    (ht : tickIdle F s m = some t) : LogOk F Q G t := by
  unfold tickIdle at ht
  simp only [] at ht
  generalize hpr : pollReader F s m = pr at ht
  obtain ⟨r, s'⟩ := pr
  have hs' : LogOk F Q G s' := by
    have := logOk_pollReader (F := F) s m h; rw [hpr] at this; exact this
  simp only [] at ht
  split at ht
  · split at ht
    · rename_i t' hs
      cases ht
      exact logOk_sessionRecv hG s' _ m hs' hs
    · split at ht
      · cases ht; exact hs'
      · cases ht
  · split at ht
    · split at ht
      · cases ht
        exact logOk_idleReader _ r (show LogOk F Q G { s' with coins := (flip s).2.coins } from hs')
      · exact logOk_sessionRecv hG _ _ m (logOk_flip s h) ht
    · cases ht; exact logOk_idleReader _ r hs'

theorem logOk_inflightReader (hG : ResOk F G) (s : State σ) (m : Nat) (q : Req) (tx : Nat)
    (r : ReadRes) (h : LogOk F Q G s) (hr : ∀ res, r = .fail res → G res) :
    LogOk F Q G (inflightReader s m q tx r) := by
  unfold inflightReader
  split
  · split
    · exact logOk_finish s m q _ h (hG.resp _ _)
    · exact h
  · exact logOk_finish s m q _ h (hr _ rfl)
  · exact h

theorem logOk_tickInflight (hG : ResOk F G) (s t : State σ) (m : Nat) (q : Req) (tx dl : Nat)
    (h : LogOk F Q G s) (ht : tickInflight F s m q tx dl = some t) : LogOk F Q G t := by
  unfold tickInflight at ht
  simp only [] at ht
  generalize hpr : pollReader F s m = pr at ht
  obtain ⟨r, s'⟩ := pr
  have hs' : LogOk F Q G s' := by
    have := logOk_pollReader (F := F) s m h; rw [hpr] at this; exact this
  have hrr : ∀ res, r = .fail res → G res := by
    intro res hres; subst hres; exact pollReader_fail_ok hG s s' m res hpr
  simp only [] at ht
  split at ht
  · split at ht
    · cases ht; exact logOk_finish s' m q _ hs' hG.timeout
    · split at ht
      · cases ht; exact hs'
      · cases ht
  · split at ht
    · split at ht
      · cases ht; exact logOk_finish _ m q _ (logOk_flip s h) hG.timeout
      · cases ht
        exact logOk_inflightReader hG _ m q tx r
          (show LogOk F Q G { s' with coins := (flip s).2.coins } from hs') hrr
    · cases ht; exact logOk_inflightReader hG s' m q tx r hs' hrr

theorem logOk_waitCmd (hG : ResOk F G) (s : State σ) (c : Cmd) (h : LogOk F Q G s) :
    LogOk F Q G (waitCmd s c) := by
  unfold waitCmd
  split
  · exact logOk_complete s _ _ h hG.noConn
  · exact logOk_endPhase s _ h
  · exact logOk_applySetting s _ h

theorem logOk_failCmd (hG : ResOk F G) (s : State σ) (c : Cmd) (h : LogOk F Q G s) :
    LogOk F Q G (failCmd s c) := by
  unfold failCmd
  split
  · exact logOk_complete s _ _ h hG.noConn
  · exact logOk_endPhase s _ h
  · simp only []
    split
    · exact logOk_applySetting s _ h
    · exact logOk_endPhase _ _ (logOk_applySetting s _ h)

theorem logOk_popQueue (s : State σ) (c : Cmd) (q : List Cmd) (hq : s.queue = c :: q)
    (h : LogOk F Q G s) : LogOk F Q G { s with queue := q } := by
  have h' : LogOk' F Q G (c :: q) s.sent s.log := by
    have := h; unfold LogOk at this; rw [hq] at this; exact this
  exact (logOk'_pop h').1

theorem logOk_tickWait (hG : ResOk F G) (s t : State σ) (h : LogOk F Q G s)
    (ht : tickWait s = some t) : LogOk F Q G t := by
  unfold tickWait at ht
  split at ht
  · cases ht; exact logOk_endPhase s _ h
  · split at ht
    · rename_i c q hq
      cases ht
      exact logOk_waitCmd hG _ c (logOk_popQueue s c q hq h)
    · split at ht
      · cases ht; exact logOk_endPhase s _ h
      · cases ht

theorem logOk_tickFail (hG : ResOk F G) (s t : State σ) (dl : Nat) (b : Bool)
    (h : LogOk F Q G s) (ht : tickFail s dl b = some t) : LogOk F Q G t := by
  unfold tickFail at ht
  simp only [] at ht
  split at ht
  · split at ht
    · split at ht
      · cases ht; exact logOk_endPhase _ _ (logOk_flip s h)
      · cases ht; exact (logOk_flip s h : LogOk F Q G (flip s).2)
    · cases ht; exact logOk_endPhase s _ h
  · split at ht
    · rename_i c q hq
      cases ht
      exact logOk_failCmd hG _ c (logOk_popQueue s c q hq h)
    · split at ht
      · cases ht; exact logOk_endPhase s _ h
      · split at ht
        · cases ht; exact logOk_endPhase s _ h
        · cases ht

theorem logOk_startPhase (s t : State σ) (h : LogOk F Q G s) (ht : startPhase F s = some t) :
    LogOk F Q G t := by
  unfold startPhase at ht
  split at ht
  · cases ht
  · cases ht; exact h
  · cases ht; exact h
  · cases ht; exact h

theorem logOk_tick (hG : ResOk F G) (s t : State σ) (h : LogOk F Q G s)
    (ht : tick F s = some t) : LogOk F Q G t := by
  unfold tick at ht
  split at ht
  · cases ht
  · split at ht
    · exact logOk_startPhase s t h ht
    · exact logOk_tickIdle hG s t _ h ht
    · exact logOk_tickInflight hG s t _ _ _ _ h ht
    · exact logOk_tickWait hG s t h ht
    · exact logOk_tickFail hG s t _ _ h ht

/-- `LogOk` is an invariant of the tasks and the clock -/
theorem logOk_taskInv (hG : ResOk F G) : TaskInv F (LogOk F Q G) where
  tick := fun s t h ht => logOk_tick hG s t h ht
  release := fun _ h => h
  clock := fun _ _ h => h

/-! ### script steps -/

theorem logOk_completeAll (hG : ResOk F G) (s : State σ) (rs : List Req) (h : LogOk F Q G s) :
    LogOk F Q G (completeAll s .shutdown rs) := by
  induction rs generalizing s with
  | nil => exact h
  | cons r rs ih => unfold completeAll; exact ih _ (logOk_complete s r _ h hG.shutdown)

theorem logOk_abort (hG : ResOk F G) (s : State σ) (h : LogOk F Q G s) :
    LogOk F Q G (abort s) := by
  unfold abort
  split
  · exact h
  · have h1 := logOk_completeAll hG s (inflightReqs s ++ reqsOf s.queue) h
    obtain ⟨_, b, c, d⟩ := h1
    exact ⟨by simp [reqsOf], b, c, d⟩

theorem logOk_emit (s : State σ) (e : LogEntry) (h : LogOk F Q G s) (he : EntryOk G e) :
    LogOk F Q G (emit s e) :=
  logOk'_cons h e he

theorem logOk_enqueue_req (s : State σ) (r : Req) (h : LogOk F Q G s) (hr : Q r) :
    LogOk F Q G (enqueue s (.req r)) :=
  logOk'_snoc_req h r hr

theorem logOk_enqueue_other (s : State σ) (c : Cmd) (hc : c.isReq = false) (h : LogOk F Q G s) :
    LogOk F Q G (enqueue s c) :=
  logOk'_snoc_other h c hc

theorem logOk_submit (hG : ResOk F G) (s : State σ) (op : SubmitOp) (r : Req)
    (h : LogOk F Q G s) (hr : Q r) : LogOk F Q G (submit s op r) := by
  unfold submit
  split
  · exact logOk_emit s _ h trivial
  · split
    · exact logOk_emit _ _ (logOk_complete (accept s r.rid) r _ h (hG.badReq _)) trivial
    · exact logOk_complete (accept s r.rid) r _ h (hG.badReq _)
  · simp only []
    split
    · split
      · exact logOk_emit _ _ (logOk_complete (accept s r.rid) r _ h hG.shutdown) trivial
      · split
        · exact logOk_emit _ _ (logOk_complete (accept s r.rid) r _ h hG.shutdown) trivial
        · exact logOk_enqueue_req (accept s r.rid) r h hr
    · split
      · exact logOk_complete (accept s r.rid) r _ h hG.shutdown
      · exact logOk_enqueue_req (accept s r.rid) r h hr

theorem logOk_trySetting (s : State σ) (op : CmdOp) (c : Cmd) (hc : c.isReq = false)
    (h : LogOk F Q G s) : LogOk F Q G (trySetting s op c) := by
  unfold trySetting
  split
  · exact logOk_emit s _ h trivial
  · exact logOk_enqueue_other s c hc h

/-- a script step whose request (if it is a submission) satisfies `Q` -/
def StepQ (Q : Req → Prop) : Step → Prop
  | .submit _ _ r => Q r
  | _ => True

theorem logOk_applyStep (hG : ResOk F G) (s : State σ) (st : Step) (hst : StepQ Q st)
    (h : LogOk F Q G s) : LogOk F Q G (applyStep s st) := by
  cases st with
  | newSession => simp only [applyStep, addPhase]; split <;> exact h
  | waitEnabled => simp only [applyStep, addPhase]; split <;> exact h
  | failFor ms => simp only [applyStep, addPhase]; split <;> exact h
  | enable hd =>
    simp only [applyStep]; split
    · exact logOk_trySetting s _ _ rfl h
    · exact h
  | disable hd =>
    simp only [applyStep]; split
    · exact logOk_trySetting s _ _ rfl h
    · exact h
  | setDecode d =>
    simp only [applyStep]; split
    · exact logOk_trySetting s _ _ rfl h
    · exact h
  | shutdown hd =>
    simp only [applyStep]; split
    · exact logOk_enqueue_other s _ rfl h
    · exact h
  | cloneHandle => exact h
  | dropHandle i => exact h
  | submit op hd r =>
    simp only [applyStep]; split
    · exact logOk_submit hG s op r h hst
    · exact logOk_emit s _ h trivial
  | rx x => simp only [applyStep, pushRx]; split <;> exact h
  | failWrite => simp only [applyStep]; split <;> exact h
  | advance ms => exact h
  | abort => exact logOk_abort hG s h

theorem logOk_init (F : Framing σ) (Q : Req → Prop) (G : Res → Prop) (cap maxTo : Nat)
    (d : Decode) (coins : List Bool) : LogOk F Q G (State.init F cap maxTo d coins) :=
  ⟨by simp [State.init, reqsOf], by simp [State.init], by simp [State.init, txLog],
    by simp [State.init]⟩

/-- `LogOk` along every script all of whose submitted requests satisfy `Q` -/
theorem runState_logOk (hG : ResOk F G) (s : State σ) (steps : List Step)
    (hQ : ∀ st ∈ steps, StepQ Q st) (h : LogOk F Q G s) : LogOk F Q G (runState F s steps) :=
  runState_inv (logOk_taskInv hG) (StepQ Q) (fun s st hst h => logOk_applyStep hG s st hst h)
    s steps hQ h

/-- … from the initial state -/
theorem reachable_logOk (hG : ResOk F G) (cap maxTo : Nat) (d : Decode) (coins : List Bool)
    (steps : List Step) (hQ : ∀ st ∈ steps, StepQ Q st) :
    LogOk F Q G (runState F (State.init F cap maxTo d coins) steps) :=
  runState_logOk hG _ steps hQ (logOk_init F Q G cap maxTo d coins)

/-- every result is good for the trivial predicate -/
theorem resOk_true (F : Framing σ) : ResOk F (fun _ => True) :=
  ⟨fun _ => trivial, trivial, trivial, trivial, trivial, fun _ _ => trivial,
    fun _ _ _ _ _ _ _ => trivial, fun _ _ _ _ _ _ => trivial⟩

end

end Rodbus.Client
