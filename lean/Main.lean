import Driver
def main : IO Unit := IO.println "rodbus_model"
