import RodbusModel.Model.Crc
/-
  CRC-16/MODBUS algebra (core Lean only).

  `g` is GF(2)-linear, kills no non-zero 16-bit value and shifts out zero bits for free; hence
  the running CRC of a byte string is `g^(8·len)` applied to `init ⊕ N`, `N` the little-endian
  number of the string (bit order = transmission order), and an error pattern `E` is undetected
  iff `g^(8·len) E = 0`.
-/
namespace Rodbus.Crc

/-- little-endian number of a byte list: bit `k` of byte `j` is bit `8j+k` (transmission order) -/
def leNat : Bytes → Nat
  | [] => 0
  | b :: bs => b + 256 * leNat bs

/-- byte-wise xor of a frame with an error pattern -/
def xorBytes : Bytes → Bytes → Bytes
  | a :: as, b :: bs => (a ^^^ b) :: xorBytes as bs
  | _, _ => []

theorem xor_div_two (a b : Nat) : (a ^^^ b) / 2 = a / 2 ^^^ b / 2 := by
  have := Nat.shiftRight_xor_distrib (a := a) (b := b) (i := 1)
  simpa [Nat.shiftRight_eq_div_pow] using this

theorem xor_mod_two (a b : Nat) : (a ^^^ b) % 2 = (a % 2 + b % 2) % 2 := by
  have h := Nat.xor_mod_two_eq_one (a := a) (b := b)
  rcases Nat.mod_two_eq_zero_or_one a with ha | ha <;>
  rcases Nat.mod_two_eq_zero_or_one b with hb | hb <;>
  rcases Nat.mod_two_eq_zero_or_one (a ^^^ b) with hx | hx <;>
  simp_all

theorem xor_xor_cancel (x a b : Nat) : (a ^^^ x) ^^^ (b ^^^ x) = a ^^^ b := by
  apply Nat.eq_of_testBit_eq; intro i
  simp only [Nat.testBit_xor]
  cases a.testBit i <;> cases b.testBit i <;> cases x.testBit i <;> rfl

theorem g_xor (a b : Nat) : g (a ^^^ b) = g a ^^^ g b := by
  unfold g
  rw [xor_div_two, xor_mod_two]
  rcases Nat.mod_two_eq_zero_or_one a with ha | ha <;>
  rcases Nat.mod_two_eq_zero_or_one b with hb | hb <;>
  simp [ha, hb]
  · apply Nat.eq_of_testBit_eq; intro i; simp only [Nat.testBit_xor]
    cases (a/2).testBit i <;> cases (b/2).testBit i <;> cases P.testBit i <;> rfl
  · apply Nat.eq_of_testBit_eq; intro i; simp only [Nat.testBit_xor]
    cases (a/2).testBit i <;> cases (b/2).testBit i <;> cases P.testBit i <;> rfl
  · exact (xor_xor_cancel P (a/2) (b/2)).symm

theorem g_zero : g 0 = 0 := by simp [g]
theorem g_double (m : Nat) : g (2 * m) = m := by unfold g; simp

theorem iter_xor (n a b : Nat) : iter g n (a ^^^ b) = iter g n a ^^^ iter g n b := by
  induction n generalizing a b with
  | zero => rfl
  | succ n ih => simp only [iter]; rw [g_xor, ih]

theorem iter_zero (n : Nat) : iter g n 0 = 0 := by
  induction n with
  | zero => rfl
  | succ n ih => simp only [iter, g_zero]; exact ih

theorem iter_add (f : Nat → Nat) (m n s : Nat) : iter f (m + n) s = iter f n (iter f m s) := by
  induction m generalizing s with
  | zero => simp [iter]
  | succ m ih => rw [Nat.succ_add]; simp only [iter]; exact ih _

/-- shifting out `k` zero bits -/
theorem iter_shift (k w : Nat) : iter g k (w * 2 ^ k) = w := by
  induction k generalizing w with
  | zero => simp [iter]
  | succ k ih =>
    simp only [iter]
    have : w * 2 ^ (k + 1) = 2 * (w * 2 ^ k) := by rw [Nat.pow_succ]; ac_rfl
    rw [this, g_double]; exact ih w

theorem g_lt (s : Nat) (h : s < 65536) : g s < 65536 := by
  unfold g P
  split
  · exact Nat.xor_lt_two_pow (n := 16) (by omega) (by omega)
  · omega

theorem iter_lt (n s : Nat) (h : s < 65536) : iter g n s < 65536 := by
  induction n generalizing s with
  | zero => exact h
  | succ n ih => simp only [iter]; exact ih _ (g_lt s h)

/-- `g` has no nonzero 16-bit value in its kernel: bit 15 of `g s` is the low bit of `s` -/
theorem g_eq_zero (s : Nat) (h : s < 65536) (hz : g s = 0) : s = 0 := by
  unfold g at hz
  split at hz
  · -- s odd: (s/2) ^^^ P = 0 means s/2 = P, but s/2 < 32768 ≤ P
    rename_i hodd
    have h1 : s / 2 = P := by
      have := congrArg (· ^^^ P) hz
      simp only [Nat.zero_xor] at this
      have h2 : (s / 2 ^^^ P) ^^^ P = s / 2 := by
        apply Nat.eq_of_testBit_eq; intro i; simp only [Nat.testBit_xor]
        cases (s/2).testBit i <;> cases P.testBit i <;> rfl
      rw [h2] at this; exact this
    unfold P at h1; omega
  · omega

theorem iter_eq_zero (n s : Nat) (h : s < 65536) (hz : iter g n s = 0) : s = 0 := by
  induction n generalizing s with
  | zero => exact hz
  | succ n ih =>
    simp only [iter] at hz
    exact g_eq_zero s h (ih (g s) (g_lt s h) hz)

/-- every burst of at most 16 bits is detected: its syndrome is nonzero -/
theorem burst_detected (n k w : Nat) (hw : 0 < w) (hw16 : w < 65536) (hk : k ≤ n) :
    iter g n (w * 2 ^ k) ≠ 0 := by
  intro hz
  have : n = k + (n - k) := by omega
  rw [this, iter_add, iter_shift] at hz
  have := iter_eq_zero (n - k) w hw16 hz
  omega

/-- bounded check that the register started at 1 does not return to 1 -/
def chk : Nat → Nat → Bool
  | 0, _ => true
  | n+1, s => let s' := g s; s' != 1 && chk n s'

theorem chk_spec (n s : Nat) (h : chk n s = true) (d : Nat) (hd1 : 1 ≤ d) (hdn : d ≤ n) :
    iter g d s ≠ 1 := by
  induction n generalizing s d with
  | zero => omega
  | succ n ih =>
    simp only [chk, Bool.and_eq_true, bne_iff_ne, ne_eq] at h
    obtain ⟨h1, h2⟩ := h
    cases d with
    | zero => omega
    | succ d =>
      simp only [iter]
      cases d with
      | zero => simpa [iter] using h1
      | succ d => exact ih (g s) h2 (d + 1) (by omega) (by omega)

theorem order_ok : chk 2100 1 = true := by decide +kernel

/-- every double-bit error within 2100 bit positions is detected -/
theorem double_bit_detected (n i j : Nat) (hij : i < j) (hjn : j < n) (hd : j - i ≤ 2100) :
    iter g n (2 ^ i ^^^ 2 ^ j) ≠ 0 := by
  intro hz
  -- shift out i zeros, then j - i more steps
  have e1 : 2 ^ i ^^^ 2 ^ j = (1 ^^^ 2 ^ (j - i)) * 2 ^ i := by
    have : 2 ^ j = 2 ^ (j - i) * 2 ^ i := by rw [← Nat.pow_add]; congr 1; omega
    rw [this]
    have hs := Nat.shiftLeft_xor_distrib (a := 1) (b := 2 ^ (j - i)) (i := i)
    simp only [Nat.shiftLeft_eq] at hs
    rw [hs]; simp
  have hn : n = i + ((j - i) + (n - j)) := by omega
  rw [e1, hn, iter_add, iter_shift, iter_add, iter_xor] at hz
  have e2 : iter g (j - i) (2 ^ (j - i)) = 1 := by
    have := iter_shift (j - i) 1; simpa using this
  rw [e2] at hz
  have hlt : iter g (j - i) 1 ^^^ 1 < 65536 :=
    Nat.xor_lt_two_pow (n := 16) (iter_lt _ 1 (by omega)) (by omega)
  have h0 := iter_eq_zero (n - j) _ hlt hz
  have h1 : iter g (j - i) 1 = 1 := by
    have := congrArg (· ^^^ 1) h0
    simp only [Nat.zero_xor] at this
    have h2 : (iter g (j - i) 1 ^^^ 1) ^^^ 1 = iter g (j - i) 1 := by
      apply Nat.eq_of_testBit_eq; intro t; simp only [Nat.testBit_xor]
      cases (iter g (j - i) 1).testBit t <;> cases (1 : Nat).testBit t <;> rfl
    rw [h2] at this; exact this
  exact chk_spec 2100 1 order_ok (j - i) (by omega) hd h1

theorem add_eq_xor (b m : Nat) (hb : b < 256) : b + 256 * m = b ^^^ 256 * m := by
  apply Nat.eq_of_testBit_eq; intro j
  have h1 : b + 256 * m = 2 ^ 8 * m + b := by omega
  have h2 : (256 : Nat) * m = 2 ^ 8 * m := by simp
  rw [h1, Nat.testBit_two_pow_mul_add m (by simpa using hb), Nat.testBit_xor, h2, Nat.testBit_two_pow_mul]
  by_cases hj : j < 8
  · have h8 : ¬ (8 ≤ j) := by omega
    simp [hj, h8]
  · have : b.testBit j = false := Nat.testBit_lt_two_pow (by
      have : 2 ^ 8 ≤ 2 ^ j := Nat.pow_le_pow_right (by omega) (by omega)
      omega)
    simp [hj, this]; omega

theorem leNat_lt (bs : List Nat) (h : Bytes.WF bs) : leNat bs < 2 ^ (8 * bs.length) := by
  induction bs with
  | nil => simp [leNat]
  | cons b bs ih =>
    have hb : b < 256 := h b (by simp)
    have := ih (fun x hx => h x (by simp [hx]))
    simp only [leNat, List.length_cons]
    have e : 2 ^ (8 * (bs.length + 1)) = 256 * 2 ^ (8 * bs.length) := by
      rw [Nat.mul_add, Nat.pow_add]
      have : (2:Nat) ^ (8 * 1) = 256 := by decide
      rw [this]; omega
    omega

/-- the byte-wise table/bit algorithm is `8·len` register steps applied to `s ⊕ N` -/
theorem crcFrom_eq (bs : List Nat) (h : Bytes.WF bs) (s : Nat) :
    crcFrom s bs = iter g (8 * bs.length) (s ^^^ leNat bs) := by
  induction bs generalizing s with
  | nil => simp [crcFrom, leNat, iter]
  | cons b bs ih =>
    have hb : b < 256 := h b (by simp)
    have ih' := ih (fun x hx => h x (by simp [hx])) (byteStep s b)
    simp only [crcFrom, List.foldl_cons] at ih' ⊢
    rw [ih']
    simp only [leNat, List.length_cons, byteStep]
    have e : 8 * (bs.length + 1) = 8 + 8 * bs.length := by omega
    rw [e, iter_add]
    congr 1
    rw [add_eq_xor b _ hb, ← Nat.xor_assoc, iter_xor 8 (s ^^^ b) (256 * leNat bs)]
    have : 256 * leNat bs = leNat bs * 2 ^ 8 := by simp; omega
    rw [this, iter_shift]

theorem xorBytes_wf (f e : List Nat) (hf : Bytes.WF f) (he : Bytes.WF e) : Bytes.WF (xorBytes f e) := by
  induction f generalizing e with
  | nil => intro b hb; simp [xorBytes] at hb
  | cons a as ih =>
    cases e with
    | nil => intro b hb; simp [xorBytes] at hb
    | cons c cs =>
      intro b hb
      simp only [xorBytes, List.mem_cons] at hb
      rcases hb with hb | hb
      · subst hb
        exact Nat.xor_lt_two_pow (n := 8) (hf a (by simp)) (he c (by simp))
      · exact ih cs (fun x hx => hf x (by simp [hx])) (fun x hx => he x (by simp [hx])) b hb

theorem xorBytes_length (f e : List Nat) (hl : f.length = e.length) : (xorBytes f e).length = f.length := by
  induction f generalizing e with
  | nil => simp [xorBytes]
  | cons a as ih =>
    cases e with
    | nil => simp at hl
    | cons c cs => simp [xorBytes, ih cs (by simpa using hl)]

theorem leNat_xorBytes (f e : List Nat) (hf : Bytes.WF f) (he : Bytes.WF e) (hl : f.length = e.length) :
    leNat (xorBytes f e) = leNat f ^^^ leNat e := by
  induction f generalizing e with
  | nil => cases e <;> simp_all [xorBytes, leNat]
  | cons a as ih =>
    cases e with
    | nil => simp at hl
    | cons c cs =>
      have ha := hf a (by simp); have hc := he c (by simp)
      have hac : a ^^^ c < 256 := Nat.xor_lt_two_pow (n := 8) ha hc
      have ih' := ih cs (fun x hx => hf x (by simp [hx])) (fun x hx => he x (by simp [hx])) (by simpa using hl)
      simp only [xorBytes, leNat]
      rw [ih', add_eq_xor _ _ hac, add_eq_xor _ _ ha, add_eq_xor _ _ hc]
      apply Nat.eq_of_testBit_eq; intro j
      have m : ∀ x y : Nat, 256 * (x ^^^ y) = 256 * x ^^^ 256 * y := by
        intro x y
        have := Nat.shiftLeft_xor_distrib (a := x) (b := y) (i := 8)
        simp only [Nat.shiftLeft_eq] at this
        have e8 : (2:Nat)^8 = 256 := by decide
        rw [e8] at this; rw [Nat.mul_comm 256, this]; ac_rfl
      rw [m]; simp only [Nat.testBit_xor]
      cases a.testBit j <;> cases c.testBit j <;> cases (256 * leNat as).testBit j <;> cases (256 * leNat cs).testBit j <;> rfl


/-! ### injectivity, range, and the residue bridge -/

theorem xor_cancel_right (a x : Nat) : (a ^^^ x) ^^^ x = a := by
  rw [Nat.xor_assoc, Nat.xor_self, Nat.xor_zero]

theorem xor_eq_zero_iff (a b : Nat) : a ^^^ b = 0 ↔ a = b := by
  constructor
  · intro h
    have := congrArg (· ^^^ b) h
    simp only [xor_cancel_right, Nat.zero_xor] at this
    exact this
  · intro h; subst h; exact Nat.xor_self a

/-- `g` is injective on 16-bit register values -/
theorem g_injective (a b : Nat) (ha : a < 65536) (hb : b < 65536) (h : g a = g b) : a = b := by
  have h0 : g (a ^^^ b) = 0 := by rw [g_xor, h, Nat.xor_self]
  exact (xor_eq_zero_iff a b).1 (g_eq_zero _ (Nat.xor_lt_two_pow (n := 16) ha hb) h0)

/-- any number of register steps is injective on 16-bit values -/
theorem iter_injective (n a b : Nat) (ha : a < 65536) (hb : b < 65536)
    (h : iter g n a = iter g n b) : a = b := by
  have h0 : iter g n (a ^^^ b) = 0 := by rw [iter_xor, h, Nat.xor_self]
  exact (xor_eq_zero_iff a b).1 (iter_eq_zero n _ (Nat.xor_lt_two_pow (n := 16) ha hb) h0)

theorem iter_eq_zero_iff (n s : Nat) (h : s < 65536) : iter g n s = 0 ↔ s = 0 :=
  ⟨iter_eq_zero n s h, fun h0 => by subst h0; exact iter_zero n⟩

theorem byteStep_lt (s b : Nat) (hs : s < 65536) (hb : b < 256) : byteStep s b < 65536 :=
  iter_lt 8 _ (Nat.xor_lt_two_pow (n := 16) hs (by omega))

theorem crcFrom_lt (bs : Bytes) (h : Bytes.WF bs) (s : Nat) (hs : s < 65536) :
    crcFrom s bs < 65536 := by
  induction bs generalizing s with
  | nil => simpa [crcFrom] using hs
  | cons b bs ih =>
    have hb : b < 256 := h b (by simp)
    have := ih (fun x hx => h x (by simp [hx])) (byteStep s b) (byteStep_lt s b hs hb)
    simpa [crcFrom] using this

/-- the CRC of a byte string is a 16-bit value -/
theorem crc_lt (bs : Bytes) (h : Bytes.WF bs) : crc bs < 65536 :=
  crcFrom_lt bs h 0xFFFF (by decide)

theorem crcFrom_append (s : Nat) (a b : Bytes) :
    crcFrom s (a ++ b) = crcFrom (crcFrom s a) b := by
  simp [crcFrom, List.foldl_append]

theorem crc_append (a b : Bytes) : crc (a ++ b) = crcFrom (crc a) b := crcFrom_append _ a b

theorem leNat_u16le (c : Nat) (h : c < 65536) : leNat (u16le c) = c := by
  simp only [u16le, leNat]; omega

/-- bridge: the running CRC over body and trailer is 0 exactly when the trailer is the CRC of the
    body, low byte first -/
theorem crc_trailer_zero_iff (body : Bytes) (c : Nat) (hc : c < 65536) (hb : Bytes.WF body) :
    crc (body ++ u16le c) = 0 ↔ c = crc body := by
  rw [crc_append, crcFrom_eq _ (u16le_wf c), leNat_u16le c hc]
  have hl : (u16le c).length = 2 := rfl
  rw [hl, iter_eq_zero_iff _ _ (Nat.xor_lt_two_pow (n := 16) (crc_lt body hb) hc), xor_eq_zero_iff]
  exact eq_comm

/-- a frame formed as `body ++ crc(body)` (low byte first) has residue 0 -/
theorem crc_valid_frame (body : Bytes) (hb : Bytes.WF body) :
    crc (body ++ u16le (crc body)) = 0 :=
  (crc_trailer_zero_iff body _ (crc_lt body hb) hb).2 rfl

/-! ### error patterns and their syndromes -/

/-- every single-bit error is detected -/
theorem single_bit_detected (n k : Nat) (hk : k ≤ n) : iter g n (2 ^ k) ≠ 0 := by
  have := burst_detected n k 1 (by omega) (by omega) hk
  simpa using this

/-- exactly one bit of the frame is flipped -/
def SingleBit (e : Bytes) : Prop := ∃ k, leNat e = 2 ^ k

/-- exactly two bits of the frame are flipped -/
def DoubleBit (e : Bytes) : Prop := ∃ i j, i < j ∧ leNat e = 2 ^ i ^^^ 2 ^ j

/-- the flipped bits lie within a window of 16 consecutive bits in transmission order
    (`w` = non-zero window contents, `k` = position of the window) -/
def Burst16 (e : Bytes) : Prop := ∃ k w, 0 < w ∧ w < 65536 ∧ leNat e = w * 2 ^ k

theorem SingleBit.burst {e : Bytes} (h : SingleBit e) : Burst16 e := by
  obtain ⟨k, hk⟩ := h
  exact ⟨k, 1, by omega, by omega, by simpa using hk⟩

/-- the residue of a corrupted string: residue of the original xor the syndrome of the error -/
theorem crc_xorBytes (f e : Bytes) (hf : Bytes.WF f) (he : Bytes.WF e)
    (hl : f.length = e.length) :
    crc (xorBytes f e) = crc f ^^^ iter g (8 * f.length) (leNat e) := by
  have hx := xorBytes_wf f e hf he
  unfold crc
  rw [crcFrom_eq _ hx, xorBytes_length f e hl, leNat_xorBytes f e hf he hl,
    ← Nat.xor_assoc, iter_xor, crcFrom_eq _ hf]

theorem syndrome_burst (e : Bytes) (he : Bytes.WF e) (h : Burst16 e) :
    iter g (8 * e.length) (leNat e) ≠ 0 := by
  obtain ⟨k, w, hw, hw16, hE⟩ := h
  have hlt := leNat_lt e he
  rw [hE] at hlt ⊢
  have hk : k ≤ 8 * e.length := by
    apply Nat.le_of_not_lt; intro hc
    have : 2 ^ (8 * e.length) ≤ 2 ^ k := Nat.pow_le_pow_right (by omega) (by omega)
    have : 2 ^ k ≤ w * 2 ^ k := Nat.le_mul_of_pos_left _ hw
    omega
  exact burst_detected _ k w hw hw16 hk

theorem syndrome_double (e : Bytes) (he : Bytes.WF e) (h : DoubleBit e) (hlen : e.length ≤ 262) :
    iter g (8 * e.length) (leNat e) ≠ 0 := by
  obtain ⟨i, j, hij, hE⟩ := h
  have hlt := leNat_lt e he
  rw [hE] at hlt ⊢
  have hbit : (2 ^ i ^^^ 2 ^ j).testBit j = true := by
    have : i ≠ j := by omega
    simp [Nat.testBit_xor, this]
  have hge := Nat.ge_two_pow_of_testBit hbit
  have hj : j < 8 * e.length := by
    apply Nat.lt_of_not_le; intro hc
    have : 2 ^ (8 * e.length) ≤ 2 ^ j := Nat.pow_le_pow_right (by omega) hc
    omega
  exact double_bit_detected _ i j hij hj (by omega)

/-- C06 core: a string with residue 0 no longer has residue 0 after a single-bit error, a burst
    of at most 16 bits, or (up to 262 bytes) a double-bit error -/
theorem corrupted_residue_ne_zero (f e : Bytes) (hf : Bytes.WF f) (he : Bytes.WF e)
    (hl : f.length = e.length) (hvalid : crc f = 0)
    (hpat : SingleBit e ∨ Burst16 e ∨ (DoubleBit e ∧ e.length ≤ 262)) :
    crc (xorBytes f e) ≠ 0 := by
  rw [crc_xorBytes f e hf he hl, hvalid, Nat.zero_xor, hl]
  rcases hpat with h | h | ⟨h, h262⟩
  · exact syndrome_burst e he h.burst
  · exact syndrome_burst e he h
  · exact syndrome_double e he h h262

/-! ### bit numbering of error patterns -/

theorem leNat_replicate_zero (m : Nat) : leNat (List.replicate m 0) = 0 := by
  induction m with
  | zero => rfl
  | succ m ih => simp [List.replicate_succ, leNat, ih]

/-- bit `b` of byte `j` is bit `8j + b` of the frame -/
theorem leNat_bit_at (j m b : Nat) :
    leNat (List.replicate j 0 ++ 2 ^ b :: List.replicate m 0) = 2 ^ (8 * j + b) := by
  induction j with
  | zero => simp [leNat, leNat_replicate_zero]
  | succ j ih =>
    simp only [List.replicate_succ, List.cons_append, leNat, ih]
    have : 8 * (j + 1) + b = 8 + (8 * j + b) := by omega
    have e : (2 : Nat) ^ (8 + (8 * j + b)) = 256 * 2 ^ (8 * j + b) := by
      rw [Nat.pow_add]
    rw [this, e, Nat.zero_add]

end Rodbus.Crc
