import RodbusModel.Lemmas.Lifecycle
import RodbusModel.Spec.LifecycleObs
/-
  The connection object of the life-cycle model (`S.conn`, `S.unreported`, `Ev.closed`): it exists
  exactly from the moment the attempt has succeeded (`Connected` is announced next) until the
  session ends, it is closed before the next state is announced, and the log shows that
  (`Spec.LifeObs.connOk`).  Used by Props/C13Conn.lean.
-/
namespace Rodbus.Life
open Rodbus.Spec.Life Rodbus.Spec.LifeObs

/-- phases in which the task holds a connection -/
def isSession : Phase → Bool
  | .sessionStart _ | .session _ => true
  | _ => false

def gateConnected : Pos → Bool
  | .gate .connected _ => true
  | _ => false

/-- the log shows an open connection: `Connected` has been logged and `closed` has not -/
def connFlag (s : S) (pos : Pos) : Bool := (s.conn && !gateConnected pos) || s.unreported

/-- invariant at an iteration of `advance` that started in a phase with `isSession = b0` -/
def ConnPhase (b0 : Bool) (ph : Phase) (s : S) : Prop :=
  (ph ≠ .afterDisable → s.unreported = false) ∧ (s.conn = true ↔ isSession ph = true) ∧
  (isSession ph || s.unreported) = b0

/-- invariant at a blocking point -/
def ConnPos (s : S) : Pos → Prop
  | .gate st next =>
    if st = .connected then s.conn = true ∧ s.unreported = false ∧ isSession next = true
    else s.conn = false ∧ isSession next = false
  | .idle ph => (ph ≠ .afterDisable → s.unreported = false) ∧ (s.conn = true ↔ isSession ph = true)
  | .done => s.conn = false ∧ s.unreported = false

theorem flush_conn_aux (q : List Cmd) (s : S) :
    let s' := q.foldl (fun s c => match c with
      | .request id => s.emit (.done id "shutdown")
      | _ => s) s
    s'.conn = s.conn ∧ s'.unreported = s.unreported := by
  induction q generalizing s with
  | nil => simp
  | cons c q ih =>
    simp only [List.foldl_cons]
    cases c <;> simp_all

@[simp] theorem flush_conn (s : S) : (flush s).conn = s.conn := (flush_conn_aux s.queue s).1
@[simp] theorem flush_unreported (s : S) : (flush s).unreported = s.unreported :=
  (flush_conn_aux s.queue s).2

@[simp] theorem nb_conn (s : S) : (nextBehaviour s).2.conn = s.conn := by
  unfold nextBehaviour; split <;> rfl
@[simp] theorem nb_unreported (s : S) : (nextBehaviour s).2.unreported = s.unreported := by
  unfold nextBehaviour; split <;> rfl

theorem step_conn (b0 : Bool) (ph : Phase) (s : S) (h : ConnPhase b0 ph s) :
    (step ph s).sat (ConnPhase b0) (fun s' pos => ConnPos s' pos ∧ connFlag s' pos = b0) := by
  obtain ⟨h1, h2, h3⟩ := h
  unfold step
  cases ph <;> simp [isSession] at h1 h2 h3
  all_goals (simp only []; repeat' split)
  all_goals simp_all [ConnPhase, ConnPos, connFlag, gateConnected, isSession]

theorem advance_conn (b0 : Bool) (fuel : Nat) (ph : Phase) (s : S) (h : ConnPhase b0 ph s) :
    ConnPos (advance fuel ph s).1 (advance fuel ph s).2 ∧
      connFlag (advance fuel ph s).1 (advance fuel ph s).2 = b0 := by
  refine advance_inv (P := ConnPhase b0) (Q := fun s' pos => ConnPos s' pos ∧ connFlag s' pos = b0)
    ?_ (step_conn b0) fuel ph s h
  intro ph s h
  obtain ⟨h1, h2, h3⟩ := h
  cases ph <;> simp_all [ConnPos, connFlag, gateConnected, isSession]

/-! ## events that do not concern the connection automaton -/

def neutral : Ev → Bool
  | .gate _ | .closed => false
  | _ => true

theorem connRun_append (n : Nat) (a b : List Ev) :
    connRun n (a ++ b) = (connRun n a).bind (fun m => connRun m b) := by
  induction a generalizing n with
  | nil => simp [connRun]
  | cons e a ih =>
    simp only [List.cons_append, connRun]
    cases connStep n e with
    | none => simp
    | some m => simpa using ih m

theorem connRun_neutral (n : Nat) (hn : n = 0 ∨ n = 1) (l : List Ev)
    (hl : ∀ e ∈ l, neutral e = true) : connRun n l = some n := by
  induction l with
  | nil => rfl
  | cons e l ih =>
    have he := hl e (by simp)
    have := ih (fun e h => hl e (List.mem_cons_of_mem _ h))
    rcases hn with rfl | rfl <;> cases e <;> simp_all [connRun, connStep, neutral]

/-- `s'` has the log of `s` plus events that do not concern the connection automaton -/
def NeutralExt (s s' : S) : Prop := ∃ evs, s'.log = s.log ++ evs ∧ ∀ e ∈ evs, neutral e = true

theorem NeutralExt.refl (s : S) : NeutralExt s s := ⟨[], by simp, by simp⟩

theorem NeutralExt.trans {a b c : S} (h1 : NeutralExt a b) (h2 : NeutralExt b c) :
    NeutralExt a c := by
  obtain ⟨e1, l1, n1⟩ := h1
  obtain ⟨e2, l2, n2⟩ := h2
  refine ⟨e1 ++ e2, by rw [l2, l1, List.append_assoc], ?_⟩
  intro e he
  rcases List.mem_append.1 he with h | h
  · exact n1 e h
  · exact n2 e h

theorem NeutralExt.of_log {s s' : S} (evs : List Ev) (h : s'.log = s.log ++ evs)
    (hn : ∀ e ∈ evs, neutral e = true) : NeutralExt s s' := ⟨evs, h, hn⟩

theorem NeutralExt.of_drop {s s' : S} (h1 : s.log <+: s'.log)
    (h2 : ∀ e ∈ s'.log.drop s.log.length, neutral e = true) : NeutralExt s s' := by
  obtain ⟨t, ht⟩ := h1
  refine ⟨t, ht.symm, ?_⟩
  rw [← ht] at h2
  simpa using h2

theorem shutdownEvents_neutral (q : List Cmd) : ∀ e ∈ shutdownEvents q, neutral e = true := by
  intro e he
  simp only [shutdownEvents, List.mem_filterMap] at he
  obtain ⟨c, _, hc⟩ := he
  cases c <;> simp at hc
  subst hc; rfl

theorem step_neutral (ph : Phase) (s : S) : NeutralExt s (step ph s).state := by
  apply NeutralExt.of_drop
  · unfold step
    repeat' split
    all_goals simp [flush_log]
  · unfold step
    repeat' split
    all_goals simp [flush_log, neutral]
    all_goals exact shutdownEvents_neutral _

theorem advance_neutral (fuel : Nat) (ph : Phase) (s : S) : NeutralExt s (advance fuel ph s).1 :=
  advance_rel (R := NeutralExt) NeutralExt.refl (fun _ _ _ => NeutralExt.trans) step_neutral
    fuel ph s

theorem applyAction_neutral (s : S) (a : Action) : NeutralExt s (applyAction s a) := by
  apply NeutralExt.of_drop
  · unfold applyAction
    split
    · simp
    · cases a <;> simp
  · unfold applyAction
    split
    · simp
    · cases a <;> simp [neutral]

theorem foldl_applyAction_neutral (acts : List Action) (s : S) :
    NeutralExt s (acts.foldl applyAction s) := by
  induction acts generalizing s with
  | nil => exact NeutralExt.refl _
  | cons a acts ih => exact (applyAction_neutral s a).trans (ih _)

theorem applyDone_neutral (s : S) (a : Action) : NeutralExt s (applyDone s a) := by
  apply NeutralExt.of_drop
  · unfold applyDone
    split
    · simp
    · cases a <;> simp
  · unfold applyDone
    split
    · simp
    · cases a <;> simp [neutral]

theorem foldl_applyDone_neutral (acts : List Action) (s : S) :
    NeutralExt s (acts.foldl applyDone s) := by
  induction acts generalizing s with
  | nil => exact NeutralExt.refl _
  | cons a acts ih => exact (applyDone_neutral s a).trans (ih _)

theorem NeutralExt.connRun {s s' : S} (h : NeutralExt s s') (n : Nat) (hn : n = 0 ∨ n = 1)
    (hs : connRun 0 s.log = some n) : connRun 0 s'.log = some n := by
  obtain ⟨evs, hl, hne⟩ := h
  rw [hl, connRun_append, hs]
  exact connRun_neutral n hn evs hne

/-! ## the run invariant -/

/-- the connection invariant of a run -/
def RunConn (s : S) (pos : Pos) : Prop :=
  ConnPos s pos ∧ connRun 0 s.log = some (if connFlag s pos then 1 else 0)

theorem runConn_start (s0 : S) (h : Initial s0) : RunConn (start s0).1 (start s0).2 := by
  obtain ⟨_, _, _, h4, _, _, h7, h8⟩ := h
  simp [RunConn, start, ConnPos, connFlag, h4, h7, h8, isSession, connRun, gateConnected]

theorem applyAction_conn_fields (acts : List Action) (s : S) :
    (acts.foldl applyAction s).conn = s.conn ∧ (acts.foldl applyAction s).unreported = s.unreported := by
  have := foldl_applyAction_frame acts s
  exact ⟨this.2.2.2.2.2.2.2.2.1, this.2.2.2.2.2.2.2.2.2.1⟩

theorem stop_runConn (s : S) (pos : Pos) (acts : List Action) (h : RunConn s pos) :
    RunConn (stop s pos acts).1 (stop s pos acts).2 := by
  obtain ⟨hpos, hlog⟩ := h
  cases pos with
  | done =>
    simp only [stop]
    have hf := foldl_applyDone_frame acts s
    have hn := foldl_applyDone_neutral acts s
    generalize acts.foldl applyDone s = s2 at hf hn
    obtain ⟨_, _, _, _, _, _, _, _, _, hc, hu, _⟩ := hf
    simp only [ConnPos] at hpos
    refine ⟨by simp only [ConnPos]; rw [hc, hu]; exact hpos, ?_⟩
    have hflag : connFlag s2 .done = connFlag s .done := by simp [connFlag, hc, hu]
    rw [hflag]
    exact hn.connRun _ (by split <;> simp) hlog
  | idle ph =>
    simp only [stop]
    obtain ⟨hu, hc⟩ := hpos
    have hfr := applyAction_conn_fields acts (s.emit .idle)
    have hn := (NeutralExt.of_log (s := s) (s' := s.emit .idle) [.idle] rfl (by simp [neutral])).trans
      (foldl_applyAction_neutral acts (s.emit .idle))
    generalize acts.foldl applyAction (s.emit .idle) = s2 at hfr hn
    have hflag : connFlag s (.idle ph) = (isSession ph || s.unreported) := by
      cases hs : isSession ph <;> simp_all [connFlag, gateConnected]
    have hP : ConnPhase (isSession ph || s.unreported) ph s2 := by
      refine ⟨fun h => by rw [hfr.2]; exact hu h, by rw [hfr.1]; exact hc, by rw [hfr.2]; simp⟩
    have hadv := advance_conn _ (fuelFor s2) ph s2 hP
    have hn2 := hn.trans (advance_neutral (fuelFor s2) ph s2)
    refine ⟨hadv.1, ?_⟩
    rw [hadv.2]
    rw [hflag] at hlog
    exact hn2.connRun _ (by split <;> simp) hlog
  | gate st next =>
    simp only [stop]
    -- the log after the callback: `closed` if the peer has seen the close, then the state
    have hgate : connRun 0 (s.report.emit (.gate st)).log =
        some (if isSession next then 1 else 0) ∧
        (s.report.emit (.gate st)).unreported = false ∧
        ((s.report.emit (.gate st)).conn = true ↔ isSession next = true) := by
      by_cases hst : st = .connected
      · subst hst
        simp only [ConnPos, ↓reduceIte] at hpos
        obtain ⟨hc, hu, hn⟩ := hpos
        have hflag : connFlag s (.gate .connected next) = false := by
          simp [connFlag, gateConnected, hu]
        rw [hflag] at hlog
        rw [report_of_false s hu]
        refine ⟨?_, hu, by simp [hc, hn]⟩
        simp only [emit_log, connRun_append, hlog, hn]
        rfl
      · simp only [ConnPos, hst, ↓reduceIte] at hpos
        obtain ⟨hc, hn⟩ := hpos
        have hflag : connFlag s (.gate st next) = s.unreported := by
          simp [connFlag, hc]
        rw [hflag] at hlog
        refine ⟨?_, by simp, by simp [hc, hn]⟩
        cases hu : s.unreported
        · rw [report_of_false s hu]
          rw [hu] at hlog
          simp only [emit_log, connRun_append, hlog, hn]
          cases st <;> simp_all [connRun, connStep]
        · rw [hu] at hlog
          have hrep : s.report.log = s.log ++ [.closed] := by simp [S.report, hu, S.emit]
          simp only [emit_log, hrep, connRun_append, hlog, hn, List.append_assoc]
          cases st <;> simp_all [connRun, connStep]
    obtain ⟨hl0, hu0, hc0⟩ := hgate
    have hfr := applyAction_conn_fields acts (s.report.emit (.gate st))
    have hn := foldl_applyAction_neutral acts (s.report.emit (.gate st))
    generalize acts.foldl applyAction (s.report.emit (.gate st)) = s2 at hfr hn
    have hP : ConnPhase (isSession next) next s2 := by
      refine ⟨fun _ => by rw [hfr.2]; exact hu0, by rw [hfr.1]; exact hc0, by rw [hfr.2, hu0]; simp⟩
    have hadv := advance_conn (isSession next) (fuelFor s2) next s2 hP
    have hn2 := hn.trans (advance_neutral (fuelFor s2) next s2)
    refine ⟨hadv.1, ?_⟩
    rw [hadv.2]
    exact hn2.connRun _ (by split <;> simp) hl0

theorem runStops_runConn (script : List (List Action)) (s : S) (pos : Pos) (h : RunConn s pos) :
    RunConn (runStops s pos script).1 (runStops s pos script).2 := by
  induction script generalizing s pos with
  | nil => simpa [runStops] using h
  | cons acts rest ih =>
    rw [runStops_cons]
    exact ih _ _ (stop_runConn s pos acts h)

theorem Reachable.runConn {s pos} (h : Reachable s pos) : RunConn s pos := by
  obtain ⟨s0, script, hi, hr⟩ := h
  have := runStops_runConn script _ _ (runConn_start s0 hi)
  unfold run at hr
  rw [hr] at this
  exact this

end Rodbus.Life
