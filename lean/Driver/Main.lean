import Driver.Server
import Driver.Misc
import Driver.Life
import Driver.Net
import Driver.Tls
import Driver.Client
import Driver.Ffi
import Driver.Sport
import Driver.Sserver
/-
  Line-protocol driver: one case per input line, one output line `<model> ## <spec>` per case.
-/
namespace Rodbus.Driver

def runCase (line : String) : String :=
  let tok := (line.trimAscii.toString.splitOn " ").filter (· ≠ "")
  match tok.head? with
  | some "range" => let (m, s) := runRange tok; s!"{m} ## {s}"
  | some "crc" => let (m, s) := runCrc tok; s!"{m} ## {s}"
  | some "retry" => let (m, s) := runRetry tok; s!"{m} ## {s}"
  | some "trk" => let (m, s) := runTrk tok; s!"{m} ## {s}"
  | some "flt" => let (m, s) := runFlt tok; s!"{m} ## {s}"
  | some "fltm" => let (m, s) := runFltm tok; s!"{m} ## {s}"
  | some "life" => let (m, s) := runLife tok; s!"{m} ## {s}"
  | some "slife" => let (m, s) := runSlife tok; s!"{m} ## {s}"
  | some "sport" => let (m, s) := runSport tok; s!"{m} ## {s}"
  | some "sserver" => let (m, s) := runSserver tok; s!"{m} ## {s}"
  | some "net" => let (m, s) := runNet tok; s!"{m} ## {s}"
  | some "tls" => let (m, s) := runTls tok; s!"{m} ## {s}"
  | some "role" => let (m, s) := runRole tok; s!"{m} ## {s}"
  | some "cl" =>
    -- every output the model admits over the scheduler's choices (`tokio::select!` order),
    -- the default-order output first; the specification side is the same set
    let all := " || ".intercalate (runClAll tok)
    s!"{all} ## {all}"
  | some "clq" => let m := runClState tok; s!"{m} ## {m}"
  | some "ffi" => let (m, s) := runFfi tok; s!"{m} ## {s}"
  | some "rdr" => let (m, s) := runRdr tok; s!"{m} ## {s}"
  | some "srv" => let (m, s) := runSrv tok; s!"{m} ## {s}"
  | some other => s!"unknown-suite {other} ## unknown-suite {other}"
  | none => ""

partial def loop (h : IO.FS.Stream) (out : IO.FS.Stream) : IO Unit := do
  let line ← h.getLine
  if line.isEmpty then return ()
  let t := line.trimAscii.toString
  if t.isEmpty || t.startsWith "#" then loop h out
  else
    out.putStrLn (runCase t)
    loop h out

end Rodbus.Driver
