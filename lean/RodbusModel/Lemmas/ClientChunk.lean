import RodbusModel.Lemmas.ClientReaderSafe
import RodbusModel.Lemmas.ClientMeaning
/-
  Chunking independence in the client role (C05 / C06 for the client task): one delivery `a ++ b`
  of the transport against the two deliveries `a`, `b`.

  The proof has three layers.
  * the reader: `readerPoll_split` — when the delivery `a` alone leaves the reader blocked in
    `(st1, rb1)`, polling the reader on `a ++ b` from the original state gives exactly what polling
    it on `b` from `(st1, rb1)` gives (`HopInv`: the parser, asked again with more bytes, continues
    where it stopped);
  * one tick: `tick_deliver` — what the task does with a delivery when it is quiet (`QuietRx`: alive,
    in a session on the newest transport, nothing unread, and either idle with an empty open queue
    or waiting for a reply before its deadline);
  * the step: `rx_split` — `stepState` of the two deliveries = `stepState` of the joint one
    (the fuel of `settled` is irrelevant: `settle_fuel_irrelevant`).
-/
namespace Rodbus.Client

section
variable {σ : Type}

/-! ### transports -/

theorem getMock_setMock (u : State σ) (m : Nat) (k : Mock) (h : m < u.mocks.length) :
    getMock (setMock u m k) m = k := by
  simp [getMock, setMock, List.getD_eq_getElem?_getD, h]

theorem setMock_setMock (u : State σ) (m : Nat) (k1 k2 : Mock) :
    setMock (setMock u m k1) m k2 = setMock u m k2 := by
  simp [setMock, List.set_set]

theorem setMock_getMock (u : State σ) (m : Nat) (h : m < u.mocks.length) :
    setMock u m (getMock u m) = u := by
  have : u.mocks.set m (u.mocks.getD m {}) = u.mocks := by
    rw [List.getD_eq_getElem?_getD, List.getElem?_eq_getElem h]
    simp
  show { u with mocks := u.mocks.set m (u.mocks.getD m {}) } = u
  rw [this]

theorem pushRx_latest (u : State σ) (m : Nat) (hm : m + 1 = u.mocks.length) (x : Rx) :
    pushRx u x = setMock u m { getMock u m with rx := (getMock u m).rx ++ [x] } := by
  unfold pushRx
  rw [← hm]

theorem mock_rx_nil (k : Mock) (h : k.rx = []) : ({ k with rx := [] } : Mock) = k := by
  cases k; simp at h; subst h; rfl

/-- what the reader yields on the single delivery `c` -/
def polled (F : Framing σ) (u : State σ) (c : Bytes) : ReadRes × σ × RB × List Rx :=
  readerPoll F (readerFuel [.data c]) u.pst u.rb [.data c]

/-- the state after the reader has been polled on the delivery `c` to transport `m` -/
def deliverState (F : Framing σ) (u : State σ) (m : Nat) (c : Bytes) : State σ :=
  setMock { u with pst := (polled F u c).2.1, rb := (polled F u c).2.2.1 } m
    { getMock u m with rx := (polled F u c).2.2.2 }

/-- the reader of the task polled right after the delivery `c` to the transport of the session,
    when nothing was unread before -/
theorem pollReader_deliver (F : Framing σ) (u : State σ) (m : Nat) (hm : m + 1 = u.mocks.length)
    (hrx : (getMock u m).rx = []) (c : Bytes) :
    pollReader F (pushRx u (.data c)) m = ((polled F u c).1, deliverState F u m c) := by
  have hlt : m < u.mocks.length := by omega
  rw [pushRx_latest u m hm, hrx]
  unfold pollReader deliverState polled
  simp only [getMock_setMock u m _ hlt, List.nil_append]
  show (_, setMock (setMock { u with pst := _, rb := _ } m _) m _) = _
  rw [setMock_setMock]
  rfl

theorem rx_deliver (u : State σ) (m : Nat) (hm : m + 1 = u.mocks.length)
    (hrx : (getMock u m).rx = []) (c : Bytes) :
    (getMock (pushRx u (.data c)) m).rx = [.data c] := by
  have hlt : m < u.mocks.length := by omega
  rw [pushRx_latest u m hm, hrx, getMock_setMock u m _ hlt]
  rfl

/-! ### one tick on a delivery -/

/-- the task is quiet: alive, in a session on the newest transport `m` with nothing unread, and
    either idle with an empty queue that still has a sender, or waiting for a reply before its
    deadline -/
def QuietRx (u : State σ) (m : Nat) : Prop :=
  u.alive = true ∧ m + 1 = u.mocks.length ∧ (getMock u m).rx = []
    ∧ ((u.pos = .idle m ∧ u.queue = [] ∧ closed u = false)
        ∨ ∃ q tx dl, u.pos = .inflight m q tx dl ∧ u.now < dl)

/-- the state after the tick that reads the delivery `c` -/
def afterDeliver (F : Framing σ) (u : State σ) (m : Nat) (c : Bytes) : State σ :=
  match u.pos with
  | .idle _ => idleReader (deliverState F u m c) (polled F u c).1
  | .inflight _ q tx _ => inflightReader (deliverState F u m c) m q tx (polled F u c).1
  | _ => deliverState F u m c

theorem sessionRecv_deliverState (F : Framing σ) (u : State σ) (m : Nat) (c : Bytes)
    (hqu : u.queue = []) (hcl : closed u = false) :
    sessionRecv F (deliverState F u m c) m = none := by
  unfold sessionRecv
  show (match u.queue with | c :: q => _ | [] => _) = none
  rw [hqu]
  show (if closed u = true then _ else none) = none
  rw [hcl]; rfl

theorem tick_deliver (F : Framing σ) (u : State σ) (m : Nat) (hq : QuietRx u m) (c : Bytes) :
    tick F (pushRx u (.data c)) = some (afterDeliver F u m c) := by
  obtain ⟨ha, hm, hrx, hpos⟩ := hq
  have hpr := pollReader_deliver F u m hm hrx c
  have hrx' := rx_deliver u m hm hrx c
  have halive : (pushRx u (.data c)).alive = true := by rw [pushRx_latest u m hm]; exact ha
  have hposeq : (pushRx u (.data c)).pos = u.pos := by rw [pushRx_latest u m hm]; rfl
  rcases hpos with ⟨hp, hqu, hcl⟩ | ⟨q, tx, dl, hp, hnow⟩
  · have htick : tick F (pushRx u (.data c)) = tickIdle F (pushRx u (.data c)) m := by
      unfold tick; rw [halive, hposeq, hp]; rfl
    have hA : afterDeliver F u m c = idleReader (deliverState F u m c) (polled F u c).1 := by
      unfold afterDeliver; rw [hp]
    rw [htick, hA]
    unfold tickIdle
    simp only [hpr, hrx']
    have hqueue : (pushRx u (.data c)).queue = [] := by rw [pushRx_latest u m hm]; exact hqu
    have hclosed : closed (pushRx u (.data c)) = false := by rw [pushRx_latest u m hm]; exact hcl
    have hrecv : recvReady (pushRx u (.data c)) = false := by
      unfold recvReady; rw [hqueue, hclosed]; rfl
    cases hr : (polled F u c).1 with
    | blocked =>
      simp only [sessionRecv_deliverState F u m c hqu hcl]
      rfl
    | frame f => simp only [hrecv]; rfl
    | fail res => simp only [hrecv]; rfl
  · have htick : tick F (pushRx u (.data c)) = tickInflight F (pushRx u (.data c)) m q tx dl := by
      unfold tick; rw [halive, hposeq, hp]; rfl
    have hA : afterDeliver F u m c
        = inflightReader (deliverState F u m c) m q tx (polled F u c).1 := by
      unfold afterDeliver; rw [hp]
    have hnow' : (pushRx u (.data c)).now < dl := by rw [pushRx_latest u m hm]; exact hnow
    rw [htick, hA]
    have key : ∀ r, pollReader F (pushRx u (.data c)) m = (r, deliverState F u m c) →
        tickInflight F (pushRx u (.data c)) m q tx dl
          = some (inflightReader (deliverState F u m c) m q tx r) := by
      intro r hr
      rw [tickInflight_before F _ _ m q tx dl r hr hnow', hrx']
      cases r <;> rfl
    exact key _ hpr

/-- a quiet task whose reader holds no complete frame is blocked -/
theorem tick_quiet_none (F : Framing σ) (u : State σ) (m : Nat) (hq : QuietRx u m)
    (hst : F.parse u.pst u.rb = (.none, u.pst, u.rb)) : tick F u = none := by
  obtain ⟨ha, hm, hrx, hpos⟩ := hq
  have hpr : pollReader F u m
      = (.blocked, setMock { u with pst := u.pst, rb := u.rb } m { getMock u m with rx := [] }) := by
    unfold pollReader
    simp only [hrx]
    rw [readerPoll_blocked F _ _ _ hst]
  unfold tick
  rw [ha]
  simp only [Bool.not_true, Bool.false_eq_true, if_false]
  rcases hpos with ⟨hp, hqu, hcl⟩ | ⟨q, tx, dl, hp, hnow⟩
  · rw [hp]
    simp only []
    unfold tickIdle
    simp only [hpr, hrx]
    have : sessionRecv F (setMock { u with pst := u.pst, rb := u.rb } m
        { getMock u m with rx := [] }) m = none := by
      unfold sessionRecv
      show (match u.queue with | c :: q => _ | [] => _) = none
      rw [hqu]
      show (if closed u = true then _ else none) = none
      rw [hcl]; rfl
    rw [this]
    rfl
  · rw [hp]
    simp only []
    rw [tickInflight_before F u _ m q tx dl _ hpr hnow, hrx]
    rfl

/-! ### the reader on a split delivery -/

/-- the parser, asked again after more bytes have arrived, continues where it stopped: when it
    answers `Ok(None)` on the buffered bytes `d`, leaving state `st1` and buffer `rb1`, then
    it answers on `d ++ fut` what it answers from `st1` on `rb1.data ++ fut`; `Ok(None)` does not
    move the end of the buffered bytes and is stable.  (`P`: the parser states this is claimed
    for; kept by `Ok(None)`.) -/
structure HopInv (F : Framing σ) (P : σ → Prop) : Prop where
  hop : ∀ st bg d st1 rb1, P st → F.parse st ⟨bg, d⟩ = (.none, st1, rb1) →
    P st1 ∧ rb1.begin + rb1.data.length = bg + d.length
      ∧ F.parse st1 rb1 = (.none, st1, rb1)
      ∧ ∀ fut, F.parse st ⟨bg, d ++ fut⟩ = F.parse st1 ⟨rb1.begin, rb1.data ++ fut⟩

theorem normalize_begin_le (rb : RB) : rb.normalize.begin ≤ rb.begin := by
  unfold RB.normalize
  by_cases hd : rb.data = []
  · simp [hd, CAP]
  · simp only [hd, if_false]; split <;> simp

theorem normalize_begin_eq (rb : RB) (hd : rb.data ≠ []) (hc : rb.begin + rb.data.length ≠ CAP) :
    rb.normalize.begin = rb.begin := by
  unfold RB.normalize
  simp only [hd, if_false]
  rw [if_neg hc]

/-- a non-empty delivery that fits behind the buffered bytes is read completely -/
theorem readSome_fits (rb : RB) (c : Bytes) (hc : c ≠ [])
    (h : rb.begin + rb.data.length + c.length ≤ CAP) :
    readSome rb c = some (⟨rb.normalize.begin, rb.data ++ c⟩, []) := by
  have hb := normalize_begin_le rb
  have hd := Mbap.normalize_data rb
  have hl : 0 < c.length := List.length_pos_iff.mpr hc
  unfold readSome
  simp only [hd]
  rw [if_neg (by omega)]
  have hmin : min (CAP - (rb.normalize.begin + rb.data.length)) c.length = c.length := by omega
  rw [hmin]
  simp

theorem readerPoll_nil (F : Framing σ) (n : Nat) (st : σ) (rb : RB) :
    readerPoll F (n + 1) st rb [] =
      match F.parse st rb with
      | (.frame f, st', rb') => (.frame f, st', rb', [])
      | (.err e, _, rb') => (.fail (frameErrRes e), F.init, rb', [])
      | (.none, st', rb') => (.blocked, st', rb', []) := by
  unfold readerPoll
  cases h : F.parse st rb with
  | mk r x =>
    obtain ⟨st', rb'⟩ := x
    cases r <;> rfl

/-- the reader polled on one non-empty delivery that fits: parse, read all of it, parse again -/
theorem readerPoll_one (F : Framing σ) (n : Nat) (st : σ) (rb : RB) (c : Bytes) (hc : c ≠ [])
    (st0 : σ) (rb0 : RB) (hp : F.parse st rb = (.none, st0, rb0))
    (hfit : rb0.begin + rb0.data.length + c.length ≤ CAP) :
    readerPoll F (n + 2) st rb [.data c]
      = readerPoll F (n + 1) st0 ⟨rb0.normalize.begin, rb0.data ++ c⟩ [] := by
  rw [readerPoll]
  simp only [hp, hc, if_false, readSome_fits rb0 c hc hfit, if_true]

/-- `readerPoll_split`.  If the delivery `a` alone leaves the reader blocked in `(st1, rb1)` with
    bytes still buffered, and `a ++ b` fits behind what is buffered, then the reader polled on the
    joint delivery `a ++ b` yields what it yields polled on `b` from `(st1, rb1)`: the same frame /
    failure / blocking, the same parser state, the same buffer and the same unread rest. -/
theorem readerPoll_split (F : Framing σ) (P : σ → Prop) (hH : HopInv F P) (st : σ) (rb : RB)
    (hP : P st) (a b : Bytes) (ha : a ≠ []) (hb : b ≠ [])
    (hfit : rb.begin + rb.data.length + a.length + b.length ≤ CAP) (st1 : σ) (rb1 : RB)
    (hmid : readerPoll F (readerFuel [.data a]) st rb [.data a] = (.blocked, st1, rb1, []))
    (hne : rb1.data ≠ []) :
    readerPoll F (readerFuel [.data (a ++ b)]) st rb [.data (a ++ b)]
      = readerPoll F (readerFuel [.data b]) st1 rb1 [.data b] := by
  have hla : 0 < a.length := List.length_pos_iff.mpr ha
  have hlb : 0 < b.length := List.length_pos_iff.mpr hb
  have hab : a ++ b ≠ [] := by simp [ha]
  -- the first parser call must have asked for more bytes
  obtain ⟨rbb, rbd⟩ := rb
  cases hp : F.parse st ⟨rbb, rbd⟩ with
  | mk r x =>
    obtain ⟨st0, rb0⟩ := x
    have hfa : readerFuel [Rx.data a] = (a.length + 1) + 2 := by simp [readerFuel, rxSize]
    have hfb : readerFuel [Rx.data b] = (b.length + 1) + 2 := by simp [readerFuel, rxSize]
    have hfab : readerFuel [Rx.data (a ++ b)] = (a.length + b.length + 1) + 2 := by
      simp [readerFuel, rxSize]
    cases r with
    | frame f => rw [hfa, readerPoll] at hmid; simp [hp] at hmid
    | err e => rw [hfa, readerPoll] at hmid; simp [hp] at hmid
    | none =>
      obtain ⟨hP0, hend0, hst0, _⟩ := hH.hop st rbb rbd st0 rb0 hP hp
      simp only at hend0 hfit
      have hfit_a : rb0.begin + rb0.data.length + a.length ≤ CAP := by omega
      have hfit_ab : rb0.begin + rb0.data.length + (a ++ b).length ≤ CAP := by
        simp only [List.length_append]; omega
      rw [hfa, readerPoll_one F _ st ⟨rbb, rbd⟩ a ha st0 rb0 hp hfit_a, readerPoll_nil] at hmid
      -- the second parser call (on the bytes of `a`) asked for more bytes too
      cases hp2 : F.parse st0 ⟨rb0.normalize.begin, rb0.data ++ a⟩ with
      | mk r2 x2 =>
        obtain ⟨st1', rb1'⟩ := x2
        rw [hp2] at hmid
        cases r2 with
        | frame f => simp at hmid
        | err e => simp at hmid
        | none =>
          simp only [Prod.mk.injEq, true_and] at hmid
          obtain ⟨h1, h2, _⟩ := hmid
          subst h1; subst h2
          obtain ⟨hP1, hend1, hst1, hhop⟩ := hH.hop st0 _ _ st1' rb1' hP0 hp2
          simp only [List.length_append] at hend1
          have hnb := normalize_begin_le rb0
          have hfit_b : rb1'.begin + rb1'.data.length + b.length ≤ CAP := by omega
          have hnorm : rb1'.normalize.begin = rb1'.begin :=
            normalize_begin_eq rb1' hne (by omega)
          rw [hfab, readerPoll_one F _ st ⟨rbb, rbd⟩ (a ++ b) hab st0 rb0 hp hfit_ab,
            hfb, readerPoll_one F _ st1' rb1' b hb st1' rb1' hst1 hfit_b,
            readerPoll_nil, readerPoll_nil, hnorm, ← List.append_assoc, hhop b]

/-- what `hmid` says about the parser: the first call asks for more bytes, the bytes of `a` are
    read behind what is buffered, and the second call asks for more bytes again -/
theorem readerPoll_mid (F : Framing σ) (P : σ → Prop) (hH : HopInv F P) (st : σ) (rb : RB)
    (hP : P st) (a : Bytes) (ha : a ≠ []) (hfit : rb.begin + rb.data.length + a.length ≤ CAP)
    (st1 : σ) (rb1 : RB)
    (hmid : readerPoll F (readerFuel [.data a]) st rb [.data a] = (.blocked, st1, rb1, [])) :
    ∃ st0 rb0, F.parse st rb = (.none, st0, rb0) ∧ P st0
      ∧ F.parse st0 ⟨rb0.normalize.begin, rb0.data ++ a⟩ = (.none, st1, rb1) := by
  have hfa : readerFuel [Rx.data a] = (a.length + 1) + 2 := by simp [readerFuel, rxSize]
  cases hp : F.parse st rb with
  | mk r x =>
    obtain ⟨st0, rb0⟩ := x
    cases r with
    | frame f => rw [hfa, readerPoll] at hmid; simp [hp] at hmid
    | err e => rw [hfa, readerPoll] at hmid; simp [hp] at hmid
    | none =>
      have hp' : F.parse st ⟨rb.begin, rb.data⟩ = (.none, st0, rb0) := hp
      obtain ⟨hP0, hend0, _, _⟩ := hH.hop st _ _ st0 rb0 hP hp'
      rw [hfa, readerPoll_one F _ st rb a ha st0 rb0 hp (by omega), readerPoll_nil] at hmid
      cases hp2 : F.parse st0 ⟨rb0.normalize.begin, rb0.data ++ a⟩ with
      | mk r2 x2 =>
        obtain ⟨st1', rb1'⟩ := x2
        rw [hp2] at hmid
        cases r2 with
        | frame f => simp at hmid
        | err e => simp at hmid
        | none =>
          simp only [Prod.mk.injEq, true_and] at hmid
          obtain ⟨h1, h2, _⟩ := hmid
          subst h1; subst h2
          exact ⟨st0, rb0, rfl, hP0, hp2⟩

/-! ### the step -/

theorem quiet_reader (u : State σ) (m : Nat) (st1 : σ) (rb1 : RB) (h : QuietRx u m) :
    QuietRx ({ u with pst := st1, rb := rb1 } : State σ) m := h

/-- the delivery of a prefix `a` that leaves the reader blocked changes nothing but the reader -/
theorem step_prefix (F : Framing σ) (P : σ → Prop) (hH : HopInv F P) (u : State σ) (m : Nat)
    (hq : QuietRx u m) (hu : u.held = 0) (hP : P u.pst) (a : Bytes) (ha : a ≠ [])
    (hfit : u.rb.begin + u.rb.data.length + a.length ≤ CAP) (st1 : σ) (rb1 : RB)
    (hmid : readerPoll F (readerFuel [.data a]) u.pst u.rb [.data a] = (.blocked, st1, rb1, [])) :
    stepState F u (.rx (.data a)) = { u with pst := st1, rb := rb1 }
      ∧ F.parse st1 rb1 = (.none, st1, rb1) ∧ P st1 := by
  have hlt : m < u.mocks.length := by have := hq.2.1; omega
  -- the reader state after `a` is stable
  have hstable : F.parse st1 rb1 = (.none, st1, rb1) ∧ P st1 := by
    have hla : 0 < a.length := List.length_pos_iff.mpr ha
    have hfa : readerFuel [Rx.data a] = (a.length + 1) + 2 := by simp [readerFuel, rxSize]
    cases hp : F.parse u.pst u.rb with
    | mk r x =>
      obtain ⟨st0, rb0⟩ := x
      cases r with
      | frame f => rw [hfa, readerPoll] at hmid; simp [hp] at hmid
      | err e => rw [hfa, readerPoll] at hmid; simp [hp] at hmid
      | none =>
        have hp' : F.parse u.pst ⟨u.rb.begin, u.rb.data⟩ = (.none, st0, rb0) := hp
        obtain ⟨hP0, hend0, _, _⟩ := hH.hop u.pst _ _ st0 rb0 hP hp'
        rw [hfa, readerPoll_one F _ u.pst u.rb a ha st0 rb0 hp (by omega), readerPoll_nil] at hmid
        cases hp2 : F.parse st0 ⟨rb0.normalize.begin, rb0.data ++ a⟩ with
        | mk r2 x2 =>
          obtain ⟨st1', rb1'⟩ := x2
          rw [hp2] at hmid
          cases r2 with
          | frame f => simp at hmid
          | err e => simp at hmid
          | none =>
            simp only [Prod.mk.injEq, true_and] at hmid
            obtain ⟨h1, h2, _⟩ := hmid
            subst h1; subst h2
            obtain ⟨hP1, _, hst1, _⟩ := hH.hop st0 _ _ st1' rb1' hP0 hp2
            exact ⟨hst1, hP1⟩
  refine ⟨?_, hstable.1, hstable.2⟩
  have hpolled : polled F u a = (.blocked, st1, rb1, []) := hmid
  have hds : deliverState F u m a = { u with pst := st1, rb := rb1 } := by
    unfold deliverState
    rw [hpolled]
    simp only []
    rw [mock_rx_nil _ hq.2.2.1]
    exact setMock_getMock ({ u with pst := st1, rb := rb1 } : State σ) m hlt
  have hafter : afterDeliver F u m a = { u with pst := st1, rb := rb1 } := by
    unfold afterDeliver
    rw [hpolled, hds]
    rcases hq.2.2.2 with ⟨hp, _, _⟩ | ⟨q, tx, dl, hp, _⟩ <;> rw [hp] <;> rfl
  have htick1 := tick_deliver F u m hq a
  rw [hafter] at htick1
  have htick2 : tick F ({ u with pst := st1, rb := rb1 } : State σ) = none :=
    tick_quiet_none F _ m (quiet_reader u m st1 rb1 hq) hstable.1
  show settled F (pushRx u (.data a)) = _
  unfold settled
  have hf : settleFuel (pushRx u (Rx.data a)) = (settleFuel (pushRx u (Rx.data a)) - 2) + 2 := by
    unfold settleFuel; omega
  rw [hf, settle_succ_some F _ _ _ htick1, settle_succ_none F _ _ htick2]
  rw [if_pos hu]

/-- `rx_split` (generic).  For a quiet task (see `QuietRx`) whose parser state satisfies `P`: if the
    delivery `a` alone leaves the reader blocked with bytes still buffered, and `a ++ b` fits behind
    what is buffered, then delivering `a` and then `b` (the tasks run until they block after each)
    leads to the SAME STATE as delivering `a ++ b` at once. -/
theorem rx_split (F : Framing σ) (w : σ → Nat) (hw : ParseMeasure F w) (hwb : ∀ st, w st ≤ 11)
    (P : σ → Prop)
    (hH : HopInv F P) (u : State σ) (m : Nat) (hq : QuietRx u m) (hu : u.held = 0) (hP : P u.pst)
    (a b : Bytes) (ha : a ≠ []) (hb : b ≠ [])
    (hfit : u.rb.begin + u.rb.data.length + a.length + b.length ≤ CAP) (st1 : σ) (rb1 : RB)
    (hmid : readerPoll F (readerFuel [.data a]) u.pst u.rb [.data a] = (.blocked, st1, rb1, []))
    (hne : rb1.data ≠ []) :
    stepState F (stepState F u (.rx (.data a))) (.rx (.data b))
      = stepState F u (.rx (.data (a ++ b))) := by
  obtain ⟨hstep, _, _⟩ := step_prefix F P hH u m hq hu hP a ha (by omega) st1 rb1 hmid
  rw [hstep]
  have hsplit := readerPoll_split F P hH u.pst u.rb hP a b ha hb hfit st1 rb1 hmid hne
  -- the tick that reads `b` resp. `a ++ b` leads to the same state
  have hq1 : QuietRx ({ u with pst := st1, rb := rb1 } : State σ) m := quiet_reader u m st1 rb1 hq
  have ht1 := tick_deliver F _ m hq1 b
  have ht2 := tick_deliver F u m hq (a ++ b)
  have hpol : polled F ({ u with pst := st1, rb := rb1 } : State σ) b = polled F u (a ++ b) :=
    hsplit.symm
  have hds : deliverState F ({ u with pst := st1, rb := rb1 } : State σ) m b
      = deliverState F u m (a ++ b) := by
    unfold deliverState
    rw [hpol]
    rfl
  have hafter : afterDeliver F ({ u with pst := st1, rb := rb1 } : State σ) m b
      = afterDeliver F u m (a ++ b) := by
    unfold afterDeliver
    rw [hpol, hds]
  rw [hafter] at ht1
  show settled F (pushRx _ (.data b)) = settled F (pushRx u (.data (a ++ b)))
  unfold settled
  have hm1 := tick_mu F w hw _ _ ht1
  have hm2 := tick_mu F w hw _ _ ht2
  have hpos : ∀ x : State σ, ∃ n, settleFuel x = n + 1 := by
    intro x
    have : 0 < settleFuel x := by unfold settleFuel; omega
    exact ⟨settleFuel x - 1, by omega⟩
  obtain ⟨n1, hn1⟩ := hpos (pushRx ({ u with pst := st1, rb := rb1 } : State σ) (Rx.data b))
  obtain ⟨n2, hn2⟩ := hpos (pushRx u (Rx.data (a ++ b)))
  rw [hn1, hn2, settle_succ_some F _ _ _ ht1, settle_succ_some F _ _ _ ht2]
  -- both fuels exceed the measure: the result does not depend on them
  have hf1 := mu_lt_settleFuel w hwb (pushRx ({ u with pst := st1, rb := rb1 } : State σ) (Rx.data b))
  have hf2 := mu_lt_settleFuel w hwb (pushRx u (Rx.data (a ++ b)))
  exact settle_fuel_irrelevant F w hw n1 n2 _ (by omega) (by omega)

end

/-! ### MBAP -/

theorem mbap_hopInv : HopInv mbap (fun _ => True) where
  hop := by
    intro st bg d st1 rb1 _ hp
    have hp' : Mbap.parse st ⟨bg, d⟩ = (.none, st1, rb1) := hp
    obtain ⟨_, hend, _, _, _, hstable⟩ := Mbap.parse_none st ⟨bg, d⟩ st1 rb1 [] hp'
    refine ⟨trivial, hend, hstable, ?_⟩
    intro fut
    show Mbap.parse st ⟨bg, d ++ fut⟩ = Mbap.parse st1 ⟨rb1.begin, rb1.data ++ fut⟩
    cases st with
    | header h adu =>
      simp only [Mbap.parse] at hp'
      obtain ⟨h1, h2, _⟩ := Mbap.parseBody_none h adu _ st1 rb1 hp'
      subst h1; subst h2; rfl
    | begin =>
      simp only [Mbap.parse] at hp'
      split at hp'
      · simp only [Prod.mk.injEq, true_and] at hp'
        obtain ⟨h1, h2⟩ := hp'; subst h1; subst h2; rfl
      · rename_i hl
        have hl7 : 7 ≤ d.length := by omega
        split at hp'
        · simp at hp'
        · rename_i hd adu hph
          obtain ⟨h1, h2, _⟩ := Mbap.parseBody_none hd adu _ st1 rb1 hp'
          subst h1; subst h2
          have htake : (d ++ fut).take 7 = d.take 7 := List.take_append_of_le_length hl7
          have hdrop : (d ++ fut).drop 7 = d.drop 7 ++ fut := List.drop_append_of_le_length hl7
          have hlen : ¬ (d ++ fut).length < 7 := by simp; omega
          simp only [Mbap.parse, hlen, if_false, htake]
          rw [hph]
          simp only [RB.consume, hdrop]

/-! ### RTU (response parser) -/

theorem rtu_fullBody_none (dest len : Nat) (rb : RB) (st1 : Rtu.PState) (rb1 : RB)
    (h : Rtu.parseFullBody dest len rb = (.none, st1, rb1)) :
    st1 = .fullBody dest len ∧ rb1 = rb := by
  by_cases h1 : len + 1 > 253
  · rw [Rtu.parseFullBody_tooBig _ _ _ h1] at h; simp at h
  · by_cases h2 : rb.data.length < len + 3
    · rw [Rtu.parseFullBody_short _ _ _ h1 h2] at h
      simp only [Prod.mk.injEq, true_and] at h
      exact ⟨h.1.symm, h.2.symm⟩
    · rw [Rtu.parseFullBody_ready _ _ _ h1 h2] at h
      split at h <;> simp at h

theorem rtu_toOffset_hop (dest off bg : Nat) (d : Bytes) (st1 : Rtu.PState) (rb1 : RB)
    (h : Rtu.parseToOffset dest off ⟨bg, d⟩ = (.none, st1, rb1)) (fut : Bytes) :
    Rtu.parseToOffset dest off ⟨bg, d ++ fut⟩
      = Rtu.parse .response st1 ⟨rb1.begin, rb1.data ++ fut⟩ := by
  by_cases h1 : d.length < 1 + off
  · rw [Rtu.parseToOffset_short _ _ _ h1] at h
    simp only [Prod.mk.injEq, true_and] at h
    obtain ⟨e1, e2⟩ := h; subst e1; subst e2; rfl
  · rw [Rtu.parseToOffset_ready _ _ _ h1] at h
    obtain ⟨e1, e2⟩ := rtu_fullBody_none _ _ _ _ _ h
    subst e1; subst e2
    have h1' : ¬ (d ++ fut).length < 1 + off := by simp; omega
    rw [Rtu.parseToOffset_ready _ _ ⟨bg, d ++ fut⟩ h1']
    simp only [Rtu.getD_append_left d fut off (by omega)]
    rfl

theorem rtu_hopInv : HopInv rtu Rtu.StOk where
  hop := by
    intro st bg d st1 rb1 hst hp
    have hp' : Rtu.parse .response st ⟨bg, d⟩ = (.none, st1, rb1) := hp
    have hsim := Rtu.parse_sim .response st ⟨bg, d⟩ [] hst
    rw [hp'] at hsim
    obtain ⟨_, hend, _, hok, hneed⟩ := hsim
    refine ⟨hok, hend, rtu_none_stable st1 rb1 hok hneed, ?_⟩
    intro fut
    show Rtu.parse .response st ⟨bg, d ++ fut⟩ = Rtu.parse .response st1 ⟨rb1.begin, rb1.data ++ fut⟩
    cases st with
    | fullBody dest len =>
      obtain ⟨e1, e2⟩ := rtu_fullBody_none dest len _ _ _ hp'
      subst e1; subst e2; rfl
    | toOffset dest off => exact rtu_toOffset_hop dest off bg d st1 rb1 hp' fut
    | start =>
      have hp2 : Rtu.parseStart .response ⟨bg, d⟩ = (.none, st1, rb1) := hp'
      show Rtu.parseStart .response ⟨bg, d ++ fut⟩ = _
      by_cases h1 : d.length < 2
      · rw [Rtu.parseStart_short _ _ h1] at hp2
        simp only [Prod.mk.injEq, true_and] at hp2
        obtain ⟨e1, e2⟩ := hp2; subst e1; subst e2; rfl
      · rw [Rtu.parseStart_ready _ _ h1] at hp2
        have h1' : ¬ (d ++ fut).length < 2 := by simp; omega
        rw [Rtu.parseStart_ready _ ⟨bg, d ++ fut⟩ h1']
        simp only [Rtu.getD_append_left d fut 1 (by omega), Rtu.getD_append_left d fut 0 (by omega)]
        have hc : (⟨bg, d ++ fut⟩ : RB).consume 1 = ⟨bg + 1, d.drop 1 ++ fut⟩ := by
          simp [RB.consume, List.drop_append_of_le_length (show 1 ≤ d.length by omega)]
        rw [hc]
        have hc0 : (⟨bg, d⟩ : RB).consume 1 = ⟨bg + 1, d.drop 1⟩ := rfl
        rw [hc0] at hp2
        cases hlm : Rtu.lengthMode .response (d.getD 1 0) with
        | fixed n =>
          rw [hlm] at hp2
          obtain ⟨e1, e2⟩ := rtu_fullBody_none _ n _ _ _ hp2
          subst e1; subst e2; rfl
        | offset k =>
          rw [hlm] at hp2
          exact rtu_toOffset_hop _ k (bg + 1) (d.drop 1) st1 rb1 hp2 fut
        | unknown =>
          rw [hlm] at hp2
          simp at hp2

theorem rtu_toOffset_none (dest off : Nat) (rb : RB) (st1 : Rtu.PState) (rb1 : RB)
    (h : Rtu.parseToOffset dest off rb = (.none, st1, rb1)) : rb1 = rb := by
  by_cases h1 : rb.data.length < 1 + off
  · rw [Rtu.parseToOffset_short _ _ _ h1] at h
    simp only [Prod.mk.injEq, true_and] at h
    exact h.2.symm
  · rw [Rtu.parseToOffset_ready _ _ _ h1] at h
    exact (rtu_fullBody_none _ _ _ _ _ h).2

/-- when the RTU parser asks for more bytes it leaves at least one byte buffered (it consumes the
    address only together with a peek at the function code) -/
theorem rtu_none_nonempty (st : Rtu.PState) (rb : RB) (st1 : Rtu.PState) (rb1 : RB)
    (h : Rtu.parse .response st rb = (.none, st1, rb1)) (hd : rb.data ≠ []) : rb1.data ≠ [] := by
  have hl : 0 < rb.data.length := List.length_pos_iff.mpr hd
  cases st with
  | fullBody dest len => rw [(rtu_fullBody_none dest len _ _ _ h).2]; exact hd
  | toOffset dest off => rw [rtu_toOffset_none dest off _ _ _ h]; exact hd
  | start =>
    have hp2 : Rtu.parseStart .response rb = (.none, st1, rb1) := h
    by_cases h1 : rb.data.length < 2
    · rw [Rtu.parseStart_short _ _ h1] at hp2
      simp only [Prod.mk.injEq, true_and] at hp2
      rw [← hp2.2]; exact hd
    · rw [Rtu.parseStart_ready _ _ h1] at hp2
      have hc : (rb.consume 1).data ≠ [] := by
        apply List.ne_nil_of_length_pos
        simp [RB.consume]; omega
      cases hlm : Rtu.lengthMode .response (rb.data.getD 1 0) with
      | fixed n =>
        rw [hlm] at hp2
        rw [(rtu_fullBody_none _ n _ _ _ hp2).2]; exact hc
      | offset k =>
        rw [hlm] at hp2
        rw [rtu_toOffset_none _ k _ _ _ hp2]; exact hc
      | unknown =>
        rw [hlm] at hp2
        simp at hp2

end Rodbus.Client
