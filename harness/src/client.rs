//! `cl` suite: the production `ClientLoop` behind a real `Channel`, driven in lock-step over the
//! scripted transport with a paused clock.
//!
//! cl <t|r> <dXYZ> q<queue> m<max_timeouts|0> <script>
use crate::mockio::{mock, Handle, Rx};
use crate::util::*;
use rodbus::client::*;
use rodbus::verif::*;
use rodbus::*;
use std::sync::{Arc, Mutex};
use std::time::Duration;

type Log = Arc<Mutex<Vec<String>>>;

fn now_ms(t0: tokio::time::Instant) -> u128 {
    (tokio::time::Instant::now() - t0).as_millis()
}

enum Phase {
    Session(crate::mockio::MockIo),
    WaitEnabled,
    FailFor(u64),
}

pub(crate) fn bits_str(items: &[Indexed<bool>]) -> String {
    if items.is_empty() {
        return "b-".into();
    }
    format!(
        "b{}:{}",
        items[0].index,
        items
            .iter()
            .enumerate()
            .map(|(i, x)| {
                // indices must be consecutive from the first; otherwise make it visible
                if x.index as usize == items[0].index as usize + i {
                    if x.value { "1".to_string() } else { "0".to_string() }
                } else {
                    format!("[{}]{}", x.index, x.value as u8)
                }
            })
            .collect::<String>()
    )
}

pub(crate) fn regs_str(items: &[Indexed<u16>]) -> String {
    if items.is_empty() {
        return "g-".into();
    }
    format!(
        "g{}:{}",
        items[0].index,
        items
            .iter()
            .enumerate()
            .map(|(i, x)| {
                if x.index as usize == items[0].index as usize + i {
                    format!("{}", x.value)
                } else {
                    format!("[{}]{}", x.index, x.value)
                }
            })
            .collect::<Vec<_>>()
            .join("/")
    )
}

fn gen_bits(spec: &str) -> Vec<bool> {
    if let Some(rest) = spec.strip_prefix('n') {
        let (n, seed) = rest.split_once('s').unwrap();
        let n: usize = n.parse().unwrap();
        let seed: usize = seed.parse().unwrap();
        (0..n).map(|i| (i * 7 + seed) % 3 == 0).collect()
    } else if spec == "-" {
        vec![]
    } else {
        spec.chars().map(|c| c == '1').collect()
    }
}

fn gen_regs(spec: &str) -> Vec<u16> {
    if let Some(rest) = spec.strip_prefix('n') {
        let (n, seed) = rest.split_once('s').unwrap();
        let n: usize = n.parse().unwrap();
        let seed: usize = seed.parse().unwrap();
        (0..n).map(|i| ((i * 31 + seed) % 65536) as u16).collect()
    } else if spec == "-" {
        vec![]
    } else {
        spec.split('/').map(|x| x.parse().unwrap()).collect()
    }
}

struct Completion {
    log: Log,
    rid: String,
    t0: tokio::time::Instant,
    count: Arc<Mutex<std::collections::HashMap<String, u32>>>,
}

impl Completion {
    fn done(&self, res: String) {
        let mut c = self.count.lock().unwrap();
        let n = c.entry(self.rid.clone()).or_insert(0);
        *n += 1;
        let dup = if *n > 1 { format!(".dup{}", *n) } else { String::new() };
        self.log
            .lock()
            .unwrap()
            .push(format!("done.{}.{}.@{}{}", self.rid, res, now_ms(self.t0), dup));
    }
}

pub(crate) fn res_str<T>(r: Result<T, RequestError>, f: impl Fn(T) -> String) -> String {
    match r {
        Ok(v) => format!("ok.{}", f(v)),
        Err(e) => req_err(e),
    }
}

/// submit one request; style: 'R' future, 'C' callback session, 'T' ffi try_send
#[allow(deprecated)]
fn submit(
    style: char,
    ch: &Channel,
    parts: &[&str],
    log: &Log,
    t0: tokio::time::Instant,
    count: &Arc<Mutex<std::collections::HashMap<String, u32>>>,
    literal_range: bool,
) {
    // parts: rid kind unit timeout args...
    let rid = parts[0].to_string();
    let kind = parts[1];
    let unit: u8 = parts[2].parse().unwrap();
    // `<n>` milliseconds, or `<n>s` seconds (to reach Duration::MAX)
    let timeout = match parts[3].strip_suffix('s') {
        Some(secs) => Duration::from_secs(secs.parse().unwrap()),
        None => Duration::from_millis(parts[3].parse().unwrap()),
    };
    let param = RequestParam::new(UnitId::new(unit), timeout);
    let comp = Completion {
        log: log.clone(),
        rid: rid.clone(),
        t0,
        count: count.clone(),
    };
    let suberr = |e: String| {
        log.lock().unwrap().push(format!("sub.{rid}.err.{e}"));
    };
    let mk_range = |a: &str, b: &str| -> Result<AddressRange, InvalidRange> {
        let (s, c): (u32, u32) = (a.parse().unwrap(), b.parse().unwrap());
        if literal_range {
            Ok(AddressRange {
                start: s as u16,
                count: c as u16,
            })
        } else {
            AddressRange::try_from(s as u16, c as u16)
        }
    };
    let ffi_err = |e: FfiChannelError| match e {
        FfiChannelError::ChannelFull => "full".to_string(),
        FfiChannelError::ChannelClosed => "closed".to_string(),
        FfiChannelError::BadRange(r) => req_err(RequestError::BadRequest(r.into())),
    };
    match kind {
        "rc" | "rd" | "rh" | "ri" => {
            let range = match mk_range(parts[4], parts[5]) {
                Ok(r) => r,
                Err(e) => return suberr(req_err(RequestError::BadRequest(e.into()))),
            };
            let bits = kind == "rc" || kind == "rd";
            match style {
                'R' => {
                    let ch = ch.clone();
                    let kind = kind.to_string();
                    tokio::spawn(async move {
                        let res = match kind.as_str() {
                            "rc" => res_str(ch.read_coils(param, range).await, |v| bits_str(&v)),
                            "rd" => res_str(ch.read_discrete_inputs(param, range).await, |v| {
                                bits_str(&v)
                            }),
                            "rh" => res_str(ch.read_holding_registers(param, range).await, |v| {
                                regs_str(&v)
                            }),
                            _ => res_str(ch.read_input_registers(param, range).await, |v| {
                                regs_str(&v)
                            }),
                        };
                        comp.done(res);
                    });
                }
                'C' => {
                    let mut cs = CallbackSession::new(ch.clone(), param);
                    let kind = kind.to_string();
                    tokio::spawn(async move {
                        if bits {
                            let cb = move |r: Result<BitIterator, RequestError>| {
                                comp.done(res_str(r, |it| bits_str(&it.collect::<Vec<_>>())))
                            };
                            if kind == "rc" {
                                cs.read_coils(range, cb).await
                            } else {
                                cs.read_discrete_inputs(range, cb).await
                            }
                        } else {
                            let cb = move |r: Result<RegisterIterator, RequestError>| {
                                comp.done(res_str(r, |it| regs_str(&it.collect::<Vec<_>>())))
                            };
                            if kind == "rh" {
                                cs.read_holding_registers(range, cb).await
                            } else {
                                cs.read_input_registers(range, cb).await
                            }
                        }
                    });
                }
                _ => {
                    let mut f = FfiChannel::new(ch.clone());
                    let r = if bits {
                        let cb = move |r: Result<BitIterator, RequestError>| {
                            comp.done(res_str(r, |it| bits_str(&it.collect::<Vec<_>>())))
                        };
                        if kind == "rc" {
                            f.read_coils(param, range, cb)
                        } else {
                            f.read_discrete_inputs(param, range, cb)
                        }
                    } else {
                        let cb = move |r: Result<RegisterIterator, RequestError>| {
                            comp.done(res_str(r, |it| regs_str(&it.collect::<Vec<_>>())))
                        };
                        if kind == "rh" {
                            f.read_holding_registers(param, range, cb)
                        } else {
                            f.read_input_registers(param, range, cb)
                        }
                    };
                    if let Err(e) = r {
                        suberr(ffi_err(e));
                    }
                }
            }
        }
        "wc" | "wr" => {
            let idx: u16 = parts[4].parse().unwrap();
            let val: u32 = parts[5].parse().unwrap();
            let coil = kind == "wc";
            let cstr = |v: Indexed<bool>| format!("c{}:{}", v.index, v.value as u8);
            let sstr = |v: Indexed<u16>| format!("s{}:{}", v.index, v.value);
            match style {
                'R' => {
                    let ch = ch.clone();
                    tokio::spawn(async move {
                        let res = if coil {
                            res_str(
                                ch.write_single_coil(param, Indexed::new(idx, val != 0)).await,
                                cstr,
                            )
                        } else {
                            res_str(
                                ch.write_single_register(param, Indexed::new(idx, val as u16))
                                    .await,
                                sstr,
                            )
                        };
                        comp.done(res);
                    });
                }
                'C' => {
                    let mut cs = CallbackSession::new(ch.clone(), param);
                    tokio::spawn(async move {
                        if coil {
                            cs.write_single_coil(Indexed::new(idx, val != 0), move |r| {
                                comp.done(res_str(r, cstr))
                            })
                            .await
                        } else {
                            cs.write_single_register(Indexed::new(idx, val as u16), move |r| {
                                comp.done(res_str(r, sstr))
                            })
                            .await
                        }
                    });
                }
                _ => {
                    let mut f = FfiChannel::new(ch.clone());
                    let r = if coil {
                        f.write_single_coil(param, Indexed::new(idx, val != 0), move |r| {
                            comp.done(res_str(r, cstr))
                        })
                    } else {
                        f.write_single_register(param, Indexed::new(idx, val as u16), move |r| {
                            comp.done(res_str(r, sstr))
                        })
                    };
                    if let Err(e) = r {
                        suberr(ffi_err(e));
                    }
                }
            }
        }
        "wC" | "wR" => {
            let start: u16 = parts[4].parse().unwrap();
            let rstr = |r: AddressRange| format!("r{}+{}", r.start, r.count);
            if kind == "wC" {
                let req = match WriteMultiple::from(start, gen_bits(parts[5])) {
                    Ok(x) => x,
                    Err(e) => return suberr(req_err(RequestError::BadRequest(e))),
                };
                match style {
                    'R' => {
                        let ch = ch.clone();
                        tokio::spawn(async move {
                            comp.done(res_str(ch.write_multiple_coils(param, req).await, rstr));
                        });
                    }
                    'C' => {
                        let mut cs = CallbackSession::new(ch.clone(), param);
                        tokio::spawn(async move {
                            cs.write_multiple_coils(req, move |r| comp.done(res_str(r, rstr)))
                                .await
                        });
                    }
                    _ => {
                        let mut f = FfiChannel::new(ch.clone());
                        if let Err(e) =
                            f.write_multiple_coils(param, req, move |r| comp.done(res_str(r, rstr)))
                        {
                            suberr(ffi_err(e));
                        }
                    }
                }
            } else {
                let req = match WriteMultiple::from(start, gen_regs(parts[5])) {
                    Ok(x) => x,
                    Err(e) => return suberr(req_err(RequestError::BadRequest(e))),
                };
                match style {
                    'R' => {
                        let ch = ch.clone();
                        tokio::spawn(async move {
                            comp.done(res_str(ch.write_multiple_registers(param, req).await, rstr));
                        });
                    }
                    'C' => {
                        let mut cs = CallbackSession::new(ch.clone(), param);
                        tokio::spawn(async move {
                            cs.write_multiple_registers(req, move |r| comp.done(res_str(r, rstr)))
                                .await
                        });
                    }
                    _ => {
                        let mut f = FfiChannel::new(ch.clone());
                        if let Err(e) = f.write_multiple_registers(param, req, move |r| {
                            comp.done(res_str(r, rstr))
                        }) {
                            suberr(ffi_err(e));
                        }
                    }
                }
            }
        }
        other => panic!("bad request kind {other}"),
    }
}

pub async fn run_cl(tok: &[&str]) -> String {
    let framing = if tok[1] == "t" { Framing::Tcp } else { Framing::Rtu };
    let decode = decode_level(tok[2]);
    let queue: usize = tok[3][1..].parse().unwrap();
    // m<max timeouts>[i<initial transaction id>]
    let (maxto, tx0): (usize, Option<u16>) = match tok[4][1..].split_once('i') {
        Some((a, b)) => (a.parse().unwrap(), Some((b.parse::<u32>().unwrap() % 65536) as u16)),
        None => (tok[4][1..].parse().unwrap(), None),
    };
    let t0 = tokio::time::Instant::now();
    let log: Log = Arc::new(Mutex::new(Vec::new()));
    let count = Arc::new(Mutex::new(std::collections::HashMap::new()));
    let (channel, mut client) = create_client(
        framing,
        decode,
        std::num::NonZeroUsize::new(maxto),
        queue,
    );
    if let Some(v) = tx0 {
        client.set_next_tx_id(v);
    }
    let mut handles: Vec<Option<Channel>> = vec![Some(channel)];
    let (phase_tx, mut phase_rx) = tokio::sync::mpsc::unbounded_channel::<Phase>();
    let tlog = log.clone();
    let task = tokio::spawn(async move {
        while let Some(phase) = phase_rx.recv().await {
            match phase {
                Phase::Session(io) => {
                    let end = client.run_session(Box::new(io)).await;
                    let s = match end {
                        SessionEnd::Io(k) => io_kind(k),
                        SessionEnd::BadFrame => "badframe".into(),
                        SessionEnd::Disabled => "disabled".into(),
                        SessionEnd::MaxTimeouts(n) => format!("maxto{n}"),
                        SessionEnd::Shutdown => "shutdown".into(),
                    };
                    tlog.lock().unwrap().push(format!("end.{}.@{}", s, now_ms(t0)));
                }
                Phase::WaitEnabled => {
                    let s = match client.wait_for_enabled().await {
                        Ok(()) => "enabled",
                        Err(_) => "shutdown",
                    };
                    tlog.lock().unwrap().push(format!("end.{}.@{}", s, now_ms(t0)));
                }
                Phase::FailFor(ms) => {
                    let s = match client.fail_requests_for(Duration::from_millis(ms)).await {
                        WaitEnd::Elapsed => "elapsed",
                        WaitEnd::Disabled => "disabled",
                        WaitEnd::Shutdown => "shutdown",
                    };
                    tlog.lock().unwrap().push(format!("end.{}.@{}", s, now_ms(t0)));
                }
            }
        }
        // the task is gone: dropping `client` drops the receiver and everything queued
    });
    let mut io: Option<Handle> = None;
    let flush_tx = |io: &Option<Handle>, log: &Log| {
        if let Some(h) = io {
            for w in h.take_writes() {
                log.lock().unwrap().push(format!("tx.{}", hex(&w)));
            }
        }
    };
    // canonical per-step order: the relative order in which the driver task, the client task and
    // the tasks awaiting futures get to append is a scheduling artefact of the harness
    let mut out: Vec<String> = Vec::new();
    let class = |e: &str| -> u8 {
        if e.starts_with("sub.") || e.starts_with("cmd.") {
            0
        } else if e.starts_with("done.") {
            1
        } else if e.starts_with("tx.") {
            2
        } else {
            3
        }
    };
    let mut end_step = |log: &Log, out: &mut Vec<String>| {
        let mut entries: Vec<String> = std::mem::take(&mut *log.lock().unwrap());
        entries.sort_by_key(|e| class(e));
        out.push(if entries.is_empty() { "-".to_string() } else { entries.join(";") });
    };
    // submissions whose sender had to wait for queue capacity (`send().await` on a full queue): the
    // moment at which the task sees such an entry depends on when the waiting sender is polled again
    let mut waited = 0usize;
    if tok[5] != "-" {
        for step in tok[5].split(',') {
            let (op, rest) = step.split_at(1);
            match op {
                "E" | "D" | "S" | "L" => {
                    let h: usize = if op == "L" {
                        0
                    } else {
                        rest.parse().unwrap_or(0)
                    };
                    if let Some(Some(ch)) = handles.get(h) {
                        // try-style so that a full queue cannot block the driver
                        let mut f = FfiChannel::new(ch.clone());
                        let r = match op {
                            "E" => f.enable().map_err(|_| ()),
                            "D" => f.disable().map_err(|_| ()),
                            "L" => f.set_decode_level(decode_level(rest)).map_err(|_| ()),
                            _ => {
                                // shutdown has no try variant: spawn the send
                                if rodbus::verif::free_queue_slots(ch) == 0 {
                                    waited += 1;
                                }
                                let ch = ch.clone();
                                tokio::spawn(async move {
                                    let _ = ch.shutdown().await;
                                });
                                Ok(())
                            }
                        };
                        if r.is_err() {
                            log.lock().unwrap().push(format!("cmd.{op}.err"));
                        }
                    }
                }
                "H" => {
                    if rest == "+" {
                        let c = handles.iter().flatten().next().cloned();
                        handles.push(c);
                    } else {
                        let i: usize = rest[1..].parse().unwrap();
                        if i < handles.len() {
                            handles[i] = None;
                        }
                    }
                }
                "R" | "C" | "T" | "Q" => {
                    let parts: Vec<&str> = rest.split('.').collect();
                    let h: usize = parts[0].parse().unwrap();
                    if let Some(Some(ch)) = handles.get(h) {
                        // 'Q' = future style with an AddressRange struct literal (bypasses try_from)
                        let style = if op == "Q" { 'R' } else { op.chars().next().unwrap() };
                        if style != 'T' && rodbus::verif::free_queue_slots(ch) == 0 {
                            waited += 1;
                        }
                        submit(style, ch, &parts[1..], &log, t0, &count, op == "Q");
                    } else {
                        log.lock().unwrap().push(format!("sub.{}.err.nohandle", parts[1]));
                    }
                }
                "X" => {
                    if let Some(h) = &io {
                        match rest {
                            "e" => h.push(Rx::Err(std::io::ErrorKind::ConnectionReset)),
                            "f" => h.push(Rx::Eof),
                            data => h.push(Rx::Data(unhex(data))),
                        }
                    }
                }
                "W" => {
                    if let Some(h) = &io {
                        // `Wi`: the write fails with Interrupted (same class: a write error ends the session)
                        h.fail_next_write(if rest == "i" {
                            std::io::ErrorKind::Interrupted
                        } else {
                            std::io::ErrorKind::BrokenPipe
                        });
                    }
                }
                "A" => {
                    let ms: u64 = rest.parse().unwrap();
                    settle_n(30).await;
                    flush_tx(&io, &log);
                    tokio::time::sleep(Duration::from_millis(ms)).await;
                }
                "K" => {
                    task.abort();
                }
                "N" => {
                    flush_tx(&io, &log);
                    let (m, h) = mock();
                    io = Some(h);
                    let _ = phase_tx.send(Phase::Session(m));
                }
                "V" => {
                    let _ = phase_tx.send(Phase::WaitEnabled);
                }
                "F" => {
                    let _ = phase_tx.send(Phase::FailFor(rest.parse().unwrap()));
                }
                other => panic!("bad step {other}"),
            }
            settle_n(30).await;
            flush_tx(&io, &log);
            end_step(&log, &mut out);
        }
    }
    settle_n(30).await;
    flush_tx(&io, &log);
    end_step(&log, &mut out);
    let fin = if task.is_finished() {
        match task.await {
            Ok(()) => "taskdone",
            Err(e) if e.is_panic() => "panic",
            Err(_) => "aborted",
        }
    } else {
        "alive"
    };
    out.push(format!("fin.{fin}"));
    let line = out.join(" | ");
    if waited > 0 {
        format!("{line} waited={waited}")
    } else {
        line
    }
}
