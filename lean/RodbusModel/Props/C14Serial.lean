import RodbusModel.Model.SerialLife
import RodbusModel.Spec.SerialLife
import RodbusModel.Props.C14
/-
  C14 for the serial client channel task (`SerialChannelTask::run`): for EVERY script of
  environment events the announced `PortState` sequence is the one of the counter specification
  (`run_eq_spec`), hence every announced delay follows the doubling discipline and restarts after
  every successful open, however the open port was closed later (`announced_delays_conform`,
  `restart_after_port_loss`, `restart_after_disable`); there is no open attempt while the channel
  is disabled (`no_open_while_disabled`); `Shutdown` is announced exactly once, last
  (`shutdown_final`), also when the task ends because every handle was dropped (event `dropAll`,
  `drop_all_ends_task`, `nothing_after_drop_all`).
-/
namespace Rodbus.C14Serial
open Rodbus.Retry Rodbus.SerialLife
open Rodbus.Spec.SerialLife (T Mode delay conforms)

/-! ### the model refines the counter specification -/

def phaseOf : Mode → Phase
  | .disabled => .idle | .waiting => .waiting | .open_ => .session | .done => .finished

/-- the simulation relation: the strategy object holds `min(min · 2^k, max)`, `k` the number of
    failed opens since the last successful one -/
structure Sim (mn mx : Nat) (s : S) (t : T) : Prop where
  phase : s.phase = phaseOf t.mode
  present : s.present = t.present
  rmin : s.retry.min = mn
  rmax : s.retry.max = mx
  cur : s.retry.current = Nat.min (mn * 2 ^ t.k) mx
  en_idle : t.mode = .disabled → s.enabled = false
  en_wait : t.mode = .waiting → s.enabled = true
  en_open : t.mode = .open_ → s.enabled = true
  k_open : t.mode = .open_ → t.k = 0

theorem init_sim (mn mx : Nat) : Sim mn mx (init mn mx) {} := by
  constructor <;> simp [init, create, phaseOf]

/-- an open attempt of an enabled channel -/
theorem tryOpen_sim {mn mx : Nat} (hmax : mx ≤ DURATION_MAX) (s : S) (t : T)
    (hp : s.present = t.present) (h1 : s.retry.min = mn) (h2 : s.retry.max = mx)
    (h3 : s.retry.current = Nat.min (mn * 2 ^ t.k) mx) (he : s.enabled = true) :
    Sim mn mx (tryOpen s).1 (Spec.SerialLife.attempt mn mx t).1 ∧
      (tryOpen s).2 = (Spec.SerialLife.attempt mn mx t).2 := by
  unfold tryOpen Spec.SerialLife.attempt
  rw [hp]
  cases hpr : t.present
  · -- the open fails
    obtain ⟨c1, c2, c3⟩ := C14.current_after mn mx hmax t.k s.retry h1 h2 h3
    refine ⟨⟨rfl, ?_, c2, c3, c1, ?_, ?_, ?_, ?_⟩, ?_⟩
    · simp
    · intro h; simp at h
    · intro _; simpa using he
    · intro h; simp at h
    · intro h; simp at h
    · simp [afterFailedConnect, h3, delay]
  · -- the open succeeds
    refine ⟨⟨rfl, ?_, ?_, ?_, ?_, ?_, ?_, ?_, ?_⟩, rfl⟩
    · simp
    · simpa [reset] using h1
    · simpa [reset] using h2
    · simp [reset, h1, h2]
    · intro h; simp at h
    · intro h; simp at h
    · intro _; simpa using he
    · intro _; rfl

/-- one event: related states stay related and announce the same -/
theorem step_sim {mn mx : Nat} (hmax : mx ≤ DURATION_MAX) (s : S) (t : T) (e : Ev)
    (h : Sim mn mx s t) :
    Sim mn mx (step s e).1 (Spec.SerialLife.step mn mx t e).1 ∧
      (step s e).2 = (Spec.SerialLife.step mn mx t e).2 := by
  obtain ⟨hph, hpr, h1, h2, h3, ei, ew, eo, ko⟩ := h
  rcases s with ⟨en, r, pr, ph⟩
  rcases t with ⟨m, tp, k⟩
  simp only at hph hpr h1 h2 h3 ei ew eo ko
  subst hpr
  cases m <;> simp only [phaseOf] at hph <;> subst hph
  · -- disabled / idle
    have hen : en = false := ei rfl
    subst hen
    cases e
    case enable =>
      have := tryOpen_sim hmax ⟨true, r, pr, .idle⟩ ⟨.disabled, pr, k⟩ rfl h1 h2 h3 rfl
      simpa [step, Spec.SerialLife.step, loopTop] using this
    all_goals
      refine ⟨⟨?_, ?_, ?_, ?_, ?_, ?_, ?_, ?_, ?_⟩, ?_⟩ <;>
        simp_all [step, Spec.SerialLife.step, finish, phaseOf]
  · -- waiting
    have hen : en = true := ew rfl
    subst hen
    cases e
    case absent =>
      have := tryOpen_sim hmax ⟨true, r, false, .waiting⟩ ⟨.waiting, false, k⟩ rfl h1 h2 h3 rfl
      simpa [step, Spec.SerialLife.step, loopTop] using this
    case present =>
      have := tryOpen_sim hmax ⟨true, r, true, .waiting⟩ ⟨.waiting, true, k⟩ rfl h1 h2 h3 rfl
      simpa [step, Spec.SerialLife.step, loopTop] using this
    all_goals
      refine ⟨⟨?_, ?_, ?_, ?_, ?_, ?_, ?_, ?_, ?_⟩, ?_⟩ <;>
        simp_all [step, Spec.SerialLife.step, finish, disabledNow, loopTop, phaseOf]
  · -- open / session
    have hen : en = true := eo rfl
    have hk : k = 0 := ko rfl
    subst hen hk
    cases e
    all_goals
      refine ⟨⟨?_, ?_, ?_, ?_, ?_, ?_, ?_, ?_, ?_⟩, ?_⟩ <;>
        simp_all [step, Spec.SerialLife.step, finish, disabledNow, loopTop, phaseOf, afterDisconnect]
  · -- done / finished
    refine ⟨⟨?_, ?_, ?_, ?_, ?_, ?_, ?_, ?_, ?_⟩, ?_⟩ <;>
      simp_all [step, Spec.SerialLife.step, phaseOf]

/-- a whole script -/
theorem script_sim {mn mx : Nat} (hmax : mx ≤ DURATION_MAX) (es : List Ev) :
    ∀ (s : S) (t : T), Sim mn mx s t →
      Sim mn mx (after s es) (Spec.SerialLife.after mn mx t es) ∧
        outputs s es = Spec.SerialLife.outputs mn mx t es := by
  induction es with
  | nil => intro s t h; exact ⟨h, rfl⟩
  | cons e es ih =>
    intro s t h
    obtain ⟨h', ho⟩ := step_sim hmax s t e h
    obtain ⟨h'', ho'⟩ := ih _ _ h'
    refine ⟨by simpa [after, Spec.SerialLife.after] using h'', ?_⟩
    simp only [outputs, Spec.SerialLife.outputs, ho, ho']

/-- **run_eq_spec**: for every `(min, max)` with `max` representable and EVERY script the task
    announces exactly what the counter specification says: the delay after the k-th consecutive
    failed open since the last successful open (or since the start) is `min(min · 2^(k-1), max)`,
    the delay after a lost port is `min`. -/
theorem run_eq_spec (mn mx : Nat) (hmax : mx ≤ DURATION_MAX) (script : List Ev) :
    SerialLife.run mn mx script = Spec.SerialLife.run mn mx script := by
  unfold SerialLife.run Spec.SerialLife.run
  exact congrArg _ (script_sim hmax (script ++ [.shutdown]) _ _ (init_sim mn mx)).2

/-- every reachable state is related to the specification state of the same script -/
theorem reachable_sim (mn mx : Nat) (hmax : mx ≤ DURATION_MAX) (pre : List Ev) :
    Sim mn mx (after (init mn mx) pre) (Spec.SerialLife.after mn mx {} pre) :=
  (script_sim hmax pre _ _ (init_sim mn mx)).1

/-! ### the announced sequence alone -/

theorem spec_done_outputs (mn mx : Nat) (es : List Ev) :
    ∀ t : T, t.mode = .done → Spec.SerialLife.outputs mn mx t es = [] := by
  induction es with
  | nil => intros; rfl
  | cons e es ih =>
    intro t h
    have h1 : Spec.SerialLife.step mn mx t e = (t, []) := by simp [Spec.SerialLife.step, h]
    simp [Spec.SerialLife.outputs, h1, ih t h]

theorem spec_conforms (mn mx : Nat) (es : List Ev) :
    ∀ (t : T) (b : Bool), b = (t.mode == .open_) → (t.mode = .open_ → t.k = 0) →
      conforms mn mx b t.k (Spec.SerialLife.outputs mn mx t es) = true := by
  induction es with
  | nil => intro t _ _ _; rfl
  | cons e es ih =>
    intro t b hb hk
    rcases t with ⟨m, p, k⟩
    cases m
    case open_ =>
      have : k = 0 := hk rfl
      have hb' : b = true := hb
      subst this hb'
      cases e <;>
        simp [Spec.SerialLife.outputs, Spec.SerialLife.step, conforms] <;>
        first
          | (refine ih ⟨_, _, _⟩ _ ?_ ?_ <;> first | rfl | simp)
          | (refine spec_done_outputs mn mx es ⟨_, _, _⟩ ?_ <;> rfl)
    all_goals
      have hb' : b = false := hb
      subst hb'
      cases e <;> cases p <;>
        simp [Spec.SerialLife.outputs, Spec.SerialLife.step, Spec.SerialLife.attempt, conforms] <;>
        first
          | (refine ih ⟨_, _, _⟩ _ ?_ ?_ <;> first | rfl | simp)
          | (refine spec_done_outputs mn mx es ⟨_, _, _⟩ ?_ <;> rfl)

/-- **announced_delays_conform**: in the sequence announced for ANY script, every `Wait` that
    does not directly follow `Open` carries `min(min · 2^k, max)` where `k` is the number of such
    `Wait`s since the last `Open` (or since the start) - whatever happened in between (disable,
    enable, port loss); a `Wait` directly after `Open` carries `min`; nothing follows
    `Shutdown`. -/
theorem announced_delays_conform (mn mx : Nat) (hmax : mx ≤ DURATION_MAX) (script : List Ev) :
    conforms mn mx false 0 (SerialLife.run mn mx script) = true := by
  rw [run_eq_spec mn mx hmax]
  exact spec_conforms mn mx (script ++ [.shutdown]) {} false rfl (by simp)

/-! ### restart after every successful open, however the port was closed -/

theorem outputs_append (s : S) (es fs : List Ev) :
    outputs s (es ++ fs) = outputs s es ++ outputs (after s es) fs := by
  induction es generalizing s with
  | nil => rfl
  | cons e es ih => simp [outputs, after, ih, List.append_assoc]

/-- while the path stays absent, an enabled waiting task announces the strategy's
    consecutive-failure delays (`Retry.failures`, the object of `C14.kth_delay`) -/
theorem waiting_failures (k : Nat) :
    ∀ s : S, s.phase = .waiting → s.enabled = true →
      outputs s (List.replicate k .absent) = (failures s.retry k).map PortState.wait := by
  induction k with
  | zero => intros; rfl
  | succ k ih =>
    intro s hp he
    have hs : step s .absent =
        ({ s with present := false, retry := (afterFailedConnect s.retry).2 },
          [.wait (afterFailedConnect s.retry).1]) := by
      simp [step, hp, loopTop, he, tryOpen]
    simp only [List.replicate_succ, outputs, hs, failures, List.map_cons, List.singleton_append]
    exact congrArg _ (ih { s with present := false, retry := (afterFailedConnect s.retry).2 } hp he)

/-- the delays of `k` consecutive failed opens counted from the restart -/
def restartWaits (mn mx k : Nat) : List PortState :=
  (List.range k).map fun i => PortState.wait (Nat.min (mn * 2 ^ i) mx)

/-- **restart_after_port_loss**: whatever script led to an open port, if the port is then lost
    the task announces `Wait(min)` and the following failed opens restart the doubling sequence:
    `min(min · 2^i, max)`, i = 0, 1, … -/
theorem restart_after_port_loss (mn mx : Nat) (hmax : mx ≤ DURATION_MAX) (pre : List Ev)
    (hopen : (after (init mn mx) pre).phase = .session) (k : Nat) :
    outputs (after (init mn mx) pre) (.lost :: List.replicate k .absent) =
      .wait mn :: restartWaits mn mx k := by
  have h := reachable_sim mn mx hmax pre
  generalize after (init mn mx) pre = s at h hopen
  generalize Spec.SerialLife.after mn mx {} pre = t at h
  have hm : t.mode = .open_ := by
    have := h.phase; rw [hopen] at this
    cases hm : t.mode <;> simp [hm, phaseOf] at this; rfl
  have hs : step s .lost = ({ s with present := false, phase := .waiting }, [.wait mn]) := by
    simp [step, hopen, afterDisconnect, h.rmin]
  simp only [outputs, hs, List.singleton_append]
  rw [waiting_failures k { s with present := false, phase := .waiting } rfl (h.en_open hm)]
  have hc : s.retry.current = Nat.min (mn * 2 ^ 0) mx := by
    have := h.cur; rwa [h.k_open hm] at this
  rw [C14.kth_delay mn mx hmax k s.retry h.rmin h.rmax 0 hc]
  simp [restartWaits, List.map_map, Function.comp_def]

/-- **restart_after_disable**: whatever script led to an open port, if the user then disables
    the channel (the port is closed without any error), the path disappears and the user enables
    the channel again, the failed opens restart the doubling sequence in the same way. -/
theorem restart_after_disable (mn mx : Nat) (hmax : mx ≤ DURATION_MAX) (pre : List Ev)
    (hopen : (after (init mn mx) pre).phase = .session) (k : Nat) :
    outputs (after (init mn mx) pre) (.disable :: .absent :: .enable :: List.replicate k .absent) =
      .disabled :: restartWaits mn mx (k + 1) := by
  have h := reachable_sim mn mx hmax pre
  generalize after (init mn mx) pre = s at h hopen
  generalize Spec.SerialLife.after mn mx {} pre = t at h
  have hm : t.mode = .open_ := by
    have := h.phase; rw [hopen] at this
    cases hm : t.mode <;> simp [hm, phaseOf] at this; rfl
  have hc : s.retry.current = Nat.min (mn * 2 ^ 0) mx := by
    have := h.cur; rwa [h.k_open hm] at this
  have h1 : step s .disable = ({ s with enabled := false, phase := .idle }, [.disabled]) := by
    simp [step, hopen, disabledNow, loopTop]
  have h2 : step { s with enabled := false, phase := .idle } .absent =
      ({ s with enabled := false, phase := .idle, present := false }, []) := by
    simp [step]
  have h3 : step { s with enabled := false, phase := .idle, present := false } .enable =
      ({ s with enabled := true, phase := .waiting, present := false,
                retry := (afterFailedConnect s.retry).2 },
        [.wait (afterFailedConnect s.retry).1]) := by
    simp [step, loopTop, tryOpen]
  simp only [outputs, h1, h2, h3, List.singleton_append, List.nil_append]
  rw [waiting_failures k ⟨true, (afterFailedConnect s.retry).2, false, .waiting⟩ rfl rfl]
  have := C14.kth_delay mn mx hmax (k + 1) s.retry h.rmin h.rmax 0 hc
  simp only [failures] at this
  have hcons : (PortState.wait (afterFailedConnect s.retry).1 ::
      (failures (afterFailedConnect s.retry).2 k).map PortState.wait) =
      (((afterFailedConnect s.retry).1 :: failures (afterFailedConnect s.retry).2 k).map PortState.wait) := rfl
  simp only at hcons ⊢
  rw [hcons, this]
  simp [restartWaits, List.map_map, Function.comp_def]

/-! ### no open attempt while disabled -/

/-- a disabled channel is blocked in `wait_for_enabled` (or the task is over) -/
def EnInv (s : S) : Prop := s.enabled = false → s.phase = .idle ∨ s.phase = .finished

theorem init_enInv (mn mx : Nat) : EnInv (init mn mx) := fun _ => Or.inl rfl

theorem step_enInv (s : S) (e : Ev) (h : EnInv s) : EnInv (step s e).1 := by
  rcases s with ⟨en, r, pr, ph⟩
  cases en
  · -- disabled: idle or finished
    rcases h rfl with h | h <;> simp only at h <;> subst h <;>
      cases e <;> cases pr <;> simp [EnInv, step, loopTop, tryOpen, finish]
  · cases ph <;> cases e <;> cases pr <;>
      simp [EnInv, step, loopTop, tryOpen, finish, disabledNow]

theorem reachable_enInv (mn mx : Nat) (pre : List Ev) : EnInv (after (init mn mx) pre) := by
  suffices ∀ s, EnInv s → EnInv (after s pre) from this _ (init_enInv mn mx)
  induction pre with
  | nil => intro s h; exact h
  | cons e es ih => intro s h; exact ih _ (step_enInv s e h)

/-- one event other than `enable` on a disabled channel: nothing but `Shutdown` is announced and
    the channel stays disabled - in particular the port is neither opened nor tried, whether the
    path exists or not -/
theorem disabled_step (s : S) (e : Ev) (hi : EnInv s) (hd : s.enabled = false) (he : e ≠ .enable) :
    (step s e).1.enabled = false ∧ ∀ p ∈ (step s e).2, p = .shutdown := by
  rcases s with ⟨en, r, pr, ph⟩
  simp only at hd
  subst hd
  rcases hi rfl with h | h <;> simp only at h <;> subst h <;>
    cases e <;> simp_all [step, finish]

/-- **no_open_while_disabled**: after ANY script that leaves the channel disabled, as long as
    the user does not enable it nothing is announced except (possibly) `Shutdown`: no `Open` and
    no `Wait`, i.e. no open attempt, whatever happens to the device path meanwhile. -/
theorem no_open_while_disabled (mn mx : Nat) (pre evs : List Ev)
    (hd : (after (init mn mx) pre).enabled = false) (hne : ∀ e ∈ evs, e ≠ .enable) :
    ∀ p ∈ outputs (after (init mn mx) pre) evs, p = .shutdown := by
  have hi := reachable_enInv mn mx pre
  generalize after (init mn mx) pre = s at hi hd
  induction evs generalizing s with
  | nil => intro p hp; simp [outputs] at hp
  | cons e es ih =>
    intro p hp
    have he : e ≠ .enable := hne e (by simp)
    obtain ⟨h1, h2⟩ := disabled_step s e hi hd he
    simp only [outputs, List.mem_append] at hp
    rcases hp with hp | hp
    · exact h2 p hp
    · exact ih (fun e' h' => hne e' (by simp [h'])) _ (step_enInv s e hi) h1 p hp

/-- the port is open only while the channel is enabled -/
theorem open_implies_enabled (mn mx : Nat) (hmax : mx ≤ DURATION_MAX) (pre : List Ev)
    (h : (after (init mn mx) pre).portOpen = true) : (after (init mn mx) pre).enabled = true := by
  have hs := reachable_sim mn mx hmax pre
  generalize after (init mn mx) pre = s at hs h
  generalize Spec.SerialLife.after mn mx {} pre = t at hs
  have hp : s.phase = .session := by simpa [S.portOpen] using h
  have hm : t.mode = .open_ := by
    have := hs.phase; rw [hp] at this
    cases hm : t.mode <;> simp [hm, phaseOf] at this; rfl
  exact hs.en_open hm

/-! ### `Shutdown` is final -/

theorem finished_outputs (es : List Ev) : ∀ s : S, s.phase = .finished → outputs s es = [] := by
  induction es with
  | nil => intros; rfl
  | cons e es ih =>
    intro s h
    have h1 : step s e = (s, []) := by simp [step, h]
    simp [outputs, h1, ih s h]

/-- a running task: `shutdown` - and likewise dropping every handle - ends it with the
    announcement `Shutdown`, any other event announces something else and leaves it running -/
theorem step_running (s : S) (e : Ev) (h : s.phase ≠ .finished) :
    ((e = .shutdown ∨ e = .dropAll) ∧ (step s e).2 = [.shutdown] ∧
      (step s e).1.phase = .finished) ∨
    (e ≠ .shutdown ∧ e ≠ .dropAll ∧ PortState.shutdown ∉ (step s e).2 ∧
      (step s e).1.phase ≠ .finished) := by
  rcases s with ⟨en, r, pr, ph⟩
  cases ph <;> cases e <;> cases en <;> cases pr <;>
    simp_all [step, loopTop, tryOpen, finish, disabledNow]

theorem outputs_running (es : List Ev) : ∀ s : S, s.phase ≠ .finished →
    (PortState.shutdown ∉ outputs s es ∧ (after s es).phase ≠ .finished) ∨
    (∃ l, outputs s es = l ++ [.shutdown] ∧ PortState.shutdown ∉ l ∧
      (after s es).phase = .finished) := by
  induction es with
  | nil => intro s h; left; exact ⟨by simp [outputs], h⟩
  | cons e es ih =>
    intro s h
    rcases step_running s e h with ⟨_, h2, h3⟩ | ⟨_, _, h2, h3⟩
    · right
      refine ⟨[], ?_, by simp, ?_⟩
      · simp [outputs, h2, finished_outputs es _ h3]
      · have : ∀ (es : List Ev) (s : S), s.phase = .finished → (after s es).phase = .finished := by
          intro es
          induction es with
          | nil => intro s h; exact h
          | cons e es ih =>
            intro s h
            have h1 : step s e = (s, []) := by simp [step, h]
            simpa [after, h1] using ih s h
        simpa [after] using this es _ h3
    · rcases ih _ h3 with ⟨a, b⟩ | ⟨l, a, b, c⟩
      · left
        refine ⟨?_, by simpa [after] using b⟩
        simp only [outputs, List.mem_append]
        exact fun h => h.elim h2 a
      · right
        refine ⟨(step s e).2 ++ l, by simp [outputs, a], ?_, by simpa [after] using c⟩
        simp only [List.mem_append]
        exact fun h => h.elim h2 b

/-- **shutdown_final**: for every script the announced sequence starts with `Disabled` and
    `Shutdown` is announced exactly once, as the last element. -/
theorem shutdown_final (mn mx : Nat) (script : List Ev) :
    ∃ l, SerialLife.run mn mx script = .disabled :: l ++ [.shutdown] ∧ PortState.shutdown ∉ l := by
  unfold SerialLife.run
  rw [outputs_append]
  rcases outputs_running script (init mn mx) (by simp [init]) with ⟨a, b⟩ | ⟨l, a, b, c⟩
  · rcases step_running _ .shutdown b with ⟨_, h2, _⟩ | ⟨h1, _, _, _⟩
    · exact ⟨outputs (init mn mx) script, by simp [outputs, h2], a⟩
    · exact absurd rfl h1
  · exact ⟨l, by simp [a, finished_outputs _ _ c], b⟩

/-- **drop_all_ends_task**: dropping every handle ends the task from every state it can be in
    (disabled, waiting, port open) exactly like the shutdown command: `Shutdown` is announced,
    nothing else, and the task is over. -/
theorem drop_all_ends_task (s : S) (h : s.phase ≠ .finished) :
    step s .dropAll = step s .shutdown ∧ (step s .dropAll).2 = [.shutdown] ∧
      (step s .dropAll).1.phase = .finished := by
  rcases s with ⟨en, r, pr, ph⟩
  cases ph <;> simp_all [step, finish]

/-- … and after ANY script that contains it nothing more is announced: whatever follows
    (commands cannot follow: there is no handle) -/
theorem nothing_after_drop_all (mn mx : Nat) (pre rest : List Ev) :
    (after (init mn mx) (pre ++ [.dropAll])).phase = .finished ∧
      outputs (after (init mn mx) (pre ++ [.dropAll])) rest = [] := by
  have hph : (after (init mn mx) (pre ++ [.dropAll])).phase = .finished := by
    have : after (init mn mx) (pre ++ [.dropAll]) = (step (after (init mn mx) pre) .dropAll).1 := by
      simp [after, List.foldl_append]
    rw [this]
    by_cases h : (after (init mn mx) pre).phase = .finished
    · have h1 : step (after (init mn mx) pre) .dropAll = (after (init mn mx) pre, []) := by
        simp [step, h]
      rw [h1]; exact h
    · exact (drop_all_ends_task _ h).2.2
  exact ⟨hph, finished_outputs rest _ hph⟩

/-! ### non-vacuity -/

open Ev PortState in
/-- every handle dropped while waiting / while the port is open / while disabled -/
example : SerialLife.run 40 160 [enable, absent, dropAll, present, enable] =
    [disabled, wait 40, wait 80, shutdown] := by decide

open Ev PortState in
example : SerialLife.run 40 160 [present, enable, dropAll, lost] = [disabled, open_, shutdown] := by
  decide

open Ev PortState in
example : SerialLife.run 40 160 [dropAll, enable] = [disabled, shutdown] := by decide

open Ev PortState in
/-- the sequence of the missed mutation: two failures, a successful open, the user disables, the
    path disappears, the user enables: the delay is the minimum again -/
example : SerialLife.run 40 160 [enable, absent, present, disable, absent, enable, absent] =
    [disabled, wait 40, wait 80, open_, disabled, wait 40, wait 80, shutdown] := by decide

open Ev PortState in
/-- the same with a lost port: `Wait(min)` after the loss, then the restarted sequence, capped -/
example : SerialLife.run 40 100 [enable, absent, absent, present, lost, absent, absent, absent, absent] =
    [disabled, wait 40, wait 80, wait 100, open_, wait 40, wait 40, wait 80, wait 100, wait 100, shutdown] := by
  decide

open Ev PortState in
/-- nothing is tried while disabled, although the path exists; a second shutdown announces nothing -/
example : SerialLife.run 40 160 [present, pause, disable, absent, present, shutdown, enable] =
    [disabled, shutdown] := by decide

open Ev PortState in
/-- min > max: failed opens wait `max`, a lost port waits `min` (`after_disconnect` is not capped) -/
example : SerialLife.run 60 20 [enable, absent, present, lost, absent] =
    [disabled, wait 20, wait 20, open_, wait 60, wait 20, shutdown] := by decide

open Ev in
/-- the hypotheses of the restart theorems are satisfiable -/
example : (after (init 40 160) [enable, absent, present]).phase = .session := by decide

open Ev in
example : (after (init 40 160) [enable, present, disable]).enabled = false := by decide

/-- the check is not trivially true: the sequence of the mutated task is rejected -/
example : conforms 40 160 false 0
    [.disabled, .wait 40, .wait 80, .open_, .disabled, .wait 160, .shutdown] = false := by decide

end Rodbus.C14Serial
