import RodbusModel.Model.Server
/-
  The instrumented application used by the correspondence runs: a small deterministic point
  database, defined identically in the Rust harness (`harness/src/points.rs`).
  Tables: 0 coils, 1 discrete inputs, 2 holding registers, 3 input registers.
-/
namespace Rodbus.Driver

structure Points where
  segs : List (Nat × Nat × Nat × Nat) := []   -- table, start, len, seed
  rexc : List (Nat × Nat × Nat) := []         -- table, addr, code
  wexc : List (Nat × Nat × Nat) := []         -- table, addr, code
  ov : List ((Nat × Nat) × Nat) := []         -- overrides
  dflt : Bool := false                        -- item `D`: the provided methods of `RequestHandler` (exception 01)
deriving Repr

def bitVal (seed addr : Nat) : Nat := if (addr * 7 + seed * 13 + addr / 8) % 3 = 0 then 1 else 0
def regVal (seed addr : Nat) : Nat := (addr * 31 + seed * 977 + 5) % 65536

def Points.lookup (p : Points) (table addr : Nat) : Option Nat :=
  match p.ov.find? (fun (k, _) => k = (table, addr)) with
  | some (_, v) => some v
  | none =>
    match p.segs.find? (fun (t, start, len, _) => t = table ∧ addr ≥ start ∧ addr < start + len) with
    | some (_, _, _, seed) => some (if table < 2 then bitVal seed addr else regVal seed addr)
    | none => none

def Points.read (p : Points) (table addr : Nat) : Except Nat Nat :=
  if p.dflt then .error 1 else
  match p.rexc.find? (fun (t, a, _) => t = table ∧ a = addr) with
  | some (_, _, code) => .error code
  | none => match p.lookup table addr with
    | some v => .ok v
    | none => .error 2

def Points.write (p : Points) (table addr value : Nat) : Except Nat Unit × Points :=
  if p.dflt then (.error 1, p) else
  match p.wexc.find? (fun (t, a, _) => t = table ∧ a = addr) with
  | some (_, _, code) => (.error code, p)
  | none =>
    match p.lookup table addr with
    | none => (.error 2, p)
    | some _ =>
      if p.ov.any (fun (k, _) => k = (table, addr)) then
        (.ok (), { p with ov := p.ov.map (fun (k, v) => if k = (table, addr) then (k, value) else (k, v)) })
      else (.ok (), { p with ov := p.ov ++ [((table, addr), value)] })

def Points.writeAll (p : Points) (table : Nat) : List (Nat × Nat) → Except Nat Unit × Points
  | [] => (.ok (), p)
  | (a, v) :: rest =>
    match p.write table a v with
    | (.error e, p') => (.error e, p')
    | (.ok (), p') => p'.writeAll table rest

def b2n (b : Bool) : Nat := if b then 1 else 0

def pointsHandler : Handler Points where
  readCoil p a := (p.read 0 a).map (· ≠ 0)
  readDiscreteInput p a := (p.read 1 a).map (· ≠ 0)
  readHoldingRegister p a := p.read 2 a
  readInputRegister p a := p.read 3 a
  writeSingleCoil p i v := p.write 0 i (b2n v)
  writeSingleRegister p i v := p.write 2 i v
  writeMultipleCoils p _ items := p.writeAll 0 (items.map (fun (a, v) => (a, b2n v)))
  writeMultipleRegisters p _ items := p.writeAll 2 items

/-- insertion sort on `(table, addr)` for the canonical state string -/
def insertKV (x : (Nat × Nat) × Nat) : List ((Nat × Nat) × Nat) → List ((Nat × Nat) × Nat)
  | [] => [x]
  | y :: ys =>
    if x.1.1 < y.1.1 ∨ (x.1.1 = y.1.1 ∧ x.1.2 ≤ y.1.2) then x :: y :: ys else y :: insertKV x ys

def Points.stateString (p : Points) : String :=
  let sorted := p.ov.foldl (fun acc x => insertKV x acc) []
  "/".intercalate (sorted.map (fun ((t, a), v) => s!"{t}@{a}={v}"))

def splitNats (s : String) (sep : Char) : List Nat :=
  (s.splitOn (String.singleton sep)).filterMap String.toNat?

def Points.parse (items : String) : Points :=
  (items.splitOn ",").foldl (fun p item =>
    if item.isEmpty then p else
    if item = "D" then { p with dflt := true } else
    let kind := item.toList.head!
    let nums := splitNats (String.ofList item.toList.tail) '.'
    match kind, nums with
    | 's', [t, s, l, seed] => { p with segs := p.segs ++ [(t, s, l, seed)] }
    | 'x', [t, a, c] => { p with rexc := p.rexc ++ [(t, a, c)] }
    | 'w', [t, a, c] => { p with wexc := p.wexc ++ [(t, a, c)] }
    | _, _ => p) {}

end Rodbus.Driver
