#![allow(dead_code, invalid_from_utf8)]

//! Correspondence harness for the C ABI (`rodbus_ffi::ffi::*`): reads case lines on stdin (all
//! start with `ffi`), drives the real `extern "C"` functions, prints one canonical line per case.
//! Line formats: PROTOCOL.md (section "ffi").
mod cb;
mod ctl;
mod db;
mod e2e;
mod env;
mod filt;
mod reuse;
mod tab;

use std::io::{BufRead, Write};
use std::sync::mpsc;
use std::time::Duration;

fn run_case(line: &str) -> String {
    let tok: Vec<&str> = line.split_whitespace().collect();
    if tok.first() != Some(&"ffi") {
        return format!("unknown-suite {}", tok.first().copied().unwrap_or(""));
    }
    match tok.get(1).copied() {
        Some("tab") => tab::run_tab(&tok),
        Some("wres") => e2e::run_wres(&tok),
        Some("op") => e2e::run_op(&tok),
        Some("db") => db::run_db(&tok),
        Some("atomic") => db::run_atomic(&tok),
        Some("flt") => filt::run_flt(&tok),
        Some("fltadd") => filt::run_fltadd(&tok),
        Some("fnet") => filt::run_fnet(&tok),
        Some("reuse") => reuse::run_reuse(&tok),
        Some("ctl") => ctl::run_ctl(&tok),
        other => format!("unknown-suite ffi {}", other.unwrap_or("")),
    }
}

fn main() {
    std::panic::set_hook(Box::new(|info| {
        if std::env::var("VERIF_TRACE").is_ok() {
            eprintln!("panic: {info}");
        }
    }));
    // cases run on a worker thread; the main thread is the watchdog (a case that does not finish
    // in time is reported as `hung` and the process ends, since the C ABI state is then unknown)
    let (line_tx, line_rx) = mpsc::channel::<String>();
    let (res_tx, res_rx) = mpsc::channel::<String>();
    std::thread::spawn(move || {
        for line in line_rx {
            let res = std::panic::catch_unwind(std::panic::AssertUnwindSafe(|| run_case(&line)));
            let res = match res {
                Ok(x) => x,
                Err(e) => {
                    let msg = e
                        .downcast_ref::<String>()
                        .cloned()
                        .or_else(|| e.downcast_ref::<&str>().map(|s| s.to_string()))
                        .unwrap_or_default();
                    format!("harness-panic {}", msg.replace(['\n', ' '], "_"))
                }
            };
            if res_tx.send(res).is_err() {
                return;
            }
        }
    });
    let stdin = std::io::stdin();
    let stdout = std::io::stdout();
    let mut out = std::io::BufWriter::new(stdout.lock());
    let mut dead = false;
    for line in stdin.lock().lines() {
        let line = line.unwrap();
        let line = line.trim().to_string();
        if line.is_empty() || line.starts_with('#') {
            continue;
        }
        if dead {
            writeln!(out, "@@skipped-after-hang").unwrap();
            continue;
        }
        let budget = if line.starts_with("ffi atomic") { 300 } else { 30 };
        line_tx.send(line).unwrap();
        match res_rx.recv_timeout(Duration::from_secs(budget)) {
            Ok(res) => writeln!(out, "@@{res}").unwrap(),
            Err(_) => {
                writeln!(out, "@@hung").unwrap();
                dead = true;
            }
        }
        out.flush().unwrap();
    }
    out.flush().unwrap();
    // do not run destructors of the C ABI world: exit at once
    std::process::exit(0);
}
