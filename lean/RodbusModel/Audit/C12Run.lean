import RodbusModel.Props.C12Run
/-! axiom audit of every property theorem of Props/C12Run and of the lemmas it rests on
    (Lemmas/ClientSessions, Lemmas/ClientQuiet) -/
#print axioms Rodbus.Client.timeout_at_deadline_of_quiet
#print axioms Rodbus.Client.timeout_at_deadline_run
#print axioms Rodbus.Client.timeout_at_deadline_run_mbap
#print axioms Rodbus.Client.timeout_at_deadline_run_rtu
#print axioms Rodbus.Client.timeout_completion_at_deadline_run
#print axioms Rodbus.Client.task_log_is_the_log_of_the_task
#print axioms Rodbus.Client.max_timeouts_exact_run
#print axioms Rodbus.Client.no_limit_never_max_timeouts
#print axioms Rodbus.Client.max_timeouts_reports_limit
#print axioms Rodbus.Client.max_timeouts_iff_feed
#print axioms Rodbus.Client.Example.as_worded_is_false
#print axioms Rodbus.Client.tick_noMax
#print axioms Rodbus.Client.sessInv_teffS
#print axioms Rodbus.Client.runState_sessInv
#print axioms Rodbus.Client.settled_blocked
#print axioms Rodbus.Client.reachable_quiet
#print axioms Rodbus.Client.advance_before_deadline
#print axioms Rodbus.Client.advance_reaches_deadline
#print axioms Rodbus.Client.applyStep_log
#print axioms Rodbus.Client.taskLog_fins
#print axioms Rodbus.Client.phasesOf_split
#print axioms Rodbus.Client.phasesOf_fst
