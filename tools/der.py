"""Minimal DER surgery for the `role` suite (C09): rebuild the extension list of a certificate with any
number of Modbus role extensions (OID 1.3.6.1.4.1.50316.802.1, value = UTF8String).  The signature is
not recomputed: the production role extraction (`extract_modbus_role`) parses, it does not verify."""
import base64
import os

ROLE_OID = bytes([0x06, 0x0B, 0x2B, 0x06, 0x01, 0x04, 0x01, 0x83, 0x89, 0x0C, 0x86, 0x22, 0x01])


def tlv(tag, value):
    n = len(value)
    if n < 0x80:
        ln = bytes([n])
    else:
        b = n.to_bytes((n.bit_length() + 7) // 8, "big")
        ln = bytes([0x80 | len(b)]) + b
    return bytes([tag]) + ln + value


def parse(data, pos=0):
    """(tag, value bytes, end position) of the TLV at pos"""
    tag = data[pos]
    ln = data[pos + 1]
    pos += 2
    if ln & 0x80:
        k = ln & 0x7F
        ln = int.from_bytes(data[pos:pos + k], "big")
        pos += k
    return tag, data[pos:pos + ln], pos + ln


def children(value):
    out, pos = [], 0
    while pos < len(value):
        tag, val, end = parse(value, pos)
        out.append((tag, val, value[pos:end]))
        pos = end
    return out


def pem_to_der(path):
    text = open(path).read()
    body = text.split("-----BEGIN CERTIFICATE-----")[1].split("-----END CERTIFICATE-----")[0]
    return base64.b64decode("".join(body.split()))


def role_ext(role, string_tag=0x0C, critical=False):
    inner = tlv(string_tag, role)
    crit = bytes([0x01, 0x01, 0xFF]) if critical else b""
    return tlv(0x30, ROLE_OID + crit + tlv(0x04, inner))


def rebuild(der, roles, where="end", drop_all_extensions=False, string_tag=0x0C, critical=False):
    """certificate `der` with its role extensions replaced by one extension per entry of `roles`
    (bytes), placed before ('start') or after ('end') the other extensions"""
    _, cert_val, _ = parse(der)
    tbs, sigalg, sig = children(cert_val)
    parts = children(tbs[1])
    new_parts = []
    for tag, val, raw in parts:
        if tag != 0xA3:
            new_parts.append(raw)
            continue
        if drop_all_extensions:
            continue
        _, seq_val, _ = parse(val)
        others = [raw_e for (_, v, raw_e) in children(seq_val) if not v.startswith(ROLE_OID)]
        mine = [role_ext(r, string_tag, critical) for r in roles]
        exts = (mine + others) if where == "start" else (others + mine)
        new_parts.append(tlv(0xA3, tlv(0x30, b"".join(exts))))
    return tlv(0x30, tlv(0x30, b"".join(new_parts)) + sigalg[2] + sig[2])


if __name__ == "__main__":
    d = pem_to_der(os.path.join(os.path.dirname(os.path.abspath(__file__)), "..", "certs", "cli_operator_cert.pem"))
    assert rebuild(d, [b"operator"]) != b""
    print(len(d), len(rebuild(d, [b"operator", b"admin"])))
