"""Per-property configuration of tools/check.py."""
import re

TRUSTED_BASE = [
    "Lean 4.33.0 kernel (theorems) and compiler (compiled driver rodbus_model)",
    "axioms: propext, Classical.choice, Quot.sound only (audited per theorem with #print axioms); no native_decide / bv_decide / sorry",
    "tools/translate.py (Rust tables -> Lean Gen/Tables.lean) and the hand-written model (tied to the code only by the correspondence runs)",
    "verif-harness (Rust, production rodbus code in-process via feature verif-hooks), its scripted transport and canonicalisation",
    "rustc, tokio, scursor, crc crate",
]


HOOK_COMMITS = ["30e20bd", "42a3e10", "f48b181"]


def always(*_a):
    return True


def no_key(c, i, sp):
    return None


def classify_rdr(case, impl):
    out = []
    n = impl.count("F")
    out.append("frames=%s" % ("0" if n == 0 else "1" if n == 1 else "2-5" if n <= 5 else "6+"))
    m = re.search(r"E([a-z.]+)", impl)
    out.append("end=" + (m.group(1) if m else "blocked"))
    nchunks = case.split(" ")[-1].count(",") + 1
    out.append("chunks=%s" % ("1" if nchunks == 1 else "2-5" if nchunks <= 5 else "6-50" if nchunks <= 50 else "51+"))
    return out


def nontrivial_rdr(case, impl):
    return impl not in ("-", "")


def classify_srv(case, impl):
    out = []
    m = re.search(r"end=(\S+)", impl)
    out.append("end=" + (m.group(1) if m else "?"))
    out.append("replies=" + ("none" if "tx=- " in impl else "some"))
    out.append("calls=" + ("none" if "calls=- " in impl else "some"))
    tok = case.split(" ")
    out.append("framing=" + tok[1])
    out.append("auth=" + ("none" if tok[3] == "-" else tok[3].split(".")[0].rstrip("0123456789")))
    return out


def nontrivial_srv(case, impl):
    return "tx=- calls=- " not in impl


PROPS = {
    "C05": dict(
        audit_modules=["RodbusModel.Audit.C05"],
        required_theorems=["Rodbus.chunking_independent", "Rodbus.no_spurious_eof",
                           "Rodbus.bad_header_ends_session", "Rodbus.frames_roundtrip",
                           "Rodbus.no_loss_no_reread", "Rodbus.read_has_space"],
        suites=[dict(gen="rdr_mbap", n=(3000, 60000),
                     exhaustive="all chunk compositions of 5 short streams (<=10 bytes quick, <=12 thorough); "
                                "header length fields 0..599 (+3) x protocol id {0,1} quick, all 65536 thorough; "
                                "max-size frame split points; buffer-boundary streams")],
        level_text="Proof: chunking_independent (for every list of reads the buffered two-state reader yields exactly the "
                   "frames/errors of a whole-stream specification), read_has_space / no_spurious_eof (buffer-full spurious EOF "
                   "unreachable), bad_header_ends_session, frames_roundtrip / no_loss_no_reread are Lean theorems over all byte "
                   "streams and all chunkings, by induction and a refinement invariant. The model (ReadBuffer, MbapParser, "
                   "FramedReader loop) is hand-written and tied to the code by running the production FramedReader on the same "
                   "chunk schedules (exhaustive compositions of short streams, all header length fields, buffer-boundary streams, random).",
        level_note="Trusted: Lean kernel (axioms propext, Classical.choice, Quot.sound), translator for the frame constants, "
                   "the hand-written model of buffer.rs/tcp/frame.rs/FramedReader (checked only by differential runs), the harness transport. "
                   "Per-connection statement: the client's reader persisting across reconnects is finding F14 (fixed).",
        technique="Lean 4 refinement proof (chunked reader = whole-stream spec) + differential correspondence on chunk schedules",
        classify=classify_rdr, nontrivial=nontrivial_rdr, finding_key=no_key,
        rule="cases = corpus + exhaustive sub-domains + seeded random MBAP streams under random chunkings; "
             "distinct = distinct case line; non-trivial = the reader produced at least one frame or error event",
        assumptions=["the transport delivers bytes in order; a delivery larger than the free buffer space is split by read()",
                     "model of ReadBuffer/MbapParser is hand-written; equality with the code is sampled by the rdr suite"],
    ),
    "C06": dict(
        audit_modules=["RodbusModel.Audit.C06"],
        required_theorems=["Rodbus.C06.format_crc", "Rodbus.C06.format_len_le", "Rodbus.C06.accept_sound",
                           "Rodbus.C06.rtu_chunking_independent", "Rodbus.C06.burst_detected",
                           "Rodbus.C06.single_bit_detected", "Rodbus.C06.double_bit_detected",
                           "Rodbus.C06.crc_trailer_zero_iff", "Rodbus.C06.corrupted_frame_crc_mismatch",
                           "Rodbus.C06.corruption_rejected_partial", "Rodbus.C06.format_parse_roundtrip"],
        suites=[dict(gen="crc", n=(3000, 100000)),
                dict(gen="rdr_rtu", n=(3000, 60000),
                     exhaustive="both parser directions: all chunk compositions of fixed frames <= 9 (11) bytes; every single-bit "
                                "error of 17 fixed frames; double-bit errors (every 23rd pair quick, all pairs thorough); "
                                "bursts <= 16 bits at every 3rd (every) start")],
        level_text="Proof: CRC-16/MODBUS algebra on the bit-serial register (linearity, injectivity on 16-bit values, order of x) "
                   "gives burst_detected (<=16 bits), single_bit_detected, double_bit_detected (frames up to 2100 bits) and the bridge "
                   "crc_trailer_zero_iff; format_crc/format_len_le (emitted frames carry the right CRC, <= 256 bytes); accept_sound (a frame "
                   "is delivered only if its CRC verifies over exactly the span the length rule selects); rtu_chunking_independent (all "
                   "chunkings, both directions); corrupted_frame_crc_mismatch; corruption_rejected_partial (parser level, under the hypothesis "
                   "that the corruption leaves the length rule's result unchanged - a protocol limit, witness byte_count_flip_accepted). "
                   "Tie: production RtuParser/FramedReader and the crc crate run on the same streams.",
        level_note="Partial: corruption theorem requires unchanged delimitation (forced by length-delimited RTU framing). Trusted: Lean kernel; "
                   "bitwise CRC model vs. the crc crate's table implementation (sampled by the crc suite); hand-written parser model; emitted-frame "
                   "bound for client requests relies on C03's request limits.",
        technique="Lean 4 algebraic proof of CRC detection + refinement proof of the RTU reader + differential correspondence incl. exhaustive bit flips",
        classify=classify_rdr, nontrivial=nontrivial_rdr, finding_key=no_key,
        rule="crc suite: random byte strings (1..260 B) + repo vectors; rdr suite: see exhaustive_subdomains + seeded random RTU streams "
             "(valid frames of all 8 functions and exception replies, bit flips, bad CRC, garbage, truncation) under random chunkings; "
             "distinct = distinct case line; non-trivial = at least one frame or error event (crc: every case)",
        assumptions=["serial line delivers bytes in order", "inter-frame timing (t3.5) is not used by the code and not modelled"],
    ),
}
