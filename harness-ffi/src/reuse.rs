//! Suite `ffi reuse`: caller-owned objects handed to several C-ABI calls.  A call must depend on
//! the VALUES of its arguments only: it may neither consume nor change an object the caller still
//! owns (lists, filters, parameter and callback structs), except where the documentation says so
//! (a device map is emptied by the server constructor it is passed to).
use crate::cb::*;
use crate::e2e::{default_args, ffi_call, readback, take_log, Args, Op, WAIT};
use crate::env::*;
use crate::filt::{make_filter, unhex};
use rodbus_ffi::ffi;
use std::ffi::CString;
use std::os::raw::{c_int, c_void};
use std::sync::atomic::{AtomicU32, Ordering};
use std::time::{Duration, Instant};
use tokio::io::{AsyncReadExt, AsyncWriteExt};

/// wait until the callback object has been destroyed `n` times (it is handed to `n` calls)
pub fn wait_destroyed(cb: &Cb, n: u32, max: Duration) -> CbState {
    let deadline = Instant::now() + max;
    {
        let mut st = cb.st.lock().unwrap();
        while st.destroy < n {
            let now = Instant::now();
            if now >= deadline {
                break;
            }
            let (g, _) = cb.cv.wait_timeout(st, deadline - now).unwrap();
            st = g;
        }
    }
    std::thread::sleep(Duration::from_millis(2));
    cb.st.lock().unwrap().clone()
}

/// the completion of a single read through the C ABI (values or error name)
pub fn read_text(ch: *mut rodbus_ffi::ClientChannel, op: Op, start: u16, count: u16, unit: u8, timeout_ms: u64) -> String {
    let (rc, cb) = ffi_call(ch, op, &Args::Range(start, count), param(unit, timeout_ms), false);
    let st = wait_done(&cb, WAIT);
    if rc != 0 {
        return format!("rc.{}", param_error_name(rc));
    }
    if st.results.is_empty() {
        "none".into()
    } else {
        st.results.join("+")
    }
}

fn parse_bits(s: &str) -> Option<Vec<bool>> {
    if s == "-" {
        return Some(vec![]);
    }
    s.chars()
        .map(|c| match c {
            '0' => Some(false),
            '1' => Some(true),
            _ => None,
        })
        .collect()
}

fn parse_regs(s: &str) -> Option<Vec<u16>> {
    if s == "-" {
        return Some(vec![]);
    }
    s.split('/').map(|x| x.parse().ok()).collect()
}

/// ffi reuse list <wC|wR> <values> <start>,<start>,…
/// ONE list object and ONE `RequestParam` value for all the writes
fn run_list(tok: &[&str]) -> Option<String> {
    let op = Op::parse(tok.get(3)?)?;
    let starts: Vec<u16> = tok.get(5)?.split(',').map(|x| x.parse().ok()).collect::<Option<_>>()?;
    let w = world();
    *WMODE.lock().unwrap() = WMode::Apply;
    take_log();
    let p = param(UNIT_MAIN, 2000);
    let mut out = Vec::new();
    let n;
    unsafe {
        match op {
            Op::WC => {
                let vs = parse_bits(tok.get(4)?)?;
                n = vs.len();
                let list = ffi::rodbus_bit_list_create(vs.len() as u32);
                for v in &vs {
                    ffi::rodbus_bit_list_add(list, *v);
                }
                for (k, s) in starts.iter().enumerate() {
                    let cb = new_cb();
                    let rc = ffi::rodbus_client_channel_write_multiple_coils(w.client.0, p.clone(), *s, list, write_callback(&cb));
                    let st = wait_done(&cb, WAIT);
                    out.push(format!("w{}:rc={},{},app={}", k + 1, param_error_name(rc), summary(&st), take_log()));
                }
                ffi::rodbus_bit_list_destroy(list);
            }
            Op::WR => {
                let vs = parse_regs(tok.get(4)?)?;
                n = vs.len();
                let list = ffi::rodbus_register_list_create(vs.len() as u32);
                for v in &vs {
                    ffi::rodbus_register_list_add(list, *v);
                }
                for (k, s) in starts.iter().enumerate() {
                    let cb = new_cb();
                    let rc = ffi::rodbus_client_channel_write_multiple_registers(w.client.0, p.clone(), *s, list, write_callback(&cb));
                    let st = wait_done(&cb, WAIT);
                    out.push(format!("w{}:rc={},{},app={}", k + 1, param_error_name(rc), summary(&st), take_log()));
                }
                ffi::rodbus_register_list_destroy(list);
            }
            _ => return None,
        }
    }
    // what a client now reads at each of the written spans (the list is gone by now)
    let rop = if op == Op::WC { Op::Rc } else { Op::Rh };
    let mut rb = Vec::new();
    for s in &starts {
        rb.push(if n == 0 {
            "-".to_string()
        } else {
            read_text(w.client.0, rop, *s, n as u16, UNIT_MAIN, 2000)
        });
    }
    // restore the initial contents of unit 1
    for s in &starts {
        let args = if op == Op::WC {
            Args::Bits(*s, vec![false; n])
        } else {
            Args::Regs(*s, vec![0; n])
        };
        readback(op, &args);
    }
    Some(format!("{} rb={}", if out.is_empty() { "-".to_string() } else { out.join(";") }, rb.join(";")))
}

/// ffi reuse cb <op> <variants>
/// the SAME callback struct value (function pointers + context) and the same `RequestParam`
/// value for every call; per call: `d` default arguments, `z` arguments refused at submission
/// (count 0 / empty list; single writes: like `d`), `n` null channel
fn run_cb(tok: &[&str]) -> Option<String> {
    let op = Op::parse(tok.get(3)?)?;
    let variants = *tok.get(4)?;
    if variants.is_empty() || !variants.chars().all(|c| "dzn".contains(c)) {
        return None;
    }
    let w = world();
    *WMODE.lock().unwrap() = WMode::Apply;
    take_log();
    let cb = new_cb();
    let p = param(UNIT_MAIN, 2000);
    let mut rcs = Vec::new();
    for (k, v) in variants.chars().enumerate() {
        let args = match (v, op) {
            ('z', o) if o.is_read() => Args::Range(5, 0),
            ('z', Op::WC) => Args::Bits(3, vec![]),
            ('z', Op::WR) => Args::Regs(3, vec![]),
            _ => default_args(op),
        };
        let ch = if v == 'n' { std::ptr::null_mut() } else { w.client.0 };
        let rc = call_with(ch, op, &args, p.clone(), &cb);
        rcs.push(param_error_name(rc));
        wait_destroyed(&cb, k as u32 + 1, WAIT);
    }
    let st = wait_destroyed(&cb, variants.len() as u32, Duration::from_millis(10));
    take_log();
    if !op.is_read() {
        readback(op, &default_args(op));
    }
    Some(format!("rc={} ffi={}", rcs.join(","), summary(&st)))
}

/// like `e2e::ffi_call`, but with the caller's callback object
fn call_with(ch: *mut rodbus_ffi::ClientChannel, op: Op, args: &Args, p: ffi::RequestParam, cb: &Cb) -> c_int {
    unsafe {
        match (op, args) {
            (Op::Rc, Args::Range(s, c)) => {
                ffi::rodbus_client_channel_read_coils(ch, p, ffi::AddressRange { start: *s, count: *c }, bit_read_callback(cb))
            }
            (Op::Rd, Args::Range(s, c)) => {
                ffi::rodbus_client_channel_read_discrete_inputs(ch, p, ffi::AddressRange { start: *s, count: *c }, bit_read_callback(cb))
            }
            (Op::Rh, Args::Range(s, c)) => {
                ffi::rodbus_client_channel_read_holding_registers(ch, p, ffi::AddressRange { start: *s, count: *c }, register_read_callback(cb))
            }
            (Op::Ri, Args::Range(s, c)) => {
                ffi::rodbus_client_channel_read_input_registers(ch, p, ffi::AddressRange { start: *s, count: *c }, register_read_callback(cb))
            }
            (Op::Wc, Args::Bit(i, v)) => {
                ffi::rodbus_client_channel_write_single_coil(ch, p, ffi::BitValue { index: *i, value: *v }, write_callback(cb))
            }
            (Op::Wr, Args::Reg(i, v)) => {
                ffi::rodbus_client_channel_write_single_register(ch, p, ffi::RegisterValue { index: *i, value: *v }, write_callback(cb))
            }
            (Op::WC, Args::Bits(s, vs)) => {
                let l = ffi::rodbus_bit_list_create(vs.len() as u32);
                for v in vs {
                    ffi::rodbus_bit_list_add(l, *v);
                }
                let rc = ffi::rodbus_client_channel_write_multiple_coils(ch, p, *s, l, write_callback(cb));
                ffi::rodbus_bit_list_destroy(l);
                rc
            }
            (Op::WR, Args::Regs(s, vs)) => {
                let l = ffi::rodbus_register_list_create(vs.len() as u32);
                for v in vs {
                    ffi::rodbus_register_list_add(l, *v);
                }
                let rc = ffi::rodbus_client_channel_write_multiple_registers(ch, p, *s, l, write_callback(cb));
                ffi::rodbus_register_list_destroy(l);
                rc
            }
            _ => panic!("op/args mismatch"),
        }
    }
}

// ---------------------------------------------------------------- short-lived servers

/// holding registers 0..10 of a short-lived unit: `(31a + 977*2 + 5 + 1000*tag) % 65536`
pub fn tagged_reg(tag: u16, a: u16) -> u16 {
    ((reg_value(2, a) as u32 + 1000 * tag as u32) % 65536) as u16
}

pub unsafe fn add_tagged_endpoint(map: *mut rodbus_ffi::DeviceMap, unit: u8, tag: u16) -> bool {
    ffi::rodbus_device_map_add_endpoint(
        map,
        unit,
        full_write_handler(),
        database_callback(move |db| {
            for i in 0..10 {
                ffi::rodbus_database_add_holding_register(db, i, tagged_reg(tag, i));
            }
        }),
    )
}

/// a TCP server on a free loopback port created from the caller's filter and map objects
pub unsafe fn tcp_server(filter: *mut rodbus_ffi::AddressFilter, map: *mut rodbus_ffi::DeviceMap) -> Result<(*mut rodbus_ffi::Server, u16), c_int> {
    let addr = CString::new("127.0.0.1").unwrap();
    let mut rc = -1;
    for _ in 0..10 {
        let port = free_port();
        let mut server: *mut rodbus_ffi::Server = std::ptr::null_mut();
        rc = ffi::rodbus_server_create_tcp(world().runtime.0, addr.as_ptr(), port, filter, 10, map, decode_nothing(), &mut server);
        if rc == 0 {
            return Ok((server, port));
        }
        if rc != 11 {
            break;
        }
    }
    Err(rc)
}

/// a raw TCP peer from source address `src`: read holding registers 0..2 of `unit`
/// → `served` (a reply arrived) | `silent` (nothing within 300 ms) | `closed`
pub fn probe(port: u16, src: std::net::Ipv4Addr, unit: u8) -> String {
    hrt().block_on(async move {
        let sock = match tokio::net::TcpSocket::new_v4() {
            Ok(s) => s,
            Err(e) => return format!("sockerr.{:?}", e.kind()),
        };
        if let Err(e) = sock.bind(std::net::SocketAddr::new(src.into(), 0)) {
            return format!("binderr.{:?}", e.kind());
        }
        let mut s = match tokio::time::timeout(Duration::from_secs(2), sock.connect(([127, 0, 0, 1], port).into())).await {
            Ok(Ok(s)) => s,
            Ok(Err(e)) => return format!("connecterr.{:?}", e.kind()),
            Err(_) => return "connect-timeout".into(),
        };
        let req = [0u8, 1, 0, 0, 0, 6, unit, 3, 0, 0, 0, 2];
        if s.write_all(&req).await.is_err() {
            return "closed".into();
        }
        let mut buf = [0u8; 64];
        match tokio::time::timeout(Duration::from_millis(300), s.read(&mut buf)).await {
            Ok(Ok(0)) => "closed".to_string(),
            Ok(Ok(n)) => {
                // 00 01 00 00 00 07 <unit> 03 04 <r0> <r1>
                if n == 13 && buf[7] == 3 {
                    format!("served.{}", u16::from_be_bytes([buf[9], buf[10]]))
                } else if n == 9 && buf[7] == 0x83 {
                    format!("exc.{}", buf[8])
                } else {
                    "garbage".into()
                }
            }
            Ok(Err(_)) => "closed".into(),
            Err(_) => "silent".into(),
        }
    })
}

fn served_only(s: String) -> String {
    if s.starts_with("served.") {
        "served".into()
    } else {
        s
    }
}

/// ffi reuse filter <filter hex|any> <address hex to add between the two servers | -> <peer source ip>
/// ONE filter object for two servers; the object is destroyed before any peer connects
fn run_filter(tok: &[&str]) -> Option<String> {
    let ftok = *tok.get(3)?;
    let add = *tok.get(4)?;
    let src: std::net::Ipv4Addr = tok.get(5)?.parse().ok()?;
    world();
    unsafe {
        let filter = match make_filter(ftok) {
            Ok(f) => f,
            Err(e) => return Some(if e == "err" { "badfilter".into() } else { e }),
        };
        let map_a = ffi::rodbus_device_map_create();
        add_tagged_endpoint(map_a, 1, 0);
        let a = tcp_server(filter, map_a);
        ffi::rodbus_device_map_destroy(map_a);
        let added = if add == "-" {
            "-".to_string()
        } else {
            let bytes = unhex(add)?;
            let c = CString::new(bytes).ok()?;
            let rc = ffi::rodbus_address_filter_add(filter, c.as_ptr());
            if rc == 0 {
                "ok".into()
            } else if rc == 7 {
                "err".into()
            } else {
                format!("err{rc}")
            }
        };
        let map_b = ffi::rodbus_device_map_create();
        add_tagged_endpoint(map_b, 1, 0);
        let b = tcp_server(filter, map_b);
        ffi::rodbus_device_map_destroy(map_b);
        ffi::rodbus_address_filter_destroy(filter);
        let ra = match &a {
            Ok((_, port)) => served_only(probe(*port, src, 1)),
            Err(rc) => format!("create-error.{}", param_error_name(*rc)),
        };
        let rb = match &b {
            Ok((_, port)) => served_only(probe(*port, src, 1)),
            Err(rc) => format!("create-error.{}", param_error_name(*rc)),
        };
        if let Ok((s, _)) = a {
            ffi::rodbus_server_destroy(s);
        }
        if let Ok((s, _)) = b {
            ffi::rodbus_server_destroy(s);
        }
        Some(format!("a={ra} add={added} b={rb}"))
    }
}

/// ffi reuse map <unit>,<unit>,… <probed unit>
/// ONE device map for two servers (the first constructor empties it, as documented), then the
/// probed unit is added to the same map object again and a third server is created from it
fn run_map(tok: &[&str]) -> Option<String> {
    let units: Vec<u8> = if *tok.get(3)? == "-" {
        vec![]
    } else {
        tok.get(3)?.split(',').map(|x| x.parse().ok()).collect::<Option<_>>()?
    };
    let unit: u8 = tok.get(4)?.parse().ok()?;
    world();
    let src = std::net::Ipv4Addr::new(127, 0, 0, 1);
    unsafe {
        let filter = ffi::rodbus_address_filter_any();
        let map = ffi::rodbus_device_map_create();
        let mut adds = Vec::new();
        for u in &units {
            adds.push(if add_tagged_endpoint(map, *u, *u as u16) { "1" } else { "0" });
        }
        let a = tcp_server(filter, map);
        let b = tcp_server(filter, map);
        let readd = add_tagged_endpoint(map, unit, 50);
        let c = tcp_server(filter, map);
        ffi::rodbus_device_map_destroy(map);
        ffi::rodbus_address_filter_destroy(filter);
        let show = |x: &Result<(*mut rodbus_ffi::Server, u16), c_int>| match x {
            Ok((_, port)) => probe(*port, src, unit),
            Err(rc) => format!("create-error.{}", param_error_name(*rc)),
        };
        let (ra, rb, rc) = (show(&a), show(&b), show(&c));
        for x in [a, b, c] {
            if let Ok((s, _)) = x {
                ffi::rodbus_server_destroy(s);
            }
        }
        Some(format!(
            "add={} a={} b={} readd={} c={}",
            if adds.is_empty() { "-".to_string() } else { adds.join(",") },
            ra,
            rb,
            readd as u8,
            rc
        ))
    }
}

// ---------------------------------------------------------------- one transaction callback, several transactions

struct TxCtx {
    calls: AtomicU32,
    destroyed: AtomicU32,
}

extern "C" fn tx_cb(db: *mut rodbus_ffi::Database, ctx: *mut c_void) {
    let c = unsafe { &*(ctx as *const TxCtx) };
    c.calls.fetch_add(1, Ordering::SeqCst);
    unsafe {
        // holding register 0 counts the transactions
        let mut v = 0u16;
        if ffi::rodbus_database_get_holding_register(db, 0, &mut v) == 0 {
            ffi::rodbus_database_update_holding_register(db, 0, v.wrapping_add(1));
        } else {
            ffi::rodbus_database_add_holding_register(db, 0, 1);
        }
    }
}

extern "C" fn tx_destroy(ctx: *mut c_void) {
    let c = unsafe { &*(ctx as *const TxCtx) };
    c.destroyed.fetch_add(1, Ordering::SeqCst);
}

/// ffi reuse tx <k> <unit|null>
/// the SAME `DatabaseCallback` value for k successive `rodbus_server_update_database` calls
fn run_tx(tok: &[&str]) -> Option<String> {
    let k: u32 = tok.get(3)?.parse().ok()?;
    if k > 50 {
        return None;
    }
    let (server, unit): (*mut rodbus_ffi::Server, u8) = match *tok.get(4)? {
        "null" => (std::ptr::null_mut(), UNIT_DB),
        u => (world().server.0, u.parse().ok()?),
    };
    let ctx: &'static TxCtx = Box::leak(Box::new(TxCtx {
        calls: AtomicU32::new(0),
        destroyed: AtomicU32::new(0),
    }));
    let mut rcs = Vec::new();
    for _ in 0..k {
        let cb = ffi::DatabaseCallback {
            callback: Some(tx_cb),
            on_destroy: Some(tx_destroy),
            ctx: ctx as *const TxCtx as *mut c_void,
        };
        rcs.push(param_error_name(unsafe { ffi::rodbus_server_update_database(server, unit, cb) }));
    }
    // what a client reads now, then leave the unit as it was
    let value = if server.is_null() {
        "-".to_string()
    } else {
        read_text(world().client.0, Op::Rh, 0, 1, unit, 150)
    };
    if unit == UNIT_DB || unit == UNIT_ATOMIC {
        transaction(unit, |db| unsafe {
            ffi::rodbus_database_delete_holding_register(db, 0);
        });
    } else if unit == UNIT_MAIN || unit == UNIT_NULL {
        transaction(unit, |db| unsafe {
            ffi::rodbus_database_update_holding_register(db, 0, reg_value(2, 0));
        });
    }
    Some(format!(
        "rc={} calls={} destroyed={} value={}",
        if rcs.is_empty() { "-".to_string() } else { rcs.join(",") },
        ctx.calls.load(Ordering::SeqCst),
        ctx.destroyed.load(Ordering::SeqCst),
        value
    ))
}

pub fn run_reuse(tok: &[&str]) -> String {
    let r = match tok.get(2).copied() {
        Some("list") => run_list(tok),
        Some("cb") => run_cb(tok),
        Some("filter") => run_filter(tok),
        Some("map") => run_map(tok),
        Some("tx") => run_tx(tok),
        _ => None,
    };
    r.unwrap_or_else(|| "bad-case".into())
}

