import RodbusModel.Model.Tracker
import RodbusModel.Model.Filter
/-
  M10: the accept loop of `tcp::server::ServerTask::run` (tcp/server.rs) at connection level:
  address filter at accept, `SessionTracker` (eviction of the oldest session), session end
  (peer close / framing error), commands (`ChangeDecoding`, `Shutdown`) and handle drop.
  Sessions themselves are M6; here a session is just open or closed.
-/
namespace Rodbus.ServerNet
open Rodbus.Filter Rodbus.Tracker

structure Net where
  tracker : Tracker
  filter : AddressFilter
  /-- plain TCP sessions answer requests; TLS sessions first await a handshake -/
  tls : Bool
  listening : Bool := true
  /-- the user still holds the `ServerHandle` -/
  handle : Bool := true
  /-- connection label ↦ session id while the session is alive -/
  conns : List (Nat × Option Nat) := []
deriving Repr

inductive Step
  | connect (k : Nat) (src : Addr)
  | request (k : Nat)
  /-- `cnt` requests written back to back on connection `k` before any reply is read -/
  | pipeline (k : Nat) (cnt : Nat)
  | garbage (k : Nat)
  | close (k : Nat)
  | probe (k : Nat)
  | setDecode
  | shutdown
  | dropHandle
deriving Repr

inductive Obs
  | conn (k : Nat) (r : String)
  | req (k : Nat) (r : String)
  /-- `answered` = number of requests of a pipelined step that were answered, in order -/
  | pipe (k : Nat) (r : String) (answered : Nat)
  | garb (k : Nat) (r : String)
  | prob (k : Nat) (r : String)
  | cmd (name : String) (r : String)
deriving DecidableEq, Repr

def lookup (n : Net) (k : Nat) : Option (Option Nat) :=
  (n.conns.find? (·.1 = k)).map (·.2)

def setConn (n : Net) (k : Nat) (v : Option Nat) : Net :=
  { n with conns := (n.conns.filter (·.1 ≠ k)) ++ [(k, v)] }

/-- sessions whose id is no longer tracked are closed (their command sender was dropped) -/
def sweep (n : Net) : Net :=
  { n with conns := n.conns.map fun (k, v) =>
      match v with
      | some id => if n.tracker.ids.contains id then (k, some id) else (k, none)
      | none => (k, none) }

def isOpen (n : Net) (k : Nat) : Bool :=
  match lookup n k with
  | some (some _) => true
  | _ => false

/-- the session of connection `k` ends (peer closed, framing error): its id is removed -/
def endSession (n : Net) (k : Nat) : Net :=
  match lookup n k with
  | some (some id) => setConn { n with tracker := Tracker.remove n.tracker id } k none
  | _ => n

def step (n : Net) : Step → Net × List Obs
  | .connect k src =>
    if !n.listening then (n, [.conn k "refused"])
    else if n.filter.matches src then
      let (id, t) := Tracker.add n.tracker
      (sweep (setConn { n with tracker := t } k (some id)), [.conn k "open"])
    else (setConn n k none, [.conn k "closed"])
  | .request k =>
    match lookup n k with
    | none => (n, [.req k "noconn"])
    | some _ => (n, [.req k (if isOpen n k && !n.tls then "ok.982" else "closed")])
  | .pipeline k cnt =>
    -- a session answers every request it has read, one reply per request, in order; how fast
    -- the peer reads the replies is immaterial (the transport is a reliable byte stream and
    -- `PhysLayer::write` writes the whole frame)
    match lookup n k with
    | none => (n, [.pipe k "noconn" 0])
    | some _ => (n, [if isOpen n k && !n.tls then .pipe k "ok" cnt else .pipe k "closed" 0])
  | .garbage k =>
    match lookup n k with
    | none => (n, [.garb k "noconn"])
    | some _ =>
      -- a TLS acceptor answers garbage with an alert before closing
      (endSession n k, [.garb k (if n.tls && isOpen n k then "data" else "closed")])
  | .close k => ({ (endSession n k) with conns := (endSession n k).conns.filter (·.1 ≠ k) }, [])
  | .probe k =>
    match lookup n k with
    | none => (n, [.prob k "noconn"])
    | some _ => (n, [.prob k (if isOpen n k then "open" else "closed")])
  | .setDecode =>
    if n.handle then (n, [.cmd "L" (if n.listening then "ok" else "shutdown")]) else (n, [])
  | .shutdown =>
    if n.handle then
      ({ n with listening := false, conns := n.conns.map fun (k, _) => (k, none),
                tracker := { n.tracker with ids := [] } },
       [.cmd "S" (if n.listening then "ok" else "shutdown")])
    else (n, [])
  | .dropHandle =>
    ({ n with listening := false, handle := false, conns := n.conns.map fun (k, _) => (k, none),
              tracker := { n.tracker with ids := [] } }, [])

def run : Net → List Step → Net × List Obs
  | n, [] => (n, [])
  | n, s :: rest =>
    let (n', o) := step n s
    let (n'', os) := run n' rest
    (n'', o ++ os)

/-- `run` with an accumulator (constant stack: scripts with 10^5 steps) -/
def runAux : Net → List Step → List Obs → Net × List Obs
  | n, [], acc => (n, acc.reverse)
  | n, s :: rest, acc => runAux (step n s).1 rest ((step n s).2.reverse ++ acc)

def runTR (n : Net) (steps : List Step) : Net × List Obs := runAux n steps []

/-- churn: `cnt` peers, one after the other, connect from `src` (label `l`) and leave at once -/
def churnSteps (l : Nat) (src : Addr) (cnt : Nat) : List Step :=
  (List.replicate cnt [Step.connect l src, Step.close l]).flatten

end Rodbus.ServerNet
