#!/bin/bash
# usage: tools/try_seed.sh <patch.diff> <property id> [more ids...]
# applies a seeded change to /repo, runs the quick checks of the given properties, reverts.
set -u
PATCH=$1; shift
cd /repo || exit 2
if ! git diff --quiet; then echo "refusing: /repo has uncommitted changes"; exit 2; fi
git apply "$PATCH" || { echo "patch does not apply"; exit 2; }
cd /verif
for p in "$@"; do
  echo "== $p =="
  python3 tools/check.py "$p" --tier quick 2>&1 | tail -4
done
git -C /repo checkout -- .
# rebuild the harness against the clean tree so that later runs start from it
(cd /verif/harness && CARGO_TARGET_DIR=/verif/.cache/target cargo build --offline >/dev/null 2>&1)
