//! Correspondence harness: runs the production rodbus code on case lines (stdin) and prints one
//! canonical output line per case (stdout). See /verif/PROTOCOL.md for the line formats.
mod client;
mod life;
mod net;
mod tlsgrid;
mod mockio;
mod points;
mod pty;
mod util;

use mockio::{mock, Rx};
use points::*;
use rodbus::server::*;
use rodbus::verif::*;
use rodbus::verif::ServerCommand;
use rodbus::*;
use std::io::{BufRead, Write};
use std::sync::{Arc, Mutex};
use util::*;

fn run_range(tok: &[&str]) -> String {
    let s: u16 = tok[1].parse().unwrap();
    let c: u16 = tok[2].parse().unwrap();
    match AddressRange::try_from(s, c) {
        Ok(r) => format!("ok {}+{}", r.start, r.count),
        Err(InvalidRange::CountOfZero) => "err zero".into(),
        Err(InvalidRange::AddressOverflow(_, _)) => "err overflow".into(),
        Err(InvalidRange::CountTooLargeForType(_, _)) => "err toolarge".into(),
    }
}

fn dur(tok: &str) -> std::time::Duration {
    // <secs>:<nanos>
    let (s, n) = tok.split_once(':').unwrap();
    std::time::Duration::new(s.parse().unwrap(), n.parse().unwrap())
}

/// retry <min s:ns> <max s:ns> <ops f|d|r…>  -> delays in ns
fn run_retry(tok: &[&str]) -> String {
    let mut out: Vec<String> = Vec::new();
    let res = std::panic::catch_unwind(std::panic::AssertUnwindSafe(|| {
        let mut strategy = rodbus::doubling_retry_strategy(dur(tok[1]), dur(tok[2]));
        for op in tok[3].chars() {
            match op {
                'f' => out.push(strategy.after_failed_connect().as_nanos().to_string()),
                'd' => out.push(strategy.after_disconnect().as_nanos().to_string()),
                'r' => strategy.reset(),
                _ => {}
            }
        }
    }));
    if res.is_err() {
        out.push("panic".into());
    }
    if out.is_empty() {
        "-".into()
    } else {
        out.join(",")
    }
}

/// trk <max> <ops a | r<id> ,…> -> ids after every op
fn run_trk(tok: &[&str]) -> String {
    let mut t = rodbus::verif::VerifTracker::new(tok[1].parse().unwrap());
    let mut out = Vec::new();
    if tok[2] != "-" {
        for op in tok[2].split(',') {
            if op == "a" {
                let id = t.add();
                out.push(format!("+{id}"));
            } else {
                t.remove(op[1..].parse().unwrap());
            }
            out.push(format!(
                "[{}]",
                t.ids().iter().map(|x| x.to_string()).collect::<Vec<_>>().join(" ")
            ));
        }
    }
    if out.is_empty() {
        "-".into()
    } else {
        out.join("")
    }
}

/// flt <hex of the utf-8 string> -> parse result of WildcardIPv4
fn run_flt(tok: &[&str]) -> String {
    let s = String::from_utf8(unhex(tok[1])).unwrap();
    match s.parse::<WildcardIPv4>() {
        Err(_) => "err".into(),
        Ok(w) => {
            // the public type derives Debug, which prints the four fields
            format!("ok {:?}", w)
                .replace("WildcardIPv4 ", "")
                .replace("Some(", "")
                .replace(")", "")
                .replace("None", "*")
                .replace(' ', "")
        }
    }
}

/// fltm <filter> <addr>: filter = any | x<ip> | s<ip>/<ip>… | w<hex wildcard string>
fn run_fltm(tok: &[&str]) -> String {
    let addr: std::net::IpAddr = tok[2].parse().unwrap();
    let f = match &tok[1][0..1] {
        "a" => AddressFilter::Any,
        "x" => AddressFilter::Exact(tok[1][1..].parse().unwrap()),
        "s" => AddressFilter::AnyOf(
            tok[1][1..]
                .split('/')
                .filter(|x| !x.is_empty())
                .map(|x| x.parse().unwrap())
                .collect(),
        ),
        _ => match String::from_utf8(unhex(&tok[1][1..])).unwrap().parse::<WildcardIPv4>() {
            Ok(w) => AddressFilter::WildcardIpv4(w),
            Err(_) => return "badfilter".into(),
        },
    };
    format!("{}", rodbus::verif::filter_matches(&f, addr))
}

fn run_crc(tok: &[&str]) -> String {
    format!("{}", rodbus::verif::rtu_crc(&unhex(tok[1])))
}

async fn settle_io(h: &mockio::Handle, done: impl Fn() -> bool) {
    for _ in 0..2000 {
        tokio::task::yield_now().await;
        if done() || h.idle() {
            // one more round so that follow-up work scheduled by the wake-up completes
            tokio::task::yield_now().await;
            if done() || h.idle() {
                return;
            }
        }
    }
}

/// srv <t|r> <dXYZ> <auth> <units> <script>
async fn run_srv(tok: &[&str]) -> String {
    let framing = if tok[1] == "t" { Framing::Tcp } else { Framing::Rtu };
    let decode = decode_level(tok[2]);
    let log: Log = Arc::new(Mutex::new(Vec::new()));
    let auth: Option<(Arc<dyn AuthorizationHandler>, String)> = if tok[3] == "-" {
        None
    } else {
        let (pol, role) = tok[3].split_once('.').unwrap();
        let role = String::from_utf8(unhex(if role.len() > 1 { &role[1..] } else { "-" })).unwrap();
        let policy = match pol {
            "allow" => Policy::Allow,
            "deny" => Policy::Deny,
            "ro" => Policy::ReadOnly(ReadOnlyAuthorizationHandler::create()),
            // a handler that overrides nothing: the provided methods of the trait decide
            "default" => Policy::ReadOnly(Arc::new(points::DefaultAuth)),
            x => Policy::Hash(x[1..].parse().unwrap()),
        };
        Some((
            Arc::new(TestAuth {
                policy,
                log: log.clone(),
            }),
            role,
        ))
    };
    let mut map: ServerHandlerMap<TestHandler> = ServerHandlerMap::new();
    let mut handlers: Vec<(u8, ServerHandlerType<TestHandler>)> = Vec::new();
    if tok[4] != "-" {
        for u in tok[4].split(';') {
            if let Some((a, b)) = u.split_once('=') {
                // the SAME handler object under a second unit id
                let (a, b): (u8, u8) = (a.parse().unwrap(), b.parse().unwrap());
                if let Some((_, h)) = handlers.iter().find(|(x, _)| *x == b).cloned() {
                    handlers.push((a, h.clone()));
                    map.add(UnitId::new(a), h);
                }
                continue;
            }
            let (id, items) = u.split_once(':').unwrap();
            let unit: u8 = id.parse().unwrap();
            let h = TestHandler {
                unit,
                points: Points::parse(items),
                log: log.clone(),
            }
            .wrap();
            handlers.push((unit, h.clone()));
            map.add(UnitId::new(unit), h);
        }
        if handlers.len() == 1 {
            // the one-unit constructor of the library
            map = ServerHandlerMap::single(UnitId::new(handlers[0].0), handlers[0].1.clone());
        }
    }
    let (io, handle) = mock();
    let (cmd_tx, cmd_rx) = tokio::sync::mpsc::channel(8);
    // `Fd…` drops the sender (server handle dropped / session evicted); later commands go nowhere
    let (dead_tx, _dead_rx) = tokio::sync::mpsc::channel::<ServerCommand>(8);
    let mut cmd_tx = cmd_tx;
    let task = tokio::spawn(run_server_session(
        Box::new(io),
        map,
        auth,
        framing,
        decode,
        cmd_rx,
    ));
    let mut sent_eof = false;
    // `F<n>.<hex>`: a flooding peer (n copies of a request are available at once) and a Shutdown
    // command queued at the same moment: the command must not be starved by the ready frames
    let mut flood: Option<usize> = None;
    if tok[5] != "-" {
        for step in tok[5].split(',') {
            if let Some(arg) = step.strip_prefix('F') {
                let (n, req) = arg.split_once('.').unwrap();
                let (n, drop_sender) = match n.strip_prefix('d') {
                    Some(n) => (n, true),
                    None => (n, false),
                };
                let n: usize = n.parse().unwrap();
                let req = unhex(req);
                flood = Some(n * req.len());
                handle.push(Rx::Data(req.repeat(n)));
                if drop_sender {
                    cmd_tx = dead_tx.clone();
                } else {
                    let _ = cmd_tx.send(ServerCommand::Shutdown).await;
                }
                settle_io(&handle, || task.is_finished()).await;
                continue;
            }
            if task.is_finished() {
                break;
            }
            if let Some(n) = step.strip_prefix('W') {
                // the transport accepts n reply writes and fails the next one
                let (n, kind) = match n.strip_suffix('i') {
                    Some(n) => (n, std::io::ErrorKind::Interrupted),
                    None => (n, std::io::ErrorKind::BrokenPipe),
                };
                handle.fail_write_after(n.parse().unwrap(), kind);
                continue;
            }
            if let Some(arg) = step.strip_prefix('K') {
                // `K<unit>.<ms>`: an application thread holds that unit's handler mutex for <ms> real
                // milliseconds from now on (the session has to wait for it, never skip the unit)
                let (u, ms) = arg.split_once('.').unwrap();
                let (u, ms): (u8, u64) = (u.parse().unwrap(), ms.parse().unwrap());
                if let Some((_, h)) = handlers.iter().find(|(x, _)| *x == u).cloned() {
                    let (tx, rx) = std::sync::mpsc::channel();
                    std::thread::spawn(move || {
                        let g = h.lock().unwrap_or_else(|e| e.into_inner());
                        let _ = tx.send(());
                        std::thread::sleep(std::time::Duration::from_millis(ms));
                        drop(g);
                    });
                    let _ = rx.recv();
                }
                continue;
            }
            if let Some(cmd) = step.strip_prefix('!') {
                if cmd == "s" {
                    let _ = cmd_tx.send(ServerCommand::Shutdown).await;
                } else if cmd == "x" {
                    handle.push(Rx::Err(std::io::ErrorKind::ConnectionReset));
                    sent_eof = true;
                } else {
                    let _ = cmd_tx
                        .send(ServerCommand::ChangeDecoding(decode_level(cmd)))
                        .await;
                }
                settle_n(20).await;
            } else {
                handle.push(Rx::Data(unhex(step)));
                settle_io(&handle, || task.is_finished()).await;
            }
        }
    }
    if !task.is_finished() && !sent_eof {
        handle.push(Rx::Eof);
        settle_io(&handle, || task.is_finished()).await;
    }
    let end = if task.is_finished() {
        match task.await {
            Ok(e) => req_err(e),
            Err(e) if e.is_panic() => "panic".to_string(),
            Err(_) => "cancelled".to_string(),
        }
    } else {
        task.abort();
        "hung".to_string()
    };
    if let Some(total) = flood {
        // how much of the flood was still unread when the session ended is not determined (the
        // `select!` picks a branch at random); honoured = the session ended with at least half of the
        // flood unread
        let left = handle.pending_bytes();
        return format!(
            "tx=* calls=* st=* end={} flood={}",
            end,
            if 2 * left >= total { "honoured" } else { "starved" }
        );
    }
    let tx: Vec<u8> = handle.take_writes().concat();
    let calls = log.lock().unwrap().join(";");
    handlers.sort_by_key(|(u, _)| *u);
    let st = handlers
        .iter()
        .map(|(u, h)| format!("{}[{}]", u, h.lock().unwrap_or_else(|e| e.into_inner()).points.state_string()))
        .collect::<Vec<_>>()
        .join(";");
    format!(
        "tx={} calls={} st={} end={}",
        hex(&tx),
        if calls.is_empty() { "-".into() } else { calls },
        if st.is_empty() { "-".into() } else { st },
        end
    )
}

/// rdr <t|q|p> <dXYZ> <chunks>  (t = MBAP, q = RTU request parser, p = RTU response parser)
async fn run_rdr(tok: &[&str]) -> String {
    let kind = match tok[1] {
        "t" => ReaderKind::Tcp,
        "q" => ReaderKind::RtuRequest,
        _ => ReaderKind::RtuResponse,
    };
    let decode = decode_level(tok[2]);
    let (io, handle) = mock();
    let out: Arc<Mutex<Vec<String>>> = Arc::new(Mutex::new(Vec::new()));
    let out2 = out.clone();
    let task = tokio::spawn(async move {
        let mut rdr = VerifReader::new(kind, Box::new(io));
        loop {
            match rdr.next_frame(decode).await {
                Ok(f) => out2.lock().unwrap().push(format!(
                    "F{}.{}.{}",
                    f.tx_id.map(|x| x.to_string()).unwrap_or("n".into()),
                    f.destination,
                    hex(&f.pdu)
                )),
                Err(e) => {
                    out2.lock().unwrap().push(format!("E{}", req_err(e)));
                    return;
                }
            }
        }
    });
    if tok[3] != "-" {
        for chunk in tok[3].split(',') {
            if task.is_finished() {
                break;
            }
            handle.push(Rx::Data(unhex(chunk)));
            settle_io(&handle, || task.is_finished()).await;
        }
    }
    let mut res = String::new();
    if task.is_finished() {
        if let Err(e) = task.await {
            if e.is_panic() {
                res = ";panic".into();
            }
        }
    } else {
        task.abort();
    }
    let evs = out.lock().unwrap().join(";");
    format!("{}{}", if evs.is_empty() { "-".into() } else { evs }, res)
}

/// `role <expected roles> <DER hex>`: the production role extraction on a certificate
fn run_role(tok: &[&str]) -> String {
    match rodbus::verif::extract_role_from_der(&unhex(tok[2])) {
        Ok(r) => format!("role={}", role_hex(&r)),
        Err(_) => "err".into(),
    }
}

async fn run_case(line: &str) -> String {
    let tok: Vec<&str> = line.split_whitespace().collect();
    if tok.is_empty() {
        return String::new();
    }
    match tok[0] {
        "range" => run_range(&tok),
        "crc" => run_crc(&tok),
        "retry" => run_retry(&tok),
        "trk" => run_trk(&tok),
        "flt" => run_flt(&tok),
        "fltm" => run_fltm(&tok),
        "srv" => run_srv(&tok).await,
        "rdr" => run_rdr(&tok).await,
        "cl" => client::run_cl(&tok).await,
        "life" => life::run_life(&tok).await,
        "slife" => life::run_slife(&tok).await,
        "net" => net::run_net(&tok).await,
        "tls" => tlsgrid::run_tls(&tok).await,
        "role" => run_role(&tok),
        "pty" => pty::run_pty(&tok).await,
        other => format!("unknown-suite {other}"),
    }
}

struct SinkWriter;
impl std::io::Write for SinkWriter {
    fn write(&mut self, buf: &[u8]) -> std::io::Result<usize> {
        Ok(buf.len())
    }
    fn flush(&mut self) -> std::io::Result<()> {
        Ok(())
    }
}

fn main() {
    // formatting code of the decode levels must actually run: install a subscriber that formats
    // every event into a sink
    if std::env::var("VERIF_TRACE").is_ok() {
        tracing_subscriber::fmt()
            .with_max_level(tracing::Level::INFO)
            .with_writer(std::io::stderr)
            .init();
    } else {
        tracing_subscriber::fmt()
            .with_max_level(tracing::Level::INFO)
            .with_writer(|| SinkWriter)
            .init();
    }
    std::panic::set_hook(Box::new(|_| {}));
    // Watchdog: a case that does not return (a task spinning inside one poll never yields, so no
    // tokio timeout can fire) is reported as `hung` and ends the process; the check restarts the
    // harness on the remaining cases.  VERIF_CASE_TIMEOUT = seconds of wall time per case.
    let limit: u64 = std::env::var("VERIF_CASE_TIMEOUT")
        .ok()
        .and_then(|x| x.parse().ok())
        .unwrap_or(60);
    let started = Arc::new(Mutex::new(None::<std::time::Instant>));
    {
        let started = started.clone();
        std::thread::spawn(move || loop {
            std::thread::sleep(std::time::Duration::from_millis(250));
            let t = *started.lock().unwrap();
            if let Some(t) = t {
                if t.elapsed().as_secs() >= limit {
                    // raw write: the main thread may hold the stdout lock while it spins
                    let msg = b"@@hung\n";
                    unsafe {
                        libc::write(1, msg.as_ptr() as *const libc::c_void, msg.len());
                    }
                    std::process::exit(3);
                }
            }
        });
    }
    let stdin = std::io::stdin();
    let stdout = std::io::stdout();
    let mut out = std::io::BufWriter::new(stdout.lock());
    for line in stdin.lock().lines() {
        let line = line.unwrap();
        let line = line.trim().to_string();
        if line.is_empty() || line.starts_with('#') {
            continue;
        }
        // a fresh paused-clock current-thread runtime per case: cases cannot influence each other
        // network suites use real sockets and therefore the real clock
        let real_time = line.starts_with("life ") || line.starts_with("slife ") || line.starts_with("net ") || line.starts_with("tls ") || line.starts_with("pty ");
        let rt = tokio::runtime::Builder::new_current_thread()
            .enable_all()
            .start_paused(!real_time)
            .build()
            .unwrap();
        *started.lock().unwrap() = Some(std::time::Instant::now());
        let res = std::panic::catch_unwind(std::panic::AssertUnwindSafe(|| {
            rt.block_on(run_case(&line))
        }));
        *started.lock().unwrap() = None;
        let res = match res {
            Ok(x) => x,
            Err(_) => "harness-panic".to_string(),
        };
        // third-party code may print to stdout: result lines carry a marker
        writeln!(out, "@@{res}").unwrap();
        out.flush().unwrap();
    }
}
