import RodbusModel.Model.Lifecycle
import RodbusModel.Spec.Lifecycle
import RodbusModel.Spec.LifecycleObs
/-
  `life` suite: model output for
  life r<min>.<max> m<maxto> t<timeout> [tls:]<behaviours> <stops>

  behaviours: refuse | close | garbage | silent | serve | serve<k> | serve<k>w, and (TLS mode only)
  hsclose | hsgarbage | hscert — three ways of making the handshake fail after the TCP connect
  succeeded, all of them the model's `Behaviour.hsfail`.  `serve<k>`: the peer answers `k`
  requests and closes right after the `k`-th reply (`Behaviour.serveN k false`); `serve<k>w`: it
  closes when it receives the `(k+1)`-th request (`serveN k true`).  The `tls:` prefix selects the
  TLS client in the harness; the model is the same task.
  stops: `,`-joined; a stop is `-` or `+`-joined actions E D S X R L<level>; `<stop>*<n>` stands
  for `n` copies of the stop, `<behaviour>*<n>` for `n` attempts with that behaviour.  Stops that
  are left when the task has ended are performed on the handles of the ended task.

  `ClientLoop::poll` is a `select!`: where the peer's EOF / garbage and a queued command (or the
  loss of every handle) are ready together, both resolutions are admitted; the outputs of all
  scheduler coin lists are joined by ` || `.
-/
namespace Rodbus.Driver
open Rodbus.Life

def stStr : St → String
  | .disabled => "Disabled" | .connecting => "Connecting" | .connected => "Connected"
  | .waitFail d => s!"WaitFail({d})" | .waitDisc d => s!"WaitDisc({d})" | .shutdown => "Shutdown"

def actStr : Action → String
  | .enable => "a:E" | .disable => "a:D" | .shutdown => "a:S" | .dropAll => "a:X"
  | .request id => s!"a:R{id}"
  | .setDecode l => s!"a:L{l}"

def evStr : Ev → String
  | .gate s => "g:" ++ stStr s
  | .idle => "idle"
  | .act a => actStr a
  | .done id r => s!"done:R{id}:{r}"
  | .closed => "closed"
  | .refused a => actStr a ++ ":shutdown"

def parseBehaviour (s : String) : Behaviour :=
  if s = "refuse" then .refuse else if s = "close" then .close else if s = "garbage" then .garbage
  else if s = "silent" then .silent
  else if s = "hsclose" ∨ s = "hsgarbage" ∨ s = "hscert" then .hsfail
  else if s.startsWith "serve" ∧ s.length > 5 then
    let rest := s.toList.drop 5
    let w := rest.getLast? = some 'w'
    let digits := if w then rest.dropLast else rest
    match (String.ofList digits).toNat? with
    | some k => .serveN k w
    | none => .serve
  else .serve

/-- `<stop>*<n>` / `<behaviour>*<n>`: `n` copies of the stop / `n` attempts with the behaviour -/
def expandStops (stops : List String) : List String :=
  stops.flatMap fun st =>
    match st.splitOn "*" with
    | [x, n] => List.replicate (n.toNat?.getD 1) x
    | _ => [st]

/-- request ids are assigned in submission order (`R` actions performed while a handle exists) -/
def parseStops (stops : List String) : List (List Action) :=
  let rec go (n : Nat) (alive : Bool) : List String → List (List Action)
    | [] => []
    | st :: rest =>
      let (acts, n', alive') := (st.splitOn "+").foldl
        (fun (acc : List Action × Nat × Bool) a =>
          let (l, n, alive) := acc
          if a = "E" then (l ++ [.enable], n, alive)
          else if a = "D" then (l ++ [.disable], n, alive)
          else if a = "S" then (l ++ [.shutdown], n, alive)
          else if a = "X" then (l ++ [.dropAll], n, false)
          else if a = "R" then (if alive then (l ++ [.request (n + 1)], n + 1, alive) else (l, n, alive))
          else if a.startsWith "L" then
            (l ++ [.setDecode ((String.ofList a.toList.tail).toNat?.getD 0)], n, alive)
          else (l, n, alive)) ([], n, alive)
      acts :: go n' alive' rest
  go 0 true stops

/-- specification side of one output: the log alone is a legal state path, every announced
    connection is closed before the next announcement, the announced delays follow the doubling
    discipline, and nothing but `shutdown` happens after `Shutdown` -/
def lifeVerdict (rmin rmax : Nat) (log : List Ev) : String :=
  (if Spec.Life.legalLog log then "" else "ILLEGAL-PATH ") ++
  (if Spec.LifeObs.connOk log then "" else "CONNECTION-NOT-CLOSED ") ++
  (if Spec.LifeObs.conforms rmin rmax 0 (Spec.Life.states log) then "" else "BAD-DELAY ") ++
  (if Spec.LifeObs.afterShutdownOk log then "" else "ACTIVE-AFTER-SHUTDOWN ")

/-- all outputs admitted for a case: depth-first over the scheduler coins the run asks for -/
def lifeOutputs (run : List Bool → S) (rmin rmax : Nat) : Nat → List Bool → List (String × String)
  | 0, cs => one (run cs)
  | fuel + 1, cs =>
    let s := run cs
    if s.starved = 0 then one s
    else lifeOutputs run rmin rmax fuel (cs ++ [true]) ++ lifeOutputs run rmin rmax fuel (cs ++ [false])
where
  one (s : S) : List (String × String) :=
    let log := s.log.map evStr
    let after := if s.handles then "shutdown" else "-"
    let out := (if log.isEmpty then "-" else ";".intercalate log) ++
      s!" | shutdown_seen=true fin=term after={after} acc=ok"
    [(out, lifeVerdict rmin rmax s.log ++ out)]

def runLife (tok : List String) : String × String :=
  match tok with
  | [_, r, m, _t, bs, stops] =>
    let rr := (String.ofList r.toList.tail).splitOn "."
    let rmin := (rr.getD 0 "0").toNat?.getD 0
    let rmax := (rr.getD 1 "0").toNat?.getD 0
    let maxto := (String.ofList m.toList.tail).toNat?.getD 0
    let bs := if bs.startsWith "tls:" then String.ofList (bs.toList.drop 4) else bs
    let behaviours := (expandStops (bs.splitOn "/")).map parseBehaviour
    let script := if stops = "-" then [] else parseStops (expandStops (stops.splitOn ","))
    let run (cs : List Bool) : S :=
      let s0 : S := { retry := Retry.create rmin rmax, behaviours := behaviours, maxto := maxto,
                      coins := cs }
      let (s1, p1) := start s0
      (runStops s1 p1 (script ++ [[], []])).1
    let outs := (lifeOutputs run rmin rmax 10 []).eraseDups
    (" || ".intercalate (outs.map (·.1)), " || ".intercalate (outs.map (·.2)))
  | _ => ("bad-case", "bad-case")

/-- `slife r<min us>.<max us> <n>`: the serial channel task's announced wait delays when every
    open fails are the strategy's consecutive-failure delays -/
def runSlife (tok : List String) : String × String :=
  match tok with
  | [_, r, n] =>
    let rr := (String.ofList r.toList.tail).splitOn "."
    let rmin := (rr.getD 0 "0").toNat?.getD 0
    let rmax := (rr.getD 1 "0").toNat?.getD 0
    let k := n.toNat?.getD 0
    let model := Retry.failures (Retry.create rmin rmax) k
    -- specification: min * 2^i capped at max
    let spec := (List.range k).map fun i => Nat.min (rmin * 2 ^ i) rmax
    let show_ (l : List Nat) := if l.isEmpty then "-" else ",".intercalate (l.map toString)
    (show_ model, show_ spec)
  | _ => ("bad-case", "bad-case")

end Rodbus.Driver
